//@ property: C08 C10
//@ unit: c08_locktime tier=quick
//@ paired: verif_c08_locktime::locktime_bip370
//@ clause: BIP-370 lock-time selection for any number of inputs: fallback (or 0) when no input constrains; else max height if every constraining input supports height (height preferred when both kinds possible); else max time if every constraining input supports time; else Err(LocktimeConflict); never panics (both unreachable!() arms proved unreachable)
use vstd::prelude::*;
verus! {

// ---- environment: shapes of the types the body reads (assumed; a field/type change makes extraction fail to type-check => undecided)
pub mod locktime {
    #[derive(Clone, Copy, PartialEq, Eq, PartialOrd, Ord)]
    pub struct Height(pub u32);
    #[derive(Clone, Copy, PartialEq, Eq, PartialOrd, Ord)]
    pub struct Time(pub u32);
}
use locktime::{Height, Time};
#[derive(Clone, Copy, PartialEq, Eq)]
pub enum LockTime { Blocks(Height), Seconds(Time) }
impl LockTime { pub const ZERO: LockTime = LockTime::Blocks(Height(0)); }
// src/locktime.rs: `impl From<Height> for LockTime` / `impl From<Time> for LockTime` (two one-line bodies, restated here)
impl vstd::std_specs::convert::FromSpecImpl<Height> for LockTime {
    open spec fn obeys_from_spec() -> bool { true }
    open spec fn from_spec(h: Height) -> LockTime { LockTime::Blocks(h) }
}
impl vstd::std_specs::convert::FromSpecImpl<Time> for LockTime {
    open spec fn obeys_from_spec() -> bool { true }
    open spec fn from_spec(t: Time) -> LockTime { LockTime::Seconds(t) }
}
impl From<Height> for LockTime { fn from(h: Height) -> LockTime { LockTime::Blocks(h) } }
impl From<Time> for LockTime { fn from(t: Time) -> LockTime { LockTime::Seconds(t) } }
pub enum Error { LocktimeConflict, Other }
pub struct GlobalTxData { pub fallback_locktime: Option<LockTime> }
pub struct Global { pub tx_data: GlobalTxData }
pub struct Input { pub required_time_locktime: Option<Time>, pub required_height_locktime: Option<Height> }
pub struct PartiallySignedTransaction { pub global: Global, pub inputs: Vec<Input> }

// ---- specification, written from BIP-370 / the property text
pub open spec fn has_t(i: Input) -> bool { i.required_time_locktime is Some }
pub open spec fn has_h(i: Input) -> bool { i.required_height_locktime is Some }
pub open spec fn constrains(i: Input) -> bool { has_t(i) || has_h(i) }
pub open spec fn none_constrain(s: Seq<Input>) -> bool { forall|k: int| 0 <= k < s.len() ==> !constrains(s[k]) }
pub open spec fn all_support_h(s: Seq<Input>) -> bool { forall|k: int| 0 <= k < s.len() && constrains(s[k]) ==> has_h(s[k]) }
pub open spec fn all_support_t(s: Seq<Input>) -> bool { forall|k: int| 0 <= k < s.len() && constrains(s[k]) ==> has_t(s[k]) }
pub open spec fn max_h(s: Seq<Input>) -> int decreases s.len() {
    if s.len() == 0 { -1 } else {
        let m = max_h(s.drop_last());
        let l = s.last();
        if has_h(l) && l.required_height_locktime->Some_0.0 as int > m { l.required_height_locktime->Some_0.0 as int } else { m }
    }
}
pub open spec fn max_t(s: Seq<Input>) -> int decreases s.len() {
    if s.len() == 0 { -1 } else {
        let m = max_t(s.drop_last());
        let l = s.last();
        if has_t(l) && l.required_time_locktime->Some_0.0 as int > m { l.required_time_locktime->Some_0.0 as int } else { m }
    }
}
pub open spec fn bip370(fallback: Option<LockTime>, s: Seq<Input>, r: Result<LockTime, Error>) -> bool {
    if none_constrain(s) {
        r == Ok::<LockTime, Error>(match fallback { Some(l) => l, None => LockTime::Blocks(Height(0)) })
    } else if all_support_h(s) {
        r matches Ok(LockTime::Blocks(h)) && h.0 as int == max_h(s)
    } else if all_support_t(s) {
        r matches Ok(LockTime::Seconds(t)) && t.0 as int == max_t(s)
    } else {
        r matches Err(Error::LocktimeConflict)
    }
}

//@hoisted-here fn=locktime

// R3: std::cmp::max on the derived Ord of the (hoisted) local enum, spelled out per the Rust Reference:
// variants ordered by declaration, payloads compared when variants agree; max returns the 2nd argument on ties.
spec fn spec_max_lt<T: Ord>(a: Locktime<T>, b: Locktime<T>, le: bool) -> Locktime<T> {
    match (a, b) {
        (Locktime::Unconstrained, _) => b,
        (_, Locktime::Disallowed) => b,
        (Locktime::Minimum(_), Locktime::Minimum(_)) => if le { b } else { a },
        _ => a,
    }
}
fn max_lt_t(a: Locktime<crate::locktime::Time>, b: Locktime<crate::locktime::Time>) -> (r: Locktime<crate::locktime::Time>)
    ensures r == spec_max_lt(a, b, a is Minimum && b is Minimum && a->Minimum_0.0 <= b->Minimum_0.0)
{
    match (a, b) {
        (Locktime::Unconstrained, b) => b,
        (_, Locktime::Disallowed) => Locktime::Disallowed,
        (Locktime::Minimum(x), Locktime::Minimum(y)) => if x.0 <= y.0 { Locktime::Minimum(y) } else { Locktime::Minimum(x) },
        (a, _) => a,
    }
}
fn max_lt_h(a: Locktime<crate::locktime::Height>, b: Locktime<crate::locktime::Height>) -> (r: Locktime<crate::locktime::Height>)
    ensures r == spec_max_lt(a, b, a is Minimum && b is Minimum && a->Minimum_0.0 <= b->Minimum_0.0)
{
    match (a, b) {
        (Locktime::Unconstrained, b) => b,
        (_, Locktime::Disallowed) => Locktime::Disallowed,
        (Locktime::Minimum(x), Locktime::Minimum(y)) => if x.0 <= y.0 { Locktime::Minimum(y) } else { Locktime::Minimum(x) },
        (a, _) => a,
    }
}

spec fn excl_h(s: Seq<Input>) -> bool { exists|k: int| 0 <= k < s.len() && has_h(s[k]) && !has_t(s[k]) }
spec fn excl_t(s: Seq<Input>) -> bool { exists|k: int| 0 <= k < s.len() && has_t(s[k]) && !has_h(s[k]) }
spec fn inv_t(p: Seq<Input>, t: Locktime<Time>) -> bool {
    &&& (t is Unconstrained <==> none_constrain(p))
    &&& (t is Disallowed <==> excl_h(p))
    &&& (t matches Locktime::Minimum(x) ==> x.0 as int == max_t(p))
    &&& (t is Unconstrained ==> max_t(p) == -1)
}
spec fn inv_h(p: Seq<Input>, h: Locktime<Height>) -> bool {
    &&& (h is Unconstrained <==> none_constrain(p))
    &&& (h is Disallowed <==> excl_t(p))
    &&& (h matches Locktime::Minimum(x) ==> x.0 as int == max_h(p))
    &&& (h is Unconstrained ==> max_h(p) == -1)
}
proof fn lemma_step(s: Seq<Input>, i: int)
    requires 0 <= i < s.len()
    ensures s.take(i + 1).drop_last() == s.take(i), s.take(i + 1).last() == s[i],
            forall|k: int| 0 <= k < i ==> s.take(i + 1)[k] == s.take(i)[k],
{
    assert(s.take(i + 1).drop_last() =~= s.take(i));
}
proof fn lemma_max_ge(s: Seq<Input>)
    ensures max_t(s) >= -1, max_h(s) >= -1
    decreases s.len()
{
    if s.len() > 0 { lemma_max_ge(s.drop_last()); }
}

impl PartiallySignedTransaction {
//@extract file=src/pset/mod.rs fn=locktime in="impl PartiallySignedTransaction"
//@ret r
//@spec
//@|     ensures bip370(self.global.tx_data.fallback_locktime, self.inputs@, r)
//@require "enum Locktime < T : Ord > { Unconstrained , Minimum ( T ) , Disallowed , }"
//@hoist "enum Locktime"
//@at "for inp in" after
//@| it:
//@loop 1
//@|     invariant
//@|         inv_t(self.inputs@.take(it.index@ as int), time_locktime),
//@|         inv_h(self.inputs@.take(it.index@ as int), height_locktime),
//@at "match ( inp . required_time_locktime , inp . required_height_locktime )" before
//@| proof {
//@|     let i = it.index@ as int;
//@|     lemma_step(self.inputs@, i);
//@|     lemma_max_ge(self.inputs@.take(i));
//@|     let p = self.inputs@.take(i); let q = self.inputs@.take(i + 1);
//@|     assert(q.len() == i + 1);
//@|     assert(excl_h(p) ==> excl_h(q)) by { if excl_h(p) { let k = choose|k: int| 0 <= k < p.len() && has_h(p[k]) && !has_t(p[k]); assert(has_h(q[k]) && !has_t(q[k])); } }
//@|     assert(excl_t(p) ==> excl_t(q)) by { if excl_t(p) { let k = choose|k: int| 0 <= k < p.len() && has_t(p[k]) && !has_h(p[k]); assert(has_t(q[k]) && !has_h(q[k])); } }
//@|     assert(excl_h(q) ==> excl_h(p) || (has_h(q[i]) && !has_t(q[i]))) by { if excl_h(q) { let k = choose|k: int| 0 <= k < q.len() && has_h(q[k]) && !has_t(q[k]); if k < i { assert(has_h(p[k]) && !has_t(p[k])); } } }
//@|     assert(excl_t(q) ==> excl_t(p) || (has_t(q[i]) && !has_h(q[i]))) by { if excl_t(q) { let k = choose|k: int| 0 <= k < q.len() && has_t(q[k]) && !has_h(q[k]); if k < i { assert(has_t(p[k]) && !has_h(p[k])); } } }
//@|     assert(none_constrain(q) <==> none_constrain(p) && !constrains(q[i])) by {
//@|         if none_constrain(q) { assert forall|k: int| 0 <= k < p.len() implies !constrains(p[k]) by { assert(p[k] == q[k]); } assert(!constrains(q[i])); }
//@|     }
//@|     assert(has_h(q[i]) && !has_t(q[i]) ==> excl_h(q));
//@|     assert(has_t(q[i]) && !has_h(q[i]) ==> excl_t(q));
//@| }
//@at "match ( time_locktime , height_locktime )" before
//@| proof {
//@|     let s = self.inputs@;
//@|     assert(s.take(s.len() as int) =~= s);
//@|     if !none_constrain(s) {
//@|         if all_support_h(s) { assert(!excl_t(s)); }
//@|         else {
//@|             let k = choose|k: int| 0 <= k < s.len() && constrains(s[k]) && !has_h(s[k]);
//@|             assert(has_t(s[k]) && !has_h(s[k]));
//@|             assert(excl_t(s));
//@|             if all_support_t(s) { assert(!excl_h(s)); }
//@|             else { let j = choose|j: int| 0 <= j < s.len() && constrains(s[j]) && !has_t(s[j]); assert(has_h(s[j]) && !has_t(s[j])); assert(excl_h(s)); }
//@|         }
//@|     }
//@| }
//@rewrite "cmp :: max ( time_locktime ," => "max_lt_t(time_locktime," nth=all
//@rewrite "cmp :: max ( height_locktime ," => "max_lt_h(height_locktime," nth=all
//@end
}

} // verus!
fn main() {}
