//@ property: C13 C03
//@ unit: c13_caches tier=quick
//@ clause: the three lazily filled sub-hash caches of SighashCache: a cache that is already present is returned unchanged and nothing else is touched; an absent one is filled with exactly the SHA-256 (common, taproot) / SHA-256d (segwit) of the streams named by its fields - all outpoints, all sequences, all outputs, all issuances (0x00 for an input without one), all output witnesses (surjection proof then range proof), all outpoint flags, all issuance range proofs (amount then keys), all spent assets+values, all spent scriptPubKeys - for any number of inputs, outputs and spent outputs; these are the contracts the message-layout units c03_segwit / c03_taproot assume
use vstd::prelude::*;
verus! {
//@include inc/c03_sighash_env.rs
use crate::io::Write as _;

proof fn lemma_flat_push<T>(s: Seq<T>, f: spec_fn(T) -> Seq<u8>, i: int)
    requires 0 <= i < s.len()
    ensures flat(s.take(i + 1), f) == flat(s.take(i), f) + f(s[i])
{
    assert(s.take(i + 1).drop_last() =~= s.take(i));
    assert(s.take(i + 1).last() == s[i]);
}
proof fn lemma_flat_take_all<T>(s: Seq<T>, f: spec_fn(T) -> Seq<u8>)
    ensures flat(s.take(s.len() as int), f) == flat(s, f), flat(s.take(0), f) == Seq::<u8>::empty()
{
    assert(s.take(s.len() as int) =~= s);
    assert(s.take(0).len() == 0);
}

impl<'t> SighashCache<'t> {
//@extract file=src/sighash.rs fn=common_cache_minimal_borrow in="impl < R : Deref < Target = Transaction > > SighashCache < R >"
//@ret r
//@rewrite "tx : & R" => "tx: &&'t Transaction"
//@rewrite "common_cache . get_or_insert_with ( | | {" => "if common_cache.is_none() { *common_cache = Some({"
//@rewrite "} ) }" => "}); } common_cache.as_ref().unwrap() }"
//@rewrite "for txin in & tx . input" => "for txin in it: &tx.input" nth=all
//@rewrite "for txout in & tx . output" => "for txout in it: &tx.output"
//@rewrite "for out in & tx . output" => "for out in it: &tx.output"
//@spec
//@|     ensures
//@|         *final(common_cache) == Some(*r),
//@|         match *old(common_cache) { Some(c) => *r == c, None => common_ok(*r, **tx) },
//@loop 1
//@|     invariant
//@|         enc_prevouts.fed() == flat(tx.input@.take(it.index@ as int), |i: TxIn| ser_outpoint(i.previous_output)),
//@|         enc_sequences.fed() == flat(tx.input@.take(it.index@ as int), |i: TxIn| ser_sequence(i.sequence)),
//@|         it.seq().len() == tx.input@.len(), forall|k: int| 0 <= k < it.seq().len() ==> *(#[trigger] it.seq()[k]) == tx.input@[k],
//@loop-pos 1 before
//@| proof { lemma_flat_take_all(tx.input@, |i: TxIn| ser_outpoint(i.previous_output)); lemma_flat_take_all(tx.input@, |i: TxIn| ser_sequence(i.sequence)); }
//@loop-pos 1 body-start
//@| proof { lemma_flat_push(tx.input@, |i: TxIn| ser_outpoint(i.previous_output), it.index@ as int); lemma_flat_push(tx.input@, |i: TxIn| ser_sequence(i.sequence), it.index@ as int); }
//@loop 2
//@|     invariant enc.fed() == flat(tx.output@.take(it.index@ as int), |o: TxOut| ser_txout(o)), it.seq().len() == tx.output@.len(), forall|k: int| 0 <= k < it.seq().len() ==> *(#[trigger] it.seq()[k]) == tx.output@[k],
//@loop-pos 2 before
//@| proof { lemma_flat_take_all(tx.output@, |o: TxOut| ser_txout(o)); }
//@loop-pos 2 body-start
//@| proof { lemma_flat_push(tx.output@, |o: TxOut| ser_txout(o), it.index@ as int); }
//@loop 3
//@|     invariant enc.fed() == flat(tx.input@.take(it.index@ as int), |i: TxIn| issuance_or_zero(i)), it.seq().len() == tx.input@.len(), forall|k: int| 0 <= k < it.seq().len() ==> *(#[trigger] it.seq()[k]) == tx.input@[k],
//@loop-pos 3 before
//@| proof { lemma_flat_take_all(tx.input@, |i: TxIn| issuance_or_zero(i)); }
//@loop-pos 3 body-start
//@| proof { lemma_flat_push(tx.input@, |i: TxIn| issuance_or_zero(i), it.index@ as int); }
//@loop 4
//@|     invariant enc.fed() == flat(tx.output@.take(it.index@ as int), |o: TxOut| out_witness_ser(o)), it.seq().len() == tx.output@.len(), forall|k: int| 0 <= k < it.seq().len() ==> *(#[trigger] it.seq()[k]) == tx.output@[k],
//@loop-pos 4 before
//@| proof { lemma_flat_take_all(tx.output@, |o: TxOut| out_witness_ser(o)); }
//@loop-pos 4 body-start
//@| proof { lemma_flat_push(tx.output@, |o: TxOut| out_witness_ser(o), it.index@ as int); }
//@end

//@extract file=src/sighash.rs fn=segwit_cache in="impl < R : Deref < Target = Transaction > > SighashCache < R >"
//@ret r
//@rewrite "self . segwit_cache . get_or_insert_with ( | | {" => "if self.segwit_cache.is_none() { self.segwit_cache = Some({"
//@rewrite "} ) }" => "}); } self.segwit_cache.as_ref().unwrap() }"
//@spec
//@|     ensures segwit_cache_rel(*old(self), *final(self), *r), final(self).segwit_cache == Some(*r)
//@body-start
//@| proof { reveal(segwit_cache_rel); }
//@end

//@extract file=src/sighash.rs fn=taproot_cache_minimal_borrow in="impl < R : Deref < Target = Transaction > > SighashCache < R >"
//@ret r
//@rewrite "tx : & R" => "tx: &&'t Transaction"
//@rewrite "taproot_cache . get_or_insert_with ( | | {" => "if taproot_cache.is_none() { *taproot_cache = Some({"
//@rewrite "} ) }" => "}); } taproot_cache.as_ref().unwrap() }"
//@rewrite "for prevout in prevouts" => "for prevout in it: prevouts"
//@rewrite "for inp in & tx . input" => "for inp in it: &tx.input"
//@spec
//@|     ensures
//@|         *final(taproot_cache) == Some(*r),
//@|         match *old(taproot_cache) { Some(c) => *r == c, None => taproot_ok(*r, **tx, spent_of(prevouts@)) },
//@loop 1
//@|     invariant
//@|         enc_asset_amounts.fed() == flat(spent_of(prevouts@).take(it.index@ as int), |o: TxOut| ser_asset(o.asset) + ser_value(o.value)),
//@|         enc_script_pubkeys.fed() == flat(spent_of(prevouts@).take(it.index@ as int), |o: TxOut| ser_script(o.script_pubkey)),
//@|         it.seq().len() == prevouts@.len(), forall|k: int| 0 <= k < it.seq().len() ==> *(#[trigger] it.seq()[k]) == prevouts@[k],
//@loop-pos 1 before
//@| proof { lemma_flat_take_all(spent_of(prevouts@), |o: TxOut| ser_asset(o.asset) + ser_value(o.value)); lemma_flat_take_all(spent_of(prevouts@), |o: TxOut| ser_script(o.script_pubkey)); }
//@loop-pos 1 body-start
//@| proof { lemma_flat_push(spent_of(prevouts@), |o: TxOut| ser_asset(o.asset) + ser_value(o.value), it.index@ as int); lemma_flat_push(spent_of(prevouts@), |o: TxOut| ser_script(o.script_pubkey), it.index@ as int);
//@|     assert(spent_of(prevouts@)[it.index@ as int] == prevouts@[it.index@ as int].bview()); }
//@loop-pos 1 body-end
//@| proof { let i = it.index@ as int; let o = spent_of(prevouts@)[i];
//@|     assert(enc_asset_amounts.fed() =~= flat(spent_of(prevouts@).take(i), |o: TxOut| ser_asset(o.asset) + ser_value(o.value)) + (ser_asset(o.asset) + ser_value(o.value))); }
//@loop 2
//@|     invariant
//@|         enc_outpoint_flags.fed() == flat(tx.input@.take(it.index@ as int), |i: TxIn| seq![outpoint_flag_spec(i)]),
//@|         enc_issuance_rangeproofs.fed() == flat(tx.input@.take(it.index@ as int), |i: TxIn| in_rangeproofs_ser(i)),
//@|         it.seq().len() == tx.input@.len(), forall|k: int| 0 <= k < it.seq().len() ==> *(#[trigger] it.seq()[k]) == tx.input@[k],
//@loop-pos 2 before
//@| proof { lemma_flat_take_all(tx.input@, |i: TxIn| seq![outpoint_flag_spec(i)]); lemma_flat_take_all(tx.input@, |i: TxIn| in_rangeproofs_ser(i)); }
//@loop-pos 2 body-start
//@| proof { lemma_flat_push(tx.input@, |i: TxIn| seq![outpoint_flag_spec(i)], it.index@ as int); lemma_flat_push(tx.input@, |i: TxIn| in_rangeproofs_ser(i), it.index@ as int); }
//@loop-pos 2 body-end
//@| proof { let i = it.index@ as int; let x = tx.input@[i];
//@|     assert(enc_issuance_rangeproofs.fed() =~= flat(tx.input@.take(i), |i: TxIn| in_rangeproofs_ser(i)) + in_rangeproofs_ser(x)); }
//@end

//@extract file=src/sighash.rs fn=taproot_cache in="impl < R : Deref < Target = Transaction > > SighashCache < R >"
//@ret r
//@spec
//@|     ensures taproot_cache_rel(*old(self), *final(self), *r, spent_of(prevouts@)), final(self).taproot_cache == Some(*r)
//@body-start
//@| proof { reveal(taproot_cache_rel); }
//@end

//@extract file=src/sighash.rs fn=common_cache in="impl < R : Deref < Target = Transaction > > SighashCache < R >"
//@ret r
//@spec
//@|     ensures common_cache_rel(*old(self), *final(self), *r), final(self).common_cache == Some(*r)
//@body-start
//@| proof { reveal(common_cache_rel); }
//@end
}

proof fn canary_caches(c: SighashCache) ensures false {}
} // verus!
fn main() {}
