//@ property: C03
//@ unit: c03_legacy tier=quick
//@ clause: encode_legacy_signing_data_to writes exactly the legacy signing serialization, for any number of inputs/outputs, every input index and all six ECDSA hash types: the 32-byte constant 01 00..00 for SINGLE with no output at the input's index; otherwise version ‖ inputs (only the signed input under ANYONECANPAY; otherwise all inputs, script_sig empty except the signed input which carries the script code, sequence zeroed on the other inputs for NONE/SINGLE, issuance and pegin flag kept, witnesses dropped) ‖ outputs (all for ALL; none for NONE; for SINGLE the outputs up to the input's index with all but the last replaced by the default output) ‖ lock time ‖ hash type as little-endian u32
use vstd::prelude::*;
verus! {
//@include inc/c03_sighash_env.rs
//@include inc/c03_cache_assumed.rs

// ---- environment specific to the legacy message (ASSUMED contracts on std / sibling code) ----------------------------
pub struct IoError;
impl vstd::std_specs::convert::FromSpecImpl<IoError> for encode::Error {
    open spec fn obeys_from_spec() -> bool { true }
    open spec fn from_spec(e: IoError) -> encode::Error { encode::Error }
}
impl From<IoError> for encode::Error { fn from(e: IoError) -> (r: encode::Error) { encode::Error } }
/// std::io::Write::write_all on the sinks used here (hash engines, Vec): appends the bytes, does not fail
pub trait WriteAll: io::Write {
    fn write_all(&mut self, buf: &[u8]) -> (r: Result<(), IoError>)
        ensures r is Ok, final(self).fed() == old(self).fed() + buf@;
}
impl Clone for Script { #[verifier::external_body] fn clone(&self) -> (r: Script) ensures r == *self { unimplemented!() } }
impl Script {
    /// Script::new(): the empty script (value-level: `Script { b: empty }`; the Vec is compared by view)
    #[verifier::external_body]
    pub fn new() -> (r: Script) ensures r.b@ == Seq::<u8>::empty() { unimplemented!() }
}
/// scripts are compared by content
pub open spec fn script_eq(a: Script, b: Script) -> bool { a.b@ == b.b@ }
#[verifier::external_body]
pub proof fn axiom_ser_script_by_content(a: Script, b: Script) requires a.b@ == b.b@ ensures ser_script(a) == ser_script(b) {}
impl Sequence { pub const ZERO: Sequence = Sequence(0); }
pub uninterp spec fn default_txinwitness() -> TxInWitness;
impl Default for TxInWitness { #[verifier::external_body] fn default() -> (r: TxInWitness) ensures r == default_txinwitness() { unimplemented!() } }
pub uninterp spec fn default_txout() -> TxOut;
impl Clone for TxOut { #[verifier::external_body] fn clone(&self) -> (r: TxOut) ensures r == *self { unimplemented!() } }
/// the TxIn codec (C01's subject): a function of these fields only - the witness is not written; scripts by content
pub uninterp spec fn ser_txin_fields(o: OutPoint, is_pegin: bool, script: Seq<u8>, s: Sequence, i: AssetIssuance) -> Seq<u8>;
#[verifier::external_body]
pub proof fn axiom_ser_txin(t: TxIn) ensures ser_txin(t) == ser_txin_fields(t.previous_output, t.is_pegin, t.script_sig.b@, t.sequence, t.asset_issuance) {}
impl Encodable for Vec<TxIn> { open spec fn ser(&self) -> Seq<u8> { compact_size(self@.len()) + flat(self@, |i: TxIn| ser_txin(i)) }
    #[verifier::external_body] fn consensus_encode<W: io::Write>(&self, e: &mut W) -> (r: Result<usize, encode::Error>) { unimplemented!() } }
impl Encodable for Vec<TxOut> { open spec fn ser(&self) -> Seq<u8> { compact_size(self@.len()) + flat(self@, |o: TxOut| ser_txout(o)) }
    #[verifier::external_body] fn consensus_encode<W: io::Write>(&self, e: &mut W) -> (r: Result<usize, encode::Error>) { unimplemented!() } }
pub mod endian {
    use vstd::prelude::*;
    #[verifier::external_body]
    pub fn u32_to_array_le(v: u32) -> (r: [u8; 4]) ensures r@ == super::le32(v) { unimplemented!() }
}
/// The SIGHASH_SINGLE output list of the function under proof is built by an iterator chain
/// (`iter().take(i+1).enumerate().map(closure).collect()`), which is outside Verus' fragment: that one expression is
/// replaced (declared rewrite below) by this ASSUMED contract; the bounded Kani unit c03_message executes the real chain.
#[verifier::external_body]
pub fn legacy_single_outputs(outputs: &Vec<TxOut>, input_index: usize) -> (r: Vec<TxOut>)
    requires input_index < outputs@.len()
    ensures r@ == single_outputs_spec(outputs@, input_index as int)
{ unimplemented!() }

// ---- specification: legacy signing serialization (Elements CTransactionSignatureSerializer; property C03) --------------
spec fn l_acp(ht: EcdsaSighashType) -> bool { ecdsa_u32(ht) & 0x80 == 0x80 }
spec fn l_single(ht: EcdsaSighashType) -> bool { ecdsa_u32(ht) & 0x1f == 3 }
spec fn l_none(ht: EcdsaSighashType) -> bool { ecdsa_u32(ht) & 0x1f == 2 }
pub open spec fn single_bug_constant() -> Seq<u8> { seq![1u8] + Seq::new(31, |i: int| 0u8) }
pub open spec fn single_outputs_spec(outs: Seq<TxOut>, idx: int) -> Seq<TxOut> {
    Seq::new((idx + 1) as nat, |n: int| if n == idx { outs[n] } else { default_txout() })
}
/// serialization of the n-th input of the transaction that is signed
spec fn legacy_input_ser(tx: Transaction, n: int, idx: int, script: Script, ht: EcdsaSighashType) -> Seq<u8> {
    let i = tx.input@[n];
    ser_txin_fields(i.previous_output, i.is_pegin,
        if n == idx { script.b@ } else { Seq::<u8>::empty() },
        if n != idx && (l_single(ht) || l_none(ht)) { Sequence(0) } else { i.sequence },
        i.asset_issuance)
}
spec fn legacy_inputs_ser(tx: Transaction, idx: int, script: Script, ht: EcdsaSighashType) -> Seq<u8> {
    if l_acp(ht) { compact_size(1) + legacy_input_ser(tx, idx, idx, script, ht) }
    else { compact_size(tx.input@.len()) + flat(Seq::new(tx.input@.len(), |n: int| n), |n: int| legacy_input_ser(tx, n, idx, script, ht)) }
}
spec fn legacy_outputs(tx: Transaction, idx: int, ht: EcdsaSighashType) -> Seq<TxOut> {
    if l_single(ht) { single_outputs_spec(tx.output@, idx) } else if l_none(ht) { Seq::<TxOut>::empty() } else { tx.output@ }
}
/// THE SPECIFICATION
spec fn legacy_msg(tx: Transaction, idx: int, script: Script, ht: EcdsaSighashType) -> Seq<u8> {
    if l_single(ht) && idx >= tx.output@.len() { single_bug_constant() }
    else {
        let outs = legacy_outputs(tx, idx, ht);
        le32(tx.version) + legacy_inputs_ser(tx, idx, script, ht) + (compact_size(outs.len()) + flat(outs, |o: TxOut| ser_txout(o)))
        + ser_locktime(tx.lock_time) + le32(ecdsa_u32(ht))
    }
}

/// the inputs the function builds (in-memory), as a spec sequence
spec fn built_input(tx: Transaction, n: int, idx: int, script: Script, ht: EcdsaSighashType, t: TxIn) -> bool {
    let i = tx.input@[n];
    &&& t.previous_output == i.previous_output && t.is_pegin == i.is_pegin && t.asset_issuance == i.asset_issuance
    &&& t.script_sig.b@ == (if n == idx { script.b@ } else { Seq::<u8>::empty() })
    &&& t.sequence == (if n != idx && (l_single(ht) || l_none(ht)) { Sequence(0) } else { i.sequence })
}
proof fn lemma_flat_inputs(tx: Transaction, built: Seq<TxIn>, idx: int, script: Script, ht: EcdsaSighashType, k: int)
    requires 0 <= k <= tx.input@.len(), built.len() == k, forall|n: int| 0 <= n < k ==> built_input(tx, n, idx, script, ht, #[trigger] built[n])
    ensures flat(built, |i: TxIn| ser_txin(i)) == flat(Seq::new(k as nat, |n: int| n), |n: int| legacy_input_ser(tx, n, idx, script, ht))
    decreases k
{
    let f = |i: TxIn| ser_txin(i);
    let g = |n: int| legacy_input_ser(tx, n, idx, script, ht);
    if k == 0 {
        assert(Seq::new(0 as nat, |n: int| n).len() == 0);
    } else {
        lemma_flat_inputs(tx, built.drop_last(), idx, script, ht, k - 1);
        assert(Seq::new(k as nat, |n: int| n).drop_last() =~= Seq::new((k - 1) as nat, |n: int| n));
        assert(Seq::new(k as nat, |n: int| n).last() == k - 1);
        axiom_ser_txin(built.last());
        assert(built_input(tx, k - 1, idx, script, ht, built[k - 1]));
    }
}

impl<'t> SighashCache<'t> {
//@extract file=src/sighash.rs fn=encode_legacy_signing_data_to in="impl < R : Deref < Target = Transaction > > SighashCache < R >"
//@ret r
//@rewrite "< Write : io :: Write >" => "<Write: WriteAll>"
//@rewrite "mut writer : Write" => "writer: &mut Write"
//@rewrite "& mut writer" => "writer" nth=all
//@rewrite "for ( n , input ) in self . tx . input . iter ( ) . enumerate ( )" => "for n in iter: 0..self.tx.input.len()"
//@loop-pos 1 body-start
//@| let input = &self.tx.input[n];
//@loop 1
//@|     invariant
//@|         input_index < self.tx.input@.len(), gtx == *self.tx, idx == input_index as int, ht == sighash_type,
//@|         (sighash is Single) == l_single(ht), (sighash is None) == l_none(ht),
//@|         tx.input@.len() == n, forall|k: int| 0 <= k < n ==> built_input(gtx, k, idx, *script_pubkey, ht, #[trigger] tx.input@[k]),
//@|         tx.version == gtx.version, tx.lock_time == gtx.lock_time, tx.output@.len() == 0,
//@rewrite "let output_iter = self . tx . output . iter ( ) . take ( input_index + 1 ) . enumerate ( ) . map ( | ( n , out ) | if n == input_index { out . clone ( ) } else { TxOut :: default ( ) } ) ; output_iter . collect ( )" => "legacy_single_outputs(&self.tx.output, input_index)"
//@spec
//@|     requires input_index < self.tx.input@.len()
//@|     ensures r is Ok, final(writer).fed() == old(writer).fed() + legacy_msg(*self.tx, input_index as int, *script_pubkey, sighash_type)
//@body-start
//@| let ghost base = writer.fed(); let ghost gtx = *self.tx; let ghost idx = input_index as int; let ghost ht = sighash_type;
//@| proof { lemma_hashtype_bits(); }
//@loop-pos 1 after
//@| proof { lemma_flat_inputs(gtx, tx.input@, idx, *script_pubkey, ht, gtx.input@.len() as int); }
//@body-end
//@| proof {
//@|     if l_acp(ht) {
//@|         let t = tx.input@[0];
//@|         axiom_ser_txin(t);
//@|         let f = |i: TxIn| ser_txin(i);
//@|         assert(tx.input@.drop_last() =~= Seq::<TxIn>::empty());
//@|         assert(flat(tx.input@.drop_last(), f) =~= Seq::<u8>::empty());
//@|         assert(flat(tx.input@, f) =~= ser_txin(t));
//@|     }
//@|     assert(tx.output@ =~= legacy_outputs(gtx, idx, ht));
//@|     assert(writer.fed() =~= base + legacy_msg(gtx, idx, *script_pubkey, ht));
//@| }
//@end
}

proof fn canary_legacy(c: SighashCache, i: usize) requires i < c.tx.input@.len() ensures false {}
} // verus!
fn main() {}
