//@ property: C18
//@ unit: c18_fast_merkle_root tier=quick
//@ paired: verif_c18_paired::fmr_n
//@ clause: for every leaf count 0..=2^31: fast_merkle_root(leaves) == mroot(leaves) where mroot is the definitional tree (pair adjacent nodes left to right with the SHA-256 compression function, promote an unpaired last node, repeat; [] -> 0^32; [x] -> x); all loops terminate; no overflow, shift or index error
use vstd::prelude::*;
verus! {

// ---- environment prelude (assumed contracts on bitcoin_hashes) ----

pub mod sha256 {
    use vstd::prelude::*;
    #[derive(Clone, Copy)]
    pub struct Midstate { pub bytes: [u8; 32], pub length: u64 }

    impl Midstate {
        pub open spec fn view(&self) -> Seq<u8> { self.bytes@ }

        #[verifier::external_body]
        pub fn new(state: [u8; 32], bytes_hashed: u64) -> (r: Midstate)
            ensures r@ == state@
        { unimplemented!() }

        #[verifier::external_body]
        pub fn as_parts(&self) -> (r: (&[u8; 32], u64))
            ensures r.0@ == self@
        { unimplemented!() }
    }
    impl Default for Midstate {
        #[verifier::external_body]
        fn default() -> (r: Midstate)
            ensures r@ == Seq::new(32, |i: int| 0u8)
        { unimplemented!() }
    }
}

#[verifier::external_body]
fn sha256midstate(left: &[u8], right: &[u8]) -> (r: sha256::Midstate)
    requires left@.len() == 32, right@.len() == 32
    ensures r@ == compress(left@, right@)
{ unimplemented!() }

//@include inc/mroot_spec.rs

// =====================================================================
// SPEC SANITY EXAMPLES (concrete trees, proved from the definition alone)
// =====================================================================

pub proof fn example_3(a: Seq<u8>, b: Seq<u8>, c: Seq<u8>)
    ensures mroot(seq![a, b, c]) == compress(compress(a, b), c)
{
    let s = seq![a, b, c];
    let s1 = level_up(s);
    assert(s1 =~= seq![compress(a, b), c]);
    let s2 = level_up(s1);
    assert(s2 =~= seq![compress(compress(a, b), c)]);
    assert(mroot(s) == mroot(s1));
    assert(mroot(s1) == mroot(s2));
}

pub proof fn example_5(a: Seq<u8>, b: Seq<u8>, c: Seq<u8>, d: Seq<u8>, e: Seq<u8>)
    ensures mroot(seq![a, b, c, d, e]) == compress(compress(compress(a, b), compress(c, d)), e)
{
    let s = seq![a, b, c, d, e];
    let s1 = level_up(s);
    assert(s1 =~= seq![compress(a, b), compress(c, d), e]);
    let s2 = level_up(s1);
    assert(s2 =~= seq![compress(compress(a, b), compress(c, d)), e]);
    let s3 = level_up(s2);
    assert(s3 =~= seq![compress(compress(compress(a, b), compress(c, d)), e)]);
    assert(mroot(s) == mroot(s1));
    assert(mroot(s1) == mroot(s2));
    assert(mroot(s2) == mroot(s3));
}

// =====================================================================
// AUXILIARY DEFINITIONS
// =====================================================================

/// 2^h as an int.
pub open spec fn p2(h: nat) -> int
    decreases h
{
    if h == 0 { 1 } else { 2 * p2((h - 1) as nat) }
}

/// Root of the height-`h` subtree that starts at leaf `lo` and is cut off at
/// `s.len()` (a missing right sibling means promotion).
pub open spec fn tr(s: Seq<Seq<u8>>, lo: int, h: nat) -> Seq<u8>
    decreases h
{
    if h == 0 {
        s[lo]
    } else {
        let h1 = (h - 1) as nat;
        if lo + p2(h1) < s.len() {
            compress(tr(s, lo, h1), tr(s, lo + p2(h1), h1))
        } else {
            tr(s, lo, h1)
        }
    }
}

/// bit `b` of `c` is set
pub open spec fn bit(c: u32, b: u32) -> bool { (c >> b) & 1 == 1 }
/// the low `l` bits of `c` are zero
pub open spec fn lowz(c: u32, l: u32) -> bool { (c >> l) << l == c }
/// `c` with bits 0..=b cleared: start of the block that `inner[b]` holds
pub open spec fn lo_of(c: u32, b: u32) -> u32 { ((c >> b) << b) & !(1u32 << b) }

/// The "inner array" invariant: for every set bit b of c, inner[b] is the root
/// of the perfect subtree over s[lo_of(c,b) .. lo_of(c,b)+2^b].
pub open spec fn inner_ok(s: Seq<Seq<u8>>, inner: [sha256::Midstate; 32], c: u32) -> bool {
    forall|b: u32| b < 32 && #[trigger] bit(c, b) ==> inner[b as int]@ == tr(s, lo_of(c, b) as int, b as nat)
}

// =====================================================================
// LEMMAS: arithmetic
// =====================================================================

pub proof fn lemma_p2_pos(h: nat)
    ensures p2(h) > 0
    decreases h
{
    if h > 0 { lemma_p2_pos((h - 1) as nat); }
}

pub proof fn lemma_p2_succ(h: nat)
    ensures p2(h + 1) == 2 * p2(h)
{
}

pub proof fn lemma_shl_p2(l: u32)
    requires l < 32
    ensures (1u32 << l) as int == p2(l as nat)
    decreases l
{
    if l == 0 {
        assert(1u32 << 0u32 == 1u32) by(bit_vector);
    } else {
        let m = (l - 1) as u32;
        lemma_shl_p2(m);
        assert((1u32 << l) == 2 * (1u32 << m)) by(bit_vector) requires 0 < l < 32, m == l - 1;
    }
}

// =====================================================================
// LEMMAS: spec level (mroot == tr(s, 0, H))
// =====================================================================

/// tr over level_up(s) is tr over s one level higher.
pub proof fn lemma_tr_level_up(s: Seq<Seq<u8>>, lo: int, h: nat)
    requires 0 <= lo < level_up(s).len()
    ensures tr(level_up(s), lo, h) == tr(s, 2 * lo, h + 1)
    decreases h
{
    let s1 = level_up(s);
    let n = s.len() as int;
    assert(s1.len() == (n + 1) / 2);
    if h == 0 {
        assert(p2(0) == 1);
        assert(tr(s1, lo, 0) == s1[lo]);
        assert(tr(s, 2 * lo, 0) == s[2 * lo]);
        assert(tr(s, 2 * lo + 1, 0) == s[2 * lo + 1]);
        assert(tr(s, 2 * lo, 1) == if 2 * lo + p2(0) < n { compress(tr(s, 2 * lo, 0), tr(s, 2 * lo + p2(0), 0)) } else { tr(s, 2 * lo, 0) });
    } else {
        let h1 = (h - 1) as nat;
        lemma_p2_pos(h1);
        lemma_p2_succ(h1);
        lemma_tr_level_up(s, lo, h1);
        // unfold both sides once
        assert(tr(s1, lo, h) == if lo + p2(h1) < s1.len() { compress(tr(s1, lo, h1), tr(s1, lo + p2(h1), h1)) } else { tr(s1, lo, h1) });
        assert(tr(s, 2 * lo, h + 1) == if 2 * lo + p2(h) < n { compress(tr(s, 2 * lo, h), tr(s, 2 * lo + p2(h), h)) } else { tr(s, 2 * lo, h) });
        assert((lo + p2(h1) < s1.len()) == (2 * lo + p2(h) < n));
        if lo + p2(h1) < s1.len() {
            lemma_tr_level_up(s, lo + p2(h1), h1);
            assert(2 * (lo + p2(h1)) == 2 * lo + p2(h));
        }
    }
}

pub proof fn lemma_tr_single(s: Seq<Seq<u8>>, h: nat)
    requires s.len() == 1
    ensures tr(s, 0, h) == s[0]
    decreases h
{
    if h > 0 {
        lemma_p2_pos((h - 1) as nat);
        lemma_tr_single(s, (h - 1) as nat);
    }
}

/// Lemma A: for any H with 2^H >= n >= 1, mroot(s) is the cut-off tree of height H at 0.
pub proof fn lemma_mroot_tr(s: Seq<Seq<u8>>, h: nat)
    requires 1 <= s.len() <= p2(h)
    ensures mroot(s) == tr(s, 0, h)
    decreases h
{
    if s.len() == 1 {
        lemma_tr_single(s, h);
    } else {
        assert(h > 0);
        let h1 = (h - 1) as nat;
        lemma_p2_succ(h1);
        let s1 = level_up(s);
        assert(s1.len() == (s.len() + 1) / 2);
        lemma_mroot_tr(s1, h1);
        lemma_tr_level_up(s, 0, h1);
        assert(mroot(s) == mroot(s1));
    }
}

// =====================================================================
// LEMMAS: bit-level facts (all by bit_vector)
// =====================================================================

/// `count & (1 << level) == 0`  <==>  bit `level` of count is clear
pub proof fn lemma_cond(c: u32, l: u32)
    requires l < 32
    ensures (c & (1u32 << l) == 0) == !bit(c, l)
{
    assert((c & (1u32 << l) == 0) == !((c >> l) & 1 == 1)) by(bit_vector) requires l < 32;
}

/// One step of a "skip zero bit" loop: low l bits zero and bit l zero ==> low l+1 bits zero and l+1 < 32.
pub proof fn lemma_skip(c: u32, l: u32)
    requires l < 32, c != 0, lowz(c, l), !bit(c, l)
    ensures l < 31, lowz(c, (l + 1) as u32)
{
    assert(l < 31 && (c >> ((l + 1) as u32)) << ((l + 1) as u32) == c) by(bit_vector)
        requires l < 32, c != 0, (c >> l) << l == c, !((c >> l) & 1 == 1);
}

/// lowz(c, 0) holds trivially.
pub proof fn lemma_lowz0(c: u32)
    ensures lowz(c, 0)
{
    assert((c >> 0u32) << 0u32 == c) by(bit_vector);
}

/// carry loop step: the old count c-1 has bit l set, and its block ends where ours begins.
pub proof fn lemma_carry_step(c: u32, l: u32)
    requires l < 32, c != 0, lowz(c, l), !bit(c, l)
    ensures
        bit((c - 1) as u32, l),
        lo_of((c - 1) as u32, l) + 2 * (1u32 << l) == c,
{
    assert(((((c - 1) as u32) >> l) & 1 == 1)
        && (((((c - 1) as u32) >> l) << l) & !(1u32 << l)) + 2 * (1u32 << l) == c) by(bit_vector)
        requires l < 32, c != 0, (c >> l) << l == c, !((c >> l) & 1 == 1);
}

/// after the carry loop: set bits of c are bit l (new block) and the bits > l of c-1 (same blocks).
pub proof fn lemma_carry_done(c: u32, l: u32, b: u32)
    requires l < 32, b < 32, c != 0, lowz(c, l), bit(c, l), bit(c, b)
    ensures
        b >= l,
        b == l ==> lo_of(c, b) + (1u32 << l) == c,
        b > l ==> bit((c - 1) as u32, b) && lo_of((c - 1) as u32, b) == lo_of(c, b),
{
    assert(b >= l
        && (b == l ==> (((c >> b) << b) & !(1u32 << b)) + (1u32 << l) == c)
        && (b > l ==> ((((c - 1) as u32) >> b) & 1 == 1)
                && ((((c - 1) as u32) >> b) << b) & !(1u32 << b) == ((c >> b) << b) & !(1u32 << b))) by(bit_vector)
        requires l < 32, b < 32, c != 0, (c >> l) << l == c, (c >> l) & 1 == 1, (c >> b) & 1 == 1;
}

/// head of the sweep: c is n rounded up to a multiple of 2^l, hence <= 2^31; if c != 2^l the add does not overflow.
pub proof fn lemma_sweep_outer(c: u32, n: u32, l: u32)
    requires
        l < 32, 1 <= n <= 0x8000_0000, n <= c, c - n < (1u32 << l), lowz(c, l), bit(c, l), c != (1u32 << l),
    ensures
        l < 31,
        c + (1u32 << l) <= 0x8000_0000,
        lowz((c + (1u32 << l)) as u32, (l + 1) as u32),
        c >= (1u32 << l),
{
    assert(l < 31 && c + (1u32 << l) <= 0x8000_0000 && c >= (1u32 << l)
        && (((c + (1u32 << l)) as u32) >> ((l + 1) as u32)) << ((l + 1) as u32) == (c + (1u32 << l)) as u32) by(bit_vector)
        requires l < 32, 1 <= n <= 0x8000_0000, n <= c, c - n < (1u32 << l), (c >> l) << l == c, (c >> l) & 1 == 1, c != (1u32 << l);
}

/// inner sweep loop step: a zero bit of c at l (c rounded-up, c > n) means bit l of n is set
/// and n's block at l ends where the current subtree starts.
pub proof fn lemma_sweep_inner(c: u32, n: u32, l: u32)
    requires
        l < 32, 1 <= n, n < c, c <= 0x8000_0000, c - n < (1u32 << l), lowz(c, l), !bit(c, l),
    ensures
        bit(n, l),
        lo_of(n, l) + 2 * (1u32 << l) == c,
{
    assert(((n >> l) & 1 == 1) && (((n >> l) << l) & !(1u32 << l)) + 2 * (1u32 << l) == c) by(bit_vector)
        requires l < 32, 1 <= n, n < c, c <= 0x8000_0000, c - n < (1u32 << l), (c >> l) << l == c, !((c >> l) & 1 == 1);
}

/// lowest set bit: block of n at l starts at n - 2^l
pub proof fn lemma_lowest(c: u32, l: u32)
    requires l < 32, lowz(c, l), bit(c, l)
    ensures lo_of(c, l) + (1u32 << l) == c
{
    assert((((c >> l) << l) & !(1u32 << l)) + (1u32 << l) == c) by(bit_vector)
        requires l < 32, (c >> l) << l == c, (c >> l) & 1 == 1;
}

// =====================================================================
// LEMMAS: tree steps used in the loops
// =====================================================================

/// combine: left perfect-or-cut subtree at lo (height h) and right subtree at lo+2^h < n
pub proof fn lemma_tr_combine(s: Seq<Seq<u8>>, lo: int, h: nat)
    requires lo + p2(h) < s.len()
    ensures tr(s, lo, h + 1) == compress(tr(s, lo, h), tr(s, lo + p2(h), h))
{
}

/// promote: no right sibling
pub proof fn lemma_tr_promote(s: Seq<Seq<u8>>, lo: int, h: nat)
    requires lo + p2(h) >= s.len()
    ensures tr(s, lo, h + 1) == tr(s, lo, h)
{
}

// =====================================================================
// THE FUNCTION (body verbatim; only annotations inserted)
// =====================================================================

//@extract file=src/fast_merkle_root.rs fn=fast_merkle_root
//@ret r
//@spec
//@|     requires
//@|         leaves@.len() <= 0x8000_0000,
//@|     ensures
//@|         r@ == mroot(leaves@.map_values(|l: [u8; 32]| l@)),
//@|         r@ == mroot(leaf_seq(leaves@)),
//@at "let mut result_hash" before
//@|     let ghost s = leaf_seq(leaves@);
//@loop-pos 1 before
//@|     proof {
//@|         assert forall|b: u32| b < 32 implies !bit(0u32, b) by {
//@|             assert(!((0u32 >> b) & 1 == 1)) by(bit_vector);
//@|         }
//@|     }
//@loop 1
//@|         invariant
//@|             leaves@.len() <= 0x8000_0000,
//@|             s == leaf_seq(leaves@),
//@|             count <= leaves@.len(),
//@|             inner_ok(s, inner, count),
//@|         decreases leaves@.len() - count
//@loop-pos 1 body-start
//@|         let ghost count0 = count;
//@loop-pos 2 before
//@|         proof {
//@|             lemma_lowz0(count);
//@|             assert(p2(0) == 1);
//@|             assert(s[count0 as int] == leaves@[count0 as int]@);
//@|             assert(tr(s, count0 as int, 0) == s[count0 as int]);
//@|         }
//@loop 2
//@|             invariant
//@|                 level < 32,
//@|                 count == count0 + 1,
//@|                 1 <= count <= leaves@.len() <= 0x8000_0000,
//@|                 s == leaf_seq(leaves@),
//@|                 lowz(count, level as u32),
//@|                 temp_hash@ == tr(s, count - p2(level as nat), level as nat),
//@|                 inner_ok(s, inner, count0),
//@|             decreases 32 - level
//@loop-pos 2 body-start
//@|             proof {
//@|                 let l = level as u32;
//@|                 lemma_cond(count, l);
//@|                 lemma_skip(count, l);
//@|                 lemma_carry_step(count, l);
//@|                 lemma_shl_p2(l);
//@|                 lemma_p2_pos(l as nat);
//@|                 lemma_p2_succ(l as nat);
//@|                 assert(bit(count0, l));
//@|                 assert(inner[level as int]@ == tr(s, lo_of(count0, l) as int, l as nat));
//@|                 assert(lo_of(count0, l) as int == count - 2 * p2(l as nat));
//@|                 lemma_tr_combine(s, count - 2 * p2(l as nat), l as nat);
//@|             }
//@loop-pos 2 after
//@|         proof {
//@|             lemma_cond(count, level as u32);
//@|         }
//@|         let ghost inner0 = inner;
//@loop-pos 1 body-end
//@|         proof {
//@|             let l = level as u32;
//@|             lemma_shl_p2(l);
//@|             assert forall|b: u32| b < 32 && #[trigger] bit(count, b) implies inner[b as int]@ == tr(s, lo_of(count, b) as int, b as nat) by {
//@|                 lemma_carry_done(count, l, b);
//@|                 if b == l {
//@|                 } else {
//@|                     assert(bit(count0, b));
//@|                     assert(inner[b as int] == inner0[b as int]);
//@|                 }
//@|             }
//@|         }
//@loop-pos 3 before
//@|     proof {
//@|         lemma_lowz0(count);
//@|     }
//@loop 3
//@|         invariant
//@|             level < 32,
//@|             count != 0,
//@|             lowz(count, level as u32),
//@|         decreases 32 - level
//@loop-pos 3 body-start
//@|         proof {
//@|             lemma_cond(count, level as u32);
//@|             lemma_skip(count, level as u32);
//@|         }
//@loop-pos 4 before
//@|     let ghost n = count;
//@|     proof {
//@|         let l = level as u32;
//@|         lemma_cond(count, l);
//@|         lemma_lowest(count, l);
//@|         lemma_shl_p2(l);
//@|         lemma_p2_pos(l as nat);
//@|         assert(bit(n, l));
//@|         assert(result_hash@ == tr(s, lo_of(n, l) as int, l as nat));
//@|     }
//@loop 4
//@|         invariant
//@|             level < 32,
//@|             1 <= n <= 0x8000_0000,
//@|             n == s.len(),
//@|             n <= count <= 0x8000_0000,
//@|             count - n < p2(level as nat),
//@|             lowz(count, level as u32),
//@|             bit(count, level as u32),
//@|             result_hash@ == tr(s, count - p2(level as nat), level as nat),
//@|             inner_ok(s, inner, n),
//@|         decreases 32 - level
//@loop-pos 4 body-start
//@|         let ghost level0 = level;
//@|         proof {
//@|             let l = level as u32;
//@|             lemma_shl_p2(l);
//@|             lemma_sweep_outer(count, n, l);
//@|             lemma_p2_succ(l as nat);
//@|             lemma_p2_pos(l as nat);
//@|             lemma_tr_promote(s, count - p2(l as nat), l as nat);
//@|         }
//@loop 5
//@|             invariant
//@|                 level0 < level < 32,
//@|                 1 <= n,
//@|                 n == s.len(),
//@|                 n < count <= 0x8000_0000,
//@|                 count - n < p2(level as nat),
//@|                 lowz(count, level as u32),
//@|                 result_hash@ == tr(s, count - p2(level as nat), level as nat),
//@|                 inner_ok(s, inner, n),
//@|             decreases 32 - level
//@loop-pos 5 body-start
//@|             proof {
//@|                 let l = level as u32;
//@|                 lemma_cond(count, l);
//@|                 lemma_shl_p2(l);
//@|                 lemma_skip(count, l);
//@|                 lemma_sweep_inner(count, n, l);
//@|                 lemma_p2_pos(l as nat);
//@|                 lemma_p2_succ(l as nat);
//@|                 assert(inner[level as int]@ == tr(s, lo_of(n, l) as int, l as nat));
//@|                 assert(lo_of(n, l) as int == count - 2 * p2(l as nat));
//@|                 lemma_tr_combine(s, count - 2 * p2(l as nat), l as nat);
//@|             }
//@loop-pos 5 after
//@|         proof {
//@|             lemma_cond(count, level as u32);
//@|         }
//@loop-pos 4 after
//@|     proof {
//@|         lemma_shl_p2(level as u32);
//@|         lemma_mroot_tr(s, level as nat);
//@|     }
//@end

// vacuity canary: must FAIL (the precondition of fast_merkle_root is satisfiable and the lemmas are not contradictory)
proof fn canary_fast_merkle_root(leaves: Seq<[u8; 32]>)
    requires leaves.len() <= 0x8000_0000
    ensures false
{
    lemma_mroot_tr(leaf_seq(leaves), 31);
}

} // verus!
fn main() {}
