//@ property: C19
//@ unit: c19_dynafed_roots tier=quick
//@ clause: FullParams/Params roots are the two-level fast-merkle commitment ((signblockscript, witness limit), (fedpeg program, fedpeg script, extension space)); compaction keeps signblockscript/limit and stores the extra root, so compact, full and direct roots coincide; Null => 0^32; header root = mroot([root(current), root(proposed)]), None for Proof headers
use vstd::prelude::*;
verus! {
//@include inc/mroot_spec.rs

// ---- environment (assumed contracts on dependencies and on sibling units) ----
// hser(x) = sha256d(consensus_encode(x)): the local helper `fn serialize_hash<E: Encodable>` that each root function
// declares is DROPPED from the extracted bodies and replaced by this assumed contract (SHA-256d and the codec are
// outside Verus; the codec is C01's subject).
pub uninterp spec fn hser<E>(e: E) -> Seq<u8>;
pub trait Encodable {}
pub struct Script { pub b: Vec<u8> }
pub mod bitcoin { pub struct ScriptBuf { pub b: Vec<u8> } }
impl Encodable for Script {}
impl Encodable for bitcoin::ScriptBuf {}
impl Encodable for u32 {}
impl Encodable for Vec<u8> {}
impl Encodable for Vec<Vec<u8>> {}
pub mod sha256d {
    use vstd::prelude::*;
    pub struct Hash { pub bytes: [u8; 32] }
    impl Hash {
        pub open spec fn view(&self) -> Seq<u8> { self.bytes@ }
        #[verifier::external_body]
        pub fn to_byte_array(self) -> (r: [u8; 32]) ensures r@ == self@ { unimplemented!() }
    }
}
#[verifier::external_body]
fn serialize_hash<E: Encodable>(obj: &E) -> (r: sha256d::Hash) ensures r@ == hser(*obj), r@.len() == 32 { unimplemented!() }

pub mod hashes { pub mod sha256 {
    use vstd::prelude::*;
    pub struct Midstate { pub bytes: [u8; 32], pub length: u64 }
    impl Midstate {
        pub open spec fn view(&self) -> Seq<u8> { self.bytes@ }
        #[verifier::external_body]
        pub fn to_parts(self) -> (r: ([u8; 32], u64)) ensures r.0@ == self@ { unimplemented!() }
    }
} }
pub mod fast_merkle_root {
    use vstd::prelude::*;
    use super::*;
    // contract proven by unit c18_fast_merkle_root (same spec functions, included from inc/mroot_spec.rs)
    #[verifier::external_body]
    pub fn fast_merkle_root(leaves: &[[u8; 32]]) -> (r: crate::hashes::sha256::Midstate)
        requires leaves@.len() <= 0x8000_0000
        ensures r@ == mroot(leaf_seq(leaves@))
    { unimplemented!() }
}

// ---- real type definitions, extracted verbatim ----
//@extract file=src/dynafed.rs item="pub struct FullParams"
//@end
//@extract file=src/dynafed.rs item="pub enum Params"
//@rewrite "# [ default ]" => ""
//@end
// impl_sha256_midstate_wrapper! { pub struct ElidedRoot([u8; 32]); } / ParamsRoot / DynafedRoot: the struct line of the macro
#[derive(Clone, Copy)]
pub struct ElidedRoot(pub [u8; 32]);
#[derive(Clone, Copy)]
pub struct ParamsRoot(pub [u8; 32]);
#[derive(Clone, Copy)]
pub struct DynafedRoot(pub [u8; 32]);

// the accessor bodies come from the macro definition in src/internal_macros.rs (verbatim; `Self` resolves per wrapper)
impl ElidedRoot {
    pub open spec fn view(&self) -> Seq<u8> { self.0@ }
//@extract file=src/internal_macros.rs fn=from_byte_array in="macro_rules ! impl_sha256_midstate_wrapper"
//@ret r
//@spec
//@|     ensures r@ == inner@
//@end
//@extract file=src/internal_macros.rs fn=to_byte_array in="macro_rules ! impl_sha256_midstate_wrapper"
//@ret r
//@spec
//@|     ensures r@ == self@
//@end
//@extract file=src/internal_macros.rs fn=from_midstate in="macro_rules ! impl_sha256_midstate_wrapper"
//@ret r
//@spec
//@|     ensures r@ == value@
//@end
}
impl ParamsRoot {
    pub open spec fn view(&self) -> Seq<u8> { self.0@ }
//@extract file=src/internal_macros.rs fn=from_byte_array in="macro_rules ! impl_sha256_midstate_wrapper"
//@ret r
//@spec
//@|     ensures r@ == inner@
//@end
//@extract file=src/internal_macros.rs fn=to_byte_array in="macro_rules ! impl_sha256_midstate_wrapper"
//@ret r
//@spec
//@|     ensures r@ == self@
//@end
//@extract file=src/internal_macros.rs fn=from_midstate in="macro_rules ! impl_sha256_midstate_wrapper"
//@ret r
//@spec
//@|     ensures r@ == value@
//@end
}
impl DynafedRoot {
    pub open spec fn view(&self) -> Seq<u8> { self.0@ }
//@extract file=src/internal_macros.rs fn=from_byte_array in="macro_rules ! impl_sha256_midstate_wrapper"
//@ret r
//@spec
//@|     ensures r@ == inner@
//@end
//@extract file=src/internal_macros.rs fn=to_byte_array in="macro_rules ! impl_sha256_midstate_wrapper"
//@ret r
//@spec
//@|     ensures r@ == self@
//@end
//@extract file=src/internal_macros.rs fn=from_midstate in="macro_rules ! impl_sha256_midstate_wrapper"
//@ret r
//@spec
//@|     ensures r@ == value@
//@end
}

// ---- specification, from the property text ----
pub open spec fn zeros32() -> Seq<u8> { Seq::new(32, |i: int| 0u8) }
pub open spec fn extra_spec(f: FullParams) -> Seq<u8> {
    mroot(seq![hser(f.fedpeg_program), hser(f.fedpegscript), hser(f.extension_space)])
}
pub open spec fn root_spec(sbs: Script, limit: u32, extra: Seq<u8>) -> Seq<u8> {
    mroot(seq![mroot(seq![hser(sbs), hser(limit)]), extra])
}
pub open spec fn params_root_spec(p: Params) -> Seq<u8> {
    match p {
        Params::Null => zeros32(),
        Params::Compact { signblockscript, signblock_witness_limit, elided_root } => root_spec(signblockscript, signblock_witness_limit, elided_root@),
        Params::Full(f) => root_spec(f.signblockscript, f.signblock_witness_limit, extra_spec(f)),
    }
}
proof fn lemma_leaf2(a: [u8; 32], b: [u8; 32]) ensures leaf_seq(seq![a, b]) =~= seq![a@, b@] {}
proof fn lemma_leaf3(a: [u8; 32], b: [u8; 32], c: [u8; 32]) ensures leaf_seq(seq![a, b, c]) =~= seq![a@, b@, c@] {}

impl FullParams {
//@extract file=src/dynafed.rs fn=extra_root in="impl FullParams"
//@ret r
//@spec
//@|     ensures r@ == extra_spec(*self)
//@drop "fn serialize_hash"
//@at "ElidedRoot :: from_midstate" before
//@| proof { lemma_leaf3(leaves[0], leaves[1], leaves[2]); assert(leaves@ =~= seq![leaves[0], leaves[1], leaves[2]]); assert(leaves@.subrange(0, 3) =~= leaves@); }
//@end
//@extract file=src/dynafed.rs fn=calculate_root in="impl FullParams"
//@ret r
//@spec
//@|     ensures r@ == root_spec(self.signblockscript, self.signblock_witness_limit, extra_spec(*self))
//@drop "fn serialize_hash"
//@at "let compact_root" before
//@| proof { lemma_leaf2(leaves[0], leaves[1]); assert(leaves@ =~= seq![leaves[0], leaves[1]]); assert(leaves@.subrange(0, 2) =~= leaves@); }
//@at "ParamsRoot :: from_midstate" before
//@| proof { lemma_leaf2(leaves[0], leaves[1]); assert(leaves@ =~= seq![leaves[0], leaves[1]]); assert(leaves@.subrange(0, 2) =~= leaves@); }
//@end
//@extract file=src/dynafed.rs fn=into_compact in="impl FullParams"
//@ret r
//@spec
//@|     ensures r matches Params::Compact { signblockscript, signblock_witness_limit, elided_root }
//@|         && signblockscript == self.signblockscript && signblock_witness_limit == self.signblock_witness_limit
//@|         && elided_root@ == extra_spec(self)
//@end
}

impl Params {
//@extract file=src/dynafed.rs fn=is_null in="impl Params"
//@ret r
//@spec
//@|     ensures r == (*self is Null)
//@end
//@extract file=src/dynafed.rs fn=is_compact in="impl Params"
//@ret r
//@spec
//@|     ensures r == (*self is Compact)
//@end
//@extract file=src/dynafed.rs fn=is_full in="impl Params"
//@ret r
//@spec
//@|     ensures r == (*self is Full)
//@end
//@extract file=src/dynafed.rs fn=elided_root in="impl Params"
//@ret r
//@spec
//@|     ensures match *self { Params::Compact { elided_root, .. } => r == Some(&elided_root), _ => r is None }
//@end
//@extract file=src/dynafed.rs fn=signblockscript in="impl Params"
//@ret r
//@spec
//@|     ensures match *self { Params::Null => r is None, Params::Compact { signblockscript, .. } => r == Some(&signblockscript), Params::Full(f) => r == Some(&f.signblockscript) }
//@end
//@extract file=src/dynafed.rs fn=signblock_witness_limit in="impl Params"
//@ret r
//@spec
//@|     ensures match *self { Params::Null => r is None, Params::Compact { signblock_witness_limit, .. } => r == Some(signblock_witness_limit), Params::Full(f) => r == Some(f.signblock_witness_limit) }
//@end
//@extract file=src/dynafed.rs fn=extra_root in="impl Params"
//@ret r
//@spec
//@|     ensures match *self { Params::Null => r@ == zeros32(), Params::Compact { elided_root, .. } => r@ == elided_root@, Params::Full(f) => r@ == extra_spec(f) }
//@end
//@extract file=src/dynafed.rs fn=calculate_root in="impl Params"
//@ret r
//@spec
//@|     ensures r@ == params_root_spec(*self)
//@drop "fn serialize_hash"
//@at "let compact_root" before
//@| proof { lemma_leaf2(leaves[0], leaves[1]); assert(leaves@ =~= seq![leaves[0], leaves[1]]); assert(leaves@.subrange(0, 2) =~= leaves@); }
//@at "ParamsRoot :: from_midstate" before
//@| proof { lemma_leaf2(leaves[0], leaves[1]); assert(leaves@ =~= seq![leaves[0], leaves[1]]); assert(leaves@.subrange(0, 2) =~= leaves@); }
//@end
//@extract file=src/dynafed.rs fn=into_compact in="impl Params"
//@ret r
//@spec
//@|     ensures match self { Params::Null => r is None, Params::Compact { .. } => r == Some(self),
//@|         Params::Full(f) => r matches Some(Params::Compact { signblockscript, signblock_witness_limit, elided_root })
//@|             && signblockscript == f.signblockscript && signblock_witness_limit == f.signblock_witness_limit && elided_root@ == extra_spec(f) }
//@end
}

// ---- block header: root over (current, proposed)
pub mod dynafed { pub use super::{Params, FullParams}; }
pub struct BlockHash { pub b: [u8; 32] }
pub struct TxMerkleNode { pub b: [u8; 32] }
//@extract file=src/block.rs item="pub enum ExtData"
//@end
//@extract file=src/block.rs item="pub struct BlockHeader"
//@end
impl BlockHeader {
//@extract file=src/block.rs fn=calculate_dynafed_params_root in="impl BlockHeader"
//@ret r
//@spec
//@|     ensures match self.ext {
//@|         ExtData::Proof { .. } => r is None,
//@|         ExtData::Dynafed { current, proposed, .. } => r matches Some(d) && d@ == mroot(seq![params_root_spec(current), params_root_spec(proposed)]),
//@|     }
//@at "Some ( DynafedRoot :: from_midstate" before
//@| proof { lemma_leaf2(leaves[0], leaves[1]); assert(leaves@ =~= seq![leaves[0], leaves[1]]); assert(leaves@.subrange(0, 2) =~= leaves@); }
//@end
}

// ---- the property's compaction clause, as a client of the contracts above (modular: only the ensures are visible) ----
fn compaction_preserves_root(f: FullParams)
{
    let direct = f.calculate_root();
    let ghost fr = root_spec(f.signblockscript, f.signblock_witness_limit, extra_spec(f));
    let c = f.into_compact();
    let compact_root = c.calculate_root();
    assert(compact_root@ == direct@);
    assert(direct@ == fr);
}
fn full_variant_root_is_full_root(p: Params)
    requires p is Full
{
    let r = p.calculate_root();
    assert(r@ == root_spec(p->Full_0.signblockscript, p->Full_0.signblock_witness_limit, extra_spec(p->Full_0)));
    let c = p.into_compact();
    assert(c is Some);
    let r2 = c.unwrap().calculate_root();
    assert(r2@ == r@);
}

proof fn canary_roots(f: FullParams) ensures false {}

} // verus!
fn main() {}
