//@ property: C03
//@ unit: c03_segwit tier=quick
//@ clause: encode_segwitv0_signing_data_to writes exactly the BIP143 pre-image with the Elements issuance extension, for any number of inputs/outputs, every input index and all six ECDSA hash types: version ‖ hashPrevouts (0^32 under ANYONECANPAY) ‖ hashSequence (0^32 unless plain ALL) ‖ hashIssuance (0^32 under ANYONECANPAY) ‖ outpoint ‖ scriptCode ‖ value ‖ nSequence ‖ [issuance of this input, if any] ‖ hashOutputs (all outputs for ALL; the output at the input's index for SINGLE if it exists; else 0^32) ‖ nLockTime ‖ hash type as u32; segwitv0_sighash is SHA-256d of that stream
use vstd::prelude::*;
verus! {
//@include inc/c03_sighash_env.rs
//@include inc/c03_cache_assumed.rs

// ---- specification, from BIP143 + Elements (hashIssuance after hashSequence; the input's issuance after nSequence) ----
spec fn acp_of(ht: EcdsaSighashType) -> bool { ecdsa_u32(ht) & 0x80 == 0x80 }
spec fn single_of(ht: EcdsaSighashType) -> bool { ecdsa_u32(ht) & 0x1f == 3 }
spec fn none_of(ht: EcdsaSighashType) -> bool { ecdsa_u32(ht) & 0x1f == 2 }
spec fn hash_prevouts(tx: Transaction, ht: EcdsaSighashType) -> Seq<u8> { if !acp_of(ht) { sha256d_spec(prevouts_stream(tx)) } else { zeros32() } }
spec fn hash_sequence(tx: Transaction, ht: EcdsaSighashType) -> Seq<u8> {
    if !acp_of(ht) && !single_of(ht) && !none_of(ht) { sha256d_spec(sequences_stream(tx)) } else { zeros32() }
}
spec fn hash_issuance(tx: Transaction, ht: EcdsaSighashType) -> Seq<u8> { if !acp_of(ht) { sha256d_spec(issuances_stream(tx)) } else { zeros32() } }
spec fn hash_outputs(tx: Transaction, idx: int, ht: EcdsaSighashType) -> Seq<u8> {
    if !single_of(ht) && !none_of(ht) { sha256d_spec(outputs_stream(tx)) }
    else if single_of(ht) && idx < tx.output@.len() { sha256d_spec(ser_txout(tx.output@[idx])) }
    else { zeros32() }
}
spec fn input_part(txin: TxIn, script_code: Script, value: confidential::Value) -> Seq<u8> {
    ser_outpoint(txin.previous_output) + ser_script(script_code) + ser_value(value) + ser_sequence(txin.sequence)
    + (if has_issuance_spec(txin) { ser_issuance(txin.asset_issuance) } else { Seq::<u8>::empty() })
}
/// the BIP143(+Elements) pre-image
spec fn segwit_msg(tx: Transaction, idx: int, script_code: Script, value: confidential::Value, ht: EcdsaSighashType) -> Seq<u8> {
    le32(tx.version) + hash_prevouts(tx, ht) + hash_sequence(tx, ht) + hash_issuance(tx, ht)
    + input_part(tx.input@[idx], script_code, value)
    + hash_outputs(tx, idx, ht) + ser_locktime(tx.lock_time) + le32(ecdsa_u32(ht))
}
// the same pre-image appended field by field to what the sink already holds (proof device: equal to `acc + segwit_msg` by
// associativity of concatenation, lemma_segwit_stream)
spec fn segwit_stream(acc: Seq<u8>, tx: Transaction, idx: int, script_code: Script, value: confidential::Value, ht: EcdsaSighashType) -> Seq<u8> {
    let txin = tx.input@[idx];
    let a1 = acc + le32(tx.version) + hash_prevouts(tx, ht) + hash_sequence(tx, ht) + hash_issuance(tx, ht);
    let a2 = a1 + ser_outpoint(txin.previous_output) + ser_script(script_code) + ser_value(value) + ser_sequence(txin.sequence);
    let a3 = if has_issuance_spec(txin) { a2 + ser_issuance(txin.asset_issuance) } else { a2 };
    a3 + hash_outputs(tx, idx, ht) + ser_locktime(tx.lock_time) + le32(ecdsa_u32(ht))
}
proof fn lemma_segwit_stream(acc: Seq<u8>, tx: Transaction, idx: int, script_code: Script, value: confidential::Value, ht: EcdsaSighashType)
    ensures segwit_stream(acc, tx, idx, script_code, value, ht) == acc + segwit_msg(tx, idx, script_code, value, ht)
{
    assert(segwit_stream(acc, tx, idx, script_code, value, ht) =~= acc + segwit_msg(tx, idx, script_code, value, ht));
}

impl<'t> SighashCache<'t> {
//@extract file=src/sighash.rs fn=new in="impl < R : Deref < Target = Transaction > > SighashCache < R >"
//@ret r
//@rewrite "tx : R" => "tx: &'t Transaction"
//@spec
//@|     ensures r.tx == tx, wf_cs(r), forall|spent: Seq<TxOut>| wf_t(r, spent)
//@end

//@extract file=src/sighash.rs fn=encode_segwitv0_signing_data_to in="impl < R : Deref < Target = Transaction > > SighashCache < R >"
//@ret r
//@rewrite "mut writer : Write" => "writer: &mut Write"
//@rewrite "& mut writer" => "writer" nth=all
//@spec
//@|     requires input_index < old(self).tx.input@.len(), wf_cs(*old(self))
//@|     ensures
//@|         r is Ok,
//@|         final(writer).fed() == old(writer).fed() + segwit_msg(*old(self).tx, input_index as int, *script_code, value, sighash_type),
//@|         final(self).tx == old(self).tx, wf_cs(*final(self)), final(self).taproot_cache == old(self).taproot_cache,
//@at "let zero_hash" before
//@| let ghost base = writer.fed(); let ghost tx = *self.tx; let ghost ht = sighash_type; let ghost idx = input_index as int;
//@| let ghost mut pre = *self;
//@at "self . segwit_cache ( ) . prevouts . consensus_encode ( & mut writer ) ? ;" after
//@| proof { lemma_segwit_cache(pre, *self, self.segwit_cache->Some_0); }
//@at "if ! anyone_can_pay && sighash != EcdsaSighashType :: Single" before
//@| proof { assert(zero_hash@ =~= zeros32()); pre = *self; }
//@at "self . segwit_cache ( ) . sequences . consensus_encode ( & mut writer ) ? ;" after
//@| proof { lemma_segwit_cache(pre, *self, self.segwit_cache->Some_0); }
//@at "if anyone_can_pay { zero_hash" before nth=2
//@| proof { pre = *self; }
//@at "self . segwit_cache ( ) . issuances . consensus_encode ( & mut writer ) ? ;" after
//@| proof { lemma_segwit_cache(pre, *self, self.segwit_cache->Some_0); }
//@at "if sighash != EcdsaSighashType :: Single && sighash != EcdsaSighashType :: None { self . segwit_cache ( ) . outputs" before
//@| proof { pre = *self; }
//@at "self . segwit_cache ( ) . outputs . consensus_encode ( & mut writer ) ? ;" after
//@| proof { lemma_segwit_cache(pre, *self, self.segwit_cache->Some_0); }
//@at "Ok ( ( ) )" before
//@| proof {
//@|     assert(writer.fed() == segwit_stream(base, tx, idx, *script_code, value, ht));
//@|     lemma_segwit_stream(base, tx, idx, *script_code, value, ht);
//@| }
//@end
}

proof fn canary_segwit(tx: Transaction) ensures false {}
} // verus!
fn main() {}
