//@ property: C12
//@ unit: c12_discount tier=quick
//@ clause: for any number of inputs and outputs: weight() = scaled size with factor 4, size() = factor 1, vsize() = ceil(weight/4); discount_weight() = weight minus, for every output, (the bytes its witness occupies beyond the two of an empty witness) + 96 if its value is confidential + 128 if its nonce is confidential, with no underflow (every output contributes at least its discount to the weight); discount_vsize() = ceil(discount_weight/4); VarInt::size is 1/3/5/9 on the four ranges; encoded_length of Value/Asset/Nonce is 1/9/33, 1/33/33, 1/33/33; rangeproof_len / surjectionproof_len are the proof lengths or 0
use vstd::prelude::*;
verus! {
// ---- environment (ASSUMED) ----------------------------------------------------------------------------------------------
/// std: usize::div_ceil
pub assume_specification [usize::div_ceil] (a: usize, b: usize) -> (r: usize)
    requires b != 0
    ensures r == (a as int + b as int - 1) / (b as int);
pub struct PedersenCommitment { pub b: [u8; 33] }
pub struct Generator { pub b: [u8; 33] }
pub struct PublicKey { pub b: [u8; 33] }
pub struct AssetId { pub b: [u8; 32] }
pub struct Script { pub b: Vec<u8> }
impl Script {
    #[verifier::external_body]
    pub fn len(&self) -> (r: usize) ensures r == self.b@.len() { unimplemented!() }
}
pub struct RangeProof { pub b: Vec<u8> }
pub struct SurjectionProof { pub b: Vec<u8> }
impl RangeProof {
    /// serialized length of the proof (libsecp / Vec): assumed
    #[verifier::external_body]
    pub fn len(&self) -> (r: usize) ensures r == self.b@.len() { unimplemented!() }
}
impl SurjectionProof {
    #[verifier::external_body]
    pub fn len(&self) -> (r: usize) ensures r == self.b@.len() { unimplemented!() }
}
#[derive(Clone, Copy)] pub struct LockTime(pub u32);
pub struct Txid { pub b: [u8; 32] }
#[derive(Clone, Copy)] pub struct Tweak { pub b: [u8; 32] }
pub mod confidential {
    use vstd::prelude::*;
    use super::{PedersenCommitment, Generator, PublicKey, AssetId};
//@extract file=src/confidential.rs item="pub enum Value"
//@rewrite "# [ default ]" => ""
//@end
//@extract file=src/confidential.rs item="pub enum Asset"
//@rewrite "# [ default ]" => ""
//@end
//@extract file=src/confidential.rs item="pub enum Nonce"
//@rewrite "# [ default ]" => ""
//@end
    pub open spec fn value_len(v: Value) -> nat { match v { Value::Null => 1, Value::Explicit(_) => 9, Value::Confidential(_) => 33 } }
    pub open spec fn asset_len(v: Asset) -> nat { match v { Asset::Null => 1, _ => 33 } }
    pub open spec fn nonce_len(v: Nonce) -> nat { match v { Nonce::Null => 1, _ => 33 } }
    impl Value {
//@extract file=src/confidential.rs fn=encoded_length in="impl Value" vis=keep
//@ret r
//@spec
//@|     ensures r == value_len(*self)
//@end
//@extract file=src/confidential.rs fn=is_confidential in="impl Value" vis=keep
//@ret r
//@spec
//@|     ensures r == (*self is Confidential)
//@end
    }
    impl Asset {
//@extract file=src/confidential.rs fn=encoded_length in="impl Asset" vis=keep
//@ret r
//@spec
//@|     ensures r == asset_len(*self)
//@end
    }
    impl Nonce {
//@extract file=src/confidential.rs fn=encoded_length in="impl Nonce" vis=keep
//@ret r
//@spec
//@|     ensures r == nonce_len(*self)
//@end
//@extract file=src/confidential.rs fn=is_confidential in="impl Nonce" vis=keep
//@ret r
//@spec
//@|     ensures r == (*self is Confidential)
//@end
    }
}
use confidential::{value_len, asset_len, nonce_len};

//@extract file=src/encode.rs item="pub struct VarInt"
//@end
/// compact-size length of n (Bitcoin wire format)
pub open spec fn varint_len(n: nat) -> nat { if n <= 0xFC { 1 } else if n <= 0xFFFF { 3 } else if n <= 0xFFFF_FFFF { 5 } else { 9 } }
impl VarInt {
//@extract file=src/encode.rs fn=size in="impl VarInt" vis=keep
//@ret r
//@spec
//@|     ensures r == varint_len(self.0 as nat)
//@end
}

//@extract file=src/transaction.rs item="pub struct Sequence"
//@end
//@extract file=src/transaction.rs item="pub struct OutPoint"
//@end
//@extract file=src/transaction.rs item="pub struct AssetIssuance"
//@end
//@extract file=src/transaction.rs item="pub struct TxInWitness"
//@end
//@extract file=src/transaction.rs item="pub struct TxIn"
//@end
//@extract file=src/transaction.rs item="pub struct TxOutWitness"
//@end
//@extract file=src/transaction.rs item="pub struct TxOut"
//@end
//@extract file=src/transaction.rs item="pub struct Transaction"
//@end

// ---- specification: serialized lengths from the Elements wire format (property C12) ------------------------------------
pub open spec fn rp_len_spec(w: TxOutWitness) -> nat { match w.rangeproof { Some(p) => p.b@.len(), None => 0 } }
pub open spec fn sp_len_spec(w: TxOutWitness) -> nat { match w.surjection_proof { Some(p) => p.b@.len(), None => 0 } }
/// bytes of an output witness on the wire: surjection proof then range proof, each a length-prefixed vector (empty = 1 byte)
pub open spec fn out_wit_bytes(w: TxOutWitness) -> nat { varint_len(sp_len_spec(w)) + sp_len_spec(w) + varint_len(rp_len_spec(w)) + rp_len_spec(w) }
pub open spec fn out_wit_empty(w: TxOutWitness) -> bool { w.rangeproof is None && w.surjection_proof is None }
/// non-witness bytes of an output
pub open spec fn out_base_bytes(o: TxOut) -> nat {
    asset_len(o.asset) + value_len(o.value) + nonce_len(o.nonce) + varint_len(o.script_pubkey.b@.len()) + o.script_pubkey.b@.len()
}
/// what output `o` contributes to the scaled size
pub open spec fn out_scaled(o: TxOut, k: nat, flag: bool) -> nat { k * out_base_bytes(o) + (if flag { out_wit_bytes(o.witness) } else { 0 }) }
pub open spec fn outs_scaled(outs: Seq<TxOut>, k: nat, flag: bool, n: int) -> nat
    decreases n
{ if n <= 0 { 0 } else { outs_scaled(outs, k, flag, n - 1) + out_scaled(outs[n - 1], k, flag) } }
/// the discount of one output (ELIP-200 / property C12)
pub open spec fn out_discount(o: TxOut) -> nat {
    (if out_wit_bytes(o.witness) >= 2 { (out_wit_bytes(o.witness) - 2) as nat } else { 0 })
    + (if o.value is Confidential { 96nat } else { 0 }) + (if o.nonce is Confidential { 128nat } else { 0 })
}
pub open spec fn outs_discount(outs: Seq<TxOut>, n: int) -> nat
    decreases n
{ if n <= 0 { 0 } else { outs_discount(outs, n - 1) + out_discount(outs[n - 1]) } }
pub uninterp spec fn has_witness_spec(tx: Transaction) -> bool;
/// everything of the scaled size that does not come from the outputs (header, counts, inputs and their witnesses)
pub uninterp spec fn rest_scaled(tx: Transaction, k: nat) -> nat;

impl TxOutWitness {
    /// `rangeproof.as_ref().map_or(0, |p| p.len())` (closure through Option::map_or): ASSUMED here; Kani unit c12_size::txoutwitness_lens executes it
    #[verifier::external_body]
    pub fn rangeproof_len(&self) -> (r: usize) ensures r == rp_len_spec(*self) { unimplemented!() }
    #[verifier::external_body]
    pub fn surjectionproof_len(&self) -> (r: usize) ensures r == sp_len_spec(*self) { unimplemented!() }
}
/// ASSUMED facts about the transaction as a whole: a transaction without any witness has only empty output witnesses
/// (definition of has_witness), and serialized sizes fit a usize
#[verifier::external_body]
pub proof fn axiom_no_witness(tx: Transaction, j: int)
    requires !has_witness_spec(tx), 0 <= j < tx.output@.len()
    ensures out_wit_empty(tx.output@[j].witness)
{}
impl Transaction {
    /// `has_witness` (iterator `any` closures): ASSUMED to compute has_witness_spec; C02 unit c02_witness_empty proves the per-witness emptiness tests
    #[verifier::external_body]
    pub fn has_witness(&self) -> (r: bool) ensures r == has_witness_spec(*self) { unimplemented!() }
    /// `scaled_size` is written with iterator closures (`iter().map(..).sum()`), outside Verus' fragment: ASSUMED to return the
    /// wire-format length with non-witness bytes scaled by `scale_factor`; the bounded Kani unit c12_size compares it with the real encoder
    #[verifier::external_body]
    fn scaled_size(&self, scale_factor: usize) -> (r: usize)
        ensures r == rest_scaled(*self, scale_factor as nat) + outs_scaled(self.output@, scale_factor as nat, has_witness_spec(*self), self.output@.len() as int)
    { unimplemented!() }

//@extract file=src/transaction.rs fn=weight in="impl Transaction" vis=keep
//@ret r
//@spec
//@|     ensures r == rest_scaled(*self, 4) + outs_scaled(self.output@, 4, has_witness_spec(*self), self.output@.len() as int)
//@end
//@extract file=src/transaction.rs fn=size in="impl Transaction" vis=keep
//@ret r
//@spec
//@|     ensures r == rest_scaled(*self, 1) + outs_scaled(self.output@, 1, has_witness_spec(*self), self.output@.len() as int)
//@end
//@extract file=src/transaction.rs fn=vsize in="impl Transaction" vis=keep
//@ret r
//@spec
//@|     ensures r == (rest_scaled(*self, 4) + outs_scaled(self.output@, 4, has_witness_spec(*self), self.output@.len() as int) + 3) / 4
//@end
//@extract file=src/transaction.rs fn=discount_weight in="impl Transaction" vis=keep
//@ret r
//@rewrite "for out in & self . output" => "for out in it: &self.output"
//@spec
//@|     ensures r == rest_scaled(*self, 4) + outs_scaled(self.output@, 4, has_witness_spec(*self), self.output@.len() as int) - outs_discount(self.output@, self.output@.len() as int)
//@loop 1
//@|     invariant
//@|         it.seq().len() == self.output@.len(), forall|k: int| 0 <= k < it.seq().len() ==> *(#[trigger] it.seq()[k]) == self.output@[k],
//@|         weight == rest_scaled(*self, 4) + outs_scaled(self.output@, 4, has_witness_spec(*self), self.output@.len() as int) - outs_discount(self.output@, it.index@ as int),
//@|         rest_scaled(*self, 4) + outs_scaled(self.output@, 4, has_witness_spec(*self), self.output@.len() as int) <= usize::MAX,
//@loop-pos 1 body-start
//@| proof {
//@|     lemma_discount_fits(*self, it.index@ as int);
//@| }
//@end
//@extract file=src/transaction.rs fn=discount_vsize in="impl Transaction" vis=keep
//@ret r
//@spec
//@|     ensures r == (rest_scaled(*self, 4) + outs_scaled(self.output@, 4, has_witness_spec(*self), self.output@.len() as int) - outs_discount(self.output@, self.output@.len() as int) + 3) / 4
//@end
}

/// every output contributes at least its discount to the weight
proof fn lemma_out_covers_discount(tx: Transaction, j: int)
    requires 0 <= j < tx.output@.len()
    ensures out_scaled(tx.output@[j], 4, has_witness_spec(tx)) >= out_discount(tx.output@[j])
{
    let o = tx.output@[j];
    if !has_witness_spec(tx) { axiom_no_witness(tx, j); }
}
proof fn lemma_prefix_covers(tx: Transaction, lo: int, n: int)
    requires 0 <= lo <= n <= tx.output@.len()
    ensures
        outs_scaled(tx.output@, 4, has_witness_spec(tx), n) - outs_scaled(tx.output@, 4, has_witness_spec(tx), lo) >= outs_discount(tx.output@, n) - outs_discount(tx.output@, lo),
        outs_discount(tx.output@, n) >= outs_discount(tx.output@, lo),
    decreases n - lo
{
    if lo < n { lemma_prefix_covers(tx, lo, n - 1); lemma_out_covers_discount(tx, n - 1); }
}
/// at step i of the discount loop the running weight still holds the discounts of outputs i.. (no underflow), and the
/// witness bytes of output i are part of the (usize-sized) weight (no overflow when they are re-added up)
proof fn lemma_discount_fits(tx: Transaction, i: int)
    requires 0 <= i < tx.output@.len()
    ensures
        outs_scaled(tx.output@, 4, has_witness_spec(tx), tx.output@.len() as int) - outs_discount(tx.output@, i) >= out_discount(tx.output@[i]),
        outs_discount(tx.output@, i + 1) == outs_discount(tx.output@, i) + out_discount(tx.output@[i]),
        has_witness_spec(tx) ==> out_wit_bytes(tx.output@[i].witness) <= outs_scaled(tx.output@, 4, true, tx.output@.len() as int),
        !has_witness_spec(tx) ==> out_wit_empty(tx.output@[i].witness),
{
    let n = tx.output@.len() as int;
    lemma_prefix_covers(tx, 0, i);
    lemma_out_covers_discount(tx, i);
    lemma_prefix_covers(tx, i + 1, n);
    let f = has_witness_spec(tx);
    assert(outs_scaled(tx.output@, 4, f, i + 1) == outs_scaled(tx.output@, 4, f, i) + out_scaled(tx.output@[i], 4, f));
    if !f { axiom_no_witness(tx, i); }
}

proof fn canary_discount(tx: Transaction) ensures false {}
} // verus!
fn main() {}
