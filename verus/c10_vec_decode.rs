//@ property: C10 C01
//@ unit: c10_vec_decode tier=quick
//@ clause: `impl Decodable for Vec<T>`: no allocation is requested whose byte size (element count x size_of::<T>(), in unbounded arithmetic) exceeds MAX_VEC_SIZE, whatever length the stream declares (all u64 lengths, all element sizes); the length arithmetic cannot overflow or panic; an accepted stream yields exactly the declared number of elements.
use vstd::prelude::*;
verus! {
global size_of usize == 8; // 64-bit target assumed: `len as usize` does not truncate a u64 length
pub const MAX_VEC_SIZE: usize = 4_000_000;
pub enum Error { ParseFailed(&'static str), OversizedVectorAllocation { requested: usize, max: usize }, Io }
pub struct VarInt(pub u64);
pub trait ReadExt { spec fn rest(&self) -> Seq<u8>; }
pub trait Decodable: Sized {}
pub trait AnyT {}

pub uninterp spec fn elem_size<T>() -> nat;
pub uninterp spec fn t_is_u8<T>() -> bool;

#[verifier::external_body]
fn type_is_u8<T>() -> (r: bool) ensures r == t_is_u8::<T>() { unimplemented!() }
#[verifier::external_body]
fn size_of_t<T>() -> (r: usize) ensures r == elem_size::<T>() { unimplemented!() }
#[verifier::external_body]
fn dec_varint<D: ReadExt>(d: &mut D) -> (r: Result<VarInt, Error>) { unimplemented!() }
#[verifier::external_body]
fn dec_elem<T: Decodable, D: ReadExt>(d: &mut D) -> (r: Result<T, Error>) { unimplemented!() }
#[verifier::external_body]
fn read_slice_into<D: ReadExt>(d: &mut D, v: &mut Vec<u8>) -> (r: Result<(), Error>)
    ensures final(v)@.len() == old(v)@.len()
{ unimplemented!() }
// the allocation sites: the obligation of the property is their precondition
#[verifier::external_body]
fn zeroed_bytes(n: usize) -> (v: Vec<u8>)
    requires n <= MAX_VEC_SIZE
    ensures v@.len() == n
{ unimplemented!() }
#[verifier::external_body]
fn with_capacity_guarded<T>(n: usize) -> (v: Vec<T>)
    requires n * elem_size::<T>() <= MAX_VEC_SIZE
    ensures v@.len() == 0
{ unimplemented!() }
// `unsafe { transmute::<Vec<u8>, Vec<T>>(v) }` (T == u8 checked by the caller)
#[verifier::external_body]
fn transmute_vec<T>(v: Vec<u8>) -> (r: Vec<T>)
    requires t_is_u8::<T>()
    ensures r@.len() == v@.len()
{ unimplemented!() }

pub struct VecDecoder;
impl VecDecoder {
//@extract file=src/encode.rs fn=consensus_decode in="impl<T: Decodable + any::Any> Decodable for Vec<T>"
//@rewrite "< D : crate :: ReadExt >" => "<T: Decodable, D: ReadExt>"
//@rewrite "Result < Self , Error >" => "(r: Result<Vec<T>, Error>)"
//@rewrite "any :: TypeId :: of :: < T > ( ) == any :: TypeId :: of :: < u8 > ( )" => "type_is_u8::<T>()"
//@rewrite "VarInt :: consensus_decode ( & mut d )" => "dec_varint(&mut d)" nth=all
//@rewrite "vec ! [ 0 ; s ]" => "zeroed_bytes(s)"
//@rewrite "d . read_slice ( & mut v ) ?" => "read_slice_into(&mut d, &mut v)?"
//@rewrite "unsafe { Ok ( std :: mem :: transmute :: < Vec < u8 > , Vec < T > > ( v ) ) }" => "Ok(transmute_vec::<T>(v))"
//@rewrite "mem :: size_of :: < T > ( )" => "size_of_t::<T>()"
//@rewrite "Vec :: with_capacity (" => "with_capacity_guarded::<T>("
//@rewrite "for _ in 0 .. len" => "for k in it: 0..len invariant ret@.len() == k,"
//@rewrite "Decodable :: consensus_decode ( & mut d ) ?" => "dec_elem::<T, D>(&mut d)?"
//@spec
//@|     ensures
//@|         r matches Ok(v) ==> (t_is_u8::<T>() ==> v@.len() <= MAX_VEC_SIZE)
//@|             && (!t_is_u8::<T>() ==> v@.len() * elem_size::<T>() <= MAX_VEC_SIZE),
//@end
}
proof fn canary_vec_decode<T>() ensures elem_size::<T>() * 5 <= MAX_VEC_SIZE {}
} // verus!
fn main() {}
