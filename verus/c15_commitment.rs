//@ property: C15
//@ unit: c15_commitment tier=quick
//@ clause: ControlBlock::verify_taproot_commitment folds the merkle branch from TapLeafHash(script, leaf version) with the sorted-pair TapBranch/elements hash and returns libsecp's verdict on tweak_add_check(internal key, output key, parity, H_TapTweak(internal key ‖ root)); tap_tweak / new_key_spend set output key = internal key tweaked by H_TapTweak(internal key ‖ merkle root); composed: for every leaf of a well-formed node the control block (that leaf's version and stored branch) verifies iff libsecp confirms that tweak, and it does verify against the key/parity new_key_spend computes (libsecp add_tweak/tweak_add_check consistency assumed); ControlBlock::size = 33 + 32*depth
use vstd::prelude::*;
verus! {
//@include inc/c15_taproot_env.rs
//@include inc/c15_node_fns.rs

// ---- real definitions, extracted verbatim -----------------------------------------------------------------------------
//@extract file=src/taproot.rs item="pub struct ControlBlock"
//@end
//@extract file=src/taproot.rs item="pub const TAPROOT_CONTROL_NODE_SIZE"
//@end
//@extract file=src/taproot.rs item="pub const TAPROOT_CONTROL_BASE_SIZE"
//@end
//@extract file=src/taproot.rs item="pub enum TaprootError"
//@end
use std::collections::{BTreeMap, BTreeSet};
//@extract file=src/taproot.rs item="type ScriptMerkleProofMap"
//@end
//@extract file=src/taproot.rs item="pub struct TaprootSpendInfo"
//@end
// derived `Clone` of TaprootMerkleBranch (attribute, assumed)
impl Clone for TaprootMerkleBranch { #[verifier::external_body] fn clone(&self) -> (r: Self) ensures r == *self { unimplemented!() } }

// ---- specification, from the property text ---------------------------------------------------------------------------
/// "the tagged hash of the internal key and the merkle root" (key only when there is no script tree)
spec fn tweak_hash_spec(internal: Seq<u8>, root: Option<TapNodeHash>) -> Seq<u8> {
    match root { Some(h) => h_tweak(internal + h@), None => h_tweak(internal) }
}
/// what a control block commits to: the merkle root reached from (script, leaf version) along its branch
spec fn cb_root(cb: ControlBlock, script: Script) -> Seq<u8> {
    fold_path(tap_leaf_hash(script, cb.leaf_version), branch_seq(cb.merkle_branch))
}
spec fn cb_tweak(cb: ControlBlock, script: Script) -> Seq<u8> { h_tweak(cb.internal_key@ + cb_root(cb, script)) }
/// the tweak is a valid scalar and the tweaked point is not the point at infinity. Both fail only with negligible
/// probability; the code `.expect()`s them ("statistically extremely unlikely to panic"), so panic-freedom of the
/// functions below is relative to this precondition.
spec fn tweakable(internal: Seq<u8>, root: Option<TapNodeHash>) -> bool {
    scalar_in_range(tweak_hash_spec(internal, root)) && tweak_add_ok(internal, tweak_hash_spec(internal, root))
}

// ---- the real functions ----------------------------------------------------------------------------------------------
impl TapTweakHash {
//@extract file=src/taproot.rs fn=from_key_and_tweak in="impl TapTweakHash"
//@ret r
//@spec
//@|     ensures r@ == tweak_hash_spec(internal_key@, merkle_root)
//@end
//@extract file=src/taproot.rs fn=to_scalar in="impl TapTweakHash"
//@ret r
//@spec
//@|     requires scalar_in_range(self@)
//@|     ensures r@ == self@
//@end
}
// `impl TapTweak for UntweakedPublicKey` (src/schnorr.rs): the trait method body is extracted into an inherent impl of the
// (environment) key type, because a precondition cannot be attached to an impl of a trait whose declaration is extracted
// verbatim. Callers (`internal_key.tap_tweak(secp, root)`) resolve to it unchanged. Its `debug_assert!` is a proof
// obligation here (discharged by the assumed libsecp consistency of add_tweak and tweak_add_check).
impl secp256k1_zkp::XOnlyPublicKey {
//@extract file=src/schnorr.rs fn=tap_tweak in="impl TapTweak for UntweakedPublicKey"
//@ret r
//@spec
//@|     requires tweakable(self@, merkle_root)
//@|     ensures
//@|         (r.0.0@, r.1 is Odd) == tweak_add_spec(self@, tweak_hash_spec(self@, merkle_root)),
//@|         tweak_check_spec(self@, r.0.0@, r.1 is Odd, tweak_hash_spec(self@, merkle_root)),
//@end
}
impl TaprootSpendInfo {
//@extract file=src/taproot.rs fn=new_key_spend in="impl TaprootSpendInfo"
//@ret r
//@spec
//@|     requires tweakable(internal_key@, merkle_root)
//@|     ensures
//@|         r.internal_key == internal_key, r.merkle_root == merkle_root,
//@|         (r.output_key.0@, r.output_key_parity is Odd) == tweak_add_spec(internal_key@, tweak_hash_spec(internal_key@, merkle_root)),
//@|         tweak_check_spec(internal_key@, r.output_key.0@, r.output_key_parity is Odd, tweak_hash_spec(internal_key@, merkle_root)),
//@end
//@extract file=src/taproot.rs fn=tap_tweak in="impl TaprootSpendInfo"
//@ret r
//@spec
//@|     ensures r@ == tweak_hash_spec(self.internal_key@, self.merkle_root)
//@end
}
impl TaprootMerkleBranch {
//@extract file=src/taproot.rs fn=as_inner in="impl TaprootMerkleBranch"
//@ret r
//@spec
//@|     ensures r@ == self.0@
//@end
//@extract file=src/taproot.rs fn=from_inner in="impl TaprootMerkleBranch"
//@ret r
//@spec
//@|     ensures inner@.len() <= 128 ==> (r matches Ok(b) && b.0 == inner),
//@|         inner@.len() > 128 ==> (r matches Err(TaprootError::InvalidMerkleTreeDepth(d)) && d == inner@.len()),
//@end
}
impl ControlBlock {
//@extract file=src/taproot.rs fn=size in="impl ControlBlock"
//@ret r
//@spec
//@|     requires self.merkle_branch.0@.len() <= 128
//@|     ensures r == 33 + 32 * self.merkle_branch.0@.len()
//@end
//@extract file=src/taproot.rs fn=verify_taproot_commitment in="impl ControlBlock"
//@ret r
//@spec
//@|     requires scalar_in_range(cb_tweak(*self, *script))
//@|     ensures r == tweak_check_spec(self.internal_key@, output_key.0@, self.output_key_parity is Odd, cb_tweak(*self, *script))
//@at "for elem in" after
//@| it:
//@loop 1
//@|     invariant
//@|         it.seq().len() == self.merkle_branch.0@.len(),
//@|         forall|k: int| 0 <= k < it.seq().len() ==> *(#[trigger] it.seq()[k]) == self.merkle_branch.0@[k],
//@|         curr_hash@ == fold_path(tap_leaf_hash(*script, self.leaf_version), branch_seq(self.merkle_branch).take(it.index@ as int)),
//@at "curr_hash = TapNodeHash ( eng . finalize ( ) ) ;" before
//@| proof {
//@|     broadcast use axiom_array32_ord;
//@|     let i = it.index@ as int;
//@|     let bs = branch_seq(self.merkle_branch);
//@|     assert(*elem == self.merkle_branch.0@[i]);
//@|     assert(bs.take(i + 1) =~= bs.take(i).push(elem@));
//@|     lemma_fold_push(tap_leaf_hash(*script, self.leaf_version), bs.take(i), elem@);
//@|     lemma_pair_code(curr_hash@, elem@);
//@| }
//@loop-pos 1 after
//@| proof { let bs = branch_seq(self.merkle_branch); assert(bs.take(bs.len() as int) =~= bs); }
//@end
}

// ---- clients: the property's positive direction, composed from the contracts above --------------------------------
// (modular: only the `ensures` of combine / new_leaf_with_ver / new_key_spend / verify_taproot_commitment are visible)

/// For a well-formed node and ANY of its leaves: a control block that carries that leaf's version and stored merkle
/// branch (what TaprootSpendInfo::control_block assembles from the script map filled by from_node_info) commits to
/// exactly the node's hash, for whatever internal key and parity; its serialized size is 33 + 32*depth <= 33 + 32*128.
proof fn lemma_leaf_control_block_commits(n: NodeInfo, i: int, cb: ControlBlock)
    requires node_wf(n), 0 <= i < n.leaves@.len(),
        cb.leaf_version == n.leaves@[i].ver, cb.merkle_branch.0@ == n.leaves@[i].merkle_branch.0@,
    ensures
        cb_root(cb, n.leaves@[i].script) == n.hash@,
        cb_tweak(cb, n.leaves@[i].script) == h_tweak(cb.internal_key@ + n.hash@),
        cb.merkle_branch.0@.len() <= 128,
{
    assert(leaf_ok(n.leaves@[i], n.hash@));
    assert(branch_seq(cb.merkle_branch) =~= branch_seq(n.leaves@[i].merkle_branch));
}

/// Verify leaf `i` of a well-formed node against an output key. The verdict is libsecp's verdict on the tweak of the
/// internal key by H_TapTweak(internal key ‖ node hash) -- nothing else about the tree matters.
fn client_verify_leaf<C: secp256k1_zkp::Verification>(
    secp: &Secp256k1<C>, n: &NodeInfo, i: usize,
    internal_key: UntweakedPublicKey, parity: secp256k1_zkp::Parity, output_key: &TweakedPublicKey,
) -> (r: bool)
    requires node_wf(*n), i < n.leaves@.len(), scalar_in_range(h_tweak(internal_key@ + n.hash@))
    ensures r == tweak_check_spec(internal_key@, output_key.0@, parity is Odd, h_tweak(internal_key@ + n.hash@))
{
    let l = &n.leaves[i];
    let cb = ControlBlock { leaf_version: l.ver, output_key_parity: parity, internal_key, merkle_branch: l.merkle_branch.clone() };
    proof { lemma_leaf_control_block_commits(*n, i as int, cb); }
    let sz = cb.size();
    assert(sz == 33 + 32 * l.merkle_branch.0@.len());
    cb.verify_taproot_commitment(secp, output_key, &l.script)
}

/// End to end, for ANY well-formed tree and ANY of its leaves (relative to the ASSUMED libsecp consistency of
/// add_tweak and tweak_add_check): the output key and parity that new_key_spend computes for the tree's root accept the
/// leaf's control block.
fn client_end_to_end<C: secp256k1_zkp::Verification>(
    secp: &Secp256k1<C>, n: &NodeInfo, i: usize, internal_key: UntweakedPublicKey,
) -> (r: bool)
    requires node_wf(*n), i < n.leaves@.len(), tweakable(internal_key@, Some(n.hash))
    ensures r
{
    let info = TaprootSpendInfo::new_key_spend(secp, internal_key, Some(n.hash));
    client_verify_leaf(secp, n, i, internal_key, info.output_key_parity, &info.output_key)
}

/// The three-leaf tree  ((s0, s1), s2)  built from scratch: node_wf is established by the leaf constructor and kept by
/// combine (which cannot refuse at depth 2), so the precondition of the clients above is reachable.
fn build_three(s0: Script, s1: Script, s2: Script, v: LeafVersion) -> (root: NodeInfo)
    ensures node_wf(root), root.leaves@.len() == 3,
        root.leaves@[0].script == s0 && root.leaves@[1].script == s1 && root.leaves@[2].script == s2,
        root.hash@ == pair_hash(pair_hash(tap_leaf_hash(s0, v), tap_leaf_hash(s1, v)), tap_leaf_hash(s2, v)),
{
    let n0 = NodeInfo::new_leaf_with_ver(s0, v);
    let n1 = NodeInfo::new_leaf_with_ver(s1, v);
    let n2 = NodeInfo::new_leaf_with_ver(s2, v);
    match NodeInfo::combine(n0, n1) {
        Ok(n01) => {
            proof {   // both leaves of n01 carry a 1-entry branch
                assert(n01.leaves@[1] == n01.leaves@[n0.leaves@.len() as int + 0]);
                assert(n01.leaves@[0].merkle_branch.0@.len() == 1 && n01.leaves@[1].merkle_branch.0@.len() == 1);
            }
            match NodeInfo::combine(n01, n2) {
                Ok(root) => {
                    proof { assert(root.leaves@[2] == root.leaves@[n01.leaves@.len() as int + 0]); }
                    root
                },
                Err(_) => { assert(false); unreached() }   // depth 2 < 128: combine cannot refuse
            }
        },
        Err(_) => { assert(false); unreached() }
    }
}
fn client_three_leaves<C: secp256k1_zkp::Verification>(
    secp: &Secp256k1<C>, s0: Script, s1: Script, s2: Script, v: LeafVersion, i: usize, internal_key: UntweakedPublicKey,
) -> (r: bool)
    requires i < 3,
        ({ let t = h_tweak(internal_key@ + pair_hash(pair_hash(tap_leaf_hash(s0, v), tap_leaf_hash(s1, v)), tap_leaf_hash(s2, v)));
           scalar_in_range(t) && tweak_add_ok(internal_key@, t) }),
    ensures r
{
    let root = build_three(s0, s1, s2, v);
    client_end_to_end(secp, &root, i, internal_key)
}

// vacuity canaries (each must FAIL): the preconditions used above are satisfiable and the assumed axioms are not contradictory
proof fn canary_commitment(cb: ControlBlock, script: Script, x: [u8; 32], y: [u8; 32])
    requires scalar_in_range(cb_tweak(cb, script))
    ensures false
{
    broadcast use axiom_array32_ord;
    lemma_pair_code(x@, y@); lemma_pair_comm(x@, y@);
}
proof fn canary_end_to_end(key: Seq<u8>, n: NodeInfo, i: int)
    requires node_wf(n), 0 <= i < n.leaves@.len(), tweakable(key, Some(n.hash))
    ensures false
{
    axiom_leaf_vec_len(n.leaves);
}

} // verus!
fn main() {}
