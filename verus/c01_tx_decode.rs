//@ property: C01
//@ unit: c01_tx_decode tier=quick
//@ clause: Transaction decoder, witness flag byte: `impl Decodable for Transaction` accepts a stream only if the byte after the 4-byte version is 0 or 1; with flag 1 at least one input/output witness of the result is non-empty (the canonical encoder writes flag 1 exactly then, c02_ids), with flag 0 every witness of the result is empty; every other flag byte is rejected. For every stream, no length bound.
use vstd::prelude::*;
verus! {
// ---- environment (assumed contracts; the leaf codecs are the subject of the C01 Kani units) ----
pub mod io { use vstd::prelude::*; pub trait Read { spec fn rest(&self) -> Seq<u8>; } }
pub mod encode { pub enum Error { ParseFailed(&'static str), Io } }
pub struct LockTime { pub v: u32 }
pub struct TxInWitness { pub fields_empty: bool }
pub struct TxOutWitness { pub fields_empty: bool }
impl TxInWitness {
    // proved for the real type in c02_witness_empty
    pub fn is_empty(&self) -> (r: bool) ensures r == self.fields_empty { self.fields_empty }
}
impl TxOutWitness {
    pub fn is_empty(&self) -> (r: bool) ensures r == self.fields_empty { self.fields_empty }
}
pub struct TxIn { pub body: u64, pub witness: TxInWitness }
pub struct TxOut { pub body: u64, pub witness: TxOutWitness }
pub struct Transaction { pub version: u32, pub lock_time: LockTime, pub input: Vec<TxIn>, pub output: Vec<TxOut> }

pub open spec fn all_in_empty_spec(v: Seq<TxIn>) -> bool { forall|i: int| 0 <= i < v.len() ==> v[i].witness.fields_empty }
pub open spec fn all_out_empty_spec(v: Seq<TxOut>) -> bool { forall|i: int| 0 <= i < v.len() ==> v[i].witness.fields_empty }
pub open spec fn tx_has_witness(tx: Transaction) -> bool { !(all_in_empty_spec(tx.input@) && all_out_empty_spec(tx.output@)) }

#[verifier::external_body]
fn dec_u32<D: io::Read>(d: &mut D) -> (r: Result<u32, encode::Error>)
    ensures r is Ok ==> old(d).rest().len() >= 4 && final(d).rest() == old(d).rest().skip(4)
{ unimplemented!() }
#[verifier::external_body]
fn dec_u8<D: io::Read>(d: &mut D) -> (r: Result<u8, encode::Error>)
    ensures r matches Ok(b) ==> old(d).rest().len() >= 1 && b == old(d).rest()[0] && final(d).rest() == old(d).rest().skip(1)
{ unimplemented!() }
// TxIn::consensus_decode / TxOut::consensus_decode leave the witness at its default (empty): real code `witness: TxInWitness::default()`
#[verifier::external_body]
fn dec_vec_txin<D: io::Read>(d: &mut D) -> (r: Result<Vec<TxIn>, encode::Error>)
    ensures r matches Ok(v) ==> all_in_empty_spec(v@)
{ unimplemented!() }
#[verifier::external_body]
fn dec_vec_txout<D: io::Read>(d: &mut D) -> (r: Result<Vec<TxOut>, encode::Error>)
    ensures r matches Ok(v) ==> all_out_empty_spec(v@)
{ unimplemented!() }
#[verifier::external_body]
fn dec_locktime<D: io::Read>(d: &mut D) -> (r: Result<LockTime, encode::Error>)
{ unimplemented!() }
// the two `for x in &mut vec { x.witness = Decodable::consensus_decode(&mut d)?; }` loops (outside Verus' fragment): no contract on the
// decoded witnesses beyond the vector keeping its length
#[verifier::external_body]
fn dec_in_witnesses<D: io::Read>(v: &mut Vec<TxIn>, d: &mut D) -> (r: Result<(), encode::Error>)
    ensures final(v)@.len() == old(v)@.len()
{ unimplemented!() }
#[verifier::external_body]
fn dec_out_witnesses<D: io::Read>(v: &mut Vec<TxOut>, d: &mut D) -> (r: Result<(), encode::Error>)
    ensures final(v)@.len() == old(v)@.len()
{ unimplemented!() }
// `vec.iter().all(|x| x.witness.is_empty())`
#[verifier::external_body]
fn all_in_empty(v: &Vec<TxIn>) -> (r: bool) ensures r == all_in_empty_spec(v@) { unimplemented!() }
#[verifier::external_body]
fn all_out_empty(v: &Vec<TxOut>) -> (r: bool) ensures r == all_out_empty_spec(v@) { unimplemented!() }

pub trait Decodable: Sized {
    fn consensus_decode<D: io::Read>(d: D) -> (r: Result<Self, encode::Error>);
}
pub struct TxDecoder;
impl TxDecoder {
//@extract file=src/transaction.rs fn=consensus_decode in="impl Decodable for Transaction"
//@ret r
//@rewrite "u32 :: consensus_decode ( & mut d )" => "dec_u32(&mut d)"
//@rewrite "u8 :: consensus_decode ( & mut d )" => "dec_u8(&mut d)"
//@rewrite "Vec :: < TxIn > :: consensus_decode ( & mut d )" => "dec_vec_txin(&mut d)"
//@rewrite "Vec :: < TxOut > :: consensus_decode ( & mut d )" => "dec_vec_txout(&mut d)"
//@rewrite "LockTime :: consensus_decode ( & mut d )" => "dec_locktime(&mut d)"
//@rewrite "for i in & mut input { i . witness = Decodable :: consensus_decode ( & mut d ) ? ; }" => "dec_in_witnesses(&mut input, &mut d)?;"
//@rewrite "for o in & mut output { o . witness = Decodable :: consensus_decode ( & mut d ) ? ; }" => "dec_out_witnesses(&mut output, &mut d)?;"
//@rewrite "input . iter ( ) . all ( | input | input . witness . is_empty ( ) )" => "all_in_empty(&input)"
//@rewrite "output . iter ( ) . all ( | output | output . witness . is_empty ( ) )" => "all_out_empty(&output)"
//@spec
//@|     ensures
//@|         r matches Ok(tx) ==> d.rest().len() >= 5
//@|             && (d.rest()[4] == 0u8 || d.rest()[4] == 1u8)
//@|             && ((d.rest()[4] == 1u8) == tx_has_witness(tx)),
//@end
}
proof fn canary_tx_decode(d: Seq<u8>) ensures d.len() >= 5 ==> d[4] <= 1u8 {}
} // verus!
fn main() {}
