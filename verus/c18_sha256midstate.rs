//@ property: C18
//@ unit: c18_sha256midstate tier=quick
//@ clause: sha256midstate(l, r) feeds exactly l then r (64 bytes) to a fresh SHA-256 engine and returns its midstate, i.e. compress(l, r) (compression function on the initial state, no padding); the `expect` cannot fail for 32-byte operands
use vstd::prelude::*;
verus! {
//@include inc/mroot_spec.rs

// ---- environment: assumed contract of bitcoin_hashes' sha256 engine (streaming; midstate defined at block boundaries)
pub mod sha256 {
    use vstd::prelude::*;
    pub struct Midstate { pub bytes: [u8; 32], pub length: u64 }
    impl Midstate { pub open spec fn view(&self) -> Seq<u8> { self.bytes@ } }
    #[derive(Debug)]
    pub struct MidstateError;
    pub struct HashEngine { pub fed: Ghost<Seq<u8>> }
    pub struct Hash;
    impl Hash {
        #[verifier::external_body]
        pub fn engine() -> (e: HashEngine) ensures e.fed@ == Seq::<u8>::empty() { unimplemented!() }
    }
    impl HashEngine {
        #[verifier::external_body]
        pub fn input(&mut self, data: &[u8]) ensures final(self).fed@ == old(self).fed@ + data@ { unimplemented!() }
        // midstate(): Ok exactly when a whole number of 64-byte blocks has been fed; after ONE block b it is
        // compress(b[0..32], b[32..64]) -- this is the definition of `compress` used by every C18/C19/C11 unit.
        #[verifier::external_body]
        pub fn midstate(&self) -> (r: Result<Midstate, MidstateError>)
            ensures self.fed@.len() % 64 == 0 ==> r is Ok,
                    self.fed@.len() == 64 ==> r is Ok && r->Ok_0@ == super::compress(self.fed@.subrange(0, 32), self.fed@.subrange(32, 64))
        { unimplemented!() }
    }
}
pub trait HashEngine {}

//@extract file=src/fast_merkle_root.rs fn=sha256midstate
//@ret r
//@spec
//@|     requires left@.len() == 32, right@.len() == 32
//@|     ensures r@ == compress(left@, right@)
//@at "engine . midstate ( )" before
//@| proof {
//@|     assert((left@ + right@).subrange(0, 32) =~= left@);
//@|     assert((left@ + right@).subrange(32, 64) =~= right@);
//@|     assert(Seq::<u8>::empty() + left@ =~= left@);
//@| }
//@end

proof fn canary_sha256midstate(l: Seq<u8>, r: Seq<u8>) requires l.len() == 32, r.len() == 32 ensures false {}

} // verus!
fn main() {}
