//@ property: C15
//@ unit: c15_node_combine tier=quick
//@ clause: NodeInfo::combine(a,b): Ok(r) => r.hash = H_branch(min(a.hash,b.hash) ‖ max(..)) (byte-lexicographic sorted pair, a.hash == b.hash included), r.leaves = a.leaves (each branch + b.hash) ++ b.leaves (each branch + a.hash), and the merkle-path invariant node_wf is preserved; Err(InvalidMerkleTreeDepth) iff some branch already has 128 entries (TaprootMerkleBranch::push); leaf / hidden constructors establish node_wf
use vstd::prelude::*;
verus! {
//@include inc/c15_taproot_env.rs

//@include inc/c15_node_fns.rs

// vacuity canary (must FAIL): node_wf is satisfiable and the assumed axioms / order lemmas are not contradictory
proof fn canary_combine(a: NodeInfo, b: NodeInfo)
    requires node_wf(a), node_wf(b), a.leaves@.len() > 0, b.leaves@.len() > 0
    ensures false
{
    axiom_leaf_vec_len(a.leaves); axiom_leaf_vec_len(b.leaves);
    lemma_pair_code(a.hash@, b.hash@); lemma_pair_comm(a.hash@, b.hash@); lemma_lex_irrefl(a.hash@);
}

} // verus!
fn main() {}
