//@ property: C15
//@ unit: c15_node_combine tier=quick
//@ clause: NodeInfo::combine(a,b): Ok(r) => r.hash = H_branch(min(a.hash,b.hash) ‖ max(..)) (byte-lexicographic sorted pair, a.hash == b.hash included), r.leaves = a.leaves (each branch + b.hash) ++ b.leaves (each branch + a.hash), and the merkle-path invariant node_wf is preserved; Err(InvalidMerkleTreeDepth) iff some branch already has 128 entries (TaprootMerkleBranch::push); leaf / hidden constructors establish node_wf
use vstd::prelude::*;
verus! {
//@include inc/c15_taproot_env.rs

//@include inc/c15_node_fns.rs

proof fn canary_combine(a: NodeInfo, b: NodeInfo) requires node_wf(a), node_wf(b) ensures false {}

} // verus!
fn main() {}
