//@ property: C03 C13
//@ unit: c03_taproot tier=quick
//@ clause: taproot_encode_signing_data_to writes exactly the Elements BIP341 signing message, for any number of inputs/outputs, every input index, all seven Schnorr hash types, key and script path, with and without annex, Prevouts::All and Prevouts::One: genesis ‖ genesis ‖ hash_type ‖ nVersion ‖ nLockTime ‖ [unless ANYONECANPAY: sha_outpoint_flags ‖ sha_prevouts ‖ sha_asset_amounts ‖ sha_scriptpubkeys ‖ sha_sequences ‖ sha_issuances ‖ sha_issuance_rangeproofs] ‖ [unless NONE/SINGLE: sha_outputs ‖ sha_output_witnesses] ‖ spend_type ‖ [ANYONECANPAY: outpoint_flag ‖ outpoint ‖ asset ‖ value ‖ scriptPubKey ‖ nSequence ‖ (issuance ‖ sha of its two range proofs | 0x00) | else input index] ‖ [sha_annex] ‖ [SINGLE: sha_single_output ‖ sha_single_output_witness] ‖ [script path: leaf hash ‖ 0x00 ‖ codesep position]; it fails exactly for the stated prevout/index errors; the result does not depend on what the cache already holds (C13), and for ANYONECANPAY types Prevouts::One yields the message of Prevouts::All
use vstd::prelude::*;
verus! {
//@include inc/c03_sighash_env.rs
//@include inc/c03_cache_assumed.rs

// ---- environment specific to the taproot message -------------------------------------------------------------------
//@extract file=src/sighash.rs item="pub enum Error"
//@end
impl vstd::std_specs::convert::FromSpecImpl<encode::Error> for Error {
    open spec fn obeys_from_spec() -> bool { true }
    open spec fn from_spec(e: encode::Error) -> Error { Error::Encode(e) }
}
impl From<encode::Error> for Error {
//@extract file=src/sighash.rs fn=from in="impl From < encode :: Error > for Error"
//@end
}

//@extract file=src/sighash.rs item="pub enum Prevouts"
//@end
//@extract file=src/sighash.rs item="const KEY_VERSION_0"
//@end
//@extract file=src/sighash.rs item="pub struct Annex"
//@end
impl<'a> Annex<'a> {
    pub closed spec fn view(&self) -> Seq<u8> { self.0@ }
//@extract file=src/sighash.rs fn=as_bytes in="impl < 'a > Annex < 'a >" vis=keep
//@ret r
//@spec
//@|     ensures r@ == self@
//@end
}
impl<'a> Encodable for Annex<'a> {
    closed spec fn ser(&self) -> Seq<u8> { compact_size(self.0@.len()) + self.0@ }
//@extract file=src/sighash.rs fn=consensus_encode in="impl Encodable for Annex < '_ >"
//@rewrite "writer : W" => "writer: &mut W"
//@ret r
//@end
}

pub open spec fn all_of<T: Borrow<TxOut>>(p: Prevouts<T>) -> Seq<TxOut> { match p { Prevouts::All(s) => spent_of(s@), Prevouts::One(_, _) => Seq::<TxOut>::empty() } }

impl<T> Prevouts<'_, T> where T: Borrow<TxOut> {
//@extract file=src/sighash.rs fn=check_all in="impl < T > Prevouts < '_ , T > where T : Borrow < TxOut >"
//@ret r
//@spec
//@|     ensures (r is Err) == (match *self { Prevouts::All(p) => p@.len() != tx.input@.len(), _ => false }), r matches Err(e) ==> e is PrevoutsSize
//@end
//@extract file=src/sighash.rs fn=get_all in="impl < T > Prevouts < '_ , T > where T : Borrow < TxOut >"
//@ret r
//@spec
//@|     ensures (r is Err) == (*self is One), r matches Err(e) ==> e is PrevoutKind,
//@|         r matches Ok(s) ==> (match *self { Prevouts::All(p) => s@ == p@, _ => false })
//@end
    /// `Prevouts::get` (slice::get + Option::map(T::borrow) + ok_or): ASSUMED here, decided by the Kani unit c13_prevouts_one
    #[verifier::external_body]
    fn get(&self, input_index: usize) -> (r: Result<&TxOut, Error>)
        ensures
            (r is Err) == (match *self { Prevouts::One(i, _) => i != input_index, Prevouts::All(p) => input_index >= p@.len() }),
            r matches Err(e) ==> e is PrevoutIndex,
            r matches Ok(o) ==> *o == prev_of(*self, input_index as int),
    { unimplemented!() }
}
pub open spec fn prev_of<T: Borrow<TxOut>>(p: Prevouts<T>, idx: int) -> TxOut {
    match p { Prevouts::One(_, o) => o.bview(), Prevouts::All(s) => s@[idx].bview() }
}

// ---- specification: Elements BIP341 signing message (doc/taproot-sighash in Elements; property C03) -------------------
pub open spec fn t_acp(ht: SchnorrSighashType) -> bool { schnorr_u8(ht) & 0x80 == 0x80 }
pub open spec fn t_none(ht: SchnorrSighashType) -> bool { schnorr_u8(ht) & 3 == 2 }
pub open spec fn t_single(ht: SchnorrSighashType) -> bool { schnorr_u8(ht) & 3 == 3 }
pub open spec fn spend_type_spec(annex: bool, ext: bool) -> u8 { ((if ext { 2u8 } else { 0u8 }) + (if annex { 1u8 } else { 0u8 })) as u8 }
// the message, part by part
pub open spec fn p_hdr(tx: Transaction, ht: SchnorrSighashType, genesis: BlockHash) -> Seq<u8> {
    genesis.0@ + genesis.0@ + seq![schnorr_u8(ht)] + le32(tx.version) + ser_locktime(tx.lock_time)
}
pub open spec fn p_inputs(tx: Transaction, spent: Seq<TxOut>, ht: SchnorrSighashType) -> Seq<u8> {
    if !t_acp(ht) {
        sha256_spec(outpoint_flags_stream(tx)) + sha256_spec(prevouts_stream(tx)) + sha256_spec(asset_amounts_stream(spent))
        + sha256_spec(script_pubkeys_stream(spent)) + sha256_spec(sequences_stream(tx)) + sha256_spec(issuances_stream(tx))
        + sha256_spec(issuance_rangeproofs_stream(tx))
    } else { Seq::<u8>::empty() }
}
pub open spec fn p_outputs(tx: Transaction, ht: SchnorrSighashType) -> Seq<u8> {
    if !t_none(ht) && !t_single(ht) { sha256_spec(outputs_stream(tx)) + sha256_spec(output_witnesses_stream(tx)) } else { Seq::<u8>::empty() }
}
pub open spec fn p_spend(annex: Option<Annex>, leaf: Option<(TapLeafHash, u32)>) -> Seq<u8> { seq![spend_type_spec(annex is Some, leaf is Some)] }
pub open spec fn p_this_input(tx: Transaction, idx: usize, prev: TxOut, ht: SchnorrSighashType) -> Seq<u8> {
    if t_acp(ht) {
        let txin = tx.input@[idx as int];
        seq![outpoint_flag_spec(txin)] + ser_outpoint(txin.previous_output) + ser_asset(prev.asset) + ser_value(prev.value)
        + ser_script(prev.script_pubkey) + ser_sequence(txin.sequence)
        + (if has_issuance_spec(txin) { ser_issuance(txin.asset_issuance) + sha256_spec(in_rangeproofs_ser(txin)) } else { seq![0u8] })
    } else { le32(idx as u32) }
}
pub open spec fn p_annex(annex: Option<Annex>) -> Seq<u8> {
    match annex { Some(a) => sha256_spec(compact_size(a@.len()) + a@), None => Seq::<u8>::empty() }
}
pub open spec fn p_single(tx: Transaction, idx: usize, ht: SchnorrSighashType) -> Seq<u8> {
    if t_single(ht) { let o = tx.output@[idx as int]; sha256_spec(ser_txout(o)) + sha256_spec(ser_outwit(o.witness)) } else { Seq::<u8>::empty() }
}
pub open spec fn p_leaf(leaf: Option<(TapLeafHash, u32)>) -> Seq<u8> {
    match leaf { Some((h, pos)) => h@ + seq![0u8] + le32(pos), None => Seq::<u8>::empty() }
}
/// THE SPECIFICATION: the Elements BIP341 signing message
pub open spec fn tap_msg(tx: Transaction, idx: usize, spent: Seq<TxOut>, prev: TxOut, annex: Option<Annex>,
                         leaf: Option<(TapLeafHash, u32)>, ht: SchnorrSighashType, genesis: BlockHash) -> Seq<u8> {
    p_hdr(tx, ht, genesis) + p_inputs(tx, spent, ht) + p_outputs(tx, ht) + p_spend(annex, leaf) + p_this_input(tx, idx, prev, ht)
    + p_annex(annex) + p_single(tx, idx, ht) + p_leaf(leaf)
}
/// the stated failure cases (and no others)
pub open spec fn tap_err<T: Borrow<TxOut>>(tx: Transaction, idx: usize, p: Prevouts<T>, ht: SchnorrSighashType) -> bool {
    ||| (match p { Prevouts::All(s) => s@.len() != tx.input@.len(), _ => false })
    ||| (!t_acp(ht) && p is One)
    ||| (t_acp(ht) && idx >= tx.input@.len())
    ||| (t_acp(ht) && (match p { Prevouts::One(i, _) => i != idx, _ => false }))
    ||| (t_single(ht) && idx >= tx.output@.len())
}

// the same message in the association order in which the function appends it to what the sink already holds (proof
// device; `tap_stream(acc, ..) == acc + tap_msg(..)` is lemma_tap_stream)
pub open spec fn s_hdr(acc: Seq<u8>, tx: Transaction, ht: SchnorrSighashType, genesis: BlockHash) -> Seq<u8> {
    acc + genesis.0@ + genesis.0@ + seq![schnorr_u8(ht)] + le32(tx.version) + ser_locktime(tx.lock_time)
}
pub open spec fn s_inputs(a: Seq<u8>, tx: Transaction, spent: Seq<TxOut>, ht: SchnorrSighashType) -> Seq<u8> {
    if !t_acp(ht) {
        a + sha256_spec(outpoint_flags_stream(tx)) + sha256_spec(prevouts_stream(tx)) + sha256_spec(asset_amounts_stream(spent))
          + sha256_spec(script_pubkeys_stream(spent)) + sha256_spec(sequences_stream(tx)) + sha256_spec(issuances_stream(tx))
          + sha256_spec(issuance_rangeproofs_stream(tx))
    } else { a }
}
pub open spec fn s_outputs(a: Seq<u8>, tx: Transaction, ht: SchnorrSighashType) -> Seq<u8> {
    if !t_none(ht) && !t_single(ht) { a + sha256_spec(outputs_stream(tx)) + sha256_spec(output_witnesses_stream(tx)) } else { a }
}
pub open spec fn s_spend(a: Seq<u8>, annex: Option<Annex>, leaf: Option<(TapLeafHash, u32)>) -> Seq<u8> { a + seq![spend_type_spec(annex is Some, leaf is Some)] }
pub open spec fn s_this_input(a: Seq<u8>, tx: Transaction, idx: usize, prev: TxOut, ht: SchnorrSighashType) -> Seq<u8> {
    if t_acp(ht) {
        let txin = tx.input@[idx as int];
        let b = a + seq![outpoint_flag_spec(txin)] + ser_outpoint(txin.previous_output) + ser_asset(prev.asset) + ser_value(prev.value)
                  + ser_script(prev.script_pubkey) + ser_sequence(txin.sequence);
        if has_issuance_spec(txin) {
            b + ser_issuance(txin.asset_issuance)
              + sha256_spec(Seq::<u8>::empty() + ser_rangeproof(txin.witness.amount_rangeproof) + ser_rangeproof(txin.witness.inflation_keys_rangeproof))
        } else { b + seq![0u8] }
    } else { a + le32(idx as u32) }
}
pub open spec fn s_annex(a: Seq<u8>, annex: Option<Annex>) -> Seq<u8> {
    match annex { Some(x) => a + sha256_spec(Seq::<u8>::empty() + (compact_size(x@.len()) + x@)), None => a }
}
pub open spec fn s_single(a: Seq<u8>, tx: Transaction, idx: usize, ht: SchnorrSighashType) -> Seq<u8> {
    if t_single(ht) {
        let o = tx.output@[idx as int];
        a + sha256_spec(Seq::<u8>::empty() + ser_txout(o)) + sha256_spec(Seq::<u8>::empty() + ser_outwit(o.witness))
    } else { a }
}
pub open spec fn s_leaf(a: Seq<u8>, leaf: Option<(TapLeafHash, u32)>) -> Seq<u8> {
    match leaf { Some((h, pos)) => a + h@ + seq![0u8] + le32(pos), None => a }
}
pub open spec fn tap_stream(acc: Seq<u8>, tx: Transaction, idx: usize, spent: Seq<TxOut>, prev: TxOut, annex: Option<Annex>,
                            leaf: Option<(TapLeafHash, u32)>, ht: SchnorrSighashType, genesis: BlockHash) -> Seq<u8> {
    s_leaf(s_single(s_annex(s_this_input(s_spend(s_outputs(s_inputs(s_hdr(acc, tx, ht, genesis), tx, spent, ht), tx, ht), annex, leaf),
        tx, idx, prev, ht), annex), tx, idx, ht), leaf)
}
proof fn lemma_stage_hdr(acc: Seq<u8>, tx: Transaction, ht: SchnorrSighashType, genesis: BlockHash)
    ensures s_hdr(acc, tx, ht, genesis) == acc + p_hdr(tx, ht, genesis)
{ assert(s_hdr(acc, tx, ht, genesis) =~= acc + p_hdr(tx, ht, genesis)); }
proof fn lemma_stage_inputs(a: Seq<u8>, tx: Transaction, spent: Seq<TxOut>, ht: SchnorrSighashType)
    ensures s_inputs(a, tx, spent, ht) == a + p_inputs(tx, spent, ht)
{ assert(s_inputs(a, tx, spent, ht) =~= a + p_inputs(tx, spent, ht)); }
proof fn lemma_stage_outputs(a: Seq<u8>, tx: Transaction, ht: SchnorrSighashType)
    ensures s_outputs(a, tx, ht) == a + p_outputs(tx, ht)
{ assert(s_outputs(a, tx, ht) =~= a + p_outputs(tx, ht)); }
proof fn lemma_stage_this_input(a: Seq<u8>, tx: Transaction, idx: usize, prev: TxOut, ht: SchnorrSighashType)
    ensures s_this_input(a, tx, idx, prev, ht) == a + p_this_input(tx, idx, prev, ht)
{
    let txin = tx.input@[idx as int];
    assert(Seq::<u8>::empty() + ser_rangeproof(txin.witness.amount_rangeproof) + ser_rangeproof(txin.witness.inflation_keys_rangeproof) =~= in_rangeproofs_ser(txin));
    assert(s_this_input(a, tx, idx, prev, ht) =~= a + p_this_input(tx, idx, prev, ht));
}
proof fn lemma_stage_annex(a: Seq<u8>, annex: Option<Annex>)
    ensures s_annex(a, annex) == a + p_annex(annex)
{
    if let Some(x) = annex { assert(Seq::<u8>::empty() + (compact_size(x@.len()) + x@) =~= compact_size(x@.len()) + x@); }
    assert(s_annex(a, annex) =~= a + p_annex(annex));
}
proof fn lemma_stage_single(a: Seq<u8>, tx: Transaction, idx: usize, ht: SchnorrSighashType)
    ensures s_single(a, tx, idx, ht) == a + p_single(tx, idx, ht)
{
    let o = tx.output@[idx as int];
    assert(Seq::<u8>::empty() + ser_txout(o) =~= ser_txout(o));
    assert(Seq::<u8>::empty() + ser_outwit(o.witness) =~= ser_outwit(o.witness));
    assert(s_single(a, tx, idx, ht) =~= a + p_single(tx, idx, ht));
}
proof fn lemma_stage_leaf(a: Seq<u8>, leaf: Option<(TapLeafHash, u32)>)
    ensures s_leaf(a, leaf) == a + p_leaf(leaf)
{ assert(s_leaf(a, leaf) =~= a + p_leaf(leaf)); }
proof fn lemma_assoc8(acc: Seq<u8>, p0: Seq<u8>, p1: Seq<u8>, p2: Seq<u8>, p3: Seq<u8>, p4: Seq<u8>, p5: Seq<u8>, p6: Seq<u8>, p7: Seq<u8>)
    ensures acc + p0 + p1 + p2 + p3 + p4 + p5 + p6 + p7 == acc + (p0 + p1 + p2 + p3 + p4 + p5 + p6 + p7)
{ assert(acc + p0 + p1 + p2 + p3 + p4 + p5 + p6 + p7 =~= acc + (p0 + p1 + p2 + p3 + p4 + p5 + p6 + p7)); }
pub proof fn lemma_tap_stream(acc: Seq<u8>, tx: Transaction, idx: usize, spent: Seq<TxOut>, prev: TxOut, annex: Option<Annex>,
                              leaf: Option<(TapLeafHash, u32)>, ht: SchnorrSighashType, genesis: BlockHash)
    ensures tap_stream(acc, tx, idx, spent, prev, annex, leaf, ht, genesis) == acc + tap_msg(tx, idx, spent, prev, annex, leaf, ht, genesis)
{
    let a0 = s_hdr(acc, tx, ht, genesis); lemma_stage_hdr(acc, tx, ht, genesis);
    let a1 = s_inputs(a0, tx, spent, ht); lemma_stage_inputs(a0, tx, spent, ht);
    let a2 = s_outputs(a1, tx, ht); lemma_stage_outputs(a1, tx, ht);
    let a3 = s_spend(a2, annex, leaf);
    let a4 = s_this_input(a3, tx, idx, prev, ht); lemma_stage_this_input(a3, tx, idx, prev, ht);
    let a5 = s_annex(a4, annex); lemma_stage_annex(a4, annex);
    let a6 = s_single(a5, tx, idx, ht); lemma_stage_single(a5, tx, idx, ht);
    lemma_stage_leaf(a6, leaf);
    lemma_assoc8(acc, p_hdr(tx, ht, genesis), p_inputs(tx, spent, ht), p_outputs(tx, ht), p_spend(annex, leaf),
        p_this_input(tx, idx, prev, ht), p_annex(annex), p_single(tx, idx, ht), p_leaf(leaf));
}

proof fn lemma_spend_type_bits()
    ensures 0u8 | 1u8 == 1u8, 0u8 | 2u8 == 2u8, 1u8 | 2u8 == 3u8,
{
    assert(0u8 | 1u8 == 1u8 && 0u8 | 2u8 == 2u8 && 1u8 | 2u8 == 3u8) by(bit_vector);
}

impl<'t> SighashCache<'t> {
//@extract file=src/sighash.rs fn=new in="impl < R : Deref < Target = Transaction > > SighashCache < R >"
//@ret r
//@rewrite "tx : R" => "tx: &'t Transaction"
//@spec
//@|     ensures r.tx == tx, wf_cs(r), r.taproot_cache is None, r.common_cache is None, r.segwit_cache is None
//@end

//@extract file=src/sighash.rs fn=taproot_encode_signing_data_to in="impl < R : Deref < Target = Transaction > > SighashCache < R >"
//@ret r
//@rewrite "mut writer : Write" => "writer: &mut Write"
//@rewrite "& mut writer" => "writer" nth=all
//@spec
//@|     requires
//@|         !(sighash_type is Reserved),
//@|         wf_cs(*old(self)),
//@|         *prevouts is All ==> wf_t(*old(self), all_of(*prevouts)),
//@|     ensures
//@|         (r is Err) == tap_err(*old(self).tx, input_index, *prevouts, sighash_type),
//@|         r is Ok ==> final(writer).fed() == tap_stream(old(writer).fed(), *old(self).tx, input_index, all_of(*prevouts),
//@|             prev_of(*prevouts, input_index as int), annex, leaf_hash_code_separator, sighash_type, genesis_hash),
//@|         final(self).tx == old(self).tx, wf_cs(*final(self)),
//@|         *prevouts is All ==> wf_t(*final(self), all_of(*prevouts)),
//@|         (t_acp(sighash_type) || *prevouts is One || old(self).taproot_cache is Some) ==> final(self).taproot_cache == old(self).taproot_cache,
//@body-start
//@| proof { lemma_hashtype_bits(); lemma_spend_type_bits(); reveal(common_cache_rel); reveal(taproot_cache_rel); }
//@end
}

// ---- verified clients of the contract above (property C13) -----------------------------------------------------------------
/// For every ANYONECANPAY type, the spent output of the signed input alone (`Prevouts::One`) gives the message that all spent
/// outputs (`Prevouts::All`) give, and fails in no other case; for a type that needs all of them `One` is an error.
proof fn client_one_vs_all(tx: Transaction, idx: usize, one: Prevouts<TxOut>, all: Prevouts<TxOut>, annex: Option<Annex>,
                           leaf: Option<(TapLeafHash, u32)>, ht: SchnorrSighashType, g: BlockHash)
    requires
        one matches Prevouts::One(i, o) && i == idx,
        all matches Prevouts::All(s) && s@.len() == tx.input@.len(),
        idx < tx.input@.len() ==> prev_of(all, idx as int) == prev_of(one, idx as int),
    ensures
        t_acp(ht) ==> tap_err(tx, idx, one, ht) == tap_err(tx, idx, all, ht),
        t_acp(ht) && !tap_err(tx, idx, all, ht) ==>
            tap_msg(tx, idx, all_of(one), prev_of(one, idx as int), annex, leaf, ht, g) == tap_msg(tx, idx, all_of(all), prev_of(all, idx as int), annex, leaf, ht, g),
        !t_acp(ht) ==> tap_err(tx, idx, one, ht),
{}
/// A query on a cache that has already answered another query returns exactly what a fresh cache returns for it
/// (the answer is a function of the transaction and the query only; every query re-establishes the cache invariant).
fn client_used_vs_fresh<W: io::Write>(tx: &Transaction, w0: &mut W, w1: &mut W, w2: &mut W, i1: usize, i2: usize,
        p1: &Prevouts<TxOut>, p2: &Prevouts<TxOut>, leaf1: Option<(TapLeafHash, u32)>, leaf2: Option<(TapLeafHash, u32)>,
        ht1: SchnorrSighashType, ht2: SchnorrSighashType, g: BlockHash)
    requires
        !(ht1 is Reserved), !(ht2 is Reserved), old(w1).fed() == old(w2).fed(),
        // the spent outputs belong to the transaction: two queries that supply all of them supply the same list
        (*p1 is All && *p2 is All) ==> all_of(*p1) == all_of(*p2),
{
    let mut used = SighashCache::new(tx);
    let _ = used.taproot_encode_signing_data_to(w0, i1, p1, None, leaf1, ht1, g);
    let r1 = used.taproot_encode_signing_data_to(w1, i2, p2, None, leaf2, ht2, g);
    let mut fresh = SighashCache::new(tx);
    let r2 = fresh.taproot_encode_signing_data_to(w2, i2, p2, None, leaf2, ht2, g);
    assert((r1 is Ok) == (r2 is Ok));
    assert(r1 is Ok ==> w1.fed() == w2.fed());
}

proof fn canary_taproot(c: SighashCache, p: Prevouts<TxOut>, ht: SchnorrSighashType)
    requires !(ht is Reserved), wf_cs(c), p is All ==> wf_t(c, all_of(p))
    ensures false {}
} // verus!
fn main() {}
