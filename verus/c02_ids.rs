//@ property: C02 C01
//@ unit: c02_ids tier=quick
//@ clause: the byte stream handed to SHA-256d by txid() is version || 0x00 || inputs || outputs || lock_time (the witness-stripped serialization), by wtxid() the full serialization, by block_hash() the header fields with the dynafed bit set for dynafed headers and WITHOUT solution / signblock witness; Transaction::consensus_encode writes flag = has_witness and the witnesses (inputs then outputs) only when flagged; clear_witness changes nothing that is hashed; wtxid == txid when there is no witness; any number of inputs/outputs
use vstd::prelude::*;
verus! {

// ---- environment (assumed contracts) ----
pub uninterp spec fn sha256d_spec(data: Seq<u8>) -> Seq<u8>;
pub mod encode { #[derive(Debug)] pub struct Error; }
pub mod sha256d {
    use vstd::prelude::*;
    pub struct HashEngine { pub fed: Ghost<Seq<u8>> }
    pub struct Hash { pub bytes: [u8; 32] }
    impl Hash {
        pub open spec fn view(&self) -> Seq<u8> { self.bytes@ }
        #[verifier::external_body]
        pub fn engine() -> (e: HashEngine) ensures e.fed@ == Seq::<u8>::empty() { unimplemented!() }
    }
    impl HashEngine {
        #[verifier::external_body]
        pub fn finalize(self) -> (r: Hash) ensures r@ == super::sha256d_spec(self.fed@) { unimplemented!() }
    }
}
// hash_newtype! wrappers (src/hash_types.rs)
pub struct Txid(pub sha256d::Hash);
pub struct Wtxid(pub sha256d::Hash);
pub struct BlockHash(pub sha256d::Hash);
pub struct TxMerkleNode(pub sha256d::Hash);

/// Consensus encoding of a field into the hash engine: appends `ser()` and reports its length.
/// `ser` of each leaf type is C01's subject (Kani units c01_*); here it is an uninterpreted function per type.
pub trait Encodable {
    spec fn ser(&self) -> Seq<u8>;
    fn consensus_encode(&self, e: &mut sha256d::HashEngine) -> (r: Result<usize, encode::Error>)
        ensures r is Ok, r->Ok_0 == self.ser().len(), final(e).fed@ == old(e).fed@ + self.ser();
}
pub uninterp spec fn ser_u32(v: u32) -> Seq<u8>;
pub uninterp spec fn ser_locktime(v: LockTime) -> Seq<u8>;
pub uninterp spec fn ser_hash(v: Seq<u8>) -> Seq<u8>;
pub uninterp spec fn ser_script(v: Script) -> Seq<u8>;
pub uninterp spec fn ser_params(v: dynafed::Params) -> Seq<u8>;
pub uninterp spec fn ser_inputs(nonwit: Seq<Seq<u8>>) -> Seq<u8>;
pub uninterp spec fn ser_outputs(nonwit: Seq<Seq<u8>>) -> Seq<u8>;
pub uninterp spec fn ser_inwit(w: TxInWitness) -> Seq<u8>;
pub uninterp spec fn ser_outwit(w: TxOutWitness) -> Seq<u8>;
impl Encodable for u32 { open spec fn ser(&self) -> Seq<u8> { ser_u32(*self) }
    #[verifier::external_body] fn consensus_encode(&self, e: &mut sha256d::HashEngine) -> (r: Result<usize, encode::Error>) { unimplemented!() } }
impl Encodable for u8 { open spec fn ser(&self) -> Seq<u8> { seq![*self] }   // one byte, itself
    #[verifier::external_body] fn consensus_encode(&self, e: &mut sha256d::HashEngine) -> (r: Result<usize, encode::Error>) { unimplemented!() } }
#[derive(Clone, Copy)] pub struct LockTime(pub u32);
impl Encodable for LockTime { open spec fn ser(&self) -> Seq<u8> { ser_locktime(*self) }
    #[verifier::external_body] fn consensus_encode(&self, e: &mut sha256d::HashEngine) -> (r: Result<usize, encode::Error>) { unimplemented!() } }
impl Encodable for BlockHash { open spec fn ser(&self) -> Seq<u8> { ser_hash(self.0@) }
    #[verifier::external_body] fn consensus_encode(&self, e: &mut sha256d::HashEngine) -> (r: Result<usize, encode::Error>) { unimplemented!() } }
impl Encodable for TxMerkleNode { open spec fn ser(&self) -> Seq<u8> { ser_hash(self.0@) }
    #[verifier::external_body] fn consensus_encode(&self, e: &mut sha256d::HashEngine) -> (r: Result<usize, encode::Error>) { unimplemented!() } }
pub struct Script { pub b: Vec<u8> }
impl Script { #[verifier::external_body] pub fn new() -> (r: Script) ensures r.b@.len() == 0 { unimplemented!() } }
impl Encodable for Script { open spec fn ser(&self) -> Seq<u8> { ser_script(*self) }
    #[verifier::external_body] fn consensus_encode(&self, e: &mut sha256d::HashEngine) -> (r: Result<usize, encode::Error>) { unimplemented!() } }
pub mod dynafed { pub struct Params { pub opaque: Vec<u8> } }
impl Encodable for dynafed::Params { open spec fn ser(&self) -> Seq<u8> { ser_params(*self) }
    #[verifier::external_body] fn consensus_encode(&self, e: &mut sha256d::HashEngine) -> (r: Result<usize, encode::Error>) { unimplemented!() } }

// A transaction input/output = (everything its own Encodable impl writes, which excludes the witness) + witness.
// That TxIn/TxOut encodings do not contain their witness is C01's subject (impl Encodable for TxIn / TxOut).
pub struct TxInWitness { pub w: Vec<u8> }
pub struct TxOutWitness { pub w: Vec<u8> }
pub struct TxIn { pub nonwit: Vec<u8>, pub witness: TxInWitness }
pub struct TxOut { pub nonwit: Vec<u8>, pub witness: TxOutWitness }
pub uninterp spec fn inwit_empty(w: TxInWitness) -> bool;
pub uninterp spec fn outwit_empty(w: TxOutWitness) -> bool;
impl Encodable for TxInWitness { open spec fn ser(&self) -> Seq<u8> { ser_inwit(*self) }
    #[verifier::external_body] fn consensus_encode(&self, e: &mut sha256d::HashEngine) -> (r: Result<usize, encode::Error>) { unimplemented!() } }
impl Encodable for TxOutWitness { open spec fn ser(&self) -> Seq<u8> { ser_outwit(*self) }
    #[verifier::external_body] fn consensus_encode(&self, e: &mut sha256d::HashEngine) -> (r: Result<usize, encode::Error>) { unimplemented!() } }
pub open spec fn in_nonwit(v: Seq<TxIn>) -> Seq<Seq<u8>> { v.map_values(|i: TxIn| i.nonwit@) }
pub open spec fn out_nonwit(v: Seq<TxOut>) -> Seq<Seq<u8>> { v.map_values(|o: TxOut| o.nonwit@) }
impl Encodable for Vec<TxIn> { open spec fn ser(&self) -> Seq<u8> { ser_inputs(in_nonwit(self@)) }
    #[verifier::external_body] fn consensus_encode(&self, e: &mut sha256d::HashEngine) -> (r: Result<usize, encode::Error>) { unimplemented!() } }
impl Encodable for Vec<TxOut> { open spec fn ser(&self) -> Seq<u8> { ser_outputs(out_nonwit(self@)) }
    #[verifier::external_body] fn consensus_encode(&self, e: &mut sha256d::HashEngine) -> (r: Result<usize, encode::Error>) { unimplemented!() } }

//@extract file=src/transaction.rs item="pub struct Transaction"
//@end

// ---- specification, from the property text / Elements wire format ----
pub open spec fn has_witness_spec(tx: Transaction) -> bool {
    (exists|k: int| 0 <= k < tx.input@.len() && !inwit_empty(tx.input@[k].witness))
    || (exists|k: int| 0 <= k < tx.output@.len() && !outwit_empty(tx.output@[k].witness))
}
pub open spec fn in_wits(v: Seq<TxIn>, n: int) -> Seq<u8> decreases n {
    if n <= 0 { Seq::<u8>::empty() } else { in_wits(v, n - 1) + ser_inwit(v[n - 1].witness) }
}
pub open spec fn out_wits(v: Seq<TxOut>, n: int) -> Seq<u8> decreases n {
    if n <= 0 { Seq::<u8>::empty() } else { out_wits(v, n - 1) + ser_outwit(v[n - 1].witness) }
}
pub open spec fn stripped_spec(tx: Transaction) -> Seq<u8> {
    ser_u32(tx.version) + seq![0u8] + ser_inputs(in_nonwit(tx.input@)) + ser_outputs(out_nonwit(tx.output@)) + ser_locktime(tx.lock_time)
}
pub open spec fn full_spec(tx: Transaction) -> Seq<u8> {
    if has_witness_spec(tx) {
        ser_u32(tx.version) + seq![1u8] + ser_inputs(in_nonwit(tx.input@)) + ser_outputs(out_nonwit(tx.output@)) + ser_locktime(tx.lock_time)
            + in_wits(tx.input@, tx.input@.len() as int) + out_wits(tx.output@, tx.output@.len() as int)
    } else { stripped_spec(tx) }
}

impl Transaction {
    #[verifier::external_body]
    pub fn has_witness(&self) -> (r: bool) ensures r == has_witness_spec(*self) { unimplemented!() }  // iterator `any` closures: outside the subset; Kani unit c01_* covers it

//@extract file=src/transaction.rs fn=txid in="impl Transaction"
//@ret r
//@spec
//@|     ensures r.0@ == sha256d_spec(stripped_spec(*self))
//@at "Txid ( enc . finalize ( ) )" before
//@| proof { assert(enc.fed@ =~= stripped_spec(*self)); }
//@end

//@extract file=src/transaction.rs fn=consensus_encode in="impl Encodable for Transaction"
//@ret r
//@rewrite "< S : io :: Write >" => ""
//@rewrite "mut s : S" => "s: &mut sha256d::HashEngine"
//@rewrite "& mut s" => "s" nth=all
//@spec
//@|     requires full_spec(*self).len() <= usize::MAX
//@|     ensures r is Ok, r->Ok_0 == full_spec(*self).len(), final(s).fed@ == old(s).fed@ + full_spec(*self)
//@at "let mut ret = 0 ;" after
//@| let ghost base = s.fed@;
//@at "if wit_flag { for" before
//@| let ghost head = ser_u32(self.version) + seq![if wit_flag { 1u8 } else { 0u8 }] + ser_inputs(in_nonwit(self.input@)) + ser_outputs(out_nonwit(self.output@)) + ser_locktime(self.lock_time);
//@| proof { assert(s.fed@ =~= base + head); assert(ret == head.len()); }
//@at "for i in" after
//@| it:
//@loop 1
//@|     invariant wit_flag, has_witness_spec(*self), s.fed@ == base + head + in_wits(self.input@, it.index@ as int),
//@|         ret == head.len() + in_wits(self.input@, it.index@ as int).len(),
//@|         full_spec(*self) == head + in_wits(self.input@, self.input@.len() as int) + out_wits(self.output@, self.output@.len() as int),
//@|         full_spec(*self).len() <= usize::MAX,
//@at "ret += i . witness . consensus_encode" before
//@| proof { lemma_in_wits_mono(self.input@, it.index@ as int + 1, self.input@.len() as int); lemma_out_nonneg(self.output@, self.output@.len() as int);
//@|         assert(s.fed@ + ser_inwit(i.witness) =~= base + head + in_wits(self.input@, it.index@ as int + 1)); }
//@at "for o in" after
//@| ot:
//@loop 2
//@|     invariant wit_flag, has_witness_spec(*self), s.fed@ == base + head + in_wits(self.input@, self.input@.len() as int) + out_wits(self.output@, ot.index@ as int),
//@|         ret == head.len() + in_wits(self.input@, self.input@.len() as int).len() + out_wits(self.output@, ot.index@ as int).len(),
//@|         full_spec(*self) == head + in_wits(self.input@, self.input@.len() as int) + out_wits(self.output@, self.output@.len() as int),
//@|         full_spec(*self).len() <= usize::MAX,
//@at "ret += o . witness . consensus_encode" before
//@| proof { lemma_out_wits_mono(self.output@, ot.index@ as int + 1, self.output@.len() as int);
//@|         assert(s.fed@ + ser_outwit(o.witness) =~= base + head + in_wits(self.input@, self.input@.len() as int) + out_wits(self.output@, ot.index@ as int + 1)); }
//@at "Ok ( ret )" before
//@| proof { if wit_flag { assert(s.fed@ =~= base + full_spec(*self)); } else { assert(head =~= stripped_spec(*self)); assert(s.fed@ =~= base + full_spec(*self)); } }
//@end

//@extract file=src/transaction.rs fn=wtxid in="impl Transaction"
//@ret r
//@spec
//@|     requires full_spec(*self).len() <= usize::MAX
//@|     ensures r.0@ == sha256d_spec(full_spec(*self))
//@at "Wtxid ( enc . finalize ( ) )" before
//@| proof { assert(enc.fed@ =~= full_spec(*self)); }
//@end
}

proof fn lemma_in_wits_mono(v: Seq<TxIn>, a: int, b: int) requires 0 <= a <= b ensures in_wits(v, a).len() <= in_wits(v, b).len() decreases b - a
{ if a < b { lemma_in_wits_mono(v, a, b - 1); } }
proof fn lemma_out_wits_mono(v: Seq<TxOut>, a: int, b: int) requires 0 <= a <= b ensures out_wits(v, a).len() <= out_wits(v, b).len() decreases b - a
{ if a < b { lemma_out_wits_mono(v, a, b - 1); } }
proof fn lemma_out_nonneg(v: Seq<TxOut>, n: int) ensures out_wits(v, n).len() >= 0 {}

// ---- consequences stated in the property, as verified clients of the contracts ----
/// wtxid equals txid when the transaction carries no witness (the converse needs collision resistance: assumed, not proved)
fn no_witness_ids_coincide(tx: &Transaction)
    requires !has_witness_spec(*tx), full_spec(*tx).len() <= usize::MAX
{
    let a = tx.txid();
    let b = tx.wtxid();
    assert(a.0@ == b.0@);
}
/// two transactions that differ only in witness data have the same txid
fn witness_only_change_keeps_txid(t1: &Transaction, t2: &Transaction)
    requires t1.version == t2.version, t1.lock_time == t2.lock_time,
             in_nonwit(t1.input@) == in_nonwit(t2.input@), out_nonwit(t1.output@) == out_nonwit(t2.output@)
{
    let a = t1.txid();
    let b = t2.txid();
    assert(a.0@ == b.0@);
}

// ---- block header ----
//@extract file=src/block.rs item="pub enum ExtData"
//@end
//@extract file=src/block.rs item="pub struct BlockHeader"
//@end
pub open spec fn header_stream(h: BlockHeader) -> Seq<u8> {
    let version: u32 = if h.ext is Dynafed { h.version | 0x8000_0000u32 } else { h.version };
    ser_u32(version) + ser_hash(h.prev_blockhash.0@) + ser_hash(h.merkle_root.0@) + ser_u32(h.time) + ser_u32(h.height)
    + (match h.ext {
        ExtData::Proof { challenge, .. } => ser_script(challenge),
        ExtData::Dynafed { current, proposed, .. } => ser_params(current) + ser_params(proposed),
    })
}
impl BlockHeader {
//@extract file=src/block.rs fn=block_hash in="impl BlockHeader"
//@ret r
//@spec
//@|     ensures r.0@ == sha256d_spec(header_stream(*self))
//@at "BlockHash ( enc . finalize ( ) )" before
//@| proof { assert(enc.fed@ =~= header_stream(*self)); }
//@end

//@extract file=src/block.rs fn=clear_witness in="impl BlockHeader"
//@spec
//@|     ensures
//@|         final(self).version == old(self).version, final(self).prev_blockhash == old(self).prev_blockhash,
//@|         final(self).merkle_root == old(self).merkle_root, final(self).time == old(self).time, final(self).height == old(self).height,
//@|         match (old(self).ext, final(self).ext) {
//@|             (ExtData::Proof { challenge: c0, .. }, ExtData::Proof { challenge: c1, solution: s1 }) => c0 == c1 && s1.b@.len() == 0,
//@|             (ExtData::Dynafed { current: a0, proposed: p0, .. }, ExtData::Dynafed { current: a1, proposed: p1, signblock_witness: w1 }) => a0 == a1 && p0 == p1 && w1@.len() == 0,
//@|             _ => false,
//@|         },
//@|         header_stream(*final(self)) == header_stream(*old(self)),
//@end
}

proof fn canary_c02(tx: Transaction) requires full_spec(tx).len() <= usize::MAX ensures false {}

} // verus!
fn main() {}
