//@ property: C02 C01
//@ unit: c02_witness_empty tier=quick
//@ clause: "carries no witness": an input witness is empty exactly when all four of its fields (issuance amount rangeproof, inflation-keys rangeproof, script witness, pegin witness) are absent/empty, an output witness exactly when surjection proof and range proof are absent; empty()/default() are empty. (These predicates decide the witness flag of the serialization and hence when wtxid == txid.)
use vstd::prelude::*;
verus! {
pub struct RangeProof { pub b: Vec<u8> }
pub struct SurjectionProof { pub b: Vec<u8> }
//@extract file=src/transaction.rs item="pub struct TxInWitness"
//@end
//@extract file=src/transaction.rs item="pub struct TxOutWitness"
//@end
pub open spec fn in_empty_spec(w: TxInWitness) -> bool {
    w.amount_rangeproof is None && w.inflation_keys_rangeproof is None && w.script_witness@.len() == 0 && w.pegin_witness@.len() == 0
}
pub open spec fn out_empty_spec(w: TxOutWitness) -> bool { w.surjection_proof is None && w.rangeproof is None }
impl TxInWitness {
//@extract file=src/transaction.rs fn=is_empty in="impl TxInWitness"
//@ret r
//@spec
//@|     ensures r == in_empty_spec(*self)
//@end
//@extract file=src/transaction.rs fn=empty in="impl TxInWitness"
//@ret r
//@spec
//@|     ensures in_empty_spec(r)
//@end
}
impl TxOutWitness {
//@extract file=src/transaction.rs fn=is_empty in="impl TxOutWitness"
//@ret r
//@spec
//@|     ensures r == out_empty_spec(*self)
//@end
//@extract file=src/transaction.rs fn=empty in="impl TxOutWitness"
//@ret r
//@spec
//@|     ensures out_empty_spec(r)
//@end
}
proof fn canary_witness_empty(w: TxInWitness) ensures false {}
} // verus!
fn main() {}
