// The lazily filled sub-hash caches as ASSUMED contracts for the message-layout units: the same contracts are PROVED on the
// real bodies (common_cache_minimal_borrow, segwit_cache, taproot_cache_minimal_borrow and their wrappers) by unit c13_caches.
impl<'t> SighashCache<'t> {
    #[verifier::external_body]
    fn common_cache(&mut self) -> (r: &CommonCache)
        ensures common_cache_rel(*old(self), *final(self), *r), final(self).common_cache == Some(*r)
    { unimplemented!() }
    #[verifier::external_body]
    fn segwit_cache(&mut self) -> (r: &SegwitCache)
        ensures segwit_cache_rel(*old(self), *final(self), *r), final(self).segwit_cache == Some(*r)
    { unimplemented!() }
    /// ASSUMED (get_or_insert_with + closure, as for common_cache/segwit_cache in the shared environment)
    #[verifier::external_body]
    fn taproot_cache<T: Borrow<TxOut>>(&mut self, prevouts: &[T]) -> (r: &TaprootCache)
        ensures taproot_cache_rel(*old(self), *final(self), *r, spent_of(prevouts@)), final(self).taproot_cache == Some(*r)
    { unimplemented!() }
}

