// Shared environment + specification vocabulary for the C03 (signature hash message layout) units.
// Hand-written here: ASSUMED contracts (every `external_body` / `uninterp`) on the consensus codec of the leaf field types
// (C01's subject, Kani units c01_*), on the hash engines, and on the three sub-hash caches of SighashCache (their
// `get_or_insert_with` closures are outside Verus' fragment; Kani units c13_* cover them boundedly). The type definitions
// of src/transaction.rs / src/sighash.rs and the small selector functions are EXTRACTED.

// ---- environment: hashes -----------------------------------------------------------------------------------------
pub uninterp spec fn sha256_spec(data: Seq<u8>) -> Seq<u8>;
/// SHA-256d is SHA-256 applied twice (this is how SegwitCache derives its fields from CommonCache)
pub open spec fn sha256d_spec(data: Seq<u8>) -> Seq<u8> { sha256_spec(sha256_spec(data)) }
pub open spec fn zeros32() -> Seq<u8> { Seq::new(32, |i: int| 0u8) }
/// little-endian u32 (the codec of u32 is C01's subject; stated concretely so that the legacy hash-type suffix, written
/// through endian::u32_to_array_le, and the segwit one, written through u32::consensus_encode, can be compared)
pub open spec fn le32(v: u32) -> Seq<u8> {
    seq![(v & 0xff) as u8, ((v >> 8) & 0xff) as u8, ((v >> 16) & 0xff) as u8, ((v >> 24) & 0xff) as u8]
}
pub uninterp spec fn compact_size(n: nat) -> Seq<u8>;

pub mod io {
    use vstd::prelude::*;
    /// a byte sink: `fed()` is everything written so far. Implemented by the hash engines and by the caller's writer.
    pub trait Write { spec fn fed(&self) -> Seq<u8>; }
}
pub mod encode {
    use vstd::prelude::*;
    pub struct Error;
    // `encode::consensus_encode_with_size`: compact-size length prefix, then the bytes
    #[verifier::external_body]
    pub fn consensus_encode_with_size<W: super::io::Write>(data: &[u8], s: &mut W) -> (r: Result<usize, Error>)
        ensures r is Ok, final(s).fed() == old(s).fed() + super::compact_size(data@.len()) + data@
    { unimplemented!() }
}
impl core::fmt::Debug for encode::Error { #[verifier::external_body] fn fmt(&self, f: &mut core::fmt::Formatter<'_>) -> core::fmt::Result { unimplemented!() } }
pub mod sha256 {
    use vstd::prelude::*;
    pub struct HashEngine { pub f: Ghost<Seq<u8>> }
    impl super::io::Write for HashEngine { open spec fn fed(&self) -> Seq<u8> { self.f@ } }
    #[derive(Clone, Copy)]
    pub struct Hash { pub bytes: [u8; 32] }
    impl Hash {
        pub open spec fn view(&self) -> Seq<u8> { self.bytes@ }
        #[verifier::external_body]
        pub fn engine() -> (e: HashEngine) ensures e.f@ == Seq::<u8>::empty() { unimplemented!() }
        #[verifier::external_body]
        pub fn from_engine(e: HashEngine) -> (r: Hash) ensures r@ == super::sha256_spec(e.f@) { unimplemented!() }
        /// `sha256::Hash::hash(data)`
        #[verifier::external_body]
        pub fn hash(data: &[u8]) -> (r: Hash) ensures r@ == super::sha256_spec(data@) { unimplemented!() }
        /// `AsRef<[u8]>::as_ref`: the 32 digest bytes
        #[verifier::external_body]
        pub fn as_ref(&self) -> (r: &[u8]) ensures r@ == self@ { unimplemented!() }
        #[verifier::external_body]
        pub fn to_byte_array(self) -> (r: [u8; 32]) ensures r@ == self@ { unimplemented!() }
        #[verifier::external_body]
        pub fn from_byte_array(b: [u8; 32]) -> (r: Hash) ensures r@ == b@ { unimplemented!() }
    }
}
pub mod sha256d {
    use vstd::prelude::*;
    pub struct HashEngine { pub f: Ghost<Seq<u8>> }
    impl super::io::Write for HashEngine { open spec fn fed(&self) -> Seq<u8> { self.f@ } }
    #[derive(Clone, Copy)]
    pub struct Hash { pub bytes: [u8; 32] }
    impl Hash {
        pub open spec fn view(&self) -> Seq<u8> { self.bytes@ }
        #[verifier::external_body]
        pub fn engine() -> (e: HashEngine) ensures e.f@ == Seq::<u8>::empty() { unimplemented!() }
        #[verifier::external_body]
        pub fn from_engine(e: HashEngine) -> (r: Hash) ensures r@ == super::sha256d_spec(e.f@) { unimplemented!() }
        #[verifier::external_body]
        pub fn hash(data: &[u8]) -> (r: Hash) ensures r@ == super::sha256d_spec(data@) { unimplemented!() }
        #[verifier::external_body]
        pub fn as_ref(&self) -> (r: &[u8]) ensures r@ == self@ { unimplemented!() }
        #[verifier::external_body]
        pub fn to_byte_array(self) -> (r: [u8; 32]) ensures r@ == self@ { unimplemented!() }
        #[verifier::external_body]
        pub fn from_byte_array(b: [u8; 32]) -> (r: Hash) ensures r@ == b@ { unimplemented!() }
    }
    impl HashEngine {
        #[verifier::external_body]
        pub fn finalize(self) -> (r: Hash) ensures r@ == super::sha256d_spec(self.f@) { unimplemented!() }
    }
}
// hash_newtype! wrappers (src/hash_types.rs, src/taproot.rs): tuple structs over the hash; accessors are the identity
pub struct Sighash(pub sha256d::Hash);
#[derive(Clone, Copy)]
pub struct BlockHash(pub sha256d::Hash);
#[derive(Clone, Copy)]
pub struct Txid(pub sha256d::Hash);
#[derive(Clone, Copy)]
pub struct TapLeafHash(pub [u8; 32]);
impl TapLeafHash {
    pub open spec fn view(&self) -> Seq<u8> { self.0@ }
    #[verifier::external_body]
    pub fn to_byte_array(self) -> (r: [u8; 32]) ensures r@ == self@ { unimplemented!() }
}

// ---- environment: the consensus codec (C01's subject), one uninterpreted `ser` per leaf type ----------------------------
/// `Encodable::consensus_encode` into any sink: appends `ser()`; engines and the sinks used here do not fail.
/// (In the crate the writer is taken by value as `W: io::Write` and `&mut W` is passed; here the `&mut` is explicit.)
pub trait Encodable {
    spec fn ser(&self) -> Seq<u8>;
    fn consensus_encode<W: io::Write>(&self, e: &mut W) -> (r: Result<usize, encode::Error>)
        ensures r is Ok, final(e).fed() == old(e).fed() + self.ser();
}
pub uninterp spec fn ser_locktime(v: LockTime) -> Seq<u8>;
pub uninterp spec fn ser_script(v: Script) -> Seq<u8>;
pub uninterp spec fn ser_outpoint(v: OutPoint) -> Seq<u8>;
pub uninterp spec fn ser_sequence(v: Sequence) -> Seq<u8>;
pub uninterp spec fn ser_issuance(v: AssetIssuance) -> Seq<u8>;
pub uninterp spec fn ser_value(v: confidential::Value) -> Seq<u8>;
pub uninterp spec fn ser_asset(v: confidential::Asset) -> Seq<u8>;
pub uninterp spec fn ser_txout(v: TxOut) -> Seq<u8>;            // asset ‖ value ‖ nonce ‖ script_pubkey (no witness)
pub uninterp spec fn ser_txin(v: TxIn) -> Seq<u8>;              // outpoint (with flags) ‖ script_sig ‖ sequence ‖ [issuance] (no witness)
pub uninterp spec fn ser_rangeproof(v: Option<Box<RangeProof>>) -> Seq<u8>;
pub uninterp spec fn ser_surjproof(v: Option<Box<SurjectionProof>>) -> Seq<u8>;
pub uninterp spec fn ser_outwit(v: TxOutWitness) -> Seq<u8>;
impl Encodable for u8 { open spec fn ser(&self) -> Seq<u8> { seq![*self] }
    #[verifier::external_body] fn consensus_encode<W: io::Write>(&self, e: &mut W) -> (r: Result<usize, encode::Error>) { unimplemented!() } }
impl Encodable for u32 { open spec fn ser(&self) -> Seq<u8> { le32(*self) }
    #[verifier::external_body] fn consensus_encode<W: io::Write>(&self, e: &mut W) -> (r: Result<usize, encode::Error>) { unimplemented!() } }
impl Encodable for [u8; 32] { open spec fn ser(&self) -> Seq<u8> { self@ }
    #[verifier::external_body] fn consensus_encode<W: io::Write>(&self, e: &mut W) -> (r: Result<usize, encode::Error>) { unimplemented!() } }
impl Encodable for [u8; 4] { open spec fn ser(&self) -> Seq<u8> { self@ }
    #[verifier::external_body] fn consensus_encode<W: io::Write>(&self, e: &mut W) -> (r: Result<usize, encode::Error>) { unimplemented!() } }
impl Encodable for sha256::Hash { open spec fn ser(&self) -> Seq<u8> { self@ }
    #[verifier::external_body] fn consensus_encode<W: io::Write>(&self, e: &mut W) -> (r: Result<usize, encode::Error>) { unimplemented!() } }
impl Encodable for sha256d::Hash { open spec fn ser(&self) -> Seq<u8> { self@ }
    #[verifier::external_body] fn consensus_encode<W: io::Write>(&self, e: &mut W) -> (r: Result<usize, encode::Error>) { unimplemented!() } }
impl Encodable for Sighash { open spec fn ser(&self) -> Seq<u8> { self.0@ }
    #[verifier::external_body] fn consensus_encode<W: io::Write>(&self, e: &mut W) -> (r: Result<usize, encode::Error>) { unimplemented!() } }
impl Encodable for BlockHash { open spec fn ser(&self) -> Seq<u8> { self.0@ }
    #[verifier::external_body] fn consensus_encode<W: io::Write>(&self, e: &mut W) -> (r: Result<usize, encode::Error>) { unimplemented!() } }
impl Encodable for LockTime { open spec fn ser(&self) -> Seq<u8> { ser_locktime(*self) }
    #[verifier::external_body] fn consensus_encode<W: io::Write>(&self, e: &mut W) -> (r: Result<usize, encode::Error>) { unimplemented!() } }
impl Encodable for Script { open spec fn ser(&self) -> Seq<u8> { ser_script(*self) }
    #[verifier::external_body] fn consensus_encode<W: io::Write>(&self, e: &mut W) -> (r: Result<usize, encode::Error>) { unimplemented!() } }
impl Encodable for OutPoint { open spec fn ser(&self) -> Seq<u8> { ser_outpoint(*self) }
    #[verifier::external_body] fn consensus_encode<W: io::Write>(&self, e: &mut W) -> (r: Result<usize, encode::Error>) { unimplemented!() } }
impl Encodable for Sequence { open spec fn ser(&self) -> Seq<u8> { ser_sequence(*self) }
    #[verifier::external_body] fn consensus_encode<W: io::Write>(&self, e: &mut W) -> (r: Result<usize, encode::Error>) { unimplemented!() } }
impl Encodable for AssetIssuance { open spec fn ser(&self) -> Seq<u8> { ser_issuance(*self) }
    #[verifier::external_body] fn consensus_encode<W: io::Write>(&self, e: &mut W) -> (r: Result<usize, encode::Error>) { unimplemented!() } }
impl Encodable for confidential::Value { open spec fn ser(&self) -> Seq<u8> { ser_value(*self) }
    #[verifier::external_body] fn consensus_encode<W: io::Write>(&self, e: &mut W) -> (r: Result<usize, encode::Error>) { unimplemented!() } }
impl Encodable for confidential::Asset { open spec fn ser(&self) -> Seq<u8> { ser_asset(*self) }
    #[verifier::external_body] fn consensus_encode<W: io::Write>(&self, e: &mut W) -> (r: Result<usize, encode::Error>) { unimplemented!() } }
impl Encodable for TxOut { open spec fn ser(&self) -> Seq<u8> { ser_txout(*self) }
    #[verifier::external_body] fn consensus_encode<W: io::Write>(&self, e: &mut W) -> (r: Result<usize, encode::Error>) { unimplemented!() } }
impl Encodable for TxOutWitness { open spec fn ser(&self) -> Seq<u8> { ser_outwit(*self) }
    #[verifier::external_body] fn consensus_encode<W: io::Write>(&self, e: &mut W) -> (r: Result<usize, encode::Error>) { unimplemented!() } }
impl Encodable for Option<Box<RangeProof>> { open spec fn ser(&self) -> Seq<u8> { ser_rangeproof(*self) }
    #[verifier::external_body] fn consensus_encode<W: io::Write>(&self, e: &mut W) -> (r: Result<usize, encode::Error>) { unimplemented!() } }
impl Encodable for Option<Box<SurjectionProof>> { open spec fn ser(&self) -> Seq<u8> { ser_surjproof(*self) }
    #[verifier::external_body] fn consensus_encode<W: io::Write>(&self, e: &mut W) -> (r: Result<usize, encode::Error>) { unimplemented!() } }

// ---- environment: opaque leaf types -----------------------------------------------------------------------------------
#[derive(Clone, Copy)] pub struct LockTime(pub u32);
pub struct Script { pub b: Vec<u8> }
pub struct RangeProof { pub b: Vec<u8> }
pub struct SurjectionProof { pub b: Vec<u8> }
#[derive(Clone, Copy)] pub struct Tweak { pub b: [u8; 32] }
#[derive(Clone, Copy)] pub struct PedersenCommitment { pub b: [u8; 33] }
pub mod confidential {
    use vstd::prelude::*;
    use super::PedersenCommitment;
//@extract file=src/confidential.rs item="pub enum Value"
//@rewrite "# [ default ]" => ""
//@end
    impl Copy for Value {}
    impl Clone for Value { #[verifier::external_body] fn clone(&self) -> (r: Value) ensures r == *self { unimplemented!() } }
    impl Value {
//@extract file=src/confidential.rs fn=is_null in="impl Value" vis=keep
//@ret r
//@spec
//@|     ensures r == (*self is Null)
//@end
    }
    #[derive(Clone, Copy)] pub struct Asset { pub b: [u8; 33] }
    #[derive(Clone, Copy)] pub struct Nonce { pub b: [u8; 33] }
}

// ---- real type definitions, extracted verbatim ------------------------------------------------------------------------
//@extract file=src/transaction.rs item="pub struct Sequence"
//@end
impl Copy for Sequence {}
impl Clone for Sequence { #[verifier::external_body] fn clone(&self) -> (r: Sequence) ensures r == *self { unimplemented!() } }
//@extract file=src/transaction.rs item="pub struct OutPoint"
//@end
impl Copy for OutPoint {}
impl Clone for OutPoint { #[verifier::external_body] fn clone(&self) -> (r: OutPoint) ensures r == *self { unimplemented!() } }
//@extract file=src/transaction.rs item="pub struct AssetIssuance"
//@end
impl Copy for AssetIssuance {}
impl Clone for AssetIssuance { #[verifier::external_body] fn clone(&self) -> (r: AssetIssuance) ensures r == *self { unimplemented!() } }
//@extract file=src/transaction.rs item="pub struct TxInWitness"
//@end
//@extract file=src/transaction.rs item="pub struct TxIn"
//@end
//@extract file=src/transaction.rs item="pub struct TxOutWitness"
//@end
//@extract file=src/transaction.rs item="pub struct TxOut"
//@end
//@extract file=src/transaction.rs item="pub struct Transaction"
//@end
#[derive(PartialEq, Eq, Structural, Clone, Copy)]
//@extract file=src/transaction.rs item="pub enum EcdsaSighashType"
//@end
#[derive(PartialEq, Eq, Structural, Clone, Copy)]
//@extract file=src/sighash.rs item="pub enum SchnorrSighashType"
//@end
//@extract file=src/sighash.rs item="struct CommonCache"
//@end
//@extract file=src/sighash.rs item="struct SegwitCache"
//@end
//@extract file=src/sighash.rs item="struct TaprootCache"
//@end
// SighashCache<T: Deref<Target = Transaction>> is MONOMORPHISED to T = &Transaction by the two declared rewrites below
// (user-defined Deref on a type parameter is outside Verus' fragment; `&Transaction` is the instantiation every *_sighash
// caller in the crate uses, and `self.tx.field` then auto-derefs exactly as through Deref).
//@extract file=src/sighash.rs item="pub struct SighashCache"
//@rewrite "< T : Deref < Target = Transaction > >" => "<'t>"
//@rewrite "tx : T" => "tx: &'t Transaction"
//@end

// ---- real selector functions, extracted and verified ------------------------------------------------------------------
impl AssetIssuance {
//@extract file=src/transaction.rs fn=is_null in="impl AssetIssuance"
//@ret r
//@spec
//@|     ensures r == (self.amount is Null && self.inflation_keys is Null)
//@end
}
/// "has an asset issuance attached": amount or inflation keys present
pub open spec fn has_issuance_spec(i: TxIn) -> bool { !(i.asset_issuance.amount is Null && i.asset_issuance.inflation_keys is Null) }
/// Elements outpoint flag byte: bit 6 = pegin, bit 7 = issuance
pub open spec fn outpoint_flag_spec(i: TxIn) -> u8 { ((if i.is_pegin { 0x40u8 } else { 0u8 }) + (if has_issuance_spec(i) { 0x80u8 } else { 0u8 })) as u8 }
// ASSUMED (std): `u8::from(bool)` is 0 / 1
#[verifier::external_body]
pub proof fn axiom_u8_from_bool(b: bool)
    ensures <u8 as vstd::std_specs::convert::FromSpec<bool>>::obeys_from_spec(),
        <u8 as vstd::std_specs::convert::FromSpec<bool>>::from_spec(b) == (if b { 1u8 } else { 0u8 })
{}
impl TxIn {
//@extract file=src/transaction.rs fn=has_issuance in="impl TxIn"
//@ret r
//@spec
//@|     ensures r == has_issuance_spec(*self)
//@end
//@extract file=src/transaction.rs fn=outpoint_flag in="impl TxIn"
//@ret r
//@spec
//@|     ensures r == outpoint_flag_spec(*self)
//@at "( u8 :: from ( self . is_pegin )" before
//@| proof { axiom_u8_from_bool(self.is_pegin); axiom_u8_from_bool(has_issuance_spec(*self));
//@|     assert((1u8 << 6) | (1u8 << 7) == 0xc0u8 && (1u8 << 6) | (0u8 << 7) == 0x40u8 && (0u8 << 6) | (1u8 << 7) == 0x80u8 && (0u8 << 6) | (0u8 << 7) == 0u8) by(bit_vector); }
//@end
}
pub proof fn lemma_hashtype_bits()
    ensures
        1u32 & 0x80 == 0 && 2u32 & 0x80 == 0 && 3u32 & 0x80 == 0 && 0x81u32 & 0x80 == 0x80 && 0x82u32 & 0x80 == 0x80 && 0x83u32 & 0x80 == 0x80,
        1u32 & 0x1f == 1 && 2u32 & 0x1f == 2 && 3u32 & 0x1f == 3 && 0x81u32 & 0x1f == 1 && 0x82u32 & 0x1f == 2 && 0x83u32 & 0x1f == 3,
        0u8 & 0x80 == 0 && 1u8 & 0x80 == 0 && 2u8 & 0x80 == 0 && 3u8 & 0x80 == 0 && 0x81u8 & 0x80 == 0x80 && 0x82u8 & 0x80 == 0x80 && 0x83u8 & 0x80 == 0x80,
        0u8 & 3 == 0 && 1u8 & 3 == 1 && 2u8 & 3 == 2 && 3u8 & 3 == 3 && 0x81u8 & 3 == 1 && 0x82u8 & 3 == 2 && 0x83u8 & 3 == 3,
{
    assert(1u32 & 0x80 == 0 && 2u32 & 0x80 == 0 && 3u32 & 0x80 == 0 && 0x81u32 & 0x80 == 0x80 && 0x82u32 & 0x80 == 0x80 && 0x83u32 & 0x80 == 0x80) by(bit_vector);
    assert(1u32 & 0x1f == 1 && 2u32 & 0x1f == 2 && 3u32 & 0x1f == 3 && 0x81u32 & 0x1f == 1 && 0x82u32 & 0x1f == 2 && 0x83u32 & 0x1f == 3) by(bit_vector);
    assert(0u8 & 0x80 == 0 && 1u8 & 0x80 == 0 && 2u8 & 0x80 == 0 && 3u8 & 0x80 == 0 && 0x81u8 & 0x80 == 0x80 && 0x82u8 & 0x80 == 0x80 && 0x83u8 & 0x80 == 0x80) by(bit_vector);
    assert(0u8 & 3 == 0 && 1u8 & 3 == 1 && 2u8 & 3 == 2 && 3u8 & 3 == 3 && 0x81u8 & 3 == 1 && 0x82u8 & 3 == 2 && 0x83u8 & 3 == 3) by(bit_vector);
}
impl EcdsaSighashType {
//@extract file=src/transaction.rs fn=split_anyonecanpay_flag in="impl EcdsaSighashType"
//@ret r
//@spec
//@|     ensures r.1 == (ecdsa_u32(self) & 0x80 == 0x80),
//@|         (ecdsa_u32(self) & 0x1f == 2 <==> r.0 is None) && (ecdsa_u32(self) & 0x1f == 3 <==> r.0 is Single) && (ecdsa_u32(self) & 0x1f == 1 <==> r.0 is All),
//@at "match self" before
//@| proof { lemma_hashtype_bits(); }
//@end
//@extract file=src/transaction.rs fn=as_u32 in="impl EcdsaSighashType"
//@ret r
//@spec
//@|     ensures r == ecdsa_u32(self)
//@end
}
/// the numeric value of the hash type (the enum's declared discriminants)
pub open spec fn ecdsa_u32(t: EcdsaSighashType) -> u32 { t as u32 }
pub open spec fn schnorr_u8(t: SchnorrSighashType) -> u8 { t as u8 }
impl SchnorrSighashType {
//@extract file=src/sighash.rs fn=split_anyonecanpay_flag in="impl SchnorrSighashType"
//@ret r
//@spec
//@|     ensures !(self is Reserved) ==> r.1 == (schnorr_u8(self) & 0x80 == 0x80)
//@|         && (schnorr_u8(self) & 3 == 2 <==> r.0 is None) && (schnorr_u8(self) & 3 == 3 <==> r.0 is Single) && !(r.0 is Reserved),
//@at "match self" before
//@| proof { lemma_hashtype_bits(); }
//@end
}

// ---- specification vocabulary: sub-hash pre-images as functions of the transaction / spent outputs ---------------------
/// concatenation of f(s[0]) ‖ f(s[1]) ‖ ...
pub open spec fn flat<T>(s: Seq<T>, f: spec_fn(T) -> Seq<u8>) -> Seq<u8>
    decreases s.len()
{
    if s.len() == 0 { Seq::<u8>::empty() } else { flat(s.drop_last(), f) + f(s.last()) }
}
pub open spec fn prevouts_stream(tx: Transaction) -> Seq<u8> { flat(tx.input@, |i: TxIn| ser_outpoint(i.previous_output)) }
pub open spec fn sequences_stream(tx: Transaction) -> Seq<u8> { flat(tx.input@, |i: TxIn| ser_sequence(i.sequence)) }
pub open spec fn issuance_or_zero(i: TxIn) -> Seq<u8> { if has_issuance_spec(i) { ser_issuance(i.asset_issuance) } else { seq![0u8] } }
pub open spec fn issuances_stream(tx: Transaction) -> Seq<u8> { flat(tx.input@, |i: TxIn| issuance_or_zero(i)) }
pub open spec fn outputs_stream(tx: Transaction) -> Seq<u8> { flat(tx.output@, |o: TxOut| ser_txout(o)) }
pub open spec fn out_witness_ser(o: TxOut) -> Seq<u8> { ser_surjproof(o.witness.surjection_proof) + ser_rangeproof(o.witness.rangeproof) }
pub open spec fn output_witnesses_stream(tx: Transaction) -> Seq<u8> { flat(tx.output@, |o: TxOut| out_witness_ser(o)) }
pub open spec fn outpoint_flags_stream(tx: Transaction) -> Seq<u8> { flat(tx.input@, |i: TxIn| seq![outpoint_flag_spec(i)]) }
pub open spec fn in_rangeproofs_ser(i: TxIn) -> Seq<u8> { ser_rangeproof(i.witness.amount_rangeproof) + ser_rangeproof(i.witness.inflation_keys_rangeproof) }
pub open spec fn issuance_rangeproofs_stream(tx: Transaction) -> Seq<u8> { flat(tx.input@, |i: TxIn| in_rangeproofs_ser(i)) }
pub open spec fn asset_amounts_stream(spent: Seq<TxOut>) -> Seq<u8> { flat(spent, |o: TxOut| ser_asset(o.asset) + ser_value(o.value)) }
pub open spec fn script_pubkeys_stream(spent: Seq<TxOut>) -> Seq<u8> { flat(spent, |o: TxOut| ser_script(o.script_pubkey)) }

/// std::borrow::Borrow, restated: `bview` is the borrowed value (ASSUMED contract on std; the crate uses T = TxOut / &TxOut)
pub trait Borrow<B> {
    spec fn bview(&self) -> B;
    fn borrow(&self) -> (r: &B) ensures *r == self.bview();
}
impl Borrow<TxOut> for TxOut {
    open spec fn bview(&self) -> TxOut { *self }
    fn borrow(&self) -> (r: &TxOut) { self }
}
pub open spec fn spent_of<T: Borrow<TxOut>>(s: Seq<T>) -> Seq<TxOut> { s.map_values(|t: T| t.bview()) }

// ---- environment: the lazily filled sub-hash caches (ASSUMED; Kani units c13_* check the closures boundedly) -----------
// What is assumed is exactly `Option::get_or_insert_with` + "the closure computes the hash of the stream named by the
// field": a cache that is already present is returned unchanged, an absent one is filled from the transaction (and, for
// the taproot cache, from the spent outputs handed in at that moment).
spec fn common_ok(c: CommonCache, tx: Transaction) -> bool {
    &&& c.prevouts@ == sha256_spec(prevouts_stream(tx))
    &&& c.sequences@ == sha256_spec(sequences_stream(tx))
    &&& c.outputs@ == sha256_spec(outputs_stream(tx))
    &&& c.issuances@ == sha256_spec(issuances_stream(tx))
    &&& c.output_witnesses@ == sha256_spec(output_witnesses_stream(tx))
}
spec fn segwit_ok(c: SegwitCache, tx: Transaction) -> bool {
    &&& c.prevouts@ == sha256d_spec(prevouts_stream(tx))
    &&& c.sequences@ == sha256d_spec(sequences_stream(tx))
    &&& c.outputs@ == sha256d_spec(outputs_stream(tx))
    &&& c.issuances@ == sha256d_spec(issuances_stream(tx))
}
spec fn taproot_ok(c: TaprootCache, tx: Transaction, spent: Seq<TxOut>) -> bool {
    &&& c.script_pubkeys@ == sha256_spec(script_pubkeys_stream(spent))
    &&& c.outpoint_flags@ == sha256_spec(outpoint_flags_stream(tx))
    &&& c.asset_amounts@ == sha256_spec(asset_amounts_stream(spent))
    &&& c.issuance_rangeproofs@ == sha256_spec(issuance_rangeproofs_stream(tx))
}
/// the common and segwit caches, if filled, were filled from this transaction
spec fn wf_cs(s: SighashCache) -> bool {
    &&& (s.common_cache matches Some(c) ==> common_ok(c, *s.tx))
    &&& (s.segwit_cache matches Some(c) ==> segwit_ok(c, *s.tx))
}
/// ... and the taproot cache, if filled, was filled from this transaction and the spent outputs `spent`
spec fn wf_t(s: SighashCache, spent: Seq<TxOut>) -> bool { s.taproot_cache matches Some(c) ==> taproot_ok(c, *s.tx, spent) }

#[verifier::opaque]
spec fn common_cache_rel(o: SighashCache, f: SighashCache, r: CommonCache) -> bool {
    &&& f.tx == o.tx && f.segwit_cache == o.segwit_cache && f.taproot_cache == o.taproot_cache
    &&& f.common_cache == Some(r)
    &&& match o.common_cache { Some(c) => r == c, None => common_ok(r, *o.tx) }
}
#[verifier::opaque]
spec fn segwit_cache_rel(o: SighashCache, f: SighashCache, r: SegwitCache) -> bool {
    &&& f.tx == o.tx && f.taproot_cache == o.taproot_cache
    &&& f.segwit_cache == Some(r)
    &&& match o.segwit_cache {
            Some(c) => r == c && f.common_cache == o.common_cache,
            // filled through common_cache_minimal_borrow: one more SHA-256 over each common field
            None => match (o.common_cache, f.common_cache) {
                (Some(c0), Some(c1)) => c1 == c0 && r.prevouts@ == sha256_spec(c0.prevouts@) && r.sequences@ == sha256_spec(c0.sequences@)
                    && r.outputs@ == sha256_spec(c0.outputs@) && r.issuances@ == sha256_spec(c0.issuances@),
                (None, Some(c1)) => common_ok(c1, *o.tx) && segwit_ok(r, *o.tx),
                _ => false,
            },
        }
}
#[verifier::opaque]
spec fn taproot_cache_rel(o: SighashCache, f: SighashCache, r: TaprootCache, spent: Seq<TxOut>) -> bool {
    &&& f.tx == o.tx && f.segwit_cache == o.segwit_cache && f.common_cache == o.common_cache
    &&& f.taproot_cache == Some(r)
    &&& match o.taproot_cache { Some(c) => r == c, None => taproot_ok(r, *o.tx, spent) }
}
proof fn lemma_common_cache(o: SighashCache, f: SighashCache, r: CommonCache)
    requires common_cache_rel(o, f, r), wf_cs(o)
    ensures wf_cs(f), common_ok(r, *o.tx), f.tx == o.tx, f.taproot_cache == o.taproot_cache, f.common_cache == Some(r)
{ reveal(common_cache_rel); }
proof fn lemma_segwit_cache(o: SighashCache, f: SighashCache, r: SegwitCache)
    requires segwit_cache_rel(o, f, r), wf_cs(o)
    ensures wf_cs(f), segwit_ok(r, *o.tx), f.tx == o.tx, f.taproot_cache == o.taproot_cache, f.segwit_cache == Some(r)
{ reveal(segwit_cache_rel); }
proof fn lemma_taproot_cache(o: SighashCache, f: SighashCache, r: TaprootCache, spent: Seq<TxOut>)
    requires taproot_cache_rel(o, f, r, spent), wf_cs(o), wf_t(o, spent)
    ensures wf_cs(f), wf_t(f, spent), taproot_ok(r, *o.tx, spent), f.tx == o.tx, f.taproot_cache == Some(r)
{ reveal(taproot_cache_rel); }

