// Annotated extractions of the node-level functions of src/taproot.rs (TaprootMerkleBranch::push, LeafInfo::{new,hash},
// NodeInfo::{new_hidden,new_leaf_with_ver,combine}). Included by every C15 unit, so each unit VERIFIES these real
// bodies itself instead of assuming a sibling unit's contract. Requires inc/c15_taproot_env.rs to be included first.
impl TaprootMerkleBranch {
//@extract file=src/taproot.rs fn=push in="impl TaprootMerkleBranch"
//@ret r
//@spec
//@|     ensures
//@|         old(self).0@.len() < 128 ==> r is Ok && final(self).0@ == old(self).0@.push(h),
//@|         old(self).0@.len() >= 128 ==> r == Err::<(), TaprootBuilderError>(TaprootBuilderError::InvalidMerkleTreeDepth(old(self).0.len())) && final(self).0@ == old(self).0@,
//@end
}

impl LeafInfo {
//@extract file=src/taproot.rs fn=new in="impl LeafInfo"
//@ret r
//@spec
//@|     ensures r.script == script, r.ver == ver, r.merkle_branch.0@ == Seq::<TapNodeHash>::empty()
//@end
//@extract file=src/taproot.rs fn=hash in="impl LeafInfo"
//@ret r
//@spec
//@|     ensures r@ == tap_leaf_hash(self.script, self.ver)
//@end
}

impl NodeInfo {
//@extract file=src/taproot.rs fn=new_hidden in="impl NodeInfo"
//@ret r
//@spec
//@|     ensures r.hash == hash, r.leaves@.len() == 0, node_wf(r)
//@end
//@extract file=src/taproot.rs fn=new_leaf_with_ver in="impl NodeInfo"
//@ret r
//@spec
//@|     ensures r.hash@ == tap_leaf_hash(script, ver), r.leaves@.len() == 1, r.leaves@[0].script == script, r.leaves@[0].ver == ver,
//@|         r.leaves@[0].merkle_branch.0@.len() == 0, node_wf(r)
//@end
//@extract file=src/taproot.rs fn=combine in="impl NodeInfo"
//@ret r
//@spec
//@|     ensures combine_post(a, b, r)
//@at "let mut all_leaves" before
//@| proof { axiom_leaf_vec_len(a.leaves); axiom_leaf_vec_len(b.leaves); }
//@at "for mut a_leaf in" after
//@| it:
//@loop 1
//@|     invariant
//@|         it.seq() == a.leaves@,
//@|         all_leaves@.len() == it.index@,
//@|         forall|k: int| 0 <= k < it.index@ ==> leaf_ext(a.leaves@[k], #[trigger] all_leaves@[k], b.hash),
//@at "a_leaf . merkle_branch . push" before
//@| proof { assert(a_leaf == a.leaves@[it.index@ as int]); }
//@at "for mut b_leaf in" after
//@| it:
//@loop 2
//@|     invariant
//@|         it.seq() == b.leaves@,
//@|         all_leaves@.len() == a.leaves@.len() + it.index@,
//@|         forall|k: int| 0 <= k < a.leaves@.len() ==> leaf_ext(a.leaves@[k], #[trigger] all_leaves@[k], b.hash),
//@|         forall|j: int| 0 <= j < it.index@ ==> leaf_ext(b.leaves@[j], #[trigger] all_leaves@[a.leaves@.len() + j], a.hash),
//@at "b_leaf . merkle_branch . push" before
//@| proof { assert(b_leaf == b.leaves@[it.index@ as int]); }
//@at "Ok ( Self {" before
//@| proof {
//@|     lemma_pair_code(a.hash@, b.hash@);
//@|     lemma_pair_comm(a.hash@, b.hash@);
//@|     let root = pair_hash(a.hash@, b.hash@);
//@|     if node_wf(a) && node_wf(b) {
//@|         assert forall|i: int| 0 <= i < all_leaves@.len() implies leaf_ok(#[trigger] all_leaves@[i], root) by {
//@|             if i < a.leaves@.len() { lemma_leaf_ext(a.leaves@[i], all_leaves@[i], b.hash, a.hash@); }
//@|             else { let j = i - a.leaves@.len(); assert(all_leaves@[i] == all_leaves@[a.leaves@.len() + j]); lemma_leaf_ext(b.leaves@[j], all_leaves@[i], a.hash, b.hash@); }
//@|         }
//@|     }
//@| }
//@end
}

