// Shared specification of the fast merkle tree (included by the C18, C19 and C11 units).
// `compress` is the SHA-256 compression function applied to the initial state and one 64-byte block l || r
// (uninterpreted: the proofs hold for any function).
pub uninterp spec fn compress(l: Seq<u8>, r: Seq<u8>) -> Seq<u8>;

// =====================================================================
// SPECIFICATION (definitional merkle tree, written from the English text)
// =====================================================================

/// The leaves as a sequence of byte sequences.
pub open spec fn leaf_seq(leaves: Seq<[u8; 32]>) -> Seq<Seq<u8>> {
    leaves.map_values(|l: [u8; 32]| l@)
}

/// One level up: pair adjacent nodes left to right; an unpaired last node is
/// promoted unchanged.
pub open spec fn level_up(s: Seq<Seq<u8>>) -> Seq<Seq<u8>> {
    Seq::new(
        ((s.len() + 1) / 2) as nat,
        |i: int| if 2 * i + 1 < s.len() { compress(s[2 * i], s[2 * i + 1]) } else { s[2 * i] },
    )
}

/// Merkle root: empty -> 32 zero bytes; single node -> that node; otherwise
/// the root of the next level.
pub open spec fn mroot(s: Seq<Seq<u8>>) -> Seq<u8>
    decreases s.len()
{
    if s.len() == 0 {
        Seq::new(32, |i: int| 0u8)
    } else if s.len() == 1 {
        s[0]
    } else {
        mroot(level_up(s))
    }
}

