//@ property: C05
//@ unit: c05_verify tier=quick
//@ clause: Transaction::verify_tx_amt_proofs returns Ok only if the spent-output list has the length of the input list; every spent output and every output has a non-null asset and a usable value (zero explicit values only on provably unspendable scripts, and then left out of the balance); every output with a blinded value carries a range proof that the range-proof primitive accepts for THAT output's commitment, THAT output's script bytes and THAT output's asset generator; every output with a blinded asset carries a surjection proof that the primitive accepts for that generator against the domain [for each input in order: generator of its spent output, then - if it has an issuance - the unblinded generators of the issued asset and of the reissuance token for each non-null amount]; and the balance primitive accepts [for each input in order: value commitment of the spent output, then the issuance amounts (explicit ones as unblinded commitments under the issued asset / token generator)] against [the value commitments of the outputs in order]; a list of the wrong length is rejected with UtxoInputLenMismatch; for any number of inputs and outputs
use vstd::prelude::*;
verus! {
// ---- environment: libsecp256k1-zkp (ASSUMED: every primitive is an uninterpreted function of its arguments) --------------
pub mod secp256k1_zkp {
    use vstd::prelude::*;
    pub struct All;
    pub trait Signing {}
    impl Signing for All {}
    pub struct Secp256k1<C> { pub c: Ghost<Option<C>> }
    pub struct Error;
    #[derive(Clone, Copy)] pub struct Tag { pub b: [u8; 32] }
    #[derive(Clone, Copy)] pub struct Generator { pub b: [u8; 33], pub x: [u8; 31] }
    #[derive(Clone, Copy)] pub struct PedersenCommitment { pub b: [u8; 33], pub x: [u8; 31] }
    #[derive(Clone, Copy)] pub struct PublicKey { pub b: [u8; 33] }
    pub struct RangeProof { pub b: Vec<u8> }
    pub struct SurjectionProof { pub b: Vec<u8> }
    pub struct Range { pub start: u64, pub end: u64 }
    pub uninterp spec fn gen_unblinded(t: Tag) -> Generator;
    pub uninterp spec fn commit_unblinded(v: u64, g: Generator) -> PedersenCommitment;
    pub uninterp spec fn rp_valid(p: RangeProof, c: PedersenCommitment, msg: Seq<u8>, g: Generator) -> bool;
    pub uninterp spec fn sp_valid(p: SurjectionProof, g: Generator, domain: Seq<Generator>) -> bool;
    pub uninterp spec fn balance_ok(ins: Seq<PedersenCommitment>, outs: Seq<PedersenCommitment>) -> bool;
    impl Generator {
        #[verifier::external_body]
        pub fn new_unblinded<C: Signing>(secp: &Secp256k1<C>, tag: Tag) -> (r: Generator) ensures r == gen_unblinded(tag) { unimplemented!() }
    }
    impl PedersenCommitment {
        #[verifier::external_body]
        pub fn new_unblinded<C: Signing>(secp: &Secp256k1<C>, value: u64, gen: Generator) -> (r: PedersenCommitment) ensures r == commit_unblinded(value, gen) { unimplemented!() }
    }
    impl RangeProof {
        #[verifier::external_body]
        pub fn verify<C: Signing>(&self, secp: &Secp256k1<C>, commitment: PedersenCommitment, additional_commitment: &[u8], additional_generator: Generator) -> (r: Result<Range, Error>)
            ensures (r is Ok) == rp_valid(*self, commitment, additional_commitment@, additional_generator) { unimplemented!() }
    }
    impl SurjectionProof {
        #[verifier::external_body]
        pub fn verify<C: Signing>(&self, secp: &Secp256k1<C>, codomain: Generator, domain: &[Generator]) -> (r: bool)
            ensures r == sp_valid(*self, codomain, domain@) { unimplemented!() }
    }
    #[verifier::external_body]
    pub fn verify_commitments_sum_to_equal<C: Signing>(secp: &Secp256k1<C>, a: &[PedersenCommitment], b: &[PedersenCommitment]) -> (r: bool)
        ensures r == balance_ok(a@, b@) { unimplemented!() }
}
use secp256k1_zkp::{Secp256k1, Generator, PedersenCommitment, PublicKey, RangeProof, SurjectionProof, Tag};
use secp256k1_zkp::{gen_unblinded, commit_unblinded, rp_valid, sp_valid, balance_ok};

// ---- environment: sibling code (ASSUMED; decided elsewhere as noted) -----------------------------------------------------
#[derive(Clone, Copy)] pub struct AssetId { pub b: [u8; 32] }
pub uninterp spec fn tag_of(a: AssetId) -> Tag;
impl AssetId {
    #[verifier::external_body]
    pub fn into_tag(self) -> (r: Tag) ensures r == tag_of(self) { unimplemented!() }
}
pub struct Script { pub b: Vec<u8> }
pub uninterp spec fn unspendable(s: Script) -> bool;
impl Script {
    /// C16 (Kani unit c16_templates) decides this predicate against its byte pattern
    #[verifier::external_body]
    pub fn is_provably_unspendable(&self) -> (r: bool) ensures r == unspendable(*self) { unimplemented!() }
    #[verifier::external_body]
    pub fn as_bytes(&self) -> (r: &[u8]) ensures r@ == self.b@ { unimplemented!() }
}
#[derive(Clone, Copy)] pub struct Txid { pub b: [u8; 32] }
#[derive(Clone, Copy)] pub struct LockTime(pub u32);
#[derive(Clone, Copy)] pub struct Tweak { pub b: [u8; 32] }
pub mod confidential {
    use vstd::prelude::*;
    use super::{PedersenCommitment, Generator, PublicKey, AssetId, Secp256k1};
    use super::secp256k1_zkp;
//@extract file=src/confidential.rs item="pub enum Value"
//@rewrite "# [ default ]" => ""
//@end
    impl Copy for Value {}
    impl Clone for Value { #[verifier::external_body] fn clone(&self) -> (r: Value) ensures r == *self { unimplemented!() } }
//@extract file=src/confidential.rs item="pub enum Asset"
//@rewrite "# [ default ]" => ""
//@end
    impl Copy for Asset {}
    impl Clone for Asset { #[verifier::external_body] fn clone(&self) -> (r: Asset) ensures r == *self { unimplemented!() } }
//@extract file=src/confidential.rs item="pub enum Nonce"
//@rewrite "# [ default ]" => ""
//@end
    impl Copy for Nonce {}
    impl Clone for Nonce { #[verifier::external_body] fn clone(&self) -> (r: Nonce) ensures r == *self { unimplemented!() } }
    pub open spec fn asset_gen_spec(a: Asset) -> Option<Generator> {
        match a { Asset::Null => None, Asset::Explicit(x) => Some(secp256k1_zkp::gen_unblinded(super::tag_of(x))), Asset::Confidential(g) => Some(g) }
    }
    impl Value {
//@extract file=src/confidential.rs fn=is_null in="impl Value" vis=keep
//@ret r
//@spec
//@|     ensures r == (*self is Null)
//@end
//@extract file=src/confidential.rs fn=commitment in="impl Value" vis=keep
//@ret r
//@spec
//@|     ensures r == (match *self { Value::Confidential(c) => Some(c), _ => None })
//@end
    }
    impl Asset {
//@extract file=src/confidential.rs fn=commitment in="impl Asset" vis=keep
//@ret r
//@spec
//@|     ensures r == (match *self { Asset::Confidential(g) => Some(g), _ => None })
//@end
//@extract file=src/confidential.rs fn=into_asset_gen in="impl Asset" vis=keep
//@ret r
//@spec
//@|     ensures r == asset_gen_spec(self)
//@end
    }
}
use confidential::{Value, Asset, Nonce, asset_gen_spec};

//@extract file=src/transaction.rs item="pub struct Sequence"
//@end
impl Copy for Sequence {}
impl Clone for Sequence { #[verifier::external_body] fn clone(&self) -> (r: Sequence) ensures r == *self { unimplemented!() } }
//@extract file=src/transaction.rs item="pub struct OutPoint"
//@end
impl Copy for OutPoint {}
impl Clone for OutPoint { #[verifier::external_body] fn clone(&self) -> (r: OutPoint) ensures r == *self { unimplemented!() } }
//@extract file=src/transaction.rs item="pub struct AssetIssuance"
//@end
impl Copy for AssetIssuance {}
impl Clone for AssetIssuance { #[verifier::external_body] fn clone(&self) -> (r: AssetIssuance) ensures r == *self { unimplemented!() } }
//@extract file=src/transaction.rs item="pub struct TxInWitness"
//@end
//@extract file=src/transaction.rs item="pub struct TxIn"
//@end
//@extract file=src/transaction.rs item="pub struct TxOutWitness"
//@end
//@extract file=src/transaction.rs item="pub struct TxOut"
//@end
//@extract file=src/transaction.rs item="pub struct Transaction"
//@end
//@extract file=src/blind.rs item="pub enum TxOutError"
//@end
//@extract file=src/blind.rs item="pub enum VerificationError"
//@end
pub uninterp spec fn iss_asset_id(i: TxIn) -> AssetId;
pub uninterp spec fn iss_token_id(i: TxIn) -> AssetId;
pub open spec fn has_issuance_spec(i: TxIn) -> bool { !(i.asset_issuance.amount is Null && i.asset_issuance.inflation_keys is Null) }
impl AssetIssuance {
//@extract file=src/transaction.rs fn=is_null in="impl AssetIssuance"
//@ret r
//@spec
//@|     ensures r == (self.amount is Null && self.inflation_keys is Null)
//@end
}
impl TxIn {
//@extract file=src/transaction.rs fn=has_issuance in="impl TxIn"
//@ret r
//@spec
//@|     ensures r == has_issuance_spec(*self)
//@end
    /// C11 (Verus unit c11_issuance_ids) proves the derivation; here the ids are opaque functions of the input
    #[verifier::external_body]
    pub fn issuance_ids(&self) -> (r: (AssetId, AssetId)) ensures r.0 == iss_asset_id(*self), r.1 == iss_token_id(*self) { unimplemented!() }
}

// ---- specification (property C05) ---------------------------------------------------------------------------------------
pub enum VC { Null, ZeroUnspendable, ZeroSpendable, NullAsset, Commit(PedersenCommitment) }
/// the value commitment of an output / spent output, or why there is none
pub open spec fn value_commit_spec(o: TxOut) -> VC {
    match o.value {
        Value::Null => VC::Null,
        Value::Explicit(v) => if v == 0 { if unspendable(o.script_pubkey) { VC::ZeroUnspendable } else { VC::ZeroSpendable } }
            else { match asset_gen_spec(o.asset) { None => VC::NullAsset, Some(g) => VC::Commit(commit_unblinded(v, g)) } },
        Value::Confidential(c) => VC::Commit(c),
    }
}
pub open spec fn iss_domain1(amt: Value, id: AssetId) -> Seq<Generator> {
    if amt is Null { Seq::<Generator>::empty() } else { seq![gen_unblinded(tag_of(id))] }
}
pub open spec fn iss_commit1(amt: Value, id: AssetId) -> Seq<PedersenCommitment> {
    match amt { Value::Null => Seq::<PedersenCommitment>::empty(), Value::Explicit(v) => seq![commit_unblinded(v, gen_unblinded(tag_of(id)))], Value::Confidential(c) => seq![c] }
}
/// what input `inp` spending `spent` contributes to the surjection domain / to the input side of the balance
pub open spec fn in_domain(inp: TxIn, spent: TxOut) -> Seq<Generator> {
    seq![asset_gen_spec(spent.asset)->Some_0]
    + (if has_issuance_spec(inp) { iss_domain1(inp.asset_issuance.amount, iss_asset_id(inp)) + iss_domain1(inp.asset_issuance.inflation_keys, iss_token_id(inp)) } else { Seq::<Generator>::empty() })
}
pub open spec fn in_commits_of(inp: TxIn, spent: TxOut) -> Seq<PedersenCommitment> {
    seq![value_commit_spec(spent)->Commit_0]
    + (if has_issuance_spec(inp) { iss_commit1(inp.asset_issuance.amount, iss_asset_id(inp)) + iss_commit1(inp.asset_issuance.inflation_keys, iss_token_id(inp)) } else { Seq::<PedersenCommitment>::empty() })
}
pub open spec fn iss_dom_prefix(arr: Seq<(Value, AssetId)>, k: int) -> Seq<Generator> {
    if k <= 0 { Seq::<Generator>::empty() } else if k == 1 { iss_domain1(arr[0].0, arr[0].1) } else { iss_domain1(arr[0].0, arr[0].1) + iss_domain1(arr[1].0, arr[1].1) }
}
pub open spec fn iss_com_prefix(arr: Seq<(Value, AssetId)>, k: int) -> Seq<PedersenCommitment> {
    if k <= 0 { Seq::<PedersenCommitment>::empty() } else if k == 1 { iss_commit1(arr[0].0, arr[0].1) } else { iss_commit1(arr[0].0, arr[0].1) + iss_commit1(arr[1].0, arr[1].1) }
}
pub open spec fn domain_upto(ins: Seq<TxIn>, spent: Seq<TxOut>, n: int) -> Seq<Generator>
    decreases n
{ if n <= 0 { Seq::<Generator>::empty() } else { domain_upto(ins, spent, n - 1) + in_domain(ins[n - 1], spent[n - 1]) } }
pub open spec fn in_commits_upto(ins: Seq<TxIn>, spent: Seq<TxOut>, n: int) -> Seq<PedersenCommitment>
    decreases n
{ if n <= 0 { Seq::<PedersenCommitment>::empty() } else { in_commits_upto(ins, spent, n - 1) + in_commits_of(ins[n - 1], spent[n - 1]) } }
pub open spec fn out_commit1(o: TxOut) -> Seq<PedersenCommitment> {
    match value_commit_spec(o) { VC::Commit(c) => seq![c], _ => Seq::<PedersenCommitment>::empty() }
}
pub open spec fn out_commits_upto(outs: Seq<TxOut>, n: int) -> Seq<PedersenCommitment>
    decreases n
{ if n <= 0 { Seq::<PedersenCommitment>::empty() } else { out_commits_upto(outs, n - 1) + out_commit1(outs[n - 1]) } }
pub open spec fn spent_ok(o: TxOut) -> bool { asset_gen_spec(o.asset) is Some && value_commit_spec(o) is Commit }
/// everything that must hold of output `o` for the transaction to verify
pub open spec fn output_ok(o: TxOut, domain: Seq<Generator>) -> bool {
    &&& (value_commit_spec(o) is Commit || value_commit_spec(o) is ZeroUnspendable)
    &&& (o.value matches Value::Confidential(c) ==> asset_gen_spec(o.asset) is Some && o.witness.rangeproof is Some
            && rp_valid(*o.witness.rangeproof->Some_0, c, o.script_pubkey.b@, asset_gen_spec(o.asset)->Some_0))
    &&& (o.asset matches Asset::Confidential(g) ==> o.witness.surjection_proof is Some && sp_valid(*o.witness.surjection_proof->Some_0, g, domain))
}
/// THE SPECIFICATION of acceptance
pub open spec fn verifies(tx: Transaction, spent: Seq<TxOut>) -> bool {
    &&& spent.len() == tx.input@.len()
    &&& forall|i: int| 0 <= i < spent.len() ==> spent_ok(#[trigger] spent[i])
    &&& forall|j: int| 0 <= j < tx.output@.len() ==> output_ok(#[trigger] tx.output@[j], domain_upto(tx.input@, spent, tx.input@.len() as int))
    &&& balance_ok(in_commits_upto(tx.input@, spent, tx.input@.len() as int), out_commits_upto(tx.output@, tx.output@.len() as int))
}

impl TxOut {
//@extract file=src/blind.rs fn=get_asset_gen in="impl TxOut"
//@ret r
//@spec
//@|     ensures (r is Ok) == (asset_gen_spec(self.asset) is Some), r matches Ok(g) ==> Some(g) == asset_gen_spec(self.asset),
//@|         r matches Err(e) ==> e is UnExpectedNullAsset
//@end
//@extract file=src/blind.rs fn=get_value_commit in="impl TxOut"
//@ret r
//@spec
//@|     ensures match value_commit_spec(*self) {
//@|         VC::Null => r matches Err(e) && e is UnExpectedNullValue,
//@|         VC::ZeroUnspendable => r matches Err(e) && e is ZeroValueCommitment,
//@|         VC::ZeroSpendable => r matches Err(e) && e is NonUnspendableZeroValue,
//@|         VC::NullAsset => r matches Err(e) && e is UnExpectedNullAsset,
//@|         VC::Commit(c) => r == Ok::<PedersenCommitment, TxOutError>(c),
//@|     }
//@end
}

impl Transaction {
//@extract file=src/blind.rs fn=verify_tx_amt_proofs in="impl Transaction"
//@ret r
//@rewrite "for ( i , inp ) in self . input . iter ( ) . enumerate ( )" => "for i in iter: 0..self.input.len()"
//@rewrite "for ( i , out ) in self . output . iter ( ) . enumerate ( )" => "for i in iter: 0..self.output.len()"
//@spec
//@|     ensures
//@|         r is Ok ==> verifies(*self, spent_utxos@),
//@|         spent_utxos@.len() != self.input@.len() ==> (r matches Err(e) && e is UtxoInputLenMismatch),
//@rewrite "for ( amt , asset ) in & arr" => "for (amt, asset) in it: &arr"
//@loop-pos 1 body-start
//@| let inp = &self.input[i];
//@| let ghost d0 = domain@; let ghost c0 = in_commits@; let ghost sp = spent_utxos@[i as int];
//@loop-pos 1 body-end
//@| proof {
//@|     assert(domain@ =~= d0 + in_domain(*inp, sp));
//@|     assert(in_commits@ =~= c0 + in_commits_of(*inp, sp));
//@| }
//@loop 2
//@|     invariant
//@|         has_issuance_spec(*inp), spent_ok(sp),
//@|         arr@.len() == 2, arr@[0] == (inp.asset_issuance.amount, iss_asset_id(*inp)), arr@[1] == (inp.asset_issuance.inflation_keys, iss_token_id(*inp)),
//@|         it.seq().len() == 2, forall|k: int| 0 <= k < 2 ==> *(#[trigger] it.seq()[k]) == arr@[k],
//@|         domain@ == d0 + seq![asset_gen_spec(sp.asset)->Some_0] + iss_dom_prefix(arr@, it.index@ as int),
//@|         in_commits@ == c0 + seq![value_commit_spec(sp)->Commit_0] + iss_com_prefix(arr@, it.index@ as int),
//@|         out_commits@.len() == 0,
//@loop-pos 2 before
//@| proof {
//@|     assert(domain@ =~= d0 + seq![asset_gen_spec(sp.asset)->Some_0] + iss_dom_prefix(arr@, 0));
//@|     assert(in_commits@ =~= c0 + seq![value_commit_spec(sp)->Commit_0] + iss_com_prefix(arr@, 0));
//@| }
//@loop-pos 2 body-end
//@| proof {
//@|     let k = it.index@ as int;
//@|     assert(domain@ =~= d0 + seq![asset_gen_spec(sp.asset)->Some_0] + iss_dom_prefix(arr@, k + 1));
//@|     assert(in_commits@ =~= c0 + seq![value_commit_spec(sp)->Commit_0] + iss_com_prefix(arr@, k + 1));
//@| }
//@loop 1
//@|     invariant
//@|         spent_utxos@.len() == self.input@.len(),
//@|         domain@ == domain_upto(self.input@, spent_utxos@, i as int),
//@|         in_commits@ == in_commits_upto(self.input@, spent_utxos@, i as int),
//@|         forall|k: int| 0 <= k < i ==> spent_ok(#[trigger] spent_utxos@[k]),
//@|         out_commits@.len() == 0,
//@loop-pos 3 body-start
//@| let out = &self.output[i];
//@loop 3
//@|     invariant
//@|         spent_utxos@.len() == self.input@.len(),
//@|         domain@ == domain_upto(self.input@, spent_utxos@, self.input@.len() as int),
//@|         in_commits@ == in_commits_upto(self.input@, spent_utxos@, self.input@.len() as int),
//@|         forall|k: int| 0 <= k < spent_utxos@.len() ==> spent_ok(#[trigger] spent_utxos@[k]),
//@|         out_commits@ == out_commits_upto(self.output@, i as int),
//@|         forall|j: int| 0 <= j < i ==> output_ok(#[trigger] self.output@[j], domain@),
//@end
}

proof fn canary_verify(tx: Transaction, s: Seq<TxOut>) requires s.len() == tx.input@.len() ensures false {}
} // verus!
fn main() {}
