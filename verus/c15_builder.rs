//@ property: C15
//@ unit: c15_builder tier=quick
//@ clause: TaprootBuilder::insert keeps the builder invariant (at most 129 levels, no trailing None, every stored node satisfies the merkle-path invariant and has room for its level) and refuses exactly: depth > 128 => InvalidMerkleTreeDepth, depth+1 < levels => NodeNotInDfsOrder, a completed root being combined again => OverCompleteTree (combine itself can never refuse inside insert; unreachable!() is unreachable); add_leaf*/add_hidden are insert of a fresh leaf / hidden node; finalize refuses >1 level (IncompleteTree) and no level (EmptyTree) and otherwise hands the single wf root to from_node_info
use vstd::prelude::*;
verus! {
//@include inc/c15_taproot_env.rs
//@include inc/c15_node_fns.rs

//@extract file=src/taproot.rs item="pub struct TaprootBuilder"
//@end
//@extract file=src/taproot.rs item="pub const TAPROOT_LEAF_TAPSCRIPT"
//@end
pub closed spec fn leaf_version_byte(v: LeafVersion) -> u8 { v.0 }
impl Default for LeafVersion {
//@extract file=src/taproot.rs fn=default in="impl Default for LeafVersion"
//@ret r
//@spec
//@|     ensures leaf_version_byte(r) == 0xc4   // "Tapscript leaf version (different from bitcoin's 0xc0)"
//@end
}

// ---- specification ---------------------------------------------------------------------------------------------
/// every leaf below `n` still has room for the `d` siblings between level `d` and the root
spec fn lvl_ok(n: NodeInfo, d: int) -> bool {
    forall|i: int| 0 <= i < n.leaves@.len() ==> (#[trigger] n.leaves@[i]).merkle_branch.0@.len() + d <= 128
}
spec fn slot_ok(s: Option<NodeInfo>, i: int) -> bool { s matches Some(n) ==> node_wf(n) && lvl_ok(n, i) }
/// "there can never be None entries at the end; there can not be more than 128 levels below the root"
spec fn builder_inv(b: TaprootBuilder) -> bool {
    &&& b.branch@.len() <= 129
    &&& (b.branch@.len() > 0 ==> b.branch@.last() is Some)
    &&& forall|i: int| 0 <= i < b.branch@.len() ==> slot_ok(#[trigger] b.branch@[i], i)
}
/// levels 0..=depth all hold a finished subtree: adding one more node at `depth` would need a second root
spec fn over_complete(br: Seq<Option<NodeInfo>>, depth: int) -> bool {
    br.len() == depth + 1 && forall|i: int| 0 <= i <= depth ==> (#[trigger] br[i]) is Some
}
/// hash obtained by combining `h` (at level d0) with the pending left siblings at levels d0, d0-1, ..., stop+1
spec fn up_hash(h: Seq<u8>, br: Seq<Option<NodeInfo>>, d0: int, stop: int) -> Seq<u8>
    decreases d0 - stop
{
    if stop >= d0 { h } else { pair_hash(up_hash(h, br, d0, stop + 1), br[stop + 1]->Some_0.hash@) }
}
spec fn insert_post(b0: TaprootBuilder, h: Seq<u8>, depth: usize, r: Result<TaprootBuilder, TaprootBuilderError>) -> bool {
    let br = b0.branch@;
    match r {
        Err(e) => {
            if depth > 128 { e == TaprootBuilderError::InvalidMerkleTreeDepth(depth) }
            else if depth + 1 < br.len() { e == TaprootBuilderError::NodeNotInDfsOrder }
            else { e == TaprootBuilderError::OverCompleteTree && over_complete(br, depth as int) }
        },
        Ok(b) => {
            let top = b.branch@.len() - 1;
            &&& depth <= 128 && depth + 1 >= br.len() && !over_complete(br, depth as int)
            &&& builder_inv(b)
            &&& 0 <= top <= depth
            &&& forall|i: int| 0 <= i < top ==> #[trigger] b.branch@[i] == (if i < br.len() { br[i] } else { None })
            &&& forall|i: int| top < i <= depth ==> i < br.len() && (#[trigger] br[i]) is Some     // the siblings consumed
            &&& (top < br.len() ==> br[top] is None)
            &&& b.branch@[top] matches Some(n) && n.hash@ == up_hash(h, br, depth as int, top)
        },
    }
}
/// a node as add_leaf / add_hidden hand it to insert: no sibling recorded yet
spec fn fresh(n: NodeInfo) -> bool { forall|i: int| 0 <= i < n.leaves@.len() ==> (#[trigger] n.leaves@[i]).merkle_branch.0@.len() == 0 }

// `.extend((0..n).map(|_| None))`: iterator adapter + closure with a `_` parameter are outside Verus' exec fragment.
// The declared rewrite in insert replaces `.extend((0..num_extra_nodes).map(|_| None))` by `.extend_with_none(num_extra_nodes)`,
// whose body is this VERIFIED push loop (same effect: append `n` times `None`).
trait ExtendWithNone {
    fn extend_with_none(&mut self, n: usize);
}
impl ExtendWithNone for Vec<Option<NodeInfo>> {
    fn extend_with_none(&mut self, n: usize)
        ensures final(self)@ == old(self)@ + Seq::new(n as nat, |i: int| None::<NodeInfo>)
    {
        let ghost v0 = self@;
        for k in 0..n
            invariant self@ == v0 + Seq::new(k as nat, |i: int| None::<NodeInfo>)
        {
            self.push(None);
            assert(self@ =~= v0 + Seq::new((k + 1) as nat, |i: int| None::<NodeInfo>));
        }
    }
}

impl TaprootBuilder {
//@extract file=src/taproot.rs fn=new in="impl TaprootBuilder"
//@ret r
//@spec
//@|     ensures r.branch@.len() == 0, builder_inv(r)
//@end
//@extract file=src/taproot.rs fn=is_complete in="impl TaprootBuilder"
//@ret r
//@spec
//@|     ensures r == (self.branch@.len() == 1 && self.branch@[0] is Some)
//@end

// Declared rewrites in insert: (1) `mut self` is not in Verus' exec fragment: the parameter becomes `self` and the body
// works on `let mut this = self;` (exactly what `mut self` means); (2) the `.extend(..map(|_| None))` statement, see above.
// (loop_isolation(false): the `return` inside the loop must speak about the ORIGINAL values of the `mut` parameters,
// which only the function-level context can name; this is a verifier mode, not an assumption)
#[verifier::loop_isolation(false)]
//@extract file=src/taproot.rs fn=insert in="impl TaprootBuilder"
//@ret r
//@spec
//@|     requires builder_inv(self), node_wf(node), depth <= 128 ==> lvl_ok(node, depth as int)
//@|     ensures insert_post(self, node.hash@, depth, r)
//@rewrite "mut self" => "self"
//@rewrite "self . branch" => "this.branch" nth=all
//@rewrite "Ok ( self )" => "Ok(this)"
//@rewrite ". extend ( ( 0 . . num_extra_nodes ) . map ( | _ | None ) )" => ".extend_with_none(num_extra_nodes)"
//@at "if depth > TAPROOT_CONTROL_MAX_NODE_COUNT" before
//@| let mut this = self;
//@| let ghost orig = self.branch@; let ghost depth0 = depth as int; let ghost node0 = node;
//@| let ghost mut broke = false;   // set where the loop is left through `break` (the popped level was None)
//@loop 1
//@|     invariant
//@|         builder_inv(self), orig == self.branch@, depth0 <= 128, depth0 + 1 >= orig.len(),
//@|         0 <= depth <= depth0,
//@|         this.branch@.len() <= depth + 1, this.branch@.len() <= orig.len(),
//@|         this.branch@ =~= orig.take(this.branch@.len() as int),
//@|         depth < depth0 ==> this.branch@.len() == depth + 1,
//@|         depth == depth0 ==> this.branch@.len() == orig.len(),
//@|         forall|i: int| depth < i <= depth0 ==> i < orig.len() && (#[trigger] orig[i]) is Some,
//@|         node_wf(node), lvl_ok(node, depth as int),
//@|         node.hash@ == up_hash(node0.hash@, orig, depth0, depth as int),
//@|         broke ==> this.branch@.len() == depth + 1 && depth < orig.len() && orig[depth as int] is None,
//@|     decreases depth
//@at "let child = match" before
//@| let ghost pre = this.branch@;
//@| proof { assert(pre.len() == depth + 1); assert(pre[depth as int] == orig[depth as int]); assert(slot_ok(orig[depth as int], depth as int)); }
//@at "self . branch . push ( None ) ;" after
//@| proof { assert(this.branch@ =~= pre); broke = true; }
//@at "if depth == 0" before
//@| proof {
//@|     assert(orig[depth as int] == Some(child)); assert(this.branch@ =~= orig.take(depth as int));
//@|     if depth == 0 {   // the OverCompleteTree exit: levels 0..=depth0 were all finished subtrees
//@|         if depth0 > 0 { assert(orig[depth0] is Some); }
//@|         assert(orig.len() == depth0 + 1);
//@|         assert forall|i: int| 0 <= i <= depth0 implies (#[trigger] orig[i]) is Some by { }
//@|     }
//@| }
//@at "node = NodeInfo :: combine ( node , child ) ? ;" before
//@| let ghost node_pre = node;
//@at "node = NodeInfo :: combine ( node , child ) ? ;" after
//@| proof {
//@|     let d = depth as int;
//@|     assert forall|i: int| 0 <= i < node.leaves@.len() implies (#[trigger] node.leaves@[i]).merkle_branch.0@.len() + (d - 1) <= 128 by {
//@|         let na = node_pre.leaves@.len() as int;
//@|         if i < na { assert(leaf_ext(node_pre.leaves@[i], node.leaves@[i], child.hash)); }
//@|         else { let j = i - na; assert(node.leaves@[i] == node.leaves@[na + j]); assert(leaf_ext(child.leaves@[j], node.leaves@[na + j], node_pre.hash)); }
//@|     }
//@| }
//@at "if self . branch . len ( ) < depth + 1" before
//@| let ghost after_loop = this.branch@;
//@| proof { assert(this.branch@.len() != depth + 1 || broke); }
//@| proof { assert(after_loop =~= orig.take(after_loop.len() as int)); }
//@at "self . branch [ depth ] = Some ( node ) ;" before
//@| let ghost filled = this.branch@;
//@| proof {
//@|     assert(filled.len() == depth + 1);
//@|     assert forall|i: int| 0 <= i < filled.len() implies #[trigger] filled[i] == (if i < after_loop.len() { orig[i] } else { None }) by {
//@|         if i < after_loop.len() { assert(filled[i] == after_loop[i]); }
//@|     }
//@| }
//@at "Ok ( self )" before
//@| proof {
//@|     let top = depth as int;
//@|     let b = this.branch@;
//@|     assert(b.len() == top + 1 && b[top] == Some(node));
//@|     assert forall|i: int| 0 <= i < top implies #[trigger] b[i] == (if i < orig.len() { orig[i] } else { None }) by {
//@|         assert(b[i] == filled[i]);
//@|     }
//@|     assert forall|i: int| 0 <= i < b.len() implies slot_ok(#[trigger] b[i], i) by {
//@|         if i < top && i < orig.len() { assert(slot_ok(orig[i], i)); }
//@|     }
//@|     if over_complete(orig, depth0) { assert(orig[top] is Some); }
//@| }
//@end

//@extract file=src/taproot.rs fn=add_leaf_with_ver in="impl TaprootBuilder"
//@ret r
//@spec
//@|     requires builder_inv(self)
//@|     ensures insert_post(self, tap_leaf_hash(script, ver), depth, r)
//@end
//@extract file=src/taproot.rs fn=add_leaf in="impl TaprootBuilder"
//@ret r
//@spec
//@|     requires builder_inv(self)
//@|     ensures exists|v: LeafVersion| #[trigger] leaf_version_byte(v) == 0xc4 && insert_post(self, tap_leaf_hash(script, v), depth, r)
//@end
//@extract file=src/taproot.rs fn=add_hidden in="impl TaprootBuilder"
//@ret r
//@spec
//@|     requires builder_inv(self)
//@|     ensures insert_post(self, hash@, depth, r)
//@end

// Declared rewrites in finalize: `mut self` as in insert.
//@extract file=src/taproot.rs fn=finalize in="impl TaprootBuilder"
//@ret r
//@spec
//@|     requires builder_inv(self)
//@|     ensures match r {
//@|         Err(e) => (self.branch@.len() > 1 && e == TaprootBuilderError::IncompleteTree) || (self.branch@.len() == 0 && e == TaprootBuilderError::EmptyTree),
//@|         Ok(info) => self.branch@.len() == 1 && (self.branch@[0] matches Some(root) && node_wf(root) && spend_info_of(info, internal_key@, root)),
//@|     }
//@rewrite "mut self" => "self"
//@rewrite "self . branch" => "this.branch" nth=all
//@at "if self . branch . len ( ) > 1" before
//@| let mut this = self;
//@end
}

// ---- environment for finalize: TaprootSpendInfo::from_node_info (BTreeMap/BTreeSet bookkeeping + the curve tweak), ASSUMED
#[verifier::external_body]
pub struct TaprootSpendInfo { opaque: core::marker::PhantomData<u8> }
/// `info` is the spend info built from internal key `key` and root node `n` (merkle root n.hash, script map = n's leaves)
pub uninterp spec fn spend_info_of(info: TaprootSpendInfo, key: Seq<u8>, n: NodeInfo) -> bool;
impl TaprootSpendInfo {
    #[verifier::external_body]
    fn from_node_info<C: secp256k1_zkp::Verification>(secp: &Secp256k1<C>, internal_key: UntweakedPublicKey, node: NodeInfo) -> (r: TaprootSpendInfo)
        ensures spend_info_of(r, internal_key@, node)
    { unimplemented!() }
}

// ---- client: the DFS sequence (depth 2, depth 2, depth 1) builds ((s0, s1), s2) and finalizes -----------------------
// Shows that builder_inv is reachable from new() through the public API and that no step can be refused; only the
// contracts of new / add_leaf_with_ver / is_complete / finalize are visible here.
fn client_build_three<C: secp256k1_zkp::Verification>(
    secp: &Secp256k1<C>, s0: Script, s1: Script, s2: Script, v: LeafVersion, internal_key: UntweakedPublicKey,
) -> (r: Result<TaprootSpendInfo, TaprootBuilderError>)
    ensures r matches Ok(info) && (exists|root: NodeInfo| #[trigger] spend_info_of(info, internal_key@, root) && node_wf(root)
        && root.hash@ == pair_hash(tap_leaf_hash(s2, v), pair_hash(tap_leaf_hash(s1, v), tap_leaf_hash(s0, v))))
{
    let ghost (l0, l1, l2) = (tap_leaf_hash(s0, v), tap_leaf_hash(s1, v), tap_leaf_hash(s2, v));
    let b0 = TaprootBuilder::new();
    let b1 = match b0.add_leaf_with_ver(2, s0, v) { Ok(b) => b, Err(e) => { assert(false); return Err(e); } };
    proof {
        let top = b1.branch@.len() - 1;
        if top < 2 { assert(2 < b0.branch@.len()); }          // nothing to consume in an empty builder
        assert(b1.branch@.len() == 3 && b1.branch@[0] is None && b1.branch@[1] is None);
        assert(b1.branch@[2]->Some_0.hash@ == l0);
    }
    let b2 = match b1.add_leaf_with_ver(2, s1, v) { Ok(b) => b, Err(e) => { assert(b1.branch@[0] is Some); assert(false); return Err(e); } };
    proof {
        let br = b1.branch@;
        let top = b2.branch@.len() - 1;
        if top == 2 { assert(br[2] is None); }
        if top == 0 { assert(br[1] is Some); }
        assert(top == 1 && b2.branch@[0] is None);
        assert(up_hash(l1, br, 2, 2) == l1);
        assert(up_hash(l1, br, 2, 1) == pair_hash(l1, l0));
    }
    let b3 = match b2.add_leaf_with_ver(1, s2, v) { Ok(b) => b, Err(e) => { assert(b2.branch@[0] is Some); assert(false); return Err(e); } };
    proof {
        let br = b2.branch@;
        let top = b3.branch@.len() - 1;
        if top == 1 { assert(br[1] is None); }
        assert(top == 0);
        assert(up_hash(l2, br, 1, 1) == l2);
        assert(up_hash(l2, br, 1, 0) == pair_hash(l2, pair_hash(l1, l0)));
    }
    let complete = b3.is_complete();
    assert(complete);
    b3.finalize(secp, internal_key)
}

proof fn canary_builder(b: TaprootBuilder, node: NodeInfo) requires builder_inv(b), node_wf(node), fresh(node) ensures false {}

} // verus!
fn main() {}
