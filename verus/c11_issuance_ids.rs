//@ property: C11
//@ unit: c11_issuance_ids tier=quick
//@ clause: entropy = mroot([sha256d(txid || le32(vout)), contract]) for a new issuance (nonce == 0) and the carried entropy for a reissuance; asset = mroot([entropy, 0^32]); token = mroot([entropy, 1 or 2]) (1 = explicit/unblinded amount, 2 = confidential); TxIn::issuance_ids selects by the blinding nonce and the amount's confidentiality
use vstd::prelude::*;
verus! {
//@include inc/mroot_spec.rs

// ---- environment: assumed contracts on dependencies / sibling units ----
pub uninterp spec fn sha256d(data: Seq<u8>) -> Seq<u8>;
pub open spec fn le32(v: u32) -> Seq<u8> {
    seq![(v & 0xff) as u8, ((v >> 8) & 0xff) as u8, ((v >> 16) & 0xff) as u8, ((v >> 24) & 0xff) as u8]
}
pub struct EncError;
pub mod sha256d {
    use vstd::prelude::*;
    pub struct HashEngine { pub fed: Ghost<Seq<u8>> }
    pub struct Hash { pub bytes: [u8; 32] }
    impl Hash {
        pub open spec fn view(&self) -> Seq<u8> { self.bytes@ }
        #[verifier::external_body]
        pub fn engine() -> (e: HashEngine) ensures e.fed@ == Seq::<u8>::empty() { unimplemented!() }
        #[verifier::external_body]
        pub fn from_engine(e: HashEngine) -> (r: Hash) ensures r@ == super::sha256d(e.fed@) { unimplemented!() }
        #[verifier::external_body]
        pub fn to_byte_array(self) -> (r: [u8; 32]) ensures r@ == self@ { unimplemented!() }
    }
}
pub mod hashes { pub mod sha256 {
    use vstd::prelude::*;
    pub struct Midstate { pub bytes: [u8; 32], pub length: u64 }
    impl Midstate {
        pub open spec fn view(&self) -> Seq<u8> { self.bytes@ }
        #[verifier::external_body]
        pub fn to_parts(self) -> (r: ([u8; 32], u64)) ensures r.0@ == self@ { unimplemented!() }
    }
} }
// contract proven by unit c18_fast_merkle_root
#[verifier::external_body]
pub fn fast_merkle_root(leaves: &[[u8; 32]]) -> (r: crate::hashes::sha256::Midstate)
    requires leaves@.len() <= 0x8000_0000
    ensures r@ == mroot(leaf_seq(leaves@))
{ unimplemented!() }

#[derive(Clone, Copy)]
pub struct Txid { pub bytes: [u8; 32] }
impl Txid { pub open spec fn view(&self) -> Seq<u8> { self.bytes@ } }
#[derive(Clone, Copy)]
pub struct ContractHash { pub bytes: [u8; 32] }
impl ContractHash {
    pub open spec fn view(&self) -> Seq<u8> { self.bytes@ }
    // hash_newtype!: to_byte_array / from_byte_array are the identity on the 32 bytes
    #[verifier::external_body]
    pub fn to_byte_array(self) -> (r: [u8; 32]) ensures r@ == self@ { unimplemented!() }
    #[verifier::external_body]
    pub fn from_byte_array(b: [u8; 32]) -> (r: ContractHash) ensures r@ == b@ { unimplemented!() }
}
//@extract file=src/transaction.rs item="pub struct OutPoint"
//@end
impl Copy for OutPoint {}
impl Clone for OutPoint { #[verifier::external_body] fn clone(&self) -> (r: OutPoint) ensures r == *self { unimplemented!() } }
// `impl Encodable for OutPoint` is C01's subject (Kani units c01_*): txid bytes then little-endian vout
pub open spec fn ser_outpoint(o: OutPoint) -> Seq<u8> { o.txid@ + le32(o.vout) }
impl OutPoint {
//@extract file=src/transaction.rs fn=new in="impl OutPoint" vis=keep
//@ret r
//@spec
//@|     ensures r.txid == txid, r.vout == vout
//@end
    #[verifier::external_body]
    pub fn consensus_encode(&self, e: &mut sha256d::HashEngine) -> (r: Result<usize, EncError>)
        ensures r is Ok, final(e).fed@ == old(e).fed@ + ser_outpoint(*self)
    { unimplemented!() }
}
impl core::fmt::Debug for EncError { #[verifier::external_body] fn fmt(&self, f: &mut core::fmt::Formatter<'_>) -> core::fmt::Result { unimplemented!() } }

#[derive(Clone, Copy)]
pub struct AssetEntropy(pub [u8; 32]);
#[derive(Clone, Copy)]
pub struct AssetId(pub [u8; 32]);
//@extract file=src/issuance.rs item="const ZERO32"
//@end
//@extract file=src/issuance.rs item="const ONE32"
//@end
//@extract file=src/issuance.rs item="const TWO32"
//@end

impl AssetEntropy {
    pub open spec fn view(&self) -> Seq<u8> { self.0@ }
//@extract file=src/internal_macros.rs fn=from_byte_array in="macro_rules ! impl_sha256_midstate_wrapper"
//@ret r
//@spec
//@|     ensures r@ == inner@
//@end
//@extract file=src/internal_macros.rs fn=to_byte_array in="macro_rules ! impl_sha256_midstate_wrapper"
//@ret r
//@spec
//@|     ensures r@ == self@
//@end
//@extract file=src/internal_macros.rs fn=from_midstate in="macro_rules ! impl_sha256_midstate_wrapper"
//@ret r
//@spec
//@|     ensures r@ == value@
//@end
}

// ---- specification, from the property text ----
pub open spec fn b32(first: u8) -> Seq<u8> { Seq::new(32, |i: int| if i == 0 { first } else { 0u8 }) }
pub open spec fn entropy_spec(prevout: OutPoint, contract: Seq<u8>) -> Seq<u8> {
    mroot(seq![sha256d(prevout.txid@ + le32(prevout.vout)), contract])
}
pub open spec fn asset_spec(entropy: Seq<u8>) -> Seq<u8> { mroot(seq![entropy, b32(0)]) }
pub open spec fn token_spec(entropy: Seq<u8>, confidential: bool) -> Seq<u8> {
    mroot(seq![entropy, if confidential { b32(2) } else { b32(1) }])
}
pub broadcast proof fn lemma_leaf_seq2(s: Seq<[u8; 32]>)
    requires s.len() == 2
    ensures #[trigger] leaf_seq(s) == seq![s[0]@, s[1]@]
{
    assert(leaf_seq(s) =~= seq![s[0]@, s[1]@]);
}
proof fn lemma_consts() ensures ZERO32@ =~= b32(0), ONE32@ =~= b32(1), TWO32@ =~= b32(2) {}

impl AssetId {
    pub open spec fn view(&self) -> Seq<u8> { self.0@ }
//@extract file=src/internal_macros.rs fn=from_midstate in="macro_rules ! impl_sha256_midstate_wrapper"
//@ret r
//@spec
//@|     ensures r@ == value@
//@end

//@extract file=src/issuance.rs fn=generate_asset_entropy in="impl AssetId"
//@ret r
//@spec
//@|     ensures r@ == entropy_spec(prevout, contract_hash@)
//@at "let prevout_hash" before
//@| broadcast use lemma_leaf_seq2;
//@end

//@extract file=src/issuance.rs fn=from_entropy in="impl AssetId"
//@ret r
//@spec
//@|     ensures r@ == asset_spec(entropy@)
//@at "AssetId :: from_midstate" before
//@| broadcast use lemma_leaf_seq2;
//@| proof { lemma_consts(); }
//@end

//@extract file=src/issuance.rs fn=new_issuance in="impl AssetId"
//@ret r
//@spec
//@|     ensures r@ == asset_spec(entropy_spec(prevout, contract_hash@))
//@end

//@extract file=src/issuance.rs fn=new_reissuance_token in="impl AssetId"
//@ret r
//@spec
//@|     ensures r@ == token_spec(entropy_spec(prevout, contract_hash@), confidential)
//@end

//@extract file=src/issuance.rs fn=reissuance_token_from_entropy in="impl AssetId"
//@ret r
//@spec
//@|     ensures r@ == token_spec(entropy@, confidential)
//@at "AssetId :: from_midstate" before
//@| broadcast use lemma_leaf_seq2;
//@| proof { lemma_consts(); }
//@end
}

// ---- TxIn::issuance_ids: selection by blinding nonce / amount confidentiality ----
#[derive(PartialEq, Eq, Structural, Clone, Copy)]
pub struct Tweak { pub b: [u8; 32] }   // secp256k1_zkp::Tweak: 32 bytes, equality is byte equality
pub const ZERO_TWEAK: Tweak = Tweak { b: [0, 0, 0, 0, 0, 0, 0, 0, 0, 0, 0, 0, 0, 0, 0, 0, 0, 0, 0, 0, 0, 0, 0, 0, 0, 0, 0, 0, 0, 0, 0, 0] };
#[derive(Clone, Copy)]
pub struct PedersenCommitment { pub b: [u8; 33] }
pub struct Script { pub b: Vec<u8> }
pub struct Sequence(pub u32);
pub struct TxInWitness { pub opaque: Vec<u8> }
pub mod confidential {
    use vstd::prelude::*;
    use super::PedersenCommitment;
//@extract file=src/confidential.rs item="pub enum Value"
//@rewrite "# [ default ]" => ""
//@end
    impl Copy for Value {}
    impl Clone for Value { #[verifier::external_body] fn clone(&self) -> (r: Value) ensures r == *self { unimplemented!() } }
    impl Value {
//@extract file=src/confidential.rs fn=is_null in="impl Value" vis=keep
//@ret r
//@spec
//@|     ensures r == (*self is Null)
//@end
//@extract file=src/confidential.rs fn=is_explicit in="impl Value" vis=keep
//@ret r
//@spec
//@|     ensures r == (*self is Explicit)
//@end
//@extract file=src/confidential.rs fn=is_confidential in="impl Value" vis=keep
//@ret r
//@spec
//@|     ensures r == (*self is Confidential)
//@end
    }
}
//@extract file=src/transaction.rs item="pub struct AssetIssuance"
//@end
//@extract file=src/transaction.rs item="pub struct TxIn"
//@end
pub open spec fn txin_ids_spec(t: TxIn) -> (Seq<u8>, Seq<u8>) {
    let entropy = if t.asset_issuance.asset_blinding_nonce == ZERO_TWEAK {
        entropy_spec(t.previous_output, t.asset_issuance.asset_entropy@)
    } else { t.asset_issuance.asset_entropy@ };
    (asset_spec(entropy), token_spec(entropy, t.asset_issuance.amount is Confidential))
}
impl TxIn {
//@extract file=src/transaction.rs fn=issuance_ids in="impl TxIn"
//@ret r
//@spec
//@|     ensures r.0@ == txin_ids_spec(*self).0, r.1@ == txin_ids_spec(*self).1
//@end
}

proof fn canary_issuance(o: OutPoint) ensures false {}

} // verus!
fn main() {}
