//@ property: C10 C15
//@ mount: src/taproot.rs
//@ functions: src/taproot.rs::ControlBlock::from_slice, src/taproot.rs::TaprootMerkleBranch::from_slice, src/taproot.rs::LeafVersion::from_u8, src/schnorr.rs::SchnorrSig::from_slice
//
// Slice parsers of the taproot module are total: every length is either parsed to exactly what the bytes denote or
// refused with an error; nothing panics, overflows or indexes out of bounds.
// Lengths that are refused are covered with a fully symbolic length (no allocation happens on those paths);
// lengths that are accepted allocate a Vec and are therefore case-split into concrete lengths (README cost rule).
// libsecp's x-only key parser is replaced by the model of support/c16_ffi_models.rs (a family of accept-sets).
use super::*;
use crate::schnorr::{SchnorrSig, SchnorrSigError};
use core::mem::ManuallyDrop;

#[path = "support/c16_ffi_models.rs"]
mod fm;
use fm::sffi;

//@ harness: leafversion_from_u8_all class=F tier=quick props=C10,C15
//@ clause: LeafVersion::from_u8 on all 256 values: Ok exactly for even values other than 0x50 (the annex tag), and then as_u8() returns the value; Elements' default tapscript leaf version is 0xc4 (not Bitcoin's 0xc0) and is itself accepted; never panics
#[kani::proof]
fn leafversion_from_u8_all() {
    let v: u8 = kani::any();
    match LeafVersion::from_u8(v) {
        Ok(l) => {
            assert!(v % 2 == 0 && v != 0x50);
            assert!(l.as_u8() == v && u8::from(l) == v);
            kani::cover!(v == 0xc4);
            kani::cover!(v == 0);
        }
        Err(e) => {
            assert!(v % 2 == 1 || v == 0x50);
            assert!(matches!(e, TaprootError::InvalidTaprootLeafVersion(x) if x == v));
            kani::cover!(v == 0x50);
            kani::cover!(v == 0xc5);
        }
    }
    assert!(LeafVersion::default().as_u8() == 0xc4);
    assert!(LeafVersion::TAPSCRIPT == LeafVersion::default());
    assert!(matches!(LeafVersion::from_u8(0xc4), Ok(l) if l == LeafVersion::TAPSCRIPT));
}

static ZEROS: [u8; 4400] = [0u8; 4400];

//@ harness: merkle_branch_from_slice_bad_len class=F tier=quick props=C10
//@ clause: TaprootMerkleBranch::from_slice on every length 0..=4400 that is not a multiple of 32: Err(InvalidMerkleBranchSize(len)); never panics (the refusal does not depend on content)
#[kani::proof]
#[kani::unwind(3)] // the accepting path (a collect loop over len/32 chunks) is infeasible here but not pruned by constant propagation
fn merkle_branch_from_slice_bad_len() {
    let len: usize = kani::any();
    kani::assume(len <= 4400 && len % 32 != 0);
    match TaprootMerkleBranch::from_slice(&ZEROS[..len]) {
        Ok(b) => { core::mem::forget(b); assert!(false); }
        Err(e) => assert!(matches!(e, TaprootError::InvalidMerkleBranchSize(n) if n == len)),
    }
    kani::cover!(len == 1);
    kani::cover!(len == 4399);
}

//@ harness: merkle_branch_from_slice_too_deep class=F tier=quick props=C10,C15
//@ clause: TaprootMerkleBranch::from_slice with 129..=137 nodes (a multiple of 32 bytes beyond 128 nodes): Err(InvalidMerkleTreeDepth(nodes)); 128 nodes is the last accepted length
#[kani::proof]
#[kani::unwind(3)] // as above
fn merkle_branch_from_slice_too_deep() {
    let m: usize = kani::any();
    kani::assume(m >= 129 && m <= 137);
    match TaprootMerkleBranch::from_slice(&ZEROS[..32 * m]) {
        Ok(b) => { core::mem::forget(b); assert!(false); }
        Err(e) => assert!(matches!(e, TaprootError::InvalidMerkleTreeDepth(n) if n == m)),
    }
    kani::cover!(m == 129);
}

macro_rules! branch_ok {
    ($name:ident, $m:expr, $unw:literal) => {
        #[kani::proof]
        #[kani::unwind($unw)]
        fn $name() {
            const M: usize = $m;
            let buf: [u8; 32 * M] = kani::any();
            let j: usize = kani::any();
            kani::assume(j < 32 * M || M == 0);
            match TaprootMerkleBranch::from_slice(&buf) {
                Ok(b) => {
                    let b = ManuallyDrop::new(b);
                    assert!(b.as_inner().len() == M);
                    if M > 0 {
                        // every byte (symbolic position) of every node is the input byte
                        let node: &[u8] = b.as_inner()[j / 32].as_ref();
                        assert!(node[j % 32] == buf[j]);
                    }
                    kani::cover!(true);
                }
                Err(_) => assert!(false),
            }
        }
    };
}
//@ harness: merkle_branch_from_slice_m0 class=F tier=quick props=C10,C15
//@ clause: TaprootMerkleBranch::from_slice of the empty slice is the empty branch
branch_ok!(merkle_branch_from_slice_m0, 0, 3);
//@ harness: merkle_branch_from_slice_m1 class=F tier=quick props=C10,C15
//@ clause: from_slice of 32 arbitrary bytes is the one-node branch holding exactly those bytes
branch_ok!(merkle_branch_from_slice_m1, 1, 4);
//@ harness: merkle_branch_from_slice_m4 class=F tier=quick props=C10,C15
//@ clause: from_slice of 128 arbitrary bytes is the four-node branch holding exactly those bytes, in order
branch_ok!(merkle_branch_from_slice_m4, 4, 7);

//@ harness: merkle_branch_from_slice_m128 class=F tier=quick props=C10,C15 timeout=1200
//@ clause: from_slice of 4096 bytes (128 nodes, the maximum) is accepted with 128 nodes
#[kani::proof]
#[kani::unwind(131)]
fn merkle_branch_from_slice_m128() {
    match TaprootMerkleBranch::from_slice(&ZEROS[..4096]) {
        Ok(b) => { let b = ManuallyDrop::new(b); assert!(b.as_inner().len() == 128); kani::cover!(true); }
        Err(_) => assert!(false),
    }
}

//@ harness: control_block_from_slice_bad_len class=F tier=quick props=C10,C15
//@ clause: ControlBlock::from_slice on every length 0..=4400 not of the form 33+32m: Err(InvalidControlBlockSize(len)) whatever the first byte; never panics
#[kani::proof]
#[kani::unwind(3)] // as above
#[kani::stub(sffi::secp256k1_xonly_pubkey_parse, fm::model_xonly_pubkey_parse)]
fn control_block_from_slice_bad_len() {
    fm::init();
    let len: usize = kani::any();
    kani::assume(len <= 4400);
    kani::assume(len < 33 || (len - 33) % 32 != 0);
    let mut buf = [0u8; 4400];
    buf[0] = kani::any();
    match ControlBlock::from_slice(&buf[..len]) {
        Ok(c) => { core::mem::forget(c); assert!(false); }
        Err(e) => assert!(matches!(e, TaprootError::InvalidControlBlockSize(n) if n == len)),
    }
    kani::cover!(len == 0);
    kani::cover!(len == 32);
    kani::cover!(len == 34);
    kani::cover!(len == 4400);
}

//@ harness: control_block_from_slice_too_deep class=F tier=quick props=C10,C15
//@ clause: ControlBlock::from_slice with 129 or 130 path nodes (length 33+32m, m > 128), valid leaf version and accepted key: Err(InvalidMerkleTreeDepth(m))
#[kani::proof]
#[kani::unwind(3)]
#[kani::stub(sffi::secp256k1_xonly_pubkey_parse, fm::model_xonly_pubkey_parse)]
fn control_block_from_slice_too_deep() {
    fm::init_accept_all();
    let m: usize = kani::any();
    kani::assume(m == 129 || m == 130);
    let mut buf = [0u8; 4400];
    buf[0] = 0xc4 | (kani::any::<u8>() & 1);
    match ControlBlock::from_slice(&buf[..33 + 32 * m]) {
        Ok(c) => { core::mem::forget(c); assert!(false); }
        Err(e) => {
            if fm::seen() { assert!(matches!(e, TaprootError::InvalidMerkleTreeDepth(n) if n == m)); }
        }
    }
    kani::cover!(m == 129);
}

macro_rules! cb_parse {
    ($name:ident, $m:expr, $unw:literal) => {
        #[kani::proof]
        #[kani::unwind($unw)]
        #[kani::stub(sffi::secp256k1_xonly_pubkey_parse, fm::model_xonly_pubkey_parse)]
        #[kani::stub(sffi::secp256k1_xonly_pubkey_serialize, fm::model_xonly_pubkey_serialize)]
        fn $name() {
            const M: usize = $m;
            const L: usize = 33 + 32 * M;
            fm::init();
            let buf: [u8; L] = kani::any();
            let j: usize = kani::any();
            kani::assume(j < L);
            let ver_ok = (buf[0] & 0xfe) != 0x50;
            let mut key = [0u8; 32];
            key.copy_from_slice(&buf[1..33]);
            let key_ok = fm::xonly_acc(&key);
            match ControlBlock::from_slice(&buf) {
                Ok(c) => {
                    let c = ManuallyDrop::new(c);
                    assert!(ver_ok);
                    assert!(c.leaf_version.as_u8() == buf[0] & 0xfe);
                    assert!(c.output_key_parity.to_u8() == buf[0] & 1);
                    assert!(c.merkle_branch.as_inner().len() == M);
                    assert!(c.size() == L);
                    if fm::seen() {
                        assert!(key_ok);
                        let k = c.internal_key.serialize();
                        if j >= 1 && j < 33 { assert!(k[j - 1] == buf[j]); }
                    }
                    if j >= 33 {
                        let node: &[u8] = c.merkle_branch.as_inner()[(j - 33) / 32].as_ref();
                        assert!(node[(j - 33) % 32] == buf[j]);
                    }
                    kani::cover!(buf[0] == 0xc5);
                    kani::cover!(buf[0] == 0x00);
                }
                Err(e) => {
                    if fm::seen() || !ver_ok {
                        assert!(!ver_ok || !key_ok);
                    }
                    match e {
                        TaprootError::InvalidTaprootLeafVersion(v) => assert!(!ver_ok && v == buf[0] & 0xfe),
                        TaprootError::InvalidInternalKey(_) => { if fm::seen() { assert!(!key_ok); } }
                        _ => assert!(false, "well-sized control block refused for another reason"),
                    }
                    kani::cover!(!ver_ok);
                    kani::cover!(ver_ok && !key_ok);
                }
            }
        }
    };
}
//@ harness: control_block_from_slice_m0 class=F tier=quick props=C10,C15
//@ clause: ControlBlock::from_slice on every 33-byte string: Ok iff (first byte & 0xfe) is a valid leaf version (not 0x50) and the x-only key parser accepts bytes 1..33; then parity = bit 0, leaf version = first byte & 0xfe, internal key serializes to bytes 1..33, empty path, size() == 33; refused inputs name the leaf version or the key; never panics
cb_parse!(control_block_from_slice_m0, 0, 3);
//@ harness: control_block_from_slice_m1 class=F tier=quick props=C10,C15
//@ clause: same on every 65-byte string: one path node holding bytes 33..65, size() == 65
cb_parse!(control_block_from_slice_m1, 1, 4);
//@ harness: control_block_from_slice_m2 class=F tier=quick props=C10,C15
//@ clause: same on every 97-byte string: two path nodes in order, size() == 97
cb_parse!(control_block_from_slice_m2, 2, 5);
//@ harness: control_block_from_slice_m4 class=F tier=thorough props=C10,C15
//@ clause: same on every 161-byte string: four path nodes in order, size() == 161
cb_parse!(control_block_from_slice_m4, 4, 7);

const VALID_TYPES: [u8; 6] = [0x01, 0x02, 0x03, 0x81, 0x82, 0x83];
fn valid_explicit_type(t: u8) -> bool {
    t == 0x01 || t == 0x02 || t == 0x03 || t == 0x81 || t == 0x82 || t == 0x83
}

//@ harness: schnorrsig_from_slice_all_lengths class=F tier=quick props=C10
//@ clause: SchnorrSig::from_slice on every byte string of length 0..=70: 64 bytes -> Ok with the default sighash type and exactly those signature bytes; 65 bytes -> the last byte is the sighash type: one of 01,02,03,81,82,83 -> Ok(first 64 bytes, that type), any other non-zero byte -> Err(InvalidSighashType(byte)); every other length -> Err; never panics (for a 65-byte string ending in 0x00 only totality is required)
#[kani::proof]
fn schnorrsig_from_slice_all_lengths() {
    let buf: [u8; 70] = kani::any();
    let len: usize = kani::any();
    kani::assume(len <= 70);
    let j: usize = kani::any();
    kani::assume(j < 64);
    let r = SchnorrSig::from_slice(&buf[..len]);
    if len == 64 {
        match r {
            Ok(s) => {
                assert!(s.hash_ty as u8 == 0);
                assert!(s.sig.as_ref()[j] == buf[j]);
                kani::cover!(true);
            }
            Err(_) => assert!(false),
        }
    } else if len == 65 {
        let t = buf[64];
        if t == 0 {
            // Observation, outside every property statement (C10 is totality only): BIP-341 says an explicit 0x00
            // sighash byte is invalid; the crate accepts it as SIGHASH_DEFAULT (then to_vec() has 64 bytes, not 65).
            // Only totality is required here.
            kani::cover!(r.is_ok());
            return;
        }
        match r {
            Ok(s) => {
                assert!(valid_explicit_type(t));
                assert!(s.hash_ty as u8 == t);
                assert!(s.sig.as_ref()[j] == buf[j]);
                kani::cover!(t == 0x83);
            }
            Err(e) => {
                assert!(!valid_explicit_type(t));
                assert!(matches!(e, SchnorrSigError::InvalidSighashType(x) if x == t));
                kani::cover!(t == 0x04);
            }
        }
    } else {
        assert!(r.is_err());
        kani::cover!(len == 0);
        kani::cover!(len == 66);
        kani::cover!(len == 63);
    }
    let _ = VALID_TYPES;
}
