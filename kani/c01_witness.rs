//@ property: C01 C12
//@ mount: src/transaction.rs
//@ functions: src/transaction.rs::TxInWitness::consensus_encode, src/transaction.rs::TxInWitness::consensus_decode, src/transaction.rs::TxOutWitness::consensus_encode, src/transaction.rs::TxOutWitness::consensus_decode, src/transaction.rs::TxInWitness::is_empty, src/transaction.rs::TxOutWitness::is_empty, src/transaction.rs::TxOutWitness::rangeproof_len, src/transaction.rs::TxOutWitness::surjectionproof_len, src/encode.rs::Option<Box<RangeProof>>::consensus_decode, src/encode.rs::Option<Box<SurjectionProof>>::consensus_decode, src/encode.rs::Vec<T>::consensus_decode
// NOT RUN (`//@ unregistered-harness:`): every harness that moves a `Box<SurjectionProof>` (an 8 KB C struct) through the decoder -
// measured 36 GB and growing after 3 minutes of CBMC symbolic execution even for the empty-vector case; the surjection-proof
// codec is therefore NOT covered by the K-track (stated in coverage_notes C01/C12).
// Assumptions: support/c01_ffi_models.rs — rangeproof_info / surjectionproof_parse accept a byte string iff a
// functional predicate holds (never the empty string); surjectionproof_serialize inverts parse.
use super::*;
use crate::encode::{self, Decodable, Encodable};
use secp256k1_zkp::ffi as zffi;

#[path = "support/sinks.rs"]
mod sinks;
use sinks::{forget, ArraySink};
#[path = "support/c01_ffi_models.rs"]
mod ffi_models;
#[path = "support/c01_spec.rs"]
mod spec;
use spec::Spec;

macro_rules! ffi_proof {
    (fn $name:ident() $body:block) => {
        #[kani::proof]
        #[kani::stub(zffi::secp256k1_rangeproof_info, ffi_models::rangeproof_info)]
        #[kani::stub(zffi::secp256k1_surjectionproof_parse, ffi_models::surjectionproof_parse)]
        #[kani::stub(zffi::secp256k1_surjectionproof_serialize, ffi_models::surjectionproof_serialize)]
        #[kani::stub(zffi::secp256k1_surjectionproof_serialized_size, ffi_models::surjectionproof_serialized_size)]
        fn $name() $body
    };
}

fn enc<const N: usize, T: Encodable>(v: &T) -> (usize, ArraySink<N>) {
    let mut s = ArraySink::<N>::new();
    match v.consensus_encode(&mut s) {
        Ok(n) => (n, s),
        Err(e) => {
            forget(e);
            assert!(false);
            (0, s)
        }
    }
}
fn assert_prefix_eq<const N: usize>(a: &[u8; N], b: &[u8; N], k: usize) {
    let mut i = 0;
    while i < N {
        if i < k {
            assert!(a[i] == b[i]);
        }
        i += 1;
    }
}

// ---------------------------------------------------------------------------------------------------------------
// Option<Box<RangeProof>> / Option<Box<SurjectionProof>> : empty vector <=> None
// ---------------------------------------------------------------------------------------------------------------

macro_rules! opt_rangeproof_dec {
    ($name:ident, $l:expr) => {
        ffi_proof! {
        fn $name() {
            ffi_models::init();
            const L: usize = $l;
            const N: usize = 1 + L + 1;
            let mut buf: [u8; N] = kani::any();
            buf[0] = L as u8;
            let len: usize = kani::any();
            kani::assume(len <= N);
            match encode::deserialize_partial::<Option<Box<RangeProof>>>(&buf[..len]) {
                Ok((p, k)) => {
                    assert!(k == 1 + L && len >= k);
                    // empty vector <=> None
                    assert!(p.is_none() == (L == 0));
                    if let Some(ref b) = p {
                        assert!(ffi_models::rangeproof_acc(&buf[1..1 + L]));
                        assert!(b.len() == L);
                    }
                    let (n, s) = enc::<N, _>(&p);
                    assert!(n == k && s.len == k);
                    assert_prefix_eq(&s.buf, &buf, k);
                    kani::cover!(true);
                    forget(p);
                }
                Err(e) => {
                    forget(e);
                    assert!(len < 1 + L || (L > 0 && !ffi_models::rangeproof_acc(&buf[1..1 + L])));
                    kani::cover!(len == L);
                }
            }
        }
        }
    };
}
//@ harness: opt_rangeproof_dec_l0 class=F tier=quick bound="declared length byte 0"
//@ clause: Option<Box<RangeProof>> decode: the empty vector decodes to None (and only it), consumes 1 byte, and None re-encodes to the single byte 0
opt_rangeproof_dec!(opt_rangeproof_dec_l0, 0);
//@ harness: opt_rangeproof_dec_l2 class=F tier=quick bound="declared length byte 2"
//@ clause: Option<Box<RangeProof>> decode of a 2-byte vector: Some iff the proof parser accepts the bytes, never None; consumed == 3; re-encoding reproduces the bytes; truncation is an error
opt_rangeproof_dec!(opt_rangeproof_dec_l2, 2);

//@ unregistered-harness: opt_surjproof_dec_l2 class=F tier=quick bound="declared length byte 2"
//@ clause: Option<Box<SurjectionProof>> decode of a 2-byte vector: Some iff the proof parser accepts, never None; consumed == 3; re-encoding reproduces the bytes; len() == 2
ffi_proof! {
fn opt_surjproof_dec_l2() {
    ffi_models::init();
    const L: usize = 2;
    const N: usize = 1 + L + 1;
    let mut buf: [u8; N] = kani::any();
    buf[0] = L as u8;
    let len: usize = kani::any();
    kani::assume(len <= N);
    match encode::deserialize_partial::<Option<Box<SurjectionProof>>>(&buf[..len]) {
        Ok((p, k)) => {
            assert!(k == 1 + L && len >= k);
            assert!(p.is_some());
            if let Some(ref b) = p {
                assert!(ffi_models::surjectionproof_acc(&buf[1..1 + L]));
                assert!(b.len() == L);
            }
            let (n, s) = enc::<N, _>(&p);
            assert!(n == k && s.len == k);
            assert_prefix_eq(&s.buf, &buf, k);
            kani::cover!(true);
            forget(p);
        }
        Err(e) => {
            forget(e);
            assert!(len < 1 + L || !ffi_models::surjectionproof_acc(&buf[1..1 + L]));
            kani::cover!(len == 1 + L);
        }
    }
}
}

//@ unregistered-harness: opt_surjproof_dec_l0 class=F tier=quick bound="declared length byte 0"
//@ clause: Option<Box<SurjectionProof>>: the empty vector decodes to None and None encodes to the single byte 0
ffi_proof! {
fn opt_surjproof_dec_l0() {
    let buf: [u8; 2] = [0, kani::any()];
    let len: usize = kani::any();
    kani::assume(len <= 2);
    match encode::deserialize_partial::<Option<Box<SurjectionProof>>>(&buf[..len]) {
        Ok((p, k)) => {
            assert!(k == 1 && len >= 1 && p.is_none());
            let (n, s) = enc::<2, _>(&p);
            assert!(n == 1 && s.len == 1 && s.buf[0] == 0);
            kani::cover!(true);
        }
        Err(e) => { forget(e); assert!(len == 0); }
    }
}
}

// ---------------------------------------------------------------------------------------------------------------
// TxInWitness
// ---------------------------------------------------------------------------------------------------------------

fn any_rangeproof<const L: usize>() -> Option<Box<RangeProof>> {
    if L == 0 {
        return None;
    }
    let b: [u8; L] = kani::any();
    match RangeProof::from_slice(&b) {
        Ok(p) => Some(Box::new(p)),
        Err(e) => { forget(e); kani::assume(false); None }
    }
}
fn any_surjproof<const L: usize>() -> Option<Box<SurjectionProof>> {
    if L == 0 {
        return None;
    }
    let b: [u8; L] = kani::any();
    match SurjectionProof::from_slice(&b) {
        Ok(p) => Some(Box::new(p)),
        Err(e) => { forget(e); kani::assume(false); None }
    }
}

//@ harness: txinwitness_empty class=F tier=thorough bound="unwind 3"
//@ clause: the empty TxInWitness encodes to exactly 00 00 00 00 (length 4 reported), is_empty(); decoding 00 00 00 00 yields an empty witness consuming 4 bytes; the 3-byte truncation is an error
#[kani::proof]
#[kani::unwind(3)] // `for _ in 0..len` in Vec<T>::consensus_decode: the decoded length is not constant-folded by CBMC
fn txinwitness_empty() {
    let w = TxInWitness::empty();
    assert!(w.is_empty());
    let (n, s) = enc::<5, _>(&w);
    assert!(n == 4 && s.len == 4 && s.buf[0] == 0 && s.buf[1] == 0 && s.buf[2] == 0 && s.buf[3] == 0);
    let buf = [0u8; 5];
    match encode::deserialize_partial::<TxInWitness>(&buf[..]) {
        Ok((u, k)) => {
            assert!(k == 4 && u.is_empty());
            assert!(u.amount_rangeproof.is_none() && u.inflation_keys_rangeproof.is_none() && u.script_witness.len() == 0 && u.pegin_witness.len() == 0);
            kani::cover!(true);
            forget(u);
        }
        Err(e) => { forget(e); assert!(false); }
    }
    match encode::deserialize_partial::<TxInWitness>(&buf[..3]) {
        Ok((u, _)) => { forget(u); assert!(false); }
        Err(e) => forget(e),
    }
    forget(w);
}

/// TxInWitness at a concrete shape: A = amount proof length, B = inflation-keys proof length,
/// script witness items of lengths S0,S1 (count SC <= 2), pegin witness items of lengths P0 (count PC <= 1)
macro_rules! txinwitness_enc {
    ($name:ident, $a:expr, $b:expr, $sc:expr, $s0:expr, $s1:expr, $pc:expr, $p0:expr) => {
        ffi_proof! {
        fn $name() {
            ffi_models::init();
            const A: usize = $a; const B: usize = $b; const SC: usize = $sc; const S0: usize = $s0; const S1: usize = $s1;
            const PC: usize = $pc; const P0: usize = $p0;
            const K: usize = 1 + A + 1 + B + 1 + (if SC > 0 { 1 + S0 } else { 0 }) + (if SC > 1 { 1 + S1 } else { 0 })
                + 1 + (if PC > 0 { 1 + P0 } else { 0 });
            const N: usize = K + 1;
            let mut sw: Vec<Vec<u8>> = Vec::with_capacity(SC);
            if SC > 0 { sw.push(spec::any_vec::<S0>()); }
            if SC > 1 { sw.push(spec::any_vec::<S1>()); }
            let mut pw: Vec<Vec<u8>> = Vec::with_capacity(PC);
            if PC > 0 { pw.push(spec::any_vec::<P0>()); }
            let w = TxInWitness {
                amount_rangeproof: any_rangeproof::<A>(),
                inflation_keys_rangeproof: any_rangeproof::<B>(),
                script_witness: sw,
                pegin_witness: pw,
            };
            assert!(w.is_empty() == (A == 0 && B == 0 && SC == 0 && PC == 0));
            let mut sp = Spec::<N>::new();
            match w.amount_rangeproof { None => sp.u8(0), Some(ref p) => { let v = p.serialize(); sp.var_bytes(&v); forget(v); } }
            match w.inflation_keys_rangeproof { None => sp.u8(0), Some(ref p) => { let v = p.serialize(); sp.var_bytes(&v); forget(v); } }
            sp.varint(SC as u64);
            if SC > 0 { sp.var_bytes(&w.script_witness[0]); }
            if SC > 1 { sp.var_bytes(&w.script_witness[1]); }
            sp.varint(PC as u64);
            if PC > 0 { sp.var_bytes(&w.pegin_witness[0]); }
            let (n, s) = enc::<N, _>(&w);
            assert!(n == s.len && n == K);
            sp.assert_eq(&s.buf, n);
            kani::cover!(true);
            forget(w);
        }
        }
    };
}
macro_rules! txinwitness_dec {
    ($name:ident, $a:expr, $b:expr, $sc:expr, $s0:expr, $s1:expr, $pc:expr, $p0:expr) => {
        #[kani::proof]
        #[kani::unwind(3)] // element loops of Vec<Vec<u8>>::consensus_decode: decoded lengths are not constant-folded by CBMC
        #[kani::stub(zffi::secp256k1_rangeproof_info, ffi_models::rangeproof_info)]
        fn $name() {
            ffi_models::init();
            const A: usize = $a; const B: usize = $b; const SC: usize = $sc; const S0: usize = $s0; const S1: usize = $s1;
            const PC: usize = $pc; const P0: usize = $p0;
            const OS: usize = 1 + A + 1 + B;                       // offset of the script-witness count
            const OP: usize = OS + 1 + (if SC > 0 { 1 + S0 } else { 0 }) + (if SC > 1 { 1 + S1 } else { 0 });
            const K: usize = OP + 1 + (if PC > 0 { 1 + P0 } else { 0 });
            const N: usize = K + 1;
            let mut buf: [u8; N] = kani::any();
            buf[0] = A as u8;
            buf[1 + A] = B as u8;
            buf[OS] = SC as u8;
            if SC > 0 { buf[OS + 1] = S0 as u8; }
            if SC > 1 { buf[OS + 2 + S0] = S1 as u8; }
            buf[OP] = PC as u8;
            if PC > 0 { buf[OP + 1] = P0 as u8; }
            let bad = (A > 0 && !ffi_models::rangeproof_acc(&buf[1..1 + A]))
                || (B > 0 && !ffi_models::rangeproof_acc(&buf[2 + A..2 + A + B]));
            kani::cover!(!bad);
            match encode::deserialize_partial::<TxInWitness>(&buf[..]) {
                Ok((u, k)) => {
                    assert!(k == K && !bad);
                    // absent proof <=> empty vector
                    assert!(u.amount_rangeproof.is_none() == (A == 0));
                    assert!(u.inflation_keys_rangeproof.is_none() == (B == 0));
                    if let Some(ref p) = u.amount_rangeproof { assert!(p.len() == A); }
                    if let Some(ref p) = u.inflation_keys_rangeproof { assert!(p.len() == B); }
                    assert!(u.script_witness.len() == SC && u.pegin_witness.len() == PC);
                    if SC > 0 { assert!(u.script_witness[0].len() == S0); if S0 > 0 { assert!(u.script_witness[0][0] == buf[OS + 2] && u.script_witness[0][S0 - 1] == buf[OS + 1 + S0]); } }
                    if SC > 1 { assert!(u.script_witness[1].len() == S1); if S1 > 0 { assert!(u.script_witness[1][0] == buf[OS + 3 + S0] && u.script_witness[1][S1 - 1] == buf[OS + 2 + S0 + S1]); } }
                    if PC > 0 { assert!(u.pegin_witness[0].len() == P0); if P0 > 0 { assert!(u.pegin_witness[0][0] == buf[OP + 2] && u.pegin_witness[0][P0 - 1] == buf[OP + 1 + P0]); } }
                    assert!(!u.is_empty());
                    forget(u);
                }
                Err(e) => { forget(e); assert!(bad); }
            }
            // one-byte truncation is rejected
            match encode::deserialize_partial::<TxInWitness>(&buf[..K - 1]) {
                Ok((u, _)) => { forget(u); assert!(false); }
                Err(e) => forget(e),
            }
        }
    };
}

//@ harness: txinwitness_enc_a class=B tier=thorough bound="amount proof 2 bytes, no keys proof, script witness [2 bytes], pegin witness []" timeout=900
//@ clause: TxInWitness encode == wire-format oracle (four length-prefixed fields in order), reported length == bytes written, is_empty() iff all four empty
txinwitness_enc!(txinwitness_enc_a, 2, 0, 1, 2, 0, 0, 0);
//@ harness: txinwitness_enc_b class=B tier=thorough bound="no amount proof, keys proof 1 byte, script witness [0 bytes, 1 byte], pegin witness [1 byte]" timeout=900
//@ clause: same, other shape (covers an empty stack item, two items, the keys proof and the pegin witness)
txinwitness_enc!(txinwitness_enc_b, 0, 1, 2, 0, 1, 1, 1);
//@ harness: txinwitness_dec_a class=B tier=thorough bound="amount proof 2 bytes, no keys proof, script witness [2 bytes], pegin witness []; unwind 3" timeout=1800
//@ clause: TxInWitness decode of every byte string of this shape: accepted iff the proofs parse; consumed == total length; absent proof <=> empty vector; every decoded length and the first/last byte of every item equal the input bytes; one-byte truncation rejected (together with txinwitness_enc_* this gives decode-then-encode == identity)
txinwitness_dec!(txinwitness_dec_a, 2, 0, 1, 2, 0, 0, 0);
//@ harness: txinwitness_dec_b class=B tier=thorough bound="no amount proof, keys proof 1 byte, script witness [0 bytes, 1 byte], pegin witness [1 byte]; unwind 3" timeout=1800
//@ clause: same, other shape
txinwitness_dec!(txinwitness_dec_b, 0, 1, 2, 0, 1, 1, 1);

// ---------------------------------------------------------------------------------------------------------------
// TxOutWitness
// ---------------------------------------------------------------------------------------------------------------

macro_rules! txoutwitness_harness {
    ($name:ident, $s:expr, $r:expr) => {
        ffi_proof! {
        fn $name() {
            ffi_models::init();
            const S: usize = $s; const R: usize = $r;
            const K: usize = 1 + S + 1 + R;
            const N: usize = K + 1;
            let w = TxOutWitness { surjection_proof: any_surjproof::<S>(), rangeproof: any_rangeproof::<R>() };
            assert!(w.is_empty() == (S == 0 && R == 0));
            assert!(w.surjectionproof_len() == S && w.rangeproof_len() == R);
            let mut sp = Spec::<N>::new();
            match w.surjection_proof { None => sp.u8(0), Some(ref p) => { let v = p.serialize(); sp.var_bytes(&v); forget(v); } }
            match w.rangeproof { None => sp.u8(0), Some(ref p) => { let v = p.serialize(); sp.var_bytes(&v); forget(v); } }
            let (n, s) = enc::<N, _>(&w);
            assert!(n == s.len && n == K);
            sp.assert_eq(&s.buf, n);
            let mut buf: [u8; N] = kani::any();
            buf[0] = S as u8;
            buf[1 + S] = R as u8;
            match encode::deserialize_partial::<TxOutWitness>(&buf[..]) {
                Ok((u, k)) => {
                    assert!(k == K);
                    assert!(u.surjection_proof.is_none() == (S == 0) && u.rangeproof.is_none() == (R == 0));
                    assert!(u.surjectionproof_len() == S && u.rangeproof_len() == R);
                    let (m, t) = enc::<N, _>(&u);
                    assert!(m == k && t.len == k);
                    assert_prefix_eq(&t.buf, &buf, k);
                    kani::cover!(true);
                    forget(u);
                }
                Err(e) => {
                    forget(e);
                    let bad = (S > 0 && !ffi_models::surjectionproof_acc(&buf[1..1 + S]))
                        || (R > 0 && !ffi_models::rangeproof_acc(&buf[2 + S..2 + S + R]));
                    assert!(bad);
                }
            }
            match encode::deserialize_partial::<TxOutWitness>(&buf[..K - 1]) {
                Ok((u, _)) => { forget(u); assert!(false); }
                Err(e) => forget(e),
            }
            forget(w);
        }
        }
    };
}

//@ unregistered-harness: txoutwitness_none class=F tier=quick bound="both proofs absent"
//@ clause: empty TxOutWitness <=> bytes 00 00; rangeproof_len == surjectionproof_len == 0; is_empty()
txoutwitness_harness!(txoutwitness_none, 0, 0);
//@ unregistered-harness: txoutwitness_both class=B tier=thorough bound="surjection proof 2 bytes, range proof 3 bytes" timeout=900
//@ clause: TxOutWitness: surjection proof then range proof, each length-prefixed; *_len() equal the serialized proof lengths; decode accepted iff both parse (one-byte truncation rejected); re-encoding reproduces the bytes
txoutwitness_harness!(txoutwitness_both, 2, 3);
//@ unregistered-harness: txoutwitness_range_only class=B tier=thorough bound="no surjection proof, range proof 2 bytes" timeout=900
//@ clause: same with only a range proof
txoutwitness_harness!(txoutwitness_range_only, 0, 2);
