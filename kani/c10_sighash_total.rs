//@ property: C10
//@ mount: src/sighash.rs
//@ functions: src/sighash.rs::SighashCache::taproot_key_spend_signature_hash, src/sighash.rs::SighashCache::taproot_script_spend_signature_hash, src/sighash.rs::SighashCache::taproot_sighash
// STATUS: NOT RUN within the budget (compiles). Totality of `taproot_encode_signing_data_to` for Prevouts::One over all usize
// indices is covered by c13_prevouts_one.rs; these instances would add the `*_signature_hash` wrappers and Prevouts::All.
//
// Totality of the fallible taproot sighash entry points: for every input index (all usize) and every way the spent outputs
// can be missing, the result is an `Err`, never a panic / overflow / out-of-bounds access (Kani's default checks on the
// real MIR are the obligation). Assumption A-hash: recording model of SHA-256 (support/c03_hash_models.rs).
use super::*;
use crate::hashes::sha256::HashEngine as ShaEngine;
use crate::hashes::sha256::Hash as ShaHash;
use crate::hashes::HashEngine as HashEngineTrait;
use crate::transaction::{AssetIssuance, OutPoint, TxOutWitness};
use crate::{AssetId, LockTime, Txid};

#[path = "support/c03_hash_models.rs"]
mod hm;

fn mk_tx(nin: usize, nout: usize) -> Transaction {
    let mut input = Vec::with_capacity(nin);
    let mut i = 0;
    while i < nin {
        let mut txid = [0u8; 32];
        txid[0] = kani::any();
        input.push(TxIn {
            previous_output: OutPoint { txid: Txid::from_byte_array(txid), vout: kani::any() },
            is_pegin: kani::any(),
            script_sig: Script::new(),
            sequence: Sequence(kani::any()),
            asset_issuance: AssetIssuance::default(),
            witness: TxInWitness::default(),
        });
        i += 1;
    }
    let mut output = Vec::with_capacity(nout);
    let mut k = 0;
    while k < nout {
        let mut o = TxOut::default();
        o.value = confidential::Value::Explicit(kani::any());
        output.push(o);
        k += 1;
    }
    Transaction { version: kani::any(), lock_time: LockTime::ZERO, input, output }
}
fn mk_prevout() -> TxOut {
    let mut a = [0u8; 32];
    a[0] = kani::any();
    TxOut {
        asset: confidential::Asset::Explicit(AssetId::from_byte_array(a)),
        value: confidential::Value::Explicit(kani::any()),
        nonce: confidential::Nonce::Null,
        script_pubkey: Script::from(vec![0x51u8, kani::any()]),
        witness: TxOutWitness::default(),
    }
}

macro_rules! total_harness {
    ($name:ident, $nin:expr, $nout:expr, $nprev:expr, $b:expr, $script_path:expr) => {
        #[kani::proof]
        #[kani::stub(<ShaEngine as HashEngineTrait>::input, hm::input_fold)]
        #[kani::stub(ShaHash::from_engine, hm::from_engine_fold)]
        #[kani::stub(std::io::Write::write_all, hm::WriteAllOnce::write_all_once)]
        fn $name() {
            const NIN: usize = $nin;
            const NOUT: usize = $nout;
            const NPREV: usize = $nprev;
            let tx = mk_tx(NIN, NOUT);
            let mut prev: Vec<TxOut> = Vec::with_capacity(NPREV);
            let mut k = 0;
            while k < NPREV { prev.push(mk_prevout()); k += 1; }
            let prevouts: Prevouts<TxOut> = Prevouts::All(&prev[..]);
            let idx: usize = kani::any();
            let t = match SchnorrSighashType::from_u8($b) { Some(t) => t, None => { kani::assume(false); return; } };
            let mut g = [0u8; 32];
            g[0] = kani::any();
            let mut cache = SighashCache::new(&tx);
            let r = if $script_path {
                let mut lh = [0u8; 32];
                lh[0] = kani::any();
                cache.taproot_script_spend_signature_hash(idx, &prevouts, TapLeafHash::from_byte_array(lh), t, BlockHash::from_byte_array(g))
            } else {
                cache.taproot_key_spend_signature_hash(idx, &prevouts, t, BlockHash::from_byte_array(g))
            };
            core::mem::forget(cache);
            let acp = $b & 0x80u8 != 0;
            let single = $b & 3u8 == 3;
            match r {
                Ok(_) => {
                    assert!(NPREV == NIN, "wrong number of spent outputs accepted");
                    assert!(!acp || idx < NIN, "ANYONECANPAY for a non-existent input accepted");
                    assert!(!single || idx < NOUT, "SINGLE without corresponding output accepted");
                    kani::cover!(idx == 0);
                }
                Err(e) => {
                    match &e {
                        Error::PrevoutsSize => assert!(NPREV != NIN),
                        Error::IndexOutOfInputsBounds { index, inputs_size } => assert!(idx >= NIN && *index == idx && *inputs_size == NIN),
                        Error::PrevoutIndex => assert!(idx >= NPREV),
                        Error::SingleWithoutCorrespondingOutput { index, outputs_size } => assert!(single && idx >= NOUT && *index == idx && *outputs_size == NOUT),
                        _ => assert!(false, "unexpected error kind"),
                    }
                    kani::cover!(true);
                    core::mem::forget(e);
                }
            }
            core::mem::forget(tx);
            core::mem::forget(prev);
        }
    };
}

//@ unregistered-harness: taproot_keyspend_total_single_acp class=B tier=thorough bound="2 inputs, 1 output, Prevouts::All with 2 prevouts, hash type 0x83, every usize input index" props=C10 timeout=1500
//@ unregistered-clause: taproot_key_spend_signature_hash never panics: out-of-range input index => Err(IndexOutOfInputsBounds), SINGLE without output => Err(SingleWithoutCorrespondingOutput); each Err names a true reason
total_harness!(taproot_keyspend_total_single_acp, 2, 1, 2, 0x83, false);
//@ unregistered-harness: taproot_scriptspend_total_single class=B tier=thorough bound="2 inputs, 1 output, Prevouts::All with 2 prevouts, hash type 0x03, every usize input index" props=C10 timeout=1500
//@ unregistered-clause: taproot_script_spend_signature_hash never panics; SINGLE at an index without output is an Err
total_harness!(taproot_scriptspend_total_single, 2, 1, 2, 0x03, true);
//@ unregistered-harness: taproot_keyspend_total_wrong_prevouts class=B tier=thorough bound="2 inputs, 1 output, Prevouts::All with 1 prevout, hash type 0x00, every usize input index" props=C10 timeout=1500
//@ unregistered-clause: a prevout list of the wrong length is Err(PrevoutsSize) for every index, never a panic
total_harness!(taproot_keyspend_total_wrong_prevouts, 2, 1, 1, 0x00, false);
