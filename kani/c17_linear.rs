//@ property: C17
//@ mount: src/blech32/mod.rs
//@ functions: src/blech32/mod.rs::Blech32 (impl bech32::Checksum), src/blech32/mod.rs::Blech32m (impl bech32::Checksum), bech32::primitives::checksum::Engine::input_fe, bech32::primitives::checksum::PackedFe32::mul_by_x_then_add
//
// C17.2 — algebra of ONE step of the REAL checksum engine, `bech32::primitives::checksum::Engine<Ck>::input_fe`,
// instantiated with the REAL `Ck` = crate::blech32::{Blech32, Blech32m} (constants of /repo/src/blech32/mod.rs)
// and bech32::{Bech32, Bech32m}.
//
// How the engine is driven.  `Engine<Ck>` has ONE private field `residue: Ck::MidstateRepr` (u64 / u32) and its
// public API can only start from residue 1.  To start the REAL `input_fe` from an ARBITRARY residue the
// harness transmutes the integer into an `Engine<Ck>` and immediately CHECKS (assert, not assume) through the
// public accessor `Engine::residue()` that the engine holds exactly that residue; every step is then the
// real `input_fe`, and the result is read with the real `residue()`.  Nothing of the step is restated.
//
// What is proved about step(r, f) := { e = engine(r); e.input_fe(f); e.residue() }   (read off the code:
// xn = coefficient of x^(deg-1); clear it; r <<= 5; r |= f; for bit i of xn: r ^= GENERATOR_SH[i]):
//   (L)  GF(2)-linearity, FULL DOMAIN: for all r1, r2 in MidstateRepr (all 2^64 / 2^32 values, also the ones
//        with junk above bit 5*deg) and all field elements f1, f2:
//              step(r1 ^ r2, f1 + f2) == step(r1, f1) ^ step(r2, f2)        (purely linear; so step(0,0) = 0)
//        The engine's start value 1 makes the map  string -> residue  AFFINE:  residue(s ^ e) = residue(s) ^ L(e)
//        where L runs the same steps from residue 0.  Detection of an error pattern e  <=>  L(e) != 0,
//        independent of TARGET_RESIDUE.
//   (A)  homogeneity under the field generator alpha (= Fe32 value 2; GF(32) = GF(2)[a]/(a^5+a^3+1)):
//              step(alpha * r, alpha * f) == alpha * step(r, f)        for all packed r (r < 2^(5*deg)), all f
//        where alpha * r multiplies each of the deg packed coefficients.  {1, a, .., a^4} is a GF(2)-basis of
//        GF(32), so (L) + (A) give GF(32)-linearity: step(r, f) = x*r + f mod g for a monic g of degree deg over
//        GF(32).  (A) is also exactly "GENERATOR_SH[i] = alpha^i * GENERATOR_SH[0]" in semantic form.
//   (R)  range invariant: r < 2^(5*deg)  =>  step(r, f) < 2^(5*deg).
//   (E)  the step equals the reference polymod step of the specifications (Elements `blech32.cpp` PolyMod;
//        BIP-173 `bech32_polymod`), full domain of packed residues.  A single wrong generator bit falsifies (E)
//        and (A).
use super::*;
use bech32::primitives::checksum::Engine;
use bech32::{Bech32, Bech32m, Checksum, Fe32};
use core::convert::TryFrom;

fn any_fe() -> Fe32 {
    let v: u8 = kani::any();
    kani::assume(v < 32);
    fe(v)
}
fn fe(v: u8) -> Fe32 {
    match Fe32::try_from(v) {
        Ok(f) => f,
        Err(_) => { kani::assume(false); Fe32::Q }
    }
}

macro_rules! step_fn {
    ($fname:ident, $ck:ty, $repr:ty) => {
        /// one REAL engine step from residue `r` with input `f`
        fn $fname(r: $repr, f: Fe32) -> $repr {
            // SAFETY/assumption check: Engine<Ck> is a single-field struct over `$repr`; validated right below.
            let mut e: Engine<$ck> = unsafe { core::mem::transmute::<$repr, Engine<$ck>>(r) };
            assert!(*e.residue() == r, "transmuted engine holds the chosen residue");
            e.input_fe(f);
            *e.residue()
        }
    };
}
step_fn!(step_blech32, Blech32, u64);
step_fn!(step_blech32m, Blech32m, u64);
step_fn!(step_bech32, Bech32, u32);
step_fn!(step_bech32m, Bech32m, u32);

// alpha * (packed polynomial): every 5-bit coefficient c -> (c << 1) ^ (c & 16 ? 0b101001 : 0), i.e. reduce
// a^5 = a^3 + 1.  Written directly from the field definition GF(2)[a]/(a^5 + a^3 + 1) of BIP-173.
fn ones64() -> u64 { let mut m = 0u64; let mut i = 0; while i < 12 { m |= 1u64 << (5 * i); i += 1; } m }
fn ones32() -> u32 { let mut m = 0u32; let mut i = 0; while i < 6 { m |= 1u32 << (5 * i); i += 1; } m }
fn alpha64(r: u64) -> u64 {
    let ones = ones64();
    let low4 = ones * 0x0F;            // bits 0..3 of every group
    let top = (r >> 4) & ones;         // bit 4 of every group, moved to bit 0 of the group
    ((r & low4) << 1) ^ (top * 0b01001) // 0b101001 with the overflowing a^5 bit dropped = a^3 + 1
}
fn alpha32(r: u32) -> u32 {
    let ones = ones32();
    let low4 = ones * 0x0F;
    let top = (r >> 4) & ones;
    ((r & low4) << 1) ^ (top * 0b01001)
}
fn alpha_fe(f: u8) -> u8 { ((f & 0x0F) << 1) ^ (if f & 0x10 != 0 { 0b01001 } else { 0 }) }

macro_rules! linear {
    ($name:ident, $step:ident, $repr:ty) => {
        #[kani::proof]
        fn $name() {
            let r1: $repr = kani::any();
            let r2: $repr = kani::any();
            let f1 = any_fe();
            let f2 = any_fe();
            let f12 = fe(f1.to_u8() ^ f2.to_u8()); // addition in GF(32) is xor of the 5-bit representations
            assert!(f12 == f1 + f2);               // ... and the crate's own Fe32 addition agrees
            let lhs = $step(r1 ^ r2, f12);
            let rhs = $step(r1, f1) ^ $step(r2, f2);
            assert!(lhs == rhs, "one-step GF(2)-linearity");
            assert!($step(0, Fe32::Q) == 0);
            kani::cover!(r1 != 0 && r2 != 0 && r1 != r2 && f1 != f2 && lhs != 0);
            kani::cover!((r1 >> 25) & 0x1f == 0x1f && (r2 >> 25) & 0x1f == 0x0a);
        }
    };
}
//@ harness: linear_blech32 class=F tier=quick props=C17
//@ clause: real Engine<Blech32>::input_fe: for ALL u64 residues r1,r2 and field elements f1,f2: step(r1^r2, f1+f2) == step(r1,f1) ^ step(r2,f2), step(0,0)=0
linear!(linear_blech32, step_blech32, u64);
//@ harness: linear_blech32m class=F tier=quick props=C17
//@ clause: same for the real Engine<Blech32m>
linear!(linear_blech32m, step_blech32m, u64);
//@ harness: linear_bech32 class=F tier=quick props=C17
//@ clause: same for bech32::Bech32 (u32 residues; unblinded v0 addresses)
linear!(linear_bech32, step_bech32, u32);
//@ harness: linear_bech32m class=F tier=quick props=C17
//@ clause: same for bech32::Bech32m (unblinded v1+ addresses)
linear!(linear_bech32m, step_bech32m, u32);

macro_rules! alpha_range {
    ($name:ident, $step:ident, $repr:ty, $alpha:ident, $deg:expr) => {
        #[kani::proof]
        fn $name() {
            let r: $repr = kani::any();
            let lim: $repr = (1 as $repr) << (5 * $deg);
            kani::assume(r < lim);
            let f = any_fe();
            let s = $step(r, f);
            assert!(s < lim, "packed-width invariant");
            let sa = $step($alpha(r), fe(alpha_fe(f.to_u8())));
            assert!(sa == $alpha(s), "step commutes with multiplication by the field generator");
            // the hand-written alpha agrees with the crate's field multiplication on a single coefficient
            assert!(fe(alpha_fe(f.to_u8())) == f * Fe32::Z);
            kani::cover!(s != 0 && (r >> (5 * ($deg - 1))) as u8 == 0x1f);
            kani::cover!(f.to_u8() & 0x10 != 0);
        }
    };
}
//@ harness: alpha_range_blech32 class=F tier=quick props=C17
//@ clause: real Engine<Blech32>::input_fe on all packed residues r < 2^60: result < 2^60, and step(alpha*r, alpha*f) == alpha*step(r,f) (GENERATOR_SH[i] are the alpha^i multiples of one degree-12 generator)
alpha_range!(alpha_range_blech32, step_blech32, u64, alpha64, 12);
//@ harness: alpha_range_blech32m class=F tier=quick props=C17
//@ clause: same for Blech32m
alpha_range!(alpha_range_blech32m, step_blech32m, u64, alpha64, 12);
//@ harness: alpha_range_bech32 class=F tier=quick props=C17
//@ clause: same for bech32::Bech32 (r < 2^30)
alpha_range!(alpha_range_bech32, step_bech32, u32, alpha32, 6);
//@ harness: alpha_range_bech32m class=F tier=quick props=C17
//@ clause: same for bech32::Bech32m
alpha_range!(alpha_range_bech32m, step_bech32m, u32, alpha32, 6);

// Reference steps, transcribed from the SPECIFICATIONS (not from the Rust code):
//   Elements src/blech32.cpp PolyMod:  c0 = c >> 55; c = ((c & 0x7fffffffffffff) << 5) ^ v;
//        if (c0 & 1) c ^= 0x7d52fba40bd886; if (c0 & 2) c ^= 0x5e8dbf1a03950c; if (c0 & 4) c ^= 0x1c3a3c74072a18;
//        if (c0 & 8) c ^= 0x385d72fa0e5139; if (c0 & 16) c ^= 0x7093e5a608865b;
//   BIP-173 bech32_polymod:  b = chk >> 25; chk = (chk & 0x1ffffff) << 5 ^ v; GEN = [0x3b6a57b2, 0x26508e6d, 0x1ea119fa, 0x3d4233dd, 0x2a1462b3]
fn ref_blech32(c: u64, v: u8) -> u64 {
    let c0 = (c >> 55) as u8;
    let mut c = ((c & 0x7f_ffff_ffff_ffff) << 5) ^ (v as u64);
    if c0 & 1 != 0 { c ^= 0x7d52fba40bd886; }
    if c0 & 2 != 0 { c ^= 0x5e8dbf1a03950c; }
    if c0 & 4 != 0 { c ^= 0x1c3a3c74072a18; }
    if c0 & 8 != 0 { c ^= 0x385d72fa0e5139; }
    if c0 & 16 != 0 { c ^= 0x7093e5a608865b; }
    c
}
fn ref_bech32(c: u32, v: u8) -> u32 {
    let b = (c >> 25) as u8;
    let mut c = ((c & 0x1ff_ffff) << 5) ^ (v as u32);
    if b & 1 != 0 { c ^= 0x3b6a57b2; }
    if b & 2 != 0 { c ^= 0x26508e6d; }
    if b & 4 != 0 { c ^= 0x1ea119fa; }
    if b & 8 != 0 { c ^= 0x3d4233dd; }
    if b & 16 != 0 { c ^= 0x2a1462b3; }
    c
}

//@ harness: step_matches_spec_blech32 class=F tier=quick props=C17
//@ clause: for all packed residues r < 2^60 and all f: the real Engine<Blech32>/Engine<Blech32m> step equals the Elements blech32.cpp PolyMod step; CHECKSUM_LENGTH = 12, TARGET_RESIDUE = 1 resp. 0x455972a3350f7a1
#[kani::proof]
fn step_matches_spec_blech32() {
    let r: u64 = kani::any();
    kani::assume(r < 1u64 << 60);
    let f = any_fe();
    let want = ref_blech32(r, f.to_u8());
    assert!(step_blech32(r, f) == want);
    assert!(step_blech32m(r, f) == want);
    assert!(<Blech32 as Checksum>::CHECKSUM_LENGTH == 12 && <Blech32m as Checksum>::CHECKSUM_LENGTH == 12);
    assert!(<Blech32 as Checksum>::TARGET_RESIDUE == 1);
    assert!(<Blech32m as Checksum>::TARGET_RESIDUE == 0x455972a3350f7a1);
    assert!(<Blech32 as Checksum>::GENERATOR_SH == <Blech32m as Checksum>::GENERATOR_SH);
    kani::cover!(r >> 55 == 0x1f && f.to_u8() == 31);
}

//@ harness: step_matches_spec_bech32 class=F tier=quick props=C17
//@ clause: for all packed residues r < 2^30 and all f: the bech32 crate's Engine<Bech32>/Engine<Bech32m> step equals BIP-173 bech32_polymod; CHECKSUM_LENGTH = 6, targets 1 and 0x2bc830a3 (BIP-350)
#[kani::proof]
fn step_matches_spec_bech32() {
    let r: u32 = kani::any();
    kani::assume(r < 1u32 << 30);
    let f = any_fe();
    let want = ref_bech32(r, f.to_u8());
    assert!(step_bech32(r, f) == want);
    assert!(step_bech32m(r, f) == want);
    assert!(<Bech32 as Checksum>::CHECKSUM_LENGTH == 6 && <Bech32m as Checksum>::CHECKSUM_LENGTH == 6);
    assert!(<Bech32 as Checksum>::TARGET_RESIDUE == 1);
    assert!(<Bech32m as Checksum>::TARGET_RESIDUE == 0x2bc830a3);
    kani::cover!(r >> 25 == 0x1f && f.to_u8() == 31);
}
