//@ property: C01
//@ mount: src/block.rs
//@ functions: src/block.rs::BlockHeader::consensus_encode, src/block.rs::BlockHeader::consensus_decode, src/block.rs::ExtData::consensus_encode, src/dynafed.rs::Params::consensus_encode, src/dynafed.rs::Params::consensus_decode, src/dynafed.rs::FullParams::consensus_encode, src/dynafed.rs::FullParams::consensus_decode
// Decode harnesses fix every length byte (and, where the layout after it depends on it, the selecting byte) to concrete
// values: a symbolic cursor position would make the next allocation length symbolic (DESIGN §2).
use super::*;
use crate::dynafed::{ElidedRoot, FullParams, Params};
use crate::encode::{deserialize_partial, Error};

#[path = "support/sinks.rs"]
mod sinks;
use sinks::{forget, ArraySink};

fn enc<const N: usize, T: Encodable>(v: &T) -> (usize, ArraySink<N>) {
    let mut s = ArraySink::<N>::new();
    match v.consensus_encode(&mut s) {
        Ok(n) => (n, s),
        Err(e) => { forget(e); assert!(false); (0, s) }
    }
}
fn assert_prefix_eq<const N: usize>(a: &[u8; N], b: &[u8; N], k: usize) {
    let mut i = 0;
    while i < N {
        if i < k { assert!(a[i] == b[i]); }
        i += 1;
    }
}
/// 16 bytes as one integer (loop-free comparison of byte ranges for harnesses that run under a small unwind bound)
fn chunk(b: &[u8], at: usize) -> u128 {
    u128::from_le_bytes([b[at], b[at + 1], b[at + 2], b[at + 3], b[at + 4], b[at + 5], b[at + 6], b[at + 7],
        b[at + 8], b[at + 9], b[at + 10], b[at + 11], b[at + 12], b[at + 13], b[at + 14], b[at + 15]])
}
fn le32(b: &[u8], at: usize) -> u32 {
    u32::from_le_bytes([b[at], b[at + 1], b[at + 2], b[at + 3]])
}

// ---------------------------------------------------------------------------------------------------------------
// dynafed::Params tag dispatch
// ---------------------------------------------------------------------------------------------------------------

//@ harness: params_dec_tag class=F tier=thorough bound="unwind 3"
//@ clause: dynafed::Params decode: tag 0 -> Null consuming exactly 1 byte and re-encoding to 00; every tag outside {0,1,2} -> ParseFailed("bad serialize type for dynafed parameters"); empty input is an error
#[kani::proof]
#[kani::unwind(3)] // the (infeasible here, but symbolically explored) tag-2 arm decodes a Vec<Vec<u8>> whose element loop has a non-constant bound
fn params_dec_tag() {
    let buf: [u8; 2] = kani::any();
    kani::assume(buf[0] != 1 && buf[0] != 2);
    match deserialize_partial::<Params>(&buf[..]) {
        Ok((p, k)) => {
            assert!(buf[0] == 0 && k == 1 && p.is_null());
            let (n, s) = enc::<2, _>(&p);
            assert!(n == 1 && s.len == 1 && s.buf[0] == 0);
            kani::cover!(true);
        }
        Err(e) => {
            assert!(buf[0] > 2);
            assert!(matches!(e, Error::ParseFailed(m) if m.len() == 41)); // "bad serialize type for dynafed parameters"
            kani::cover!(buf[0] == 3);
            forget(e);
        }
    }
    match deserialize_partial::<Params>(&buf[..0]) {
        Ok((p, _)) => { forget(p); assert!(false); }
        Err(e) => forget(e),
    }
}

//@ harness: params_dec_compact class=B tier=thorough bound="tag 1, signblockscript length byte 2" timeout=3000
//@ clause: Params decode, tag 1 (compact): accepted, consumes 1+1+2+4+32 bytes (one-byte truncation rejected); fields are script, little-endian limit, 32-byte elided root in order; re-encoding reproduces the bytes
#[kani::proof]
fn params_dec_compact() {
    const K: usize = 1 + 1 + 2 + 4 + 32;
    const N: usize = K + 1;
    let mut buf: [u8; N] = kani::any();
    buf[0] = 1;
    buf[1] = 2;
    match deserialize_partial::<Params>(&buf[..]) {
        Ok((p, k)) => {
            assert!(k == K);
            match p {
                Params::Compact { ref signblockscript, signblock_witness_limit, ref elided_root } => {
                    assert!(signblockscript.len() == 2 && signblockscript.as_bytes()[0] == buf[2] && signblockscript.as_bytes()[1] == buf[3]);
                    assert!(signblock_witness_limit == le32(&buf, 4));
                    let r = elided_root.to_byte_array();
                    let mut i = 0;
                    while i < 32 { assert!(r[i] == buf[8 + i]); i += 1; }
                }
                _ => assert!(false),
            }
            let (n, s) = enc::<N, _>(&p);
            assert!(n == k && s.len == k);
            assert_prefix_eq(&s.buf, &buf, k);
            kani::cover!(true);
            forget(p);
        }
        Err(e) => { forget(e); assert!(false); }
    }
    match deserialize_partial::<Params>(&buf[..K - 1]) {
        Ok((p, _)) => { forget(p); assert!(false); }
        Err(e) => forget(e),
    }
}

//@ harness: params_dec_full class=B tier=thorough bound="tag 2, signblockscript 1 byte, fedpeg_program 2 bytes, fedpegscript 1 byte, extension space [2 bytes, 0 bytes]; unwind 3" timeout=1800
//@ clause: Params decode, tag 2 (full): accepted, consumed == total length; the five fields are the input bytes in order; one-byte truncation rejected (encode side: header_enc_layout)
#[kani::proof]
#[kani::unwind(3)] // element loop of Vec<Vec<u8>>::consensus_decode: decoded lengths are not constant-folded by CBMC
fn params_dec_full() {
    const K: usize = 1 + (1 + 1) + 4 + (1 + 2) + (1 + 1) + (1 + (1 + 2) + 1);
    const N: usize = K + 1;
    let mut buf: [u8; N] = kani::any();
    buf[0] = 2;
    buf[1] = 1;
    buf[7] = 2;
    buf[10] = 1;
    buf[12] = 2;
    buf[13] = 2;
    buf[16] = 0;
    match deserialize_partial::<Params>(&buf[..]) {
        Ok((p, k)) => {
            assert!(k == K);
            match p {
                Params::Full(ref f) => {
                    assert!(f.signblockscript.len() == 1 && f.signblockscript.as_bytes()[0] == buf[2]);
                    assert!(f.signblock_witness_limit == le32(&buf, 3));
                    assert!(f.fedpeg_program.as_bytes().len() == 2 && f.fedpeg_program.as_bytes()[0] == buf[8] && f.fedpeg_program.as_bytes()[1] == buf[9]);
                    assert!(f.fedpegscript.len() == 1 && f.fedpegscript[0] == buf[11]);
                    assert!(f.extension_space.len() == 2 && f.extension_space[0].len() == 2 && f.extension_space[1].len() == 0);
                    assert!(f.extension_space[0][0] == buf[14] && f.extension_space[0][1] == buf[15]);
                }
                _ => assert!(false),
            }
            kani::cover!(true);
            forget(p);
        }
        Err(e) => { forget(e); assert!(false); }
    }
    match deserialize_partial::<Params>(&buf[..K - 1]) {
        Ok((p, _)) => { forget(p); assert!(false); }
        Err(e) => forget(e),
    }
}

// ---------------------------------------------------------------------------------------------------------------
// BlockHeader: bit 31 of the version selects the ExtData variant
// ---------------------------------------------------------------------------------------------------------------

//@ harness: header_dec_versionbit class=B tier=thorough bound="the three bytes after the 76 fixed header bytes are 00 00 00 (legacy: empty challenge and solution; dynafed: null current, null proposed, empty signblock witness); unwind 3" timeout=1800
//@ clause: BlockHeader decode, version over its full range: bit 31 set <=> ExtData::Dynafed (and the bit is removed from the in-memory version), clear <=> ExtData::Proof; consumed 78 resp. 79 bytes; fixed fields are the bytes in order; re-encoding reproduces the consumed bytes (the encoder puts bit 31 back exactly for dynafed); a truncation by one byte is rejected
#[kani::proof]
#[kani::unwind(3)] // signblock_witness is a Vec<Vec<u8>>: its decoded length is not constant-folded by CBMC
fn header_dec_versionbit() {
    const N: usize = 80;
    let mut buf: [u8; N] = kani::any();
    buf[76] = 0;
    buf[77] = 0;
    buf[78] = 0;
    let wire_version = le32(&buf, 0);
    let dyna = wire_version & 0x8000_0000 != 0;
    let need = if dyna { 79 } else { 78 };
    match deserialize_partial::<BlockHeader>(&buf[..]) {
        Ok((h, k)) => {
            assert!(k == need);
            assert!(h.is_dynafed() == dyna);
            assert!(h.version == wire_version & 0x7fff_ffff);
            let p = h.prev_blockhash.to_byte_array();
            let m = h.merkle_root.to_byte_array();
            assert!(chunk(&p, 0) == chunk(&buf, 4) && chunk(&p, 16) == chunk(&buf, 20));
            assert!(chunk(&m, 0) == chunk(&buf, 36) && chunk(&m, 16) == chunk(&buf, 52));
            assert!(h.time == le32(&buf, 68) && h.height == le32(&buf, 72));
            match h.ext {
                ExtData::Proof { ref challenge, ref solution } => assert!(challenge.len() == 0 && solution.len() == 0),
                ExtData::Dynafed { ref current, ref proposed, ref signblock_witness } =>
                    assert!(current.is_null() && proposed.is_null() && signblock_witness.len() == 0),
            }
            let (n, s) = enc::<N, _>(&h);
            assert!(n == k && s.len == k);
            assert!(chunk(&s.buf, 0) == chunk(&buf, 0) && chunk(&s.buf, 16) == chunk(&buf, 16) && chunk(&s.buf, 32) == chunk(&buf, 32));
            assert!(chunk(&s.buf, 48) == chunk(&buf, 48) && chunk(&s.buf, 60) == chunk(&buf, 60));
            assert!(s.buf[76] == 0 && s.buf[77] == 0 && (!dyna || s.buf[78] == 0));
            kani::cover!(dyna);
            kani::cover!(!dyna);
            forget(h);
        }
        Err(e) => { forget(e); assert!(false); }
    }
    match deserialize_partial::<BlockHeader>(&buf[..77]) {
        Ok((h, _)) => { forget(h); assert!(false); }
        Err(e) => forget(e),
    }
}

fn vec_of<const L: usize>() -> Vec<u8> {
    let a: [u8; L] = kani::any();
    a.to_vec()
}

//@ harness: header_enc_layout class=B tier=thorough bound="legacy: challenge 2 bytes, solution 1 byte; dynafed: current compact (2-byte script), proposed null or full (1/2/1-byte scripts, one 2-byte extension), signblock witness [1 byte]" timeout=900
//@ clause: BlockHeader encode for canonical headers (in-memory version < 2^31): version with bit 31 set iff dynafed, then prev hash, merkle root, time, height little-endian, then challenge+solution resp. current+proposed+witness; reported length == bytes written; Params tags are 0/1/2 for null/compact/full
#[kani::proof]
fn header_enc_layout() {
    let dynafed: bool = kani::any();
    let full: bool = kani::any();
    let ext = if dynafed {
        let proposed = if full {
            let mut e = Vec::with_capacity(1);
            e.push(vec_of::<2>());
            Params::Full(FullParams::new(Script::from(vec_of::<1>()), kani::any(), bitcoin::ScriptBuf::from_bytes(vec_of::<2>()), vec_of::<1>(), e))
        } else { Params::Null };
        let mut w = Vec::with_capacity(1);
        w.push(vec_of::<1>());
        ExtData::Dynafed {
            current: Params::Compact { signblockscript: Script::from(vec_of::<2>()), signblock_witness_limit: kani::any(), elided_root: ElidedRoot::from_byte_array(kani::any()) },
            proposed,
            signblock_witness: w,
        }
    } else {
        ExtData::Proof { challenge: Script::from(vec_of::<2>()), solution: Script::from(vec_of::<1>()) }
    };
    let h = BlockHeader {
        version: kani::any(),
        prev_blockhash: BlockHash::from_byte_array(kani::any()),
        merkle_root: TxMerkleNode::from_byte_array(kani::any()),
        time: kani::any(),
        height: kani::any(),
        ext,
    };
    kani::assume(h.version < 0x8000_0000);
    const N: usize = 160;
    let (n, s) = enc::<N, _>(&h);
    assert!(n == s.len);
    let b = &s.buf;
    assert!(le32(b, 0) == h.version | if dynafed { 0x8000_0000 } else { 0 });
    let p = h.prev_blockhash.to_byte_array();
    let m = h.merkle_root.to_byte_array();
    let mut i = 0;
    while i < 32 { assert!(b[4 + i] == p[i] && b[36 + i] == m[i]); i += 1; }
    assert!(le32(b, 68) == h.time && le32(b, 72) == h.height);
    match h.ext {
        ExtData::Proof { ref challenge, ref solution } => {
            assert!(n == 76 + 3 + 2);
            assert!(b[76] == 2 && b[77] == challenge.as_bytes()[0] && b[78] == challenge.as_bytes()[1]);
            assert!(b[79] == 1 && b[80] == solution.as_bytes()[0]);
        }
        ExtData::Dynafed { ref current, ref proposed, ref signblock_witness } => {
            // current: compact
            assert!(b[76] == 1 && b[77] == 2);
            if let Params::Compact { ref signblockscript, signblock_witness_limit, ref elided_root } = *current {
                assert!(b[78] == signblockscript.as_bytes()[0] && b[79] == signblockscript.as_bytes()[1]);
                assert!(le32(b, 80) == signblock_witness_limit);
                let r = elided_root.to_byte_array();
                let mut j = 0;
                while j < 32 { assert!(b[84 + j] == r[j]); j += 1; }
            } else { assert!(false); }
            let mut at = 116;
            match *proposed {
                Params::Null => { assert!(b[at] == 0); at += 1; }
                Params::Full(ref f) => {
                    assert!(b[at] == 2);
                    assert!(b[at + 1] == 1 && b[at + 2] == f.signblockscript.as_bytes()[0]);
                    assert!(le32(b, at + 3) == f.signblock_witness_limit);
                    assert!(b[at + 7] == 2 && b[at + 8] == f.fedpeg_program.as_bytes()[0] && b[at + 9] == f.fedpeg_program.as_bytes()[1]);
                    assert!(b[at + 10] == 1 && b[at + 11] == f.fedpegscript[0]);
                    assert!(b[at + 12] == 1 && b[at + 13] == 2 && b[at + 14] == f.extension_space[0][0] && b[at + 15] == f.extension_space[0][1]);
                    at += 16;
                }
                _ => assert!(false),
            }
            assert!(b[at] == 1 && b[at + 1] == 1 && b[at + 2] == signblock_witness[0][0]);
            assert!(n == at + 3);
        }
    }
    kani::cover!(dynafed && full);
    kani::cover!(!dynafed);
    forget(h);
}
