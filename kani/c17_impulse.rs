//@ property: C17
//@ mount: src/blech32/mod.rs
//@ functions: src/blech32/mod.rs::Blech32 (impl bech32::Checksum), src/blech32/mod.rs::Blech32m (impl bech32::Checksum), bech32::primitives::checksum::Engine::{new,input_fe,residue}
//
// C17.3 — impulse enumeration by CONCRETE execution of the REAL engine through its public API only.
//
// `Engine::<Ck>::new()` holds residue 1 = x^0.  Feeding the zero field element d times leaves  x^d mod g  in
// `residue()` (by c17_linear (L)+(A): step(r, 0) = x*r mod g).  For every d in 0..L this file checks
//      (Z)  x^d mod g != 0                                   -> no single-character error has zero syndrome
//      (C)  for d >= 1:  x^d mod g is not a constant polynomial (some coefficient of x^1.. is non-zero)
//                                                            -> no two-character error  a*x^i + b*x^j  (i - j = d)
//                                                               has zero syndrome:  a*x^d + b == 0 mod g  would
//                                                               make x^d the constant b/a.
// L = 1023 for blech32/blech32m (the order of x modulo g is exactly 1023: x^1023 == 1, so 1023 symbols is the
// true code length; the declared CODE_LENGTH = 1024 is not used by this file),
// and L = 90 (the BIP-173 maximum string length; full 1023 in the thorough harness) for bech32/bech32m.
// The longest address feeds 2*3+1 (hrp "tlq") + 1 + ceil(73*8/5) + 12 = 137 symbols.
// The step from (Z),(C) to "every <= 2-character corruption changes the residue" uses GF(32)-linearity
// (c17_linear) and induction on the string length — the one pencil-and-paper step, stated here.
//
// `full_syndrome_table_*` is the assumption-free variant (needs only GF(2)-linearity (L)): all 31*L single
// error syndromes  L(a at distance d)  are non-zero and pairwise distinct, so no two of them cancel.  It is
// O(n log n) over 31744 values — run natively (`cargo kani playback` picks up the #[test] wrappers, or call
// the plain functions); far too big for CBMC.
use super::*;
use bech32::primitives::checksum::Engine;
use bech32::{Bech32, Bech32m, Checksum, Fe32};
use core::convert::TryFrom;

macro_rules! scan {
    ($fname:ident, $ck:ty, $repr:ty) => {
        /// Returns None if (Z) and (C) hold for every d in 0..l, else Some(first bad d).
        pub(crate) fn $fname(l: usize) -> Option<usize> {
            let mut e = Engine::<$ck>::new();
            let mut d = 0usize;
            while d < l {
                let r: $repr = *e.residue();
                if r == 0 { return Some(d); }
                if d >= 1 && (r >> 5) == 0 { return Some(d); }
                e.input_fe(Fe32::Q);
                d += 1;
            }
            None
        }
    };
}
scan!(scan_blech32, Blech32, u64);
scan!(scan_blech32m, Blech32m, u64);
scan!(scan_bech32, Bech32, u32);
scan!(scan_bech32m, Bech32m, u32);

macro_rules! table {
    ($fname:ident, $ck:ty, $repr:ty) => {
        /// Assumption-free (GF(2)-linearity only) variant: syndromes of all single errors (a != 0 at distance
        /// d < l from the end) are non-zero and pairwise distinct.  Native execution only.
        pub(crate) fn $fname(l: usize) -> bool {
            let mut all: Vec<$repr> = Vec::with_capacity(31 * l);
            let mut a = 1u8;
            while a < 32 {
                // engine with residue 0: new() holds 1; the real step is linear, so run two engines and xor:
                // L(e) = A(e) ^ A(0) where A starts from 1.
                let mut e1 = Engine::<$ck>::new();
                let mut e0 = Engine::<$ck>::new();
                e1.input_fe(Fe32::try_from(a).unwrap());
                e0.input_fe(Fe32::Q);
                let mut d = 0;
                while d < l {
                    all.push(*e1.residue() ^ *e0.residue());
                    e1.input_fe(Fe32::Q);
                    e0.input_fe(Fe32::Q);
                    d += 1;
                }
                a += 1;
            }
            all.sort_unstable();
            if all[0] == 0 { return false; }
            let mut i = 1;
            while i < all.len() {
                if all[i] == all[i - 1] { return false; }
                i += 1;
            }
            true
        }
    };
}
table!(full_syndrome_table_blech32, Blech32, u64);
table!(full_syndrome_table_blech32m, Blech32m, u64);
table!(full_syndrome_table_bech32, Bech32, u32);
table!(full_syndrome_table_bech32m, Bech32m, u32);

/// Native entry point (picked up by `cargo kani playback -Z concrete-playback -- kani_concrete_playback`).
#[test]
fn kani_concrete_playback_c17_impulse_native() {
    // the true length of the blech32 code is 1023 = ord(x mod g): x^1023 == 1 (mod g)
    assert!(scan_blech32(1023).is_none());
    assert!(scan_blech32m(1023).is_none());
    assert!(scan_blech32(1024) == Some(1023)); // sensitivity: the scan does find the first constant power
    assert!(scan_bech32(<Bech32 as Checksum>::CODE_LENGTH).is_none());
    assert!(scan_bech32m(<Bech32m as Checksum>::CODE_LENGTH).is_none());
    assert!(scan_bech32(1024) == Some(1023));
    assert!(full_syndrome_table_blech32(1023));
    assert!(full_syndrome_table_blech32m(1023));
    assert!(!full_syndrome_table_blech32(1024));
    assert!(full_syndrome_table_bech32(1023));
    assert!(full_syndrome_table_bech32m(1023));
}

//@ harness: impulse_blech32_l128 class=B tier=quick bound="distances d < 128 (concrete execution)" props=C17
//@ clause: real Engine<Blech32>/Engine<Blech32m>: x^d mod g is non-zero (d in 0..128) and non-constant (d in 1..128): no 1- or 2-character error within 128 characters has zero syndrome
#[kani::proof]
fn impulse_blech32_l128() {
    assert!(scan_blech32(128).is_none());
    assert!(scan_blech32m(128).is_none());
    kani::cover!(true);
}

//@ harness: impulse_blech32_full class=F tier=thorough props=C17 timeout=1800
//@ clause: real Engine<Blech32>: x^d mod g non-zero and non-constant for every distance d <= 1022, i.e. for every string of up to 1023 checksummed symbols (hrp expansion + data) — the true length of the code; every address is < 140 symbols
#[kani::proof]
fn impulse_blech32_full() {
    assert!(scan_blech32(1023).is_none());
    kani::cover!(true);
}

//@ harness: impulse_blech32m_full class=F tier=thorough props=C17 timeout=1800
//@ clause: same for the real Engine<Blech32m>
#[kani::proof]
fn impulse_blech32m_full() {
    assert!(scan_blech32m(1023).is_none());
    kani::cover!(true);
}

//@ harness: impulse_bech32_l90 class=F tier=quick props=C17
//@ clause: bech32 crate Engine<Bech32>/Engine<Bech32m> (unblinded addresses): x^d mod g non-zero and non-constant for every distance d < 90 (BIP-173 maximum string length)
#[kani::proof]
fn impulse_bech32_l90() {
    assert!(scan_bech32(90).is_none());
    assert!(scan_bech32m(90).is_none());
    kani::cover!(true);
}

//@ harness: impulse_bech32_full class=F tier=thorough props=C17 timeout=1800
//@ clause: bech32 crate Engine<Bech32>: same for every distance below bech32's CODE_LENGTH = 1023
#[kani::proof]
fn impulse_bech32_full() {
    assert!(<Bech32 as Checksum>::CODE_LENGTH == 1023);
    assert!(scan_bech32(1023).is_none());
    kani::cover!(true);
}

//@ harness: impulse_bech32m_full class=F tier=thorough props=C17 timeout=1800
//@ clause: same for Engine<Bech32m>
#[kani::proof]
fn impulse_bech32m_full() {
    assert!(<Bech32m as Checksum>::CODE_LENGTH == 1023);
    assert!(scan_bech32m(1023).is_none());
    kani::cover!(true);
}
