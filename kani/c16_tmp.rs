//@ property: C16
//@ mount: src/script.rs
use super::*;
use crate::address::{Address, AddressParams, Payload};
use core::mem::ManuallyDrop;
use std::convert::TryFrom as _;

fn scriptint_unreachable(_n: i64) -> Vec<u8> {
    assert!(false, "witness version pushed through build_scriptint");
    Vec::new()
}
//@ harness: tmp_a class=F tier=quick
#[kani::proof]
#[kani::stub(build_scriptint, scriptint_unreachable)]
fn tmp_a() {
    let prog: [u8; 2] = kani::any();
    let a = ManuallyDrop::new(Address {
        params: &AddressParams::ELEMENTS,
        payload: Payload::WitnessProgram { version: bech32::Fe32::P, program: prog.to_vec() },
        blinding_pubkey: None,
    });
    let s = ManuallyDrop::new(a.script_pubkey());
    assert!(s.len() == 4);
}
//@ harness: tmp_b class=F tier=quick
#[kani::proof]
#[kani::stub(build_scriptint, scriptint_unreachable)]
fn tmp_b() {
    let prog: [u8; 2] = kani::any();
    let v: i64 = kani::any();
    kani::assume(v >= 0 && v <= 16);
    let b = ManuallyDrop::new(Builder::new().push_int(v).push_slice(&prog));
    assert!(b.0.len() == 4);
}
