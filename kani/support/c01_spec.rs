// Support: the Elements wire format written down once as an oracle (independent of the crate's Encodable impls),
// and generators for symbolic in-memory values.  Generators of commitments need the FFI stubs of c01_ffi_models.rs
// to be active in the calling harness.
#![allow(dead_code)]
use crate::confidential::{Asset, Nonce, Value};
use crate::issuance::AssetId;
use secp256k1_zkp::{Generator, PedersenCommitment, PublicKey, Tweak};

/// Fixed-capacity byte string the oracle appends to. Overflow is a harness bug (asserted).
pub struct Spec<const N: usize> {
    pub buf: [u8; N],
    pub len: usize,
}
impl<const N: usize> Spec<N> {
    pub fn new() -> Self {
        Spec { buf: [0u8; N], len: 0 }
    }
    pub fn u8(&mut self, b: u8) {
        assert!(self.len < N);
        self.buf[self.len] = b;
        self.len += 1;
    }
    pub fn bytes(&mut self, b: &[u8]) {
        assert!(b.len() <= N - self.len);
        self.buf[self.len..self.len + b.len()].copy_from_slice(b);
        self.len += b.len();
    }
    pub fn u32le(&mut self, v: u32) {
        self.u8(v as u8);
        self.u8((v >> 8) as u8);
        self.u8((v >> 16) as u8);
        self.u8((v >> 24) as u8);
    }
    /// Bitcoin CompactSize
    pub fn varint(&mut self, v: u64) {
        if v < 0xFD {
            self.u8(v as u8);
        } else if v <= 0xFFFF {
            self.u8(0xFD);
            self.u8(v as u8);
            self.u8((v >> 8) as u8);
        } else if v <= 0xFFFF_FFFF {
            self.u8(0xFE);
            self.u32le(v as u32);
        } else {
            self.u8(0xFF);
            self.u32le(v as u32);
            self.u32le((v >> 32) as u32);
        }
    }
    pub fn var_bytes(&mut self, b: &[u8]) {
        self.varint(b.len() as u64);
        self.bytes(b);
    }
    pub fn value(&mut self, v: &Value) {
        match *v {
            Value::Null => self.u8(0),
            Value::Explicit(n) => {
                self.u8(1);
                let mut i = 0;
                while i < 8 {
                    self.u8((n >> (56 - 8 * i)) as u8);
                    i += 1;
                }
            }
            Value::Confidential(c) => self.bytes(&c.serialize()),
        }
    }
    pub fn asset(&mut self, v: &Asset) {
        match *v {
            Asset::Null => self.u8(0),
            Asset::Explicit(id) => {
                self.u8(1);
                self.bytes(&id.to_byte_array());
            }
            Asset::Confidential(c) => self.bytes(&c.serialize()),
        }
    }
    pub fn nonce(&mut self, v: &Nonce) {
        match *v {
            Nonce::Null => self.u8(0),
            Nonce::Explicit(n) => {
                self.u8(1);
                self.bytes(&n);
            }
            Nonce::Confidential(c) => self.bytes(&c.serialize()),
        }
    }
    /// assert that `other[..n]` equals the oracle bytes and n == len
    pub fn assert_eq(&self, other: &[u8; N], n: usize) {
        assert!(n == self.len);
        let mut i = 0;
        while i < N {
            if i < self.len {
                assert!(self.buf[i] == other[i]);
            }
            i += 1;
        }
    }
}

/// oracle for the serialized length of a CompactSize
pub fn varint_len(v: u64) -> usize {
    if v < 0xFD { 1 } else if v <= 0xFFFF { 3 } else if v <= 0xFFFF_FFFF { 5 } else { 9 }
}
pub fn value_len(v: &Value) -> usize {
    match v { Value::Null => 1, Value::Explicit(_) => 9, Value::Confidential(_) => 33 }
}
pub fn asset_len(v: &Asset) -> usize {
    match v { Asset::Null => 1, _ => 33 }
}
pub fn nonce_len(v: &Nonce) -> usize {
    match v { Nonce::Null => 1, _ => 33 }
}

pub fn any_value() -> Value {
    let sel: u8 = kani::any();
    match sel {
        0 => Value::Null,
        1 => Value::Explicit(kani::any()),
        _ => {
            let b: [u8; 33] = kani::any();
            match PedersenCommitment::from_slice(&b) {
                Ok(c) => Value::Confidential(c),
                Err(e) => { core::mem::forget(e); kani::assume(false); Value::Null }
            }
        }
    }
}
pub fn any_asset() -> Asset {
    let sel: u8 = kani::any();
    match sel {
        0 => Asset::Null,
        1 => Asset::Explicit(AssetId::from_byte_array(kani::any())),
        _ => {
            let b: [u8; 33] = kani::any();
            match Generator::from_slice(&b) {
                Ok(c) => Asset::Confidential(c),
                Err(e) => { core::mem::forget(e); kani::assume(false); Asset::Null }
            }
        }
    }
}
pub fn any_nonce() -> Nonce {
    let sel: u8 = kani::any();
    match sel {
        0 => Nonce::Null,
        1 => Nonce::Explicit(kani::any()),
        _ => {
            let b: [u8; 33] = kani::any();
            match PublicKey::from_slice(&b) {
                Ok(c) => Nonce::Confidential(c),
                Err(e) => { core::mem::forget(e); kani::assume(false); Nonce::Null }
            }
        }
    }
}
pub fn any_tweak() -> Tweak {
    let b: [u8; 32] = kani::any();
    match Tweak::from_inner(b) {
        Ok(t) => t,
        Err(e) => { core::mem::forget(e); kani::assume(false); secp256k1_zkp::ZERO_TWEAK }
    }
}
/// any 32 bytes as a Tweak without going through the range check (for encode-only harnesses, where validity of the
/// scalar is irrelevant: the encoder writes the 32 bytes verbatim)
pub fn raw_tweak() -> Tweak {
    let b: [u8; 32] = kani::any();
    unsafe { core::mem::transmute::<[u8; 32], Tweak>(b) }
}
/// a byte vector of concrete length with symbolic content
pub fn any_vec<const L: usize>() -> Vec<u8> {
    let a: [u8; L] = kani::any();
    a.to_vec()
}

/// A `Vec<T>` whose buffer is a caller-owned *typed* array instead of a heap allocation.
/// Why: CBMC models `__rust_alloc` memory as an untyped byte array; pointers and lengths of *nested* vectors that are
/// read back from such memory (e.g. `tx.input[0].witness.script_witness`) are no longer constant-folded, so every loop
/// over a nested vector becomes unbounded.  With the elements living in a typed local array the reads stay
/// field-sensitive.  The returned Vec must never be dropped, grown or shrunk (harnesses `mem::forget` the owner).
pub unsafe fn vec_over<T, const N: usize>(store: &mut core::mem::ManuallyDrop<[T; N]>) -> Vec<T> {
    if N == 0 {
        return Vec::new();
    }
    Vec::from_raw_parts(store.as_mut_ptr() as *mut T, N, N)
}
