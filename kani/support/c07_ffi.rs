// Support for the PSET harnesses (C07/C08/C10/C14): Rust models of the few libsecp256k1 `extern "C"` entry points that
// PSET map code reaches, and FFI-free constructors for key types.
//
// ASSUMED CONTRACT (repeated in the evidence of every harness that applies one of these stubs):
//   * the opaque 64-byte `ffi::PublicKey` / `ffi::XOnlyPublicKey` representation is canonical: two values denote the
//     same key iff their 64 bytes are equal, and `*_cmp` is a total order on them consistent with that equality
//     (the model orders the raw bytes lexicographically; libsecp orders the compressed serializations — harnesses never
//     rely on *which* total order it is);
//   * `ec_pubkey_parse` accepts a 33-byte string only if its first byte is 2 or 3 and is then an injection into the
//     opaque form whose inverse is `ec_pubkey_serialize(compressed)` (the model additionally accepts *every* such
//     string, i.e. over-approximates the set of valid x coordinates; 65-byte uncompressed input is rejected by the
//     model = not covered); same for `xonly_pubkey_parse` / `_serialize` on 32-byte strings;
//   * `ec_seckey_verify(x)` = 1 iff 0 < x < n (big endian), modelled exactly.
#![allow(dead_code, unused_imports)]
pub use bitcoin::secp256k1::ffi as sffi;
use sffi::types::{c_int, c_uchar, c_uint, size_t};

/// loop-free lexicographic comparison of two 64-byte arrays (so that harnesses can keep a small unwind bound)
fn cmp64(x: &[u8; 64], y: &[u8; 64]) -> c_int {
    macro_rules! w { ($a:ident, $i:expr) => { u64::from_be_bytes([$a[$i], $a[$i+1], $a[$i+2], $a[$i+3], $a[$i+4], $a[$i+5], $a[$i+6], $a[$i+7]]) }; }
    macro_rules! step { ($i:expr) => { let (p, q) = (w!(x, $i), w!(y, $i)); if p < q { return -1; } if p > q { return 1; } }; }
    step!(0); step!(8); step!(16); step!(24); step!(32); step!(40); step!(48); step!(56);
    0
}
pub unsafe fn model_ec_pubkey_cmp(_cx: *const sffi::Context, a: *const sffi::PublicKey, b: *const sffi::PublicKey) -> c_int {
    cmp64(&(*a).underlying_bytes(), &(*b).underlying_bytes())
}

pub unsafe fn model_xonly_pubkey_cmp(_cx: *const sffi::Context, a: *const sffi::XOnlyPublicKey, b: *const sffi::XOnlyPublicKey) -> c_int {
    cmp64(&(*a).underlying_bytes(), &(*b).underlying_bytes())
}

/// opaque form = [prefix, x(32), 0 ...]
pub unsafe fn model_ec_pubkey_parse(_cx: *const sffi::Context, pk: *mut sffi::PublicKey, input: *const c_uchar, in_len: size_t) -> c_int {
    if in_len != 33 { return 0; }
    let p = *input;
    if p != 2 && p != 3 { return 0; }
    let mut raw = [0u8; 64];
    let mut i = 0;
    while i < 33 { raw[i] = *input.add(i); i += 1; }
    *pk = sffi::PublicKey::from_array_unchecked(raw);
    1
}

pub unsafe fn model_ec_pubkey_serialize(_cx: *const sffi::Context, output: *mut c_uchar, out_len: *mut size_t, pk: *const sffi::PublicKey, compressed: c_uint) -> c_int {
    // only the compressed form is modelled
    if compressed != sffi::SECP256K1_SER_COMPRESSED || *out_len < 33 { kani::assume(false); }
    let raw = (*pk).underlying_bytes();
    let mut i = 0;
    while i < 33 { *output.add(i) = raw[i]; i += 1; }
    *out_len = 33;
    1
}

pub unsafe fn model_xonly_pubkey_parse(_cx: *const sffi::Context, pk: *mut sffi::XOnlyPublicKey, input32: *const c_uchar) -> c_int {
    let mut raw = [0u8; 64];
    let mut i = 0;
    while i < 32 { raw[i] = *input32.add(i); i += 1; }
    *pk = sffi::XOnlyPublicKey::from_array_unchecked(raw);
    1
}

pub unsafe fn model_xonly_pubkey_serialize(_cx: *const sffi::Context, output32: *mut c_uchar, pk: *const sffi::XOnlyPublicKey) -> c_int {
    let raw = (*pk).underlying_bytes();
    let mut i = 0;
    while i < 32 { *output32.add(i) = raw[i]; i += 1; }
    1
}

/// secp256k1 group order n, big endian
const ORDER: [u8; 32] = [
    0xff, 0xff, 0xff, 0xff, 0xff, 0xff, 0xff, 0xff, 0xff, 0xff, 0xff, 0xff, 0xff, 0xff, 0xff, 0xfe,
    0xba, 0xae, 0xdc, 0xe6, 0xaf, 0x48, 0xa0, 0x3b, 0xbf, 0xd2, 0x5e, 0x8c, 0xd0, 0x36, 0x41, 0x41,
];
pub unsafe fn model_ec_seckey_verify(_cx: *const sffi::Context, sk: *const c_uchar) -> c_int {
    // loop-free (harnesses run under small unwind bounds): 0 < sk < n, compared as four big-endian 64-bit words
    let mut b = [0u8; 32];
    core::ptr::copy_nonoverlapping(sk, b.as_mut_ptr(), 32);
    macro_rules! w { ($x:expr, $i:expr) => { u64::from_be_bytes([$x[$i], $x[$i+1], $x[$i+2], $x[$i+3], $x[$i+4], $x[$i+5], $x[$i+6], $x[$i+7]]) }; }
    let (a0, a1, a2, a3) = (w!(b, 0), w!(b, 8), w!(b, 16), w!(b, 24));
    let (n0, n1, n2, n3) = (w!(ORDER, 0), w!(ORDER, 8), w!(ORDER, 16), w!(ORDER, 24));
    let nonzero = (a0 | a1 | a2 | a3) != 0;
    let lt = a0 < n0 || (a0 == n0 && (a1 < n1 || (a1 == n1 && (a2 < n2 || (a2 == n2 && a3 < n3)))));
    if nonzero && lt { 1 } else { 0 }
}

/// A secp public key in the model's canonical opaque form (what `model_ec_pubkey_parse` would produce).
pub fn any_secp_pubkey() -> bitcoin::secp256k1::PublicKey {
    let x: [u8; 32] = kani::any();
    let odd: bool = kani::any();
    let mut raw = [0u8; 64];
    raw[0] = if odd { 3 } else { 2 };
    raw[1..33].copy_from_slice(&x); // memcpy, no loop (harnesses run under small unwind bounds)
    bitcoin::secp256k1::PublicKey::from(unsafe { sffi::PublicKey::from_array_unchecked(raw) })
}

/// One fixed public key (no symbolic content): for harnesses that need *a* key but quantify over something else.
pub fn fixed_secp_pubkey(tag: u8) -> bitcoin::secp256k1::PublicKey {
    let mut raw = [0u8; 64];
    raw[0] = 2;
    raw[1] = tag;
    bitcoin::secp256k1::PublicKey::from(unsafe { sffi::PublicKey::from_array_unchecked(raw) })
}

pub fn any_xonly() -> bitcoin::secp256k1::XOnlyPublicKey {
    let x: [u8; 32] = kani::any();
    let mut raw = [0u8; 64];
    raw[..32].copy_from_slice(&x);
    bitcoin::secp256k1::XOnlyPublicKey::from(unsafe { sffi::XOnlyPublicKey::from_array_unchecked(raw) })
}

// ------------------------------------------------------------------ secp256k1-zkp
// ASSUMED CONTRACT: `pedersen_commitment_parse` accepts a 33-byte string only if its first byte is 8 or 9 and is then
// an injection whose inverse is `pedersen_commitment_serialize`; `generator_parse` likewise with prefix 10 or 11;
// (the models accept every such string). `rangeproof_info` accepts exactly the byte strings the library considers
// structurally valid range proofs; the model accepts every non-empty string (over-approximation of the accept set).
pub use secp256k1_zkp::ffi as zffi;

pub unsafe fn model_pedersen_commitment_parse(_cx: *const zffi::Context, commit: *mut zffi::PedersenCommitment, input: *const c_uchar) -> c_int {
    let p = *input;
    if p != 8 && p != 9 { return 0; }
    // repr(C) newtype over [u8; 64]
    let out = commit as *mut c_uchar;
    let mut i = 0;
    while i < 64 { *out.add(i) = if i < 33 { *input.add(i) } else { 0 }; i += 1; }
    1
}
pub unsafe fn model_pedersen_commitment_serialize(_cx: *const zffi::Context, output: *mut c_uchar, commit: *const zffi::PedersenCommitment) -> c_int {
    let inp = commit as *const c_uchar;
    let mut i = 0;
    while i < 33 { *output.add(i) = *inp.add(i); i += 1; }
    1
}
pub unsafe fn model_generator_parse(_cx: *const zffi::Context, out: *mut zffi::PublicKey, input: *const c_uchar) -> c_int {
    let p = *input;
    if p != 10 && p != 11 { return 0; }
    let mut raw = [0u8; 64];
    let mut i = 0;
    while i < 33 { raw[i] = *input.add(i); i += 1; }
    *out = zffi::PublicKey::from_array_unchecked(raw);
    1
}
pub unsafe fn model_generator_serialize(_cx: *const zffi::Context, output: *mut c_uchar, gen: *const zffi::PublicKey) -> c_int {
    let raw = (*gen).underlying_bytes();
    let mut i = 0;
    while i < 33 { *output.add(i) = raw[i]; i += 1; }
    1
}
pub unsafe fn model_rangeproof_info(_cx: *const zffi::Context, _exp: *mut c_int, _mantissa: *mut c_int, _min: *mut u64, _max: *mut u64, _proof: *const c_uchar, plen: size_t) -> c_int {
    if plen == 0 { 0 } else { 1 }
}

/// A Pedersen commitment in the model's canonical form, built through the (stubbed) real parser.
/// Requires `#[kani::stub(zffi::secp256k1_pedersen_commitment_parse, model_pedersen_commitment_parse)]` on the harness.
pub fn any_pedersen() -> secp256k1_zkp::PedersenCommitment {
    let mut b: [u8; 33] = kani::any();
    b[0] = if kani::any() { 8 } else { 9 };
    match secp256k1_zkp::PedersenCommitment::from_slice(&b) {
        Ok(c) => c,
        Err(e) => { core::mem::forget(e); kani::assume(false); unreachable!() }
    }
}
/// Requires the `generator_parse` stub.
pub fn any_generator() -> secp256k1_zkp::Generator {
    let mut b: [u8; 33] = kani::any();
    b[0] = if kani::any() { 10 } else { 11 };
    match secp256k1_zkp::Generator::from_slice(&b) {
        Ok(c) => c,
        Err(e) => { core::mem::forget(e); kani::assume(false); unreachable!() }
    }
}
/// Requires the `rangeproof_info` stub. 3 symbolic bytes.
pub fn any_rangeproof3() -> Box<secp256k1_zkp::RangeProof> {
    let b: [u8; 3] = kani::any();
    match secp256k1_zkp::RangeProof::from_slice(&b) {
        Ok(c) => Box::new(c),
        Err(e) => { core::mem::forget(e); kani::assume(false); unreachable!() }
    }
}
