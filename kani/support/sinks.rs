// Support: allocation-free io sinks/sources for harnesses (assumption: std::io::Write/Read trait contracts).
#![allow(dead_code)]
use std::io;

/// Counts bytes, discards content.
pub struct CountSink(pub usize);
impl io::Write for CountSink {
    fn write(&mut self, buf: &[u8]) -> io::Result<usize> {
        self.0 += buf.len();
        Ok(buf.len())
    }
    fn write_all(&mut self, buf: &[u8]) -> io::Result<()> {
        self.0 += buf.len();
        Ok(())
    }
    fn flush(&mut self) -> io::Result<()> {
        Ok(())
    }
}

/// Records bytes into a fixed array; writing past the end is an error (never a panic).
pub struct ArraySink<const N: usize> {
    pub buf: [u8; N],
    pub len: usize,
}
impl<const N: usize> ArraySink<N> {
    pub fn new() -> Self {
        ArraySink { buf: [0u8; N], len: 0 }
    }
}
impl<const N: usize> io::Write for ArraySink<N> {
    fn write(&mut self, b: &[u8]) -> io::Result<usize> {
        if b.len() > N - self.len {
            return Err(io::Error::from(io::ErrorKind::WriteZero));
        }
        self.buf[self.len..self.len + b.len()].copy_from_slice(b);
        self.len += b.len();
        Ok(b.len())
    }
    fn write_all(&mut self, b: &[u8]) -> io::Result<()> {
        self.write(b).map(|_| ())
    }
    fn flush(&mut self) -> io::Result<()> {
        Ok(())
    }
}

/// Forget an error value without running its (recursive) drop glue, which is expensive under CBMC.
pub fn forget<T>(t: T) {
    core::mem::forget(t)
}
