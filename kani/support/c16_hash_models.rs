// Support (C15/C10 taproot builder harnesses): SHA-256 cannot run under CBMC (cpuid asm, cost).  For obligations whose
// content is control flow / error paths / panic freedom and NOT digest values, the engine is replaced by the weakest
// model: feeding bytes does nothing and a finished engine yields an ARBITRARY 32-byte digest.
// ASSUMED CONTRACT: "the engine accepts any input without failing and a digest is some 32-byte value" - an
// over-approximation of every hash function, so anything proved under it holds for real SHA-256.  Nothing may be
// concluded about digest *values* from harnesses that use these stubs (the merkle-path invariant of C15 is proved in
// the Verus track instead).
#![allow(dead_code)]
use crate::hashes::sha256;

pub fn input_noop(_e: &mut sha256::HashEngine, _data: &[u8]) {}

pub fn from_engine_any(e: sha256::HashEngine) -> sha256::Hash {
    core::mem::forget(e);
    let d: [u8; 32] = kani::any();
    sha256::Hash::from_byte_array(d)
}

/// `Midstate::to_engine` (a tagged engine's start state) contains an 8-iteration loop that would force a larger global
/// unwind bound; under this model every engine starts fresh - the start state is irrelevant when digests are arbitrary.
pub fn to_engine_fresh(_m: sha256::Midstate) -> sha256::HashEngine {
    sha256::HashEngine::new()
}
