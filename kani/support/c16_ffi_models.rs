// Support (C10/C15 taproot harnesses): Rust models of the three libsecp256k1 `extern "C"` entry points that
// `ControlBlock::{from_slice, serialize, eq}` reach through `XOnlyPublicKey`.
//
// ASSUMED CONTRACT (repeated in the evidence of every harness that applies these stubs):
//   * `secp256k1_xonly_pubkey_parse` reads exactly 32 bytes, accepts or rejects as a *function of those bytes*, and on
//     success yields an opaque value from which `secp256k1_xonly_pubkey_serialize` reproduces the same 32 bytes;
//   * `secp256k1_xonly_pubkey_cmp` is a total order that is `Equal` exactly on equal serializations.
// Opaque form in the model = the 32 serialized bytes, zero padded to 64.  The accept-set is "byte IDX under MASK
// equals VAL" for symbolic constants chosen once per harness by `init()`: the proof therefore holds for a whole
// family of accept-sets, including accept-all (MASK = 0, VAL = 0) and reject-all (MASK = 0, VAL != 0).
//
// Stubs are NOT applied under `cargo kani playback`: `seen()` tells a harness whether the model ran, so that
// assertions which depend on the model's accept-set can be skipped in a native replay.
#![allow(dead_code, unused_imports)]
pub use bitcoin::secp256k1::ffi as sffi;
use sffi::types::{c_int, c_uchar};

static mut ACC_IDX: usize = 0;
static mut ACC_MASK: u8 = 0;
static mut ACC_VAL: u8 = 0;
static mut SEEN: bool = false;

pub fn init() {
    let idx: usize = kani::any();
    kani::assume(idx < 32);
    unsafe {
        ACC_IDX = idx;
        ACC_MASK = kani::any();
        ACC_VAL = kani::any();
    }
}
pub fn init_accept_all() {
    unsafe {
        ACC_IDX = 0;
        ACC_MASK = 0;
        ACC_VAL = 0;
    }
}
/// did a model run in this execution? (false under native playback, where the real library runs)
pub fn seen() -> bool {
    unsafe { SEEN }
}
/// the model's accept-set, for "accepted iff" oracles
pub fn xonly_acc(b: &[u8; 32]) -> bool {
    unsafe { (b[ACC_IDX] & ACC_MASK) == ACC_VAL }
}

pub unsafe fn model_xonly_pubkey_parse(_cx: *const sffi::Context, pk: *mut sffi::XOnlyPublicKey, input32: *const c_uchar) -> c_int {
    SEEN = true;
    // loop-free on purpose (memcpy): harnesses can then use a small global unwind bound
    let mut x = [0u8; 32];
    core::ptr::copy_nonoverlapping(input32, x.as_mut_ptr(), 32);
    if !xonly_acc(&x) {
        return 0;
    }
    let mut raw = [0u8; 64];
    core::ptr::copy_nonoverlapping(x.as_ptr(), raw.as_mut_ptr(), 32);
    *pk = sffi::XOnlyPublicKey::from_array_unchecked(raw);
    1
}

pub unsafe fn model_xonly_pubkey_serialize(_cx: *const sffi::Context, output32: *mut c_uchar, pk: *const sffi::XOnlyPublicKey) -> c_int {
    SEEN = true;
    let raw = (*pk).underlying_bytes();
    core::ptr::copy_nonoverlapping(raw.as_ptr(), output32, 32);
    1
}

fn be_word(b: &[u8; 64], k: usize) -> u64 {
    u64::from_be_bytes([b[8 * k], b[8 * k + 1], b[8 * k + 2], b[8 * k + 3], b[8 * k + 4], b[8 * k + 5], b[8 * k + 6], b[8 * k + 7]])
}

/// lexicographic order of the 32 serialized bytes, loop-free (four big-endian words)
pub unsafe fn model_xonly_pubkey_cmp(_cx: *const sffi::Context, a: *const sffi::XOnlyPublicKey, b: *const sffi::XOnlyPublicKey) -> c_int {
    SEEN = true;
    let x = (*a).underlying_bytes();
    let y = (*b).underlying_bytes();
    let (x0, x1, x2, x3) = (be_word(&x, 0), be_word(&x, 1), be_word(&x, 2), be_word(&x, 3));
    let (y0, y1, y2, y3) = (be_word(&y, 0), be_word(&y, 1), be_word(&y, 2), be_word(&y, 3));
    if x0 != y0 { return if x0 < y0 { -1 } else { 1 }; }
    if x1 != y1 { return if x1 < y1 { -1 } else { 1 }; }
    if x2 != y2 { return if x2 < y2 { -1 } else { 1 }; }
    if x3 != y3 { return if x3 < y3 { -1 } else { 1 }; }
    0
}

/// an x-only key in the model's opaque form with symbolic content (what a successful parse would produce)
pub fn any_xonly() -> bitcoin::secp256k1::XOnlyPublicKey {
    let x: [u8; 32] = kani::any();
    xonly_from(x)
}
pub fn xonly_from(x: [u8; 32]) -> bitcoin::secp256k1::XOnlyPublicKey {
    let mut raw = [0u8; 64];
    raw[..32].copy_from_slice(&x);
    bitcoin::secp256k1::XOnlyPublicKey::from(unsafe { sffi::XOnlyPublicKey::from_array_unchecked(raw) })
}
