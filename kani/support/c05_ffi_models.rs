// Support: recording models of the libsecp256k1-zkp entry points reached by amount verification (assumption A-secp).
//
// libsecp cannot be executed by CBMC. Each `extern "C"` function is replaced by a Rust model that
//   * for constructors (generator from tag, commitment from value+generator, the three parsers) builds an
//     *injective term encoding* of its arguments inside the 64-byte opaque object, so "the commitment of value v under the
//     generator of asset a" is a recognisable byte pattern and two different (v, a) never collide;
//   * for verifiers (range proof, surjection proof, commitment tally) appends its arguments to a log and returns a
//     verdict chosen symbolically per call (the harness may constrain it).
// Assumed contract: the primitives are functions of exactly these arguments. Nothing about their cryptographic
// soundness is claimed here; C05's "tampering is detected" then rests on that soundness.
#![allow(dead_code)]
#![allow(static_mut_refs)]
use secp256k1_zkp::ffi::{Context, PedersenCommitment as FfiCommit, PublicKey as FfiPk, SurjectionProof as FfiSp};
use std::os::raw::{c_int, c_uchar};

pub const MAXLOG: usize = 3;
pub const MAXDOM: usize = 4;
pub const MAXTALLY: usize = 4;

// ---- term encodings -------------------------------------------------------------------------------------------
/// generator of an explicit asset tag (Generator::new_unblinded)
pub fn gen_unblinded_raw(tag: &[u8; 32]) -> [u8; 64] {
    let mut g = [0u8; 64];
    g[0] = 0x47;
    g[1] = 1;
    g[2..34].copy_from_slice(tag);
    g
}
/// generator parsed from its 33-byte wire form (confidential asset)
pub fn gen_parsed_raw(ser: &[u8; 33]) -> [u8; 64] {
    let mut g = [0u8; 64];
    g[0] = 0x47;
    g[1] = 2;
    g[2..35].copy_from_slice(ser);
    g
}
/// commitment parsed from its 33-byte wire form (confidential value)
pub fn commit_parsed_raw(ser: &[u8; 33]) -> [u8; 64] {
    let mut c = [0u8; 64];
    c[0] = 0x50;
    c[1..34].copy_from_slice(ser);
    c
}
/// unblinded commitment to `value` under generator `gen` (PedersenCommitment::new_unblinded)
pub fn commit_unblinded_raw(value: u64, gen: &[u8; 64]) -> [u8; 64] {
    let mut c = [0u8; 64];
    c[0] = 0x43;
    c[1..9].copy_from_slice(&value.to_le_bytes());
    c[9..49].copy_from_slice(&gen[0..40]); // generator encodings occupy at most 35 bytes
    c
}

/// loop-free equality of 64-byte objects (so that harnesses with a small global unwind bound can use it)
pub fn eq64(a: &[u8; 64], b: &[u8; 64]) -> bool {
    let w = |x: &[u8; 64], i: usize| -> u128 {
        u128::from_le_bytes([x[i], x[i + 1], x[i + 2], x[i + 3], x[i + 4], x[i + 5], x[i + 6], x[i + 7], x[i + 8], x[i + 9], x[i + 10], x[i + 11], x[i + 12], x[i + 13], x[i + 14], x[i + 15]])
    };
    w(a, 0) == w(b, 0) && w(a, 16) == w(b, 16) && w(a, 32) == w(b, 32) && w(a, 48) == w(b, 48)
}
fn is_zero32(p: *const c_uchar) -> bool {
    let w: [u64; 4] = unsafe { core::ptr::read_unaligned(p as *const [u64; 4]) };
    (w[0] | w[1] | w[2] | w[3]) == 0
}

// ---- logs -----------------------------------------------------------------------------------------------------
#[derive(Copy, Clone)]
pub struct RpCall {
    pub commit: [u8; 64],
    pub proof0: u8,
    pub plen: usize,
    pub extra_len: usize,
    pub extra: [u8; 4],
    pub gen: [u8; 64],
    pub verdict: bool,
}
#[derive(Copy, Clone)]
pub struct SpCall {
    pub proof_id: usize,
    pub ndom: usize,
    pub dom: [[u8; 64]; MAXDOM],
    pub codomain: [u8; 64],
    pub verdict: bool,
}
#[derive(Copy, Clone)]
pub struct TallyCall {
    pub npos: usize,
    pub nneg: usize,
    pub pos: [[u8; 64]; MAXTALLY],
    pub neg: [[u8; 64]; MAXTALLY],
    pub verdict: bool,
}
const RP0: RpCall = RpCall { commit: [0; 64], proof0: 0, plen: 0, extra_len: 0, extra: [0; 4], gen: [0; 64], verdict: false };
const SP0: SpCall = SpCall { proof_id: 0, ndom: 0, dom: [[0; 64]; MAXDOM], codomain: [0; 64], verdict: false };
const TA0: TallyCall = TallyCall { npos: 0, nneg: 0, pos: [[0; 64]; MAXTALLY], neg: [[0; 64]; MAXTALLY], verdict: false };

pub static mut RP_LOG: [RpCall; MAXLOG] = [RP0; MAXLOG];
pub static mut RP_N: usize = 0;
pub static mut SP_LOG: [SpCall; MAXLOG] = [SP0; MAXLOG];
pub static mut SP_N: usize = 0;
pub static mut TALLY_LOG: [TallyCall; 2] = [TA0; 2];
pub static mut TALLY_N: usize = 0;
pub static mut GEN_CALLS: usize = 0;
pub static mut COMMIT_CALLS: usize = 0;
/// when set, every verifier answers "valid" (used by the admissibility clause)
pub static mut ALL_VALID: bool = false;

// ---- constructors ---------------------------------------------------------------------------------------------
// (raw objects are read/written as whole arrays: one dereference each, no per-byte pointer arithmetic)
pub unsafe extern "C" fn generator_generate_blinded(_ctx: *const Context, gen: *mut FfiPk, key32: *const c_uchar, blind32: *const c_uchar) -> c_int {
    let tag: [u8; 32] = *(key32 as *const [u8; 32]);
    let mut raw = gen_unblinded_raw(&tag);
    if !is_zero32(blind32) { raw[1] = 3; } // blinded generators are a different term (never produced by the verifier)
    *(gen as *mut [u8; 64]) = raw;
    GEN_CALLS += 1;
    1
}
pub unsafe extern "C" fn generator_parse(_ctx: *const Context, out: *mut FfiPk, bytes: *const c_uchar) -> c_int {
    let ser: [u8; 33] = *(bytes as *const [u8; 33]);
    if ser[0] != 0x0a && ser[0] != 0x0b { return 0; }
    *(out as *mut [u8; 64]) = gen_parsed_raw(&ser);
    1
}
pub unsafe extern "C" fn pedersen_commitment_parse(_ctx: *const Context, out: *mut FfiCommit, bytes: *const c_uchar) -> c_int {
    let ser: [u8; 33] = *(bytes as *const [u8; 33]);
    if ser[0] != 0x08 && ser[0] != 0x09 { return 0; }
    *(out as *mut [u8; 64]) = commit_parsed_raw(&ser);
    1
}
pub unsafe extern "C" fn pedersen_commit(_ctx: *const Context, commit: *mut FfiCommit, blind: *const c_uchar, value: u64, value_gen: *const FfiPk) -> c_int {
    let g: [u8; 64] = *(value_gen as *const [u8; 64]);
    let mut raw = commit_unblinded_raw(value, &g);
    if !is_zero32(blind) { raw[0] = 0x42; }
    *(commit as *mut [u8; 64]) = raw;
    COMMIT_CALLS += 1;
    1
}
pub unsafe extern "C" fn rangeproof_info(_ctx: *const Context, exp: *mut c_int, mantissa: *mut c_int, min_value: *mut u64, max_value: *mut u64, _proof: *const c_uchar, plen: usize) -> c_int {
    *exp = 0; *mantissa = 0; *min_value = 0; *max_value = 0;
    if plen == 0 { 0 } else { 1 }
}
pub unsafe extern "C" fn surjectionproof_parse(_ctx: *const Context, proof: *mut FfiSp, input_bytes: *const c_uchar, input_len: usize) -> c_int {
    if input_len == 0 { return 0; }
    // the proof's identity is kept in n_inputs (the body of the proof is never interpreted)
    (*proof).n_inputs = *input_bytes as usize;
    1
}

// ---- verifiers ------------------------------------------------------------------------------------------------
pub unsafe extern "C" fn rangeproof_verify(_ctx: *const Context, min_value: &mut u64, max_value: &mut u64, commit: *const FfiCommit, proof: *const c_uchar, plen: usize, extra_commit: *const c_uchar, extra_commit_len: usize, gen: *const FfiPk) -> c_int {
    let verdict: bool = if ALL_VALID { true } else { kani::any() };
    if RP_N < MAXLOG {
        let mut e = RP0;
        e.commit = *(commit as *const [u8; 64]);
        e.gen = *(gen as *const [u8; 64]);
        e.plen = plen;
        e.proof0 = if plen > 0 { *proof } else { 0 };
        e.extra_len = extra_commit_len;
        if extra_commit_len > 0 { e.extra[0] = *extra_commit; }
        if extra_commit_len > 1 { e.extra[1] = *extra_commit.add(1); }
        if extra_commit_len > 2 { e.extra[2] = *extra_commit.add(2); }
        if extra_commit_len > 3 { e.extra[3] = *extra_commit.add(3); }
        e.verdict = verdict;
        RP_LOG[RP_N] = e;
    }
    RP_N += 1;
    *min_value = 0;
    *max_value = 0;
    if verdict { 1 } else { 0 }
}
pub unsafe extern "C" fn surjectionproof_verify(_ctx: *const Context, proof: *const FfiSp, tags: *const FfiPk, ntags: usize, out_tag: *const FfiPk) -> c_int {
    let verdict: bool = if ALL_VALID { true } else { kani::any() };
    if SP_N < MAXLOG {
        let mut e = SP0;
        e.proof_id = (*proof).n_inputs;
        e.ndom = ntags;
        e.codomain = *(out_tag as *const [u8; 64]);
        if ntags > 0 { e.dom[0] = *(tags as *const [u8; 64]); }
        if ntags > 1 { e.dom[1] = *(tags.add(1) as *const [u8; 64]); }
        if ntags > 2 { e.dom[2] = *(tags.add(2) as *const [u8; 64]); }
        if ntags > 3 { e.dom[3] = *(tags.add(3) as *const [u8; 64]); }
        e.verdict = verdict;
        SP_LOG[SP_N] = e;
    }
    SP_N += 1;
    if verdict { 1 } else { 0 }
}
pub unsafe extern "C" fn pedersen_verify_tally(_ctx: *const Context, commits: *const &FfiCommit, pcnt: usize, ncommits: *const &FfiCommit, ncnt: usize) -> c_int {
    let verdict: bool = if ALL_VALID { true } else { kani::any() };
    if TALLY_N < 2 {
        let mut e = TA0;
        e.npos = pcnt;
        e.nneg = ncnt;
        if pcnt > 0 { e.pos[0] = *((*commits) as *const FfiCommit as *const [u8; 64]); }
        if pcnt > 1 { e.pos[1] = *((*commits.add(1)) as *const FfiCommit as *const [u8; 64]); }
        if pcnt > 2 { e.pos[2] = *((*commits.add(2)) as *const FfiCommit as *const [u8; 64]); }
        if pcnt > 3 { e.pos[3] = *((*commits.add(3)) as *const FfiCommit as *const [u8; 64]); }
        if ncnt > 0 { e.neg[0] = *((*ncommits) as *const FfiCommit as *const [u8; 64]); }
        if ncnt > 1 { e.neg[1] = *((*ncommits.add(1)) as *const FfiCommit as *const [u8; 64]); }
        if ncnt > 2 { e.neg[2] = *((*ncommits.add(2)) as *const FfiCommit as *const [u8; 64]); }
        if ncnt > 3 { e.neg[3] = *((*ncommits.add(3)) as *const FfiCommit as *const [u8; 64]); }
        e.verdict = verdict;
        TALLY_LOG[TALLY_N] = e;
    }
    TALLY_N += 1;
    if verdict { 1 } else { 0 }
}
