// Support: Rust models of the libsecp256k1 `extern "C"` entry points that address parsing reaches
// (`secp256k1_ec_pubkey_parse`, `secp256k1_ec_pubkey_serialize`).  ASSUMPTION (repeated in the evidence of every
// harness that uses it):  "parse is a partial injection on 33-byte compressed encodings whose inverse is
// serialize; it accepts only strings with tag byte 2 or 3".  WHICH tagged strings are accepted is left open:
// the accept set is `acc(bytes)`, a function of the bytes and of two symbolic constants drawn once per
// harness (`init()`), so a proof holds for a whole family of accept sets (including "all" and "none").
// Internal representation of a parsed key = its 33 serialized bytes followed by zeros.
#![allow(dead_code)]
use bitcoin::secp256k1::ffi as sffi;
use sffi::types::{c_int, c_uchar, c_uint, size_t};

pub static mut K1: u8 = 0;
pub static mut K2: u8 = 0;
pub static mut PARSE_CALLS: usize = 0;

/// Draw the accept-set parameters (call once at the start of a harness).
pub fn init() {
    unsafe {
        K1 = kani::any();
        K2 = kani::any();
        PARSE_CALLS = 0;
    }
}

/// The accept predicate of the model on 33-byte strings.
pub fn acc(b: &[u8; 33]) -> bool {
    let (k1, k2) = unsafe { (K1, K2) };
    (b[0] == 2 || b[0] == 3) && ((b[1] ^ b[17] ^ b[32]) & k1) == (k2 & k1)
}

pub unsafe fn pubkey_parse_model(
    _cx: *const sffi::Context,
    pk: *mut sffi::PublicKey,
    input: *const c_uchar,
    in_len: size_t,
) -> c_int {
    PARSE_CALLS += 1;
    // applicability of the model: the callers under verification only ever pass 33 bytes
    assert!(in_len == 33, "ffi model: only 33-byte compressed keys are modelled");
    // (loop-free copies: harnesses that use this model run under small global unwind bounds)
    let mut b = [0u8; 33];
    core::ptr::copy_nonoverlapping(input, b.as_mut_ptr(), 33);
    if !acc(&b) {
        return 0;
    }
    let mut repr = [0u8; 64];
    repr[..33].copy_from_slice(&b);
    *pk = sffi::PublicKey::from_array_unchecked(repr);
    1
}

pub unsafe fn pubkey_serialize_model(
    _cx: *const sffi::Context,
    output: *mut c_uchar,
    out_len: *mut size_t,
    pk: *const sffi::PublicKey,
    compressed: c_uint,
) -> c_int {
    assert!(compressed == sffi::SECP256K1_SER_COMPRESSED && *out_len >= 33, "ffi model: compressed form only");
    let repr = (*pk).underlying_bytes();
    core::ptr::copy_nonoverlapping(repr.as_ptr(), output, 33);
    *out_len = 33;
    1
}
