// Support: recording model of the SHA-256 engine of `bitcoin_hashes` 1.x for CBMC (assumption A-hash).
//
// Measured in this repository: stubbing only `HashEngine::process_blocks` is NOT enough. The real `input` / `from_engine`
// code slices a 64-byte buffer at `bytes_hashed % 64`; as soon as one branch of the caller is not resolved by constant
// propagation (an enum read back through a `Vec`), that offset becomes symbolic and `copy_from_slice` / `fill` with symbolic
// bounds make symbolic execution grow without end (>5 GB, no answer in 10 min for a 1-input transaction).
//
// The model therefore replaces the two operations that define the engine's observable behaviour:
//   * `<sha256::HashEngine as HashEngine>::input(e, data)`  -> `input_fold`:  state' = mix(state, byte) for every byte in
//     order, length' = length + |data|. `mix(., b)` is a bijection of the 64-bit state for every b and injective in b.
//   * `sha256::Hash::from_engine(e)`                        -> `from_engine_fold`: digest = state || length || marker.
// sha256d and sha256t engines are thin wrappers of this engine in the crate, so they are covered (sha256d = model(model(x)),
// a tagged engine starts from a tag-dependent state).
// Assumed contract: "a digest is a function of the concatenation of the `input` calls" (the documented streaming
// property). The model digest is such a function; it is *uninterpreted-but-deterministic*: equal streams give equal
// digests; streams that differ in length or in one byte position always give different digests, and streams that differ
// in several positions give different digests for generic values -- so a universally quantified harness that compares
// a digest produced by the code with the model digest of the stream the specification prescribes fails (for some
// valuation) whenever the code hashes a different stream. Nothing is claimed about real SHA-256 values.
//
// The engine's fields are private; the model reaches them through a layout mirror (same field types, same order, same
// default representation). `layout_ok()` checks the mirror against the public API and is asserted by a harness.
#![allow(dead_code)]
use crate::hashes::sha256;
use crate::hashes::HashEngine as _;

pub struct EngineMirror {
    buffer: [u8; 64],
    h: [u32; 8],
    bytes_hashed: u64,
}

fn mirror_mut(e: &mut sha256::HashEngine) -> &mut EngineMirror {
    unsafe { &mut *(e as *mut sha256::HashEngine as *mut EngineMirror) }
}
fn mirror(e: &sha256::HashEngine) -> &EngineMirror {
    unsafe { &*(e as *const sha256::HashEngine as *const EngineMirror) }
}

/// Checked assumption: the mirror has the engine's layout.
pub fn layout_ok() -> bool {
    if core::mem::size_of::<EngineMirror>() != core::mem::size_of::<sha256::HashEngine>() { return false; }
    if core::mem::align_of::<EngineMirror>() != core::mem::align_of::<sha256::HashEngine>() { return false; }
    let mut e = sha256::HashEngine::new();
    {
        let m = mirror(&e);
        // a fresh engine: IV in `h`, nothing buffered, nothing counted
        if m.h[0] != 0x6a09e667 || m.h[7] != 0x5be0cd19 || m.bytes_hashed != 0 || m.buffer[0] != 0 || m.buffer[63] != 0 { return false; }
    }
    mirror_mut(&mut e).bytes_hashed = 0x0102_0304_0506_0708;
    e.n_bytes_hashed() == 0x0102_0304_0506_0708
}

#[inline]
fn mix(s: u64, b: u8) -> u64 {
    // bijective in s for fixed b, injective in b for fixed s
    s.rotate_left(9).wrapping_add(b as u64).wrapping_add(0x9E37_79B9_7F4A_7C15) ^ 0x5555_AAAA_3333_CCCC
}

/// Largest chunk a single `input` call may carry in a harness (checked, not assumed). The loop below has this concrete
/// bound because a chunk length read back from a merged state (e.g. the annex of an `Option<Annex>`) is not a constant
/// for CBMC, and a loop bounded by it would be unwound for ever.
pub const MAX_CHUNK: usize = 72;

pub fn input_fold(e: &mut sha256::HashEngine, data: &[u8]) {
    let m = mirror_mut(e);
    let mut s = ((m.h[0] as u64) << 32) | (m.h[1] as u64);
    assert!(data.len() <= MAX_CHUNK, "hash model: chunk larger than MAX_CHUNK");
    let mut i = 0;
    while i < MAX_CHUNK {
        if i >= data.len() { break; }
        s = mix(s, data[i]);
        i += 1;
    }
    m.h[0] = (s >> 32) as u32;
    m.h[1] = s as u32;
    m.bytes_hashed = m.bytes_hashed.wrapping_add(data.len() as u64);
}

/// `std::io::Write::write_all` (the *default* method, used by the hash engines; sinks that override it are unaffected).
/// The default body loops `while !buf.is_empty() { write(buf) ... }`, which CBMC cannot bound when the chunk length is
/// not a constant. Model: one `write` call that must consume the whole chunk -- exact for the hash engines, whose
/// `write` is `input(buf); Ok(buf.len())`.
pub trait WriteAllOnce: std::io::Write {
    fn write_all_once(&mut self, buf: &[u8]) -> std::io::Result<()> {
        match self.write(buf) {
            Ok(n) => {
                if n == buf.len() { Ok(()) } else { Err(std::io::Error::from(std::io::ErrorKind::WriteZero)) }
            }
            Err(e) => Err(e),
        }
    }
}
impl<W: std::io::Write + ?Sized> WriteAllOnce for W {}

pub fn digest_of_state(s: u64, n: u64) -> [u8; 32] {
    let mut out = [0u8; 32];
    let sb = s.to_be_bytes();
    let nb = n.to_be_bytes();
    let mut i = 0;
    while i < 8 {
        out[i] = sb[i];
        out[8 + i] = nb[i];
        i += 1;
    }
    out[31] = 0xD1;
    out
}

pub fn from_engine_fold(e: sha256::HashEngine) -> sha256::Hash {
    let m = mirror(&e);
    let s = ((m.h[0] as u64) << 32) | (m.h[1] as u64);
    sha256::Hash::from_byte_array(digest_of_state(s, m.bytes_hashed))
}

// ---- the same function, for oracles: model digest of an explicit byte stream ------------------------------------
pub const IV_STATE: u64 = 0x6a09e667_bb67ae85;

pub struct Stream {
    pub s: u64,
    pub n: u64,
}
impl Stream {
    pub fn new() -> Self { Stream { s: IV_STATE, n: 0 } }
    pub fn put(&mut self, data: &[u8]) {
        let mut i = 0;
        while i < data.len() {
            self.s = mix(self.s, data[i]);
            i += 1;
        }
        self.n += data.len() as u64;
    }
    pub fn digest(&self) -> [u8; 32] { digest_of_state(self.s, self.n) }
    /// model of sha256d: digest of the digest
    pub fn digest_d(&self) -> [u8; 32] {
        let mut t = Stream::new();
        t.put(&self.digest());
        t.digest()
    }
}
