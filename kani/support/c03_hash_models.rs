// Support: models that replace SHA-256's compression step under CBMC (assumption A-hash).
//
// The real `bitcoin_hashes::sha256::HashEngine::{input, from_engine}` code runs unchanged: buffering, block
// splitting, the 0x80 / zero / 64-bit-length padding and the big-endian state serialisation are all the real code.
// Only `HashEngine::process_blocks(state, blocks)` (which needs `cpuid` and ~64 rounds per block) is replaced:
//
//  * `process_blocks_noop`  - digests become the constant IV. For obligations that do not look at digests
//                             (Ok/Err control flow, panic freedom, message length).
//  * `process_blocks_fold`  - an *uninterpreted-but-deterministic* stand-in: a cheap, position-sensitive fold of
//                             every message word into the state. Assumed contract: "a digest is a function of the
//                             byte stream fed to `input`" (the engine's streaming property). Equal streams give
//                             equal model digests; a stream that differs in any byte, or in length, or in the order of
//                             two words, gives a different model digest for some valuation of the symbolic
//                             inputs, which is what a universally quantified harness needs in order to notice that the wrong
//                             bytes were hashed. No statement about real SHA-256 values is made.
#![allow(dead_code)]

pub fn process_blocks_noop(_state: &mut [u32; 8], _blocks: &[u8]) {}

pub fn process_blocks_fold(state: &mut [u32; 8], blocks: &[u8]) {
    let mut off = 0;
    while off + 64 <= blocks.len() {
        let mut j = 0;
        while j < 16 {
            let w = u32::from_be_bytes([blocks[off + 4 * j], blocks[off + 4 * j + 1], blocks[off + 4 * j + 2], blocks[off + 4 * j + 3]]);
            let i = j % 8;
            // lane i absorbs words i and i+8 with different rotations; the previous state is rotated so that
            // successive blocks do not cancel
            state[i] = state[i].rotate_left(5) ^ w.rotate_left((j as u32) + 1);
            j += 1;
        }
        // couple neighbouring lanes so that moving a word to another lane is visible
        let mut i = 0;
        while i < 8 {
            state[i] = state[i].wrapping_add(state[(i + 1) % 8].rotate_left(11));
            i += 1;
        }
        off += 64;
    }
}
