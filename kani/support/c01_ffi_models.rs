// Support: Rust models for the `extern "C"` entry points of libsecp256k1(-zkp) that the consensus codec reaches.
//
// ASSUMED CONTRACT (what C01 delegates to the library, repeated in the evidence of every harness that stubs these):
//   * `*_parse` is a partial injection on byte strings whose inverse is `*_serialize`:
//       parse(b) = Some(x)  =>  serialize(x) = b ;  serialize(x) = b  =>  parse(b) = Some(x)
//   * whether parse accepts is a *function of the bytes* (no hidden state);
//   * parse of a 33-byte point encoding rejects every first byte outside the pair that the C code tests for
//     ((b[0] & 0xFE) == 8 for Pedersen commitments, == 10 for generators, b[0] in {2,3} for compressed keys);
//   * `secp256k1_ec_pubkey_cmp` is a total order that is `Equal` exactly on equal serializations.
// Internal representation = the serialized bytes (zero padded).  The accept-set is parameterised by a symbolic
// constant chosen once per harness in `init()` ("byte IDX under MASK equals VAL"), so a proof holds for a whole
// family of accept-sets including "accept everything with a good prefix" (MASK = 0, VAL = 0) and "reject
// everything" (MASK = 0, VAL != 0).
#![allow(dead_code, non_upper_case_globals)]
use secp256k1_zkp::ffi as zffi;

static mut ACC_IDX: usize = 1;
static mut ACC_MASK: u8 = 0;
static mut ACC_VAL: u8 = 0;

/// Choose the accept-set of this harness run. Call first in every harness that stubs the FFI.
pub fn init() {
    let idx: usize = kani::any();
    kani::assume(idx >= 1 && idx < 33);
    unsafe {
        ACC_IDX = idx;
        ACC_MASK = kani::any();
        ACC_VAL = kani::any();
    }
}

/// Accept everything that has a well-formed prefix (cheaper, used where the accept-set is irrelevant).
pub fn init_accept_all() {
    unsafe {
        ACC_IDX = 1;
        ACC_MASK = 0;
        ACC_VAL = 0;
    }
}

fn acc33(b: &[u8; 33]) -> bool {
    unsafe { (b[ACC_IDX] & ACC_MASK) == ACC_VAL }
}
/// accept predicate for variable-length proofs: never the empty string; otherwise a function of the first byte
fn acc_var(b: &[u8]) -> bool {
    if b.is_empty() {
        return false;
    }
    unsafe { (b[0] & ACC_MASK) == ACC_VAL }
}

/// The model's accept-set for Pedersen commitments, exposed so that harness oracles can state "accepted iff".
pub fn pedersen_acc(b: &[u8; 33]) -> bool {
    (b[0] & 0xFE) == 8 && acc33(b)
}
pub fn generator_acc(b: &[u8; 33]) -> bool {
    (b[0] & 0xFE) == 10 && acc33(b)
}
pub fn pubkey_acc(b: &[u8; 33]) -> bool {
    (b[0] == 2 || b[0] == 3) && acc33(b)
}
pub fn rangeproof_acc(b: &[u8]) -> bool {
    acc_var(b)
}
pub fn surjectionproof_acc(b: &[u8]) -> bool {
    acc_var(b)
}

unsafe fn read33(p: *const u8) -> [u8; 33] {
    let mut a = [0u8; 33];
    core::ptr::copy_nonoverlapping(p, a.as_mut_ptr(), 33);
    a
}
unsafe fn store64(dst: *mut u8, b: &[u8; 33]) {
    let mut a = [0u8; 64];
    a[..33].copy_from_slice(b);
    core::ptr::copy_nonoverlapping(a.as_ptr(), dst, 64);
}

pub unsafe extern "C" fn pedersen_commitment_parse(
    _cx: *const zffi::Context,
    commit: *mut zffi::PedersenCommitment,
    input: *const u8,
) -> i32 {
    let b = read33(input);
    if !pedersen_acc(&b) {
        return 0;
    }
    store64(commit as *mut u8, &b);
    1
}
pub unsafe extern "C" fn pedersen_commitment_serialize(
    _cx: *const zffi::Context,
    output: *mut u8,
    commit: *const zffi::PedersenCommitment,
) -> i32 {
    core::ptr::copy_nonoverlapping(commit as *const u8, output, 33);
    1
}

pub unsafe extern "C" fn generator_parse(
    _cx: *const zffi::Context,
    output: *mut zffi::PublicKey,
    bytes: *const u8,
) -> i32 {
    let b = read33(bytes);
    if !generator_acc(&b) {
        return 0;
    }
    store64(output as *mut u8, &b);
    1
}
pub unsafe extern "C" fn generator_serialize(
    _cx: *const zffi::Context,
    output: *mut u8,
    gen: *const zffi::PublicKey,
) -> i32 {
    core::ptr::copy_nonoverlapping(gen as *const u8, output, 33);
    1
}

pub unsafe extern "C" fn ec_pubkey_parse(
    _cx: *const zffi::Context,
    pk: *mut zffi::PublicKey,
    input: *const u8,
    in_len: usize,
) -> i32 {
    // only compressed encodings are modelled (the codec only ever passes 33 bytes)
    if in_len != 33 {
        return 0;
    }
    let b = read33(input);
    if !pubkey_acc(&b) {
        return 0;
    }
    store64(pk as *mut u8, &b);
    1
}
pub unsafe extern "C" fn ec_pubkey_serialize(
    _cx: *const zffi::Context,
    output: *mut u8,
    out_len: *mut usize,
    pk: *const zffi::PublicKey,
    _compressed: u32,
) -> i32 {
    if *out_len < 33 {
        return 0;
    }
    core::ptr::copy_nonoverlapping(pk as *const u8, output, 33);
    *out_len = 33;
    1
}
pub unsafe extern "C" fn ec_pubkey_cmp(
    _cx: *const zffi::Context,
    a: *const zffi::PublicKey,
    b: *const zffi::PublicKey,
) -> i32 {
    let x = read33(a as *const u8);
    let y = read33(b as *const u8);
    let mut i = 0;
    while i < 33 {
        if x[i] < y[i] {
            return -1;
        }
        if x[i] > y[i] {
            return 1;
        }
        i += 1;
    }
    0
}

pub unsafe extern "C" fn rangeproof_info(
    _ctx: *const zffi::Context,
    exp: *mut i32,
    mantissa: *mut i32,
    min_value: *mut u64,
    max_value: *mut u64,
    proof: *const u8,
    plen: usize,
) -> i32 {
    let s = core::slice::from_raw_parts(proof, plen);
    if !rangeproof_acc(s) {
        return 0;
    }
    *exp = 0;
    *mantissa = 0;
    *min_value = 0;
    *max_value = 0;
    1
}

// Surjection proofs: internal representation = (n_inputs := serialized length, data[..len] := serialized bytes).
// Content is modelled for proofs of up to SURJ_MODEL_MAX bytes.  In "length-only" mode (C12 harnesses that encode into
// a counting sink, where content is irrelevant) longer proofs are accepted too and only their length is preserved.
pub const SURJ_MODEL_MAX: usize = 8;
static mut SURJ_LEN_ONLY: bool = false;
pub fn surj_len_only_mode() {
    unsafe { SURJ_LEN_ONLY = true; }
}
pub unsafe extern "C" fn surjectionproof_parse(
    _ctx: *const zffi::Context,
    proof: *mut zffi::SurjectionProof,
    input_bytes: *const u8,
    input_len: usize,
) -> i32 {
    if input_len > SURJ_MODEL_MAX && !(SURJ_LEN_ONLY && input_len <= 8258) {
        return 0;
    }
    let s = core::slice::from_raw_parts(input_bytes, input_len);
    if !surjectionproof_acc(s) {
        return 0;
    }
    (*proof).n_inputs = input_len;
    let keep = if input_len < SURJ_MODEL_MAX { input_len } else { SURJ_MODEL_MAX };
    core::ptr::copy_nonoverlapping(input_bytes, (*proof).data.as_mut_ptr(), keep);
    1
}
pub unsafe extern "C" fn surjectionproof_serialized_size(
    _ctx: *const zffi::Context,
    proof: *const zffi::SurjectionProof,
) -> usize {
    (*proof).n_inputs
}
pub unsafe extern "C" fn surjectionproof_serialize(
    _ctx: *const zffi::Context,
    output: *mut u8,
    outputlen: *mut usize,
    proof: *const zffi::SurjectionProof,
) -> i32 {
    let n = (*proof).n_inputs;
    if *outputlen < n || (n > SURJ_MODEL_MAX && !SURJ_LEN_ONLY) {
        return 0;
    }
    let keep = if n < SURJ_MODEL_MAX { n } else { SURJ_MODEL_MAX };
    core::ptr::copy_nonoverlapping((*proof).data.as_ptr(), output, keep);
    *outputlen = n;
    1
}

/// secp256k1 group order, big-endian
pub const CURVE_ORDER: [u8; 32] = [
    0xFF, 0xFF, 0xFF, 0xFF, 0xFF, 0xFF, 0xFF, 0xFF, 0xFF, 0xFF, 0xFF, 0xFF, 0xFF, 0xFF, 0xFF, 0xFE,
    0xBA, 0xAE, 0xDC, 0xE6, 0xAF, 0x48, 0xA0, 0x3B, 0xBF, 0xD2, 0x5E, 0x8C, 0xD0, 0x36, 0x41, 0x41,
];
/// exact model: 1 iff 0 < x < n (x big-endian)
pub fn seckey_valid(x: &[u8; 32]) -> bool {
    let mut nonzero = false;
    let mut i = 0;
    while i < 32 {
        if x[i] != 0 {
            nonzero = true;
        }
        i += 1;
    }
    let mut less = false;
    let mut decided = false;
    let mut j = 0;
    while j < 32 {
        if !decided && x[j] != CURVE_ORDER[j] {
            decided = true;
            less = x[j] < CURVE_ORDER[j];
        }
        j += 1;
    }
    nonzero && less
}
pub unsafe extern "C" fn ec_seckey_verify(_cx: *const zffi::Context, sk: *const u8) -> i32 {
    let mut a = [0u8; 32];
    core::ptr::copy_nonoverlapping(sk, a.as_mut_ptr(), 32);
    if seckey_valid(&a) {
        1
    } else {
        0
    }
}

/// same predicate as `seckey_valid`, written without loops (for harnesses that run under a small unwind bound)
pub fn seckey_valid_noloop(x: &[u8; 32]) -> bool {
    let hi = u128::from_be_bytes([x[0], x[1], x[2], x[3], x[4], x[5], x[6], x[7], x[8], x[9], x[10], x[11], x[12], x[13], x[14], x[15]]);
    let lo = u128::from_be_bytes([x[16], x[17], x[18], x[19], x[20], x[21], x[22], x[23], x[24], x[25], x[26], x[27], x[28], x[29], x[30], x[31]]);
    const NHI: u128 = 0xFFFFFFFF_FFFFFFFF_FFFFFFFF_FFFFFFFE;
    const NLO: u128 = 0xBAAEDCE6_AF48A03B_BFD25E8C_D0364141;
    (hi != 0 || lo != 0) && (hi < NHI || (hi == NHI && lo < NLO))
}
pub unsafe extern "C" fn ec_seckey_verify_noloop(_cx: *const zffi::Context, sk: *const u8) -> i32 {
    let mut a = [0u8; 32];
    core::ptr::copy_nonoverlapping(sk, a.as_mut_ptr(), 32);
    if seckey_valid_noloop(&a) { 1 } else { 0 }
}
