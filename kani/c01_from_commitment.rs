//@ property: C10
//@ mount: src/confidential.rs
//@ functions: src/confidential.rs::Value::from_commitment, src/confidential.rs::Asset::from_commitment, src/confidential.rs::Nonce::from_commitment
// `Value::from_commitment(bytes: &[u8])` / `Asset::from_commitment` end in `secp256k1_pedersen_commitment_parse` /
// `secp256k1_generator_parse`, which read 33 bytes through a raw pointer.  A shorter slice must be refused before the
// pointer is handed over (defect D12, repaired by 1520cf3: these harnesses failed with an out-of-bounds dereference
// before the fix).  The FFI model reads the 33 bytes the C function reads, so Kani reports any such dereference.
use super::*;
use secp256k1_zkp::ffi as zffi;

#[path = "support/c01_ffi_models.rs"]
mod ffi_models;

//@ harness: value_from_commitment_total class=F tier=quick props=C10
//@ clause: Value::from_commitment is total on every slice of length 0..=33: no out-of-bounds access, Ok only for 33-byte slices
#[kani::proof]
#[kani::stub(zffi::secp256k1_pedersen_commitment_parse, ffi_models::pedersen_commitment_parse)]
#[kani::stub(zffi::secp256k1_pedersen_commitment_serialize, ffi_models::pedersen_commitment_serialize)]
fn value_from_commitment_total() {
    ffi_models::init();
    let b: [u8; 34] = kani::any();
    let n: usize = kani::any();
    kani::assume(n <= 33);
    match Value::from_commitment(&b[..n]) {
        Ok(_) => { assert!(n == 33); kani::cover!(true); }
        Err(e) => { core::mem::forget(e); kani::cover!(n == 1); }
    }
}

//@ harness: asset_from_commitment_total class=F tier=quick props=C10
//@ clause: Asset::from_commitment is total on every slice of length 0..=33
#[kani::proof]
#[kani::stub(zffi::secp256k1_generator_parse, ffi_models::generator_parse)]
#[kani::stub(zffi::secp256k1_generator_serialize, ffi_models::generator_serialize)]
fn asset_from_commitment_total() {
    ffi_models::init();
    let b: [u8; 34] = kani::any();
    let n: usize = kani::any();
    kani::assume(n <= 33);
    match Asset::from_commitment(&b[..n]) {
        Ok(_) => { assert!(n == 33); kani::cover!(true); }
        Err(e) => { core::mem::forget(e); kani::cover!(n == 1); }
    }
}

//@ harness: nonce_from_commitment_total class=F tier=quick props=C10
//@ clause: Nonce::from_commitment is total on every slice of length 0..=33 (PublicKey::from_slice passes the length; expected to verify)
#[kani::proof]
#[kani::stub(zffi::secp256k1_ec_pubkey_parse, ffi_models::ec_pubkey_parse)]
#[kani::stub(zffi::secp256k1_ec_pubkey_serialize, ffi_models::ec_pubkey_serialize)]
fn nonce_from_commitment_total() {
    ffi_models::init();
    let b: [u8; 34] = kani::any();
    let n: usize = kani::any();
    kani::assume(n <= 33);
    match Nonce::from_commitment(&b[..n]) {
        Ok(_) => { assert!(n == 33); kani::cover!(true); }
        Err(e) => { core::mem::forget(e); kani::cover!(n == 1); }
    }
}

//@ harness: value_from_commitment_oob class=F tier=quick props=C10
//@ clause: Value::from_commitment on an 8-byte slice (its own allocation, so any read past it is a distinct object) performs no out-of-bounds read and returns Err
#[kani::proof]
#[kani::stub(zffi::secp256k1_pedersen_commitment_parse, ffi_models::pedersen_commitment_parse)]
fn value_from_commitment_oob() {
    ffi_models::init();
    let b: [u8; 8] = kani::any();
    match Value::from_commitment(&b) {
        Ok(_) => { assert!(false, "an 8-byte slice is not a commitment"); }
        Err(e) => { core::mem::forget(e); kani::cover!(true); }
    }
}
