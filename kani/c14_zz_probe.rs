//@ property: C14
//@ mount: src/pset/map/input.rs
use super::*;
fn fgt<T>(t: T) { core::mem::forget(t) }
fn mk(b: [u8; 2]) -> Script { Script::from(vec![b[0], b[1]]) }

// V1: no clone, field compare by bytes only, both orders
#[kani::proof]
fn probe_v1() {
    let b: [u8; 2] = kani::any();
    let in_a: bool = kani::any();
    let in_b: bool = kani::any();
    let mut a1 = Input::default(); let mut b1 = Input::default();
    if in_a { a1.redeem_script = Some(mk(b)); }
    if in_b { b1.redeem_script = Some(mk(b)); }
    match a1.merge(b1) { Ok(()) => {}, Err(e) => { fgt(e); assert!(false); } }
    match &a1.redeem_script {
        Some(s) => { assert!(in_a || in_b); assert!(s.len() == 2 && s.as_bytes()[0] == b[0] && s.as_bytes()[1] == b[1]); }
        None => assert!(!in_a && !in_b),
    }
    fgt(a1);
}
// V2: like V1 plus whole-struct compare
#[kani::proof]
fn probe_v2() {
    let b: [u8; 2] = kani::any();
    let in_a: bool = kani::any();
    let in_b: bool = kani::any();
    let mut a1 = Input::default(); let mut b1 = Input::default(); let mut want = Input::default();
    if in_a { a1.redeem_script = Some(mk(b)); }
    if in_b { b1.redeem_script = Some(mk(b)); }
    if in_a || in_b { want.redeem_script = Some(mk(b)); }
    match a1.merge(b1) { Ok(()) => {}, Err(e) => { fgt(e); assert!(false); } }
    assert!(a1 == want);
    fgt(a1); fgt(want);
}
// V3: concrete presence pattern (only b has it), whole-struct compare
#[kani::proof]
fn probe_v3() {
    let b: [u8; 2] = kani::any();
    let mut a1 = Input::default(); let mut b1 = Input::default(); let mut want = Input::default();
    b1.redeem_script = Some(mk(b));
    want.redeem_script = Some(mk(b));
    match a1.merge(b1) { Ok(()) => {}, Err(e) => { fgt(e); assert!(false); } }
    assert!(a1 == want);
    fgt(a1); fgt(want);
}
