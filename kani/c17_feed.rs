//@ property: C17 C06
//@ mount: src/blech32/decode.rs
//@ functions: src/blech32/decode.rs::UncheckedHrpstring::validate_checksum, src/blech32/decode.rs::UncheckedHrpstring::validate_and_remove_checksum, src/blech32/decode.rs::SegwitHrpstring::new
//
// C17.1 — decoder feed discipline, stated SEMANTICALLY (no stub): the verdict of the real decoder equals an
// independent reference polymod (transcribed from Elements `blech32.cpp`: PolyMod / ExpandHRP / VerifyChecksum)
// computed in the harness over  ExpandHRP(hrp) ++ ALL data characters — the witness-version character and all
// 12 checksum characters included, in string order.  If the decoder skipped, reordered or stripped any
// character before checking (e.g. removed the version character first, or checked only 11 checksum
// characters) the two residues would differ on some string and the harness fails.
use super::*;

const CHARSET: [u8; 32] = *b"qpzry9x8gf2tvdw0s3jn54khce6mua7l";
const BLECH32_CONST: u64 = 1;
const BLECH32M_CONST: u64 = 0x455972a3350f7a1;

fn ref_polymod_step(c: u64, v: u8) -> u64 {
    let c0 = (c >> 55) as u8;
    let mut c = ((c & 0x7f_ffff_ffff_ffff) << 5) ^ (v as u64);
    if c0 & 1 != 0 { c ^= 0x7d52fba40bd886; }
    if c0 & 2 != 0 { c ^= 0x5e8dbf1a03950c; }
    if c0 & 4 != 0 { c ^= 0x1c3a3c74072a18; }
    if c0 & 8 != 0 { c ^= 0x385d72fa0e5139; }
    if c0 & 16 != 0 { c ^= 0x7093e5a608865b; }
    c
}

/// PolyMod(ExpandHRP(hrp) ++ vals), hrp given as lower-case bytes
fn ref_polymod<const H: usize, const N: usize>(hrp: &[u8; H], vals: &[u8; N]) -> u64 {
    let mut c = 1u64;
    let mut i = 0;
    while i < H { c = ref_polymod_step(c, hrp[i] >> 5); i += 1; }
    c = ref_polymod_step(c, 0);
    let mut i = 0;
    while i < H { c = ref_polymod_step(c, hrp[i] & 0x1f); i += 1; }
    let mut i = 0;
    while i < N { c = ref_polymod_step(c, vals[i]); i += 1; }
    c
}

/// N symbolic 5-bit values and their lower-case characters
fn any_vals<const N: usize>() -> ([u8; N], [u8; N]) {
    let mut v = [0u8; N];
    let mut ch = [b'q'; N];
    let mut i = 0;
    while i < N {
        let k: u8 = kani::any();
        kani::assume(k < 32);
        v[i] = k;
        ch[i] = CHARSET[k as usize];
        i += 1;
    }
    (v, ch)
}

macro_rules! verdict {
    ($name:ident, $n:expr) => {
        #[kani::proof]
        fn $name() {
            const N: usize = $n;
            let (vals, chars) = any_vals::<N>();
            let upper: bool = kani::any(); // upper-case data characters denote the same values
            let mut text = chars;
            if upper { let mut i = 0; while i < N { if text[i] >= b'a' && text[i] <= b'z' { text[i] -= 32; } i += 1; } }
            let want = ref_polymod::<2, N>(b"el", &vals);
            let u = UncheckedHrpstring { hrp: Hrp::parse_unchecked(if upper { "EL" } else { "el" }), data: &text[..] };
            let r32 = u.validate_checksum::<Blech32>();
            let r32m = u.validate_checksum::<Blech32m>();
            let (ok32, ok32m) = (r32.is_ok(), r32m.is_ok());
            if N < 12 {
                assert!(matches!(r32, Err(ChecksumError::InvalidChecksumLength)));
                assert!(matches!(r32m, Err(ChecksumError::InvalidChecksumLength)));
            } else {
                assert!(ok32 == (want == BLECH32_CONST));
                assert!(ok32m == (want == BLECH32M_CONST));
                assert!(!(ok32 && ok32m));
                // and the checksum that is then removed is exactly the last 12 characters
                let c = u.remove_checksum::<Blech32>();
                assert!(c.data.len() == N - 12 && c.data.as_ptr() == text.as_ptr());
            }
            kani::cover!(N < 12 || ok32);
            kani::cover!(N < 12 || ok32m);
            kani::cover!(!ok32 && !ok32m);
        }
    };
}
//@ harness: verdict_l11 class=F tier=quick props=C17
//@ clause: validate_checksum::<Blech32|Blech32m> on 11 data characters (fewer than CHECKSUM_LENGTH): InvalidChecksumLength
verdict!(verdict_l11, 11);
//@ harness: verdict_l12 class=B tier=quick bound="hrp el/EL, exactly 12 data characters, all contents, both cases" props=C17
//@ clause: validate_checksum verdict == (reference PolyMod over ExpandHRP ++ ALL data characters == 1 resp. 0x455972a3350f7a1); never both variants; remove_checksum strips exactly the last 12 characters
verdict!(verdict_l12, 12);
//@ harness: verdict_l13 class=B tier=quick bound="hrp el/EL, exactly 13 data characters, all contents, both cases" props=C17
//@ clause: same, 13 data characters (version character + checksum)
verdict!(verdict_l13, 13);
//@ harness: verdict_l17 class=B tier=quick bound="hrp el/EL, exactly 17 data characters, all contents, both cases" props=C17
//@ clause: same, 17 data characters
verdict!(verdict_l17, 17);
//@ harness: verdict_l29 class=B tier=thorough bound="hrp el/EL, exactly 29 data characters, all contents, both cases" props=C17
//@ clause: same, 29 data characters
verdict!(verdict_l29, 29);

// SegwitHrpstring::new on whole strings "el1<version><payload><12 checksum chars>".
//
// Running `new` on such a symbolic string with everything real did not finish in 30 min: for CBMC the
// separator position found by `check_characters` is symbolic (reverse UTF-8 scan over symbolic bytes), so every
// later loop is unwound to the string length with symbolic slice bounds, for two checksum instantiations.
// `check_characters` is therefore replaced by its CONTRACT for this string shape — "el1" followed by
// lower-case bech32-alphabet characters: returns Ok(2), the index of the last '1'.  That contract is what
// c10_blech32_total.rs::unchecked_new_l* verify on the real function (acceptance IFF BIP-173 shape, and the
// hrp/data split is at the last '1').  Everything else — `UncheckedHrpstring::new`, `Hrp::parse`, the version
// switch, the REAL `validate_and_remove_checksum::<Blech32|Blech32m>` with the real engine, `validate_segwit`
// — runs unmodified and is compared with the reference PolyMod.  (Under `cargo kani playback` the stub is
// not applied; the real `check_characters` returns the same Ok(2) on these strings.)
fn check_characters_contract(_s: &str) -> Result<usize, CharError> {
    unsafe { STUB_USED = true; }
    Ok(2)
}
static mut STUB_USED: bool = false;

macro_rules! segwit_feed {
    ($name:ident, $n:expr, $total:expr, $unw:literal) => {
        #[kani::proof]
        #[kani::unwind($unw)]
        #[kani::stub(super::check_characters, check_characters_contract)]
        fn $name() {
            const N: usize = $n;           // data characters: version + payload + checksum
            const T: usize = $total;       // N + 3 ("el1")
            let (vals, chars) = any_vals::<N>();
            let mut text = [0u8; T];
            text[0] = b'e'; text[1] = b'l'; text[2] = b'1';
            let mut i = 0;
            while i < N { text[3 + i] = chars[i]; i += 1; } // no '1' among them: index 2 is the last '1'
            // `text` is "el1" + bech32-alphabet characters: ASCII by construction (checked), hence valid UTF-8.
            // core::str::from_utf8 on 16+ symbolic bytes costs CBMC > 7 min in run_utf8_validation alone.
            let mut i = 0;
            while i < T { assert!(text[i] < 128); i += 1; }
            let s: &str = unsafe { core::str::from_utf8_unchecked(&text) };
            let want = ref_polymod::<2, N>(b"el", &vals);
            let version = vals[0];
            let target = if version == 0 { BLECH32_CONST } else { BLECH32M_CONST };
            let mut accepted = false;
            let mut cksum_err = false;
            match SegwitHrpstring::new(s) {
                Ok(seg) => {
                    accepted = true;
                    // checksum validated over ALL data characters, version included, with the variant of the version
                    assert!(want == target, "accepted string has the residue required for its witness version");
                    assert!(version <= 16);
                    assert!(seg.witness_version.to_u8() == version);
                    // what is handed on: the characters between version and checksum
                    assert!(seg.data.len() == N - 13 && seg.data.as_ptr() == text[4..].as_ptr());
                    assert!(seg.hrp == Hrp::parse_unchecked("el"));
                }
                Err(e) => {
                    cksum_err = matches!(e, SegwitHrpstringError::Checksum(_));
                    if version > 16 {
                        assert!(matches!(e, SegwitHrpstringError::InvalidWitnessVersion(_)));
                    } else if want != target {
                        assert!(matches!(e, SegwitHrpstringError::Checksum(ChecksumError::InvalidChecksum)));
                    } else {
                        // right residue for this version: whatever is wrong, it is not the checksum
                        assert!(matches!(e, SegwitHrpstringError::Padding(_) | SegwitHrpstringError::WitnessLength(_)));
                    }
                    core::mem::forget(e);
                }
            }
            kani::cover!(unsafe { STUB_USED });
            kani::cover!(N < 69 || (accepted && version == 1));   // shortest acceptable blinded string: v + 56 chars (35 bytes) + 12
            kani::cover!(N < 69 || (accepted && version == 16));
            kani::cover!(!accepted && !cksum_err && version == 0);  // blech32 residue on a v0 string, rejected for length
            kani::cover!(!accepted && !cksum_err && version == 5);  // blech32m residue on a v5 string
            kani::cover!(cksum_err && version == 0 && want == BLECH32M_CONST); // wrong variant for the version
            kani::cover!(cksum_err && version == 3 && want == BLECH32_CONST);
        }
    };
}
//@ harness: segwit_feed_l13 class=B tier=quick bound="string el1 + 13 lower-case data characters (version + 12 checksum), all contents; check_characters by contract" props=C17,C06 timeout=900
//@ clause: SegwitHrpstring::new: version > 16 => InvalidWitnessVersion; else the error is Checksum(InvalidChecksum) IFF the reference PolyMod over ExpandHRP ++ version char ++ checksum differs from 1 (version 0) resp. 0x455972a3350f7a1 (version 1..16) — the version character is inside the checksummed data and selects the variant
segwit_feed!(segwit_feed_l13, 13, 16, 19);
//@ harness: segwit_feed_l17 class=B tier=thorough bound="string el1 + 17 lower-case data characters (version, 4 payload, 12 checksum), all contents; check_characters by contract" props=C17,C06 timeout=1200
//@ clause: same with a 4-character payload (rejected for length after a correct checksum)
segwit_feed!(segwit_feed_l17, 17, 20, 23);

// The shortest string that `new` can ACCEPT has 69 data characters (version + 56 = 33-byte key and 2-byte
// program + 12 checksum).  With the real polymod on both sides that harness (segwit_feed at N = 69) did not
// finish in 50 min / 9.6 GB.  For the accepting path the checksum verdict is therefore taken from a RECORDING
// model of `validate_checksum` (arbitrary verdict; records which data slice and which Ck it was asked about);
// what the real validate_checksum computes on that slice is verdict_l* above.
struct Rec { calls: usize, ptr: usize, len: usize, target_is_one: bool, cklen: usize, verdict_ok: bool }
static mut REC: Rec = Rec { calls: 0, ptr: 0, len: 0, target_is_one: false, cklen: 0, verdict_ok: false };

fn validate_checksum_rec<'s, Ck: Checksum>(this: &UncheckedHrpstring<'s>) -> Result<(), ChecksumError>
where 's: 's // makes 's early-bound so that the generic parameter count matches the method's
{
    use bech32::primitives::checksum::PackedFe32;
    let ok: bool = kani::any();
    unsafe {
        REC.calls += 1;
        REC.ptr = this.data.as_ptr() as usize;
        REC.len = this.data.len();
        REC.target_is_one = Ck::TARGET_RESIDUE == <Ck::MidstateRepr as PackedFe32>::ONE;
        REC.cklen = Ck::CHECKSUM_LENGTH;
        REC.verdict_ok = ok;
    }
    // contract of the real function (verdict_l11): too short for a checksum is an error
    if this.data.len() < Ck::CHECKSUM_LENGTH { return Err(ChecksumError::InvalidChecksumLength); }
    if ok { Ok(()) } else { Err(ChecksumError::InvalidChecksum) }
}

macro_rules! segwit_rec {
    ($name:ident, $n:expr, $total:expr, $unw:literal) => {
        #[kani::proof]
        #[kani::unwind($unw)] // CBMC does not fold the exit test of the `chars()` loop in Hrp::parse: a bound is needed
        #[kani::stub(super::check_characters, check_characters_contract)]
        #[kani::stub(super::UncheckedHrpstring::validate_checksum, validate_checksum_rec)]
        fn $name() {
            const N: usize = $n;           // data characters: version + payload + checksum
            const T: usize = $total;       // N + 3 ("el1")
            let (vals, chars) = any_vals::<N>();
            let mut text = [0u8; T];
            text[0] = b'e'; text[1] = b'l'; text[2] = b'1';
            let mut i = 0;
            while i < N { text[3 + i] = chars[i]; i += 1; }
            let mut i = 0;
            while i < T { assert!(text[i] < 128); i += 1; }
            let s: &str = unsafe { core::str::from_utf8_unchecked(&text) };
            let version = vals[0];
            let r = SegwitHrpstring::new(s);
            let (calls, ptr, len, t1, cklen, vok) = unsafe { (REC.calls, REC.ptr, REC.len, REC.target_is_one, REC.cklen, REC.verdict_ok) };
            let recorder_active = calls > 0;
            let accepted = r.is_ok();
            if version > 16 {
                assert!(matches!(r, Err(SegwitHrpstringError::InvalidWitnessVersion(_))));
                assert!(calls == 0);
            } else if recorder_active { // (under `cargo kani playback` stubs are not applied: skip)
                assert!(calls == 1, "the checksum is validated exactly once");
                assert!(ptr == text[3..].as_ptr() as usize && len == N, "over ALL data characters: version first, checksum last");
                assert!(cklen == 12);
                assert!(t1 == (version == 0), "Blech32 (target 1) iff witness version 0, else Blech32m");
                if !vok { assert!(matches!(r, Err(SegwitHrpstringError::Checksum(_))), "a failed checksum is final"); }
            }
            if let Ok(ref seg) = r {
                assert!(version <= 16 && seg.witness_version.to_u8() == version);
                assert!(seg.data.len() == N - 13 && seg.data.as_ptr() == text[4..].as_ptr()); // stripped only afterwards
                assert!(seg.hrp == Hrp::parse_unchecked("el"));
                // C06: what is accepted carries 33 + (2..=40) bytes, version 0 only 33+20 / 33+32
                let bytes = (N - 13) * 5 / 8;
                assert!(bytes >= 35 && bytes <= 73 && (version != 0 || bytes == 53 || bytes == 65));
            }
            kani::cover!(recorder_active);
            kani::cover!(recorder_active && t1 && vok);
            kani::cover!(recorder_active && !t1 && !vok);
            kani::cover!(accepted && version == 16);
            kani::cover!(N != 98 || (accepted && version == 0));
            kani::cover!(version == 17);
            core::mem::forget(r);
        }
    };
}
//@ harness: segwit_rec_l69 class=B tier=thorough bound="string el1 + 69 lower-case data characters (version, 56 payload, 12 checksum), all contents; check_characters by contract, validate_checksum by recording model" props=C17,C06 timeout=3000
//@ clause: SegwitHrpstring::new at the shortest acceptable blinded length: version > 16 rejected; else validate_checksum is asked exactly once, about ALL data characters (version included, before it is stripped), for Blech32 iff version 0 else Blech32m, CHECKSUM_LENGTH 12; a negative verdict is final; on Ok the version character and the 12 checksum characters are stripped afterwards and the payload is 35..=73 bytes
segwit_rec!(segwit_rec_l69, 69, 72, 75);
//@ harness: segwit_rec_l98 class=B tier=thorough bound="string el1 + 98 lower-case data characters (version, 85 payload = 53 bytes, 12 checksum), all contents; same models" props=C17,C06 timeout=3000
//@ clause: same at the length of a blinded version-0 P2WPKH address (33 + 20 bytes): version 0 is accepted, with the Blech32 variant
segwit_rec!(segwit_rec_l98, 98, 101, 104);
