//@ property: C16 C10
//@ mount: src/script.rs
//@ functions: src/script.rs::Instructions::next, src/script.rs::Script::instructions, src/script.rs::Script::instructions_minimal, src/script.rs::Builder::into_script
//
// `Instructions` is a (remaining slice, enforce_minimal) pair, so a contract for ONE `next()` on an arbitrary
// state is the whole contract of the iterator: the step harnesses below are loop-free and full-domain for every
// remaining slice up to the stated length; that every `Ok` step strictly shortens the remaining slice and every
// error empties it gives termination and "at most one error, and it is last" by induction.
use super::*;
use core::mem::ManuallyDrop;

#[derive(Clone, Copy, PartialEq, Eq)]
enum Want {
    End,
    Op(u8),
    /// push of `n` bytes whose payload starts at offset `off`
    Push { off: usize, n: usize },
    Early,
    NonMin,
    /// truncated AND non-minimal: the statement does not order the two errors
    EarlyOrNonMin,
}

/// Independent decoder of the first instruction of `b[..len]` (BIP-62 push forms).
/// `get(i)` reads byte i (only called for i < len).
fn spec_first(len: usize, b0: u8, b1: u8, b2: u8, b3: u8, b4: u8, minimal: bool) -> Want {
    if len == 0 { return Want::End; }
    let (hdr, n, nonmin): (usize, usize, bool) = match b0 {
        0..=0x4b => {
            let n = b0 as usize;
            // a single byte 1..=16 or 0x81 has a dedicated opcode (OP_1..OP_16, OP_1NEGATE)
            let nm = n == 1 && len >= 2 && (b1 == 0x81 || (b1 >= 1 && b1 <= 16));
            (1, n, nm)
        }
        0x4c => {
            if len < 2 { return Want::Early; }
            (2, b1 as usize, (b1 as usize) < 76)
        }
        0x4d => {
            if len < 3 { return Want::Early; }
            let n = u16::from_le_bytes([b1, b2]) as usize;
            (3, n, n < 0x100)
        }
        0x4e => {
            if len < 5 { return Want::Early; }
            let n = u32::from_le_bytes([b1, b2, b3, b4]) as usize;
            (5, n, n < 0x10000)
        }
        op => return Want::Op(op),
    };
    let truncated = len - hdr < n; // no overflow: compares against what is left
    let nonmin = minimal && nonmin;
    match (truncated, nonmin) {
        (true, true) => Want::EarlyOrNonMin,
        (true, false) => Want::Early,
        (false, true) => Want::NonMin,
        (false, false) => Want::Push { off: hdr, n },
    }
}

/// one step of the real iterator on `data`, checked against `spec_first`; returns nothing, asserts everything
fn check_step(data: &[u8], minimal: bool) {
    let len = data.len();
    let g = |i: usize| if i < len { data[i] } else { 0 };
    let want = spec_first(len, g(0), g(1), g(2), g(3), g(4), minimal);
    let mut it = Instructions { data, enforce_minimal: minimal };
    let r = it.next();
    let rest = it.data;
    match r {
        None => {
            assert!(want == Want::End);
            assert!(rest.len() == 0);
        }
        Some(Ok(Instruction::Op(op))) => {
            assert!(want == Want::Op(op.into_u8()));
            assert!(rest.len() == len - 1 && rest.as_ptr() == data[1..].as_ptr());
        }
        Some(Ok(Instruction::PushBytes(p))) => {
            match want {
                Want::Push { off, n } => {
                    // exactly the bytes the header denotes: same memory, same length (no memcmp needed)
                    assert!(p.len() == n);
                    assert!(p.as_ptr() == data[off..].as_ptr());
                    assert!(rest.len() == len - off - n);
                    assert!(rest.as_ptr() == data[off + n..].as_ptr());
                    assert!(rest.len() < len); // progress
                }
                _ => assert!(false, "push returned where the header denotes something else"),
            }
        }
        Some(Err(e)) => {
            match want {
                Want::Early => assert!(matches!(e, Error::EarlyEndOfScript)),
                Want::NonMin => assert!(matches!(e, Error::NonMinimalPush)),
                Want::EarlyOrNonMin => assert!(matches!(e, Error::EarlyEndOfScript | Error::NonMinimalPush)),
                _ => assert!(false, "error returned for a well-formed instruction"),
            }
            // the iterator is dead after an error
            assert!(rest.len() == 0);
            assert!(it.next().is_none());
        }
    }
}

//@ harness: instr_next_step_600 class=F tier=quick props=C16,C10 timeout=600
//@ clause: one Instructions::next() on EVERY remaining slice of length 0..=600 (symbolic content and length), with and without minimal-push enforcement: returns exactly the opcode, or exactly the sub-slice the push header denotes (direct push 0..=75, PUSHDATA1, PUSHDATA2 up to 597 bytes, by pointer and length), or EarlyEndOfScript when the claimed length (up to u32::MAX for PUSHDATA4) exceeds what is left, or NonMinimalPush exactly for the non-minimal forms when enforcing; never panics/overflows/indexes out of bounds; Ok steps shrink the slice, errors end the iteration
#[kani::proof]
fn instr_next_step_600() {
    const N: usize = 600;
    let buf: [u8; N] = kani::any();
    let len: usize = kani::any();
    kani::assume(len <= N);
    let minimal: bool = kani::any();
    check_step(&buf[..len], minimal);
    kani::cover!(buf[0] == 0x4d && len == 600 && buf[1] == 0x55 && buf[2] == 0x02); // PUSHDATA2 597 accepted
    kani::cover!(buf[0] == 0x4d && buf[2] == 0x00 && len > 300 && minimal); // non-minimal PUSHDATA2
    kani::cover!(buf[0] == 0x4e && len == 5 && buf[4] == 0xff); // claimed length near u32::MAX
    kani::cover!(buf[0] == 0x4c && len == 1);
    kani::cover!(buf[0] == 0x4b && len == 76);
    kani::cover!(buf[0] == 0x01 && len == 2 && buf[1] == 0x81 && minimal);
    kani::cover!(buf[0] == 0xff);
}

//@ harness: instr_next_step_pushdata4 class=F tier=quick props=C16,C10 timeout=600
//@ clause: the PUSHDATA2/PUSHDATA4 acceptance boundaries that need a long buffer: 65 600 zero bytes with a fully symbolic 5-byte header and symbolic length: PUSHDATA4 of >= 0x10000 bytes is accepted exactly when the bytes are there, rejected as non-minimal below 0x10000 when enforcing; PUSHDATA2 up to 0xffff likewise
#[kani::proof]
fn instr_next_step_pushdata4() {
    const N: usize = 65_600;
    let mut big = ManuallyDrop::new(vec![0u8; N]);
    let hdr: [u8; 5] = kani::any();
    kani::assume(hdr[0] == 0x4d || hdr[0] == 0x4e);
    big[0] = hdr[0]; big[1] = hdr[1]; big[2] = hdr[2]; big[3] = hdr[3]; big[4] = hdr[4];
    let len: usize = kani::any();
    kani::assume(len <= N);
    let minimal: bool = kani::any();
    check_step(&big[..len], minimal);
    kani::cover!(hdr[0] == 0x4e && hdr[3] == 1 && hdr[1] == 0 && hdr[2] == 0 && hdr[4] == 0 && len == 65_541); // exactly 0x10000 accepted
    kani::cover!(hdr[0] == 0x4e && hdr[3] == 1 && len == 65_540); // one byte short
    kani::cover!(hdr[0] == 0x4d && hdr[1] == 0xff && hdr[2] == 0xff && len == 65_538);
    kani::cover!(hdr[0] == 0x4e && hdr[3] == 0 && hdr[4] == 0 && minimal && len > 65_541);
}

// ---- composition: any sequence of K builder operations parses back to those operations ---------------------
#[derive(Clone, Copy)]
struct Exp { push: bool, op: u8, data: [u8; 4], n: usize }

fn fold(op: u8) -> Option<u8> {
    match op { 0x87 => Some(0x88), 0x9c => Some(0x9d), 0xac => Some(0xad), 0xae => Some(0xaf), 0xc1 => Some(0xc2), _ => None }
}

/// apply one symbolic builder operation; mirror it in the expectation list
fn any_op(b: Builder, exp: &mut [Exp; 4], k: &mut usize, last_is_op: &mut bool, risky: &mut bool) -> Builder {
    let kind: u8 = kani::any();
    kani::assume(kind < 4);
    if kind == 0 {
        // an opcode that is not itself a push header
        let op: u8 = kani::any();
        kani::assume(op > 0x4e);
        exp[*k] = Exp { push: false, op, data: [0; 4], n: 0 };
        *k += 1;
        *last_is_op = true;
        b.push_opcode(opcodes::All::from(op))
    } else if kind == 1 {
        // a data push of 0..=3 symbolic bytes
        let d: [u8; 4] = kani::any();
        let n: usize = kani::any();
        kani::assume(n <= 3);
        if n == 1 && (d[0] == 0x81 || (d[0] >= 1 && d[0] <= 16)) { *risky = true; }
        exp[*k] = Exp { push: true, op: 0, data: d, n };
        *k += 1;
        *last_is_op = false;
        b.push_slice(&d[..n])
    } else if kind == 2 {
        // an integer in -1..=300 (small-integer opcodes, one- and two-byte script numbers)
        let v: i64 = kani::any();
        kani::assume(v >= -1 && v <= 300);
        if v == 0 {
            // OP_0 parses as the empty push
            exp[*k] = Exp { push: true, op: 0, data: [0; 4], n: 0 };
        } else if v == -1 || v <= 16 {
            exp[*k] = Exp { push: false, op: (0x50 + v) as u8, data: [0; 4], n: 0 };
        } else if v < 0x80 {
            exp[*k] = Exp { push: true, op: 0, data: [v as u8, 0, 0, 0], n: 1 };
        } else {
            exp[*k] = Exp { push: true, op: 0, data: [v as u8, (v >> 8) as u8, 0, 0], n: 2 };
        }
        *k += 1;
        // a small-integer opcode is remembered as "last opcode" but has no VERIFY form
        *last_is_op = v != 0 && v <= 16;
        b.push_int(v)
    } else {
        // push_verify: folds into the directly preceding opcode when that has a VERIFY form
        let folded = if *last_is_op && *k > 0 && !exp[*k - 1].push { fold(exp[*k - 1].op) } else { None };
        match folded {
            Some(f) => { exp[*k - 1].op = f; }
            None => { exp[*k] = Exp { push: false, op: 0x69, data: [0; 4], n: 0 }; *k += 1; }
        }
        *last_is_op = true;
        b.push_verify()
    }
}

fn check_parse(s: &Script, exp: &[Exp; 4], k: usize, minimal: bool) {
    let mut it = if minimal { s.instructions_minimal() } else { s.instructions() };
    let mut i = 0;
    while i < 4 {
        if i < k {
            match it.next() {
                Some(Ok(Instruction::Op(op))) => assert!(!exp[i].push && exp[i].op == op.into_u8()),
                Some(Ok(Instruction::PushBytes(p))) => {
                    assert!(exp[i].push && p.len() == exp[i].n);
                    let mut j = 0;
                    while j < 3 {
                        if j < p.len() { assert!(p[j] == exp[i].data[j]); }
                        j += 1;
                    }
                }
                Some(Err(_)) => assert!(false, "builder output does not parse"),
                None => assert!(false, "builder output ends early"),
            }
        }
        i += 1;
    }
    assert!(it.next().is_none());
}

macro_rules! compose {
    ($name:ident, $k:expr) => {
        #[kani::proof]
        #[kani::unwind(8)]
        fn $name() {
            let mut exp = [Exp { push: false, op: 0, data: [0; 4], n: 0 }; 4];
            let mut k = 0usize;
            let mut last_is_op = false;
            let mut risky = false;
            let mut b = Builder::new();
            let mut i = 0;
            while i < $k {
                b = any_op(b, &mut exp, &mut k, &mut last_is_op, &mut risky);
                i += 1;
            }
            let s = ManuallyDrop::new(b.into_script());
            check_parse(&s, &exp, k, false);
            if !risky {
                check_parse(&s, &exp, k, true);
            }
            kani::cover!(k == $k);
            kani::cover!(k < $k || $k == 1); // a fold happened
            kani::cover!(risky);
        }
    };
}
//@ harness: builder_compose_1 class=B tier=quick bound="1 builder operation from {opcode > 0x4e, data push of 0..=3 bytes, push_int -1..=300, push_verify}"
//@ clause: iterating the script built by one builder operation yields exactly that operation (instructions(), and instructions_minimal() unless a single byte 1..=16/0x81 was pushed as data)
compose!(builder_compose_1, 1);
//@ harness: builder_compose_2 class=B tier=quick bound="2 builder operations, same alphabet" timeout=900
//@ clause: same for every sequence of 2 operations, including VERIFY folding after opcodes and no folding after data / small integers
compose!(builder_compose_2, 2);
//@ harness: builder_compose_3 class=B tier=thorough bound="3 builder operations, same alphabet" timeout=1800
//@ clause: same for every sequence of 3 operations
compose!(builder_compose_3, 3);
