//@ property: C16 C10
//@ mount: src/script.rs
//@ functions: src/script.rs::Instructions::next, src/script.rs::Builder::push_opcode, src/script.rs::Builder::push_slice, src/script.rs::Builder::push_int, src/script.rs::Builder::push_verify, src/script.rs::Script::instructions, src/script.rs::Script::instructions_minimal, src/script.rs::Builder::into_script
//
// `Instructions` is a (remaining slice, enforce_minimal) pair, so a contract for ONE `next()` on an arbitrary
// state is the whole contract of the iterator: the step harnesses below are loop-free and full-domain for every
// remaining slice up to the stated length; that every `Ok` step strictly shortens the remaining slice and every
// error empties it gives termination and "at most one error, and it is last" by induction.
use super::*;
use core::mem::ManuallyDrop;

#[derive(Clone, Copy, PartialEq, Eq)]
enum Want {
    End,
    Op(u8),
    /// push of `n` bytes whose payload starts at offset `off`
    Push { off: usize, n: usize },
    Early,
    NonMin,
    /// truncated AND non-minimal: the statement does not order the two errors
    EarlyOrNonMin,
}

/// Independent decoder of the first instruction of `b[..len]` (BIP-62 push forms).
/// `get(i)` reads byte i (only called for i < len).
fn spec_first(len: usize, b0: u8, b1: u8, b2: u8, b3: u8, b4: u8, minimal: bool) -> Want {
    if len == 0 { return Want::End; }
    let (hdr, n, nonmin): (usize, usize, bool) = match b0 {
        0..=0x4b => {
            let n = b0 as usize;
            // a single byte 1..=16 or 0x81 has a dedicated opcode (OP_1..OP_16, OP_1NEGATE)
            let nm = n == 1 && len >= 2 && (b1 == 0x81 || (b1 >= 1 && b1 <= 16));
            (1, n, nm)
        }
        0x4c => {
            if len < 2 { return Want::Early; }
            (2, b1 as usize, (b1 as usize) < 76)
        }
        0x4d => {
            if len < 3 { return Want::Early; }
            let n = u16::from_le_bytes([b1, b2]) as usize;
            (3, n, n < 0x100)
        }
        0x4e => {
            if len < 5 { return Want::Early; }
            let n = u32::from_le_bytes([b1, b2, b3, b4]) as usize;
            (5, n, n < 0x10000)
        }
        op => return Want::Op(op),
    };
    let truncated = len - hdr < n; // no overflow: compares against what is left
    let nonmin = minimal && nonmin;
    match (truncated, nonmin) {
        (true, true) => Want::EarlyOrNonMin,
        (true, false) => Want::Early,
        (false, true) => Want::NonMin,
        (false, false) => Want::Push { off: hdr, n },
    }
}

/// one step of the real iterator on `data`, checked against `spec_first`; returns nothing, asserts everything
fn check_step(data: &[u8], minimal: bool) {
    let len = data.len();
    let g = |i: usize| if i < len { data[i] } else { 0 };
    let want = spec_first(len, g(0), g(1), g(2), g(3), g(4), minimal);
    let mut it = Instructions { data, enforce_minimal: minimal };
    let r = it.next();
    let rest = it.data;
    match r {
        None => {
            assert!(want == Want::End);
            assert!(rest.len() == 0);
        }
        Some(Ok(Instruction::Op(op))) => {
            assert!(want == Want::Op(op.into_u8()));
            assert!(rest.len() == len - 1 && rest.as_ptr() == data[1..].as_ptr());
        }
        Some(Ok(Instruction::PushBytes(p))) => {
            match want {
                Want::Push { off, n } => {
                    // exactly the bytes the header denotes: same memory, same length (no memcmp needed)
                    assert!(p.len() == n);
                    assert!(p.as_ptr() == data[off..].as_ptr());
                    assert!(rest.len() == len - off - n);
                    assert!(rest.as_ptr() == data[off + n..].as_ptr());
                    assert!(rest.len() < len); // progress
                }
                _ => assert!(false, "push returned where the header denotes something else"),
            }
        }
        Some(Err(e)) => {
            match want {
                Want::Early => assert!(matches!(e, Error::EarlyEndOfScript)),
                Want::NonMin => assert!(matches!(e, Error::NonMinimalPush)),
                Want::EarlyOrNonMin => assert!(matches!(e, Error::EarlyEndOfScript | Error::NonMinimalPush)),
                _ => assert!(false, "error returned for a well-formed instruction"),
            }
            // the iterator is dead after an error
            assert!(rest.len() == 0);
            assert!(it.next().is_none());
        }
    }
}

//@ harness: instr_next_step_600 class=F tier=quick props=C16,C10 timeout=600
//@ clause: one Instructions::next() on EVERY remaining slice of length 0..=600 (symbolic content and length), with and without minimal-push enforcement: returns exactly the opcode, or exactly the sub-slice the push header denotes (direct push 0..=75, PUSHDATA1, PUSHDATA2 up to 597 bytes, by pointer and length), or EarlyEndOfScript when the claimed length (up to u32::MAX for PUSHDATA4) exceeds what is left, or NonMinimalPush exactly for the non-minimal forms when enforcing; never panics/overflows/indexes out of bounds; Ok steps shrink the slice, errors end the iteration
#[kani::proof]
fn instr_next_step_600() {
    const N: usize = 600;
    let buf: [u8; N] = kani::any();
    let len: usize = kani::any();
    kani::assume(len <= N);
    let minimal: bool = kani::any();
    check_step(&buf[..len], minimal);
    kani::cover!(buf[0] == 0x4d && len == 600 && buf[1] == 0x55 && buf[2] == 0x02); // PUSHDATA2 597 accepted
    kani::cover!(buf[0] == 0x4d && buf[2] == 0x00 && len > 300 && minimal); // non-minimal PUSHDATA2
    kani::cover!(buf[0] == 0x4e && len == 5 && buf[4] == 0xff); // claimed length near u32::MAX
    kani::cover!(buf[0] == 0x4c && len == 1);
    kani::cover!(buf[0] == 0x4b && len == 76);
    kani::cover!(buf[0] == 0x01 && len == 2 && buf[1] == 0x81 && minimal);
    kani::cover!(buf[0] == 0xff);
}

//@ harness: instr_next_step_pushdata4 class=F tier=thorough props=C16,C10 timeout=1500
//@ clause: the PUSHDATA2/PUSHDATA4 acceptance boundaries that need a long buffer: 65 600 zero bytes with a fully symbolic 5-byte header and symbolic length: PUSHDATA4 of >= 0x10000 bytes is accepted exactly when the bytes are there, rejected as non-minimal below 0x10000 when enforcing; PUSHDATA2 up to 0xffff likewise
#[kani::proof]
fn instr_next_step_pushdata4() {
    const N: usize = 65_600;
    let mut big = ManuallyDrop::new(vec![0u8; N]);
    let hdr: [u8; 5] = kani::any();
    kani::assume(hdr[0] == 0x4d || hdr[0] == 0x4e);
    big[0] = hdr[0]; big[1] = hdr[1]; big[2] = hdr[2]; big[3] = hdr[3]; big[4] = hdr[4];
    let len: usize = kani::any();
    kani::assume(len <= N);
    let minimal: bool = kani::any();
    check_step(&big[..len], minimal);
    kani::cover!(hdr[0] == 0x4e && hdr[3] == 1 && hdr[1] == 0 && hdr[2] == 0 && hdr[4] == 0 && len == 65_541); // exactly 0x10000 accepted
    kani::cover!(hdr[0] == 0x4e && hdr[3] == 1 && len == 65_540); // one byte short
    kani::cover!(hdr[0] == 0x4d && hdr[1] == 0xff && hdr[2] == 0xff && len == 65_538);
    kani::cover!(hdr[0] == 0x4e && hdr[3] == 0 && hdr[4] == 0 && minimal && len > 65_541);
}

// ---- composition: sequences of builder operations parse back to those operations ----------------------------
// Measured: with a symbolic choice of operation the builder's Vec length becomes symbolic and every `push` drags a
// (infeasible but unpruned) reallocation of symbolic size along - 7 GB for ONE operation.  The sequences are therefore
// enumerated with CONCRETE operation kinds (macro-expanded, straight-line), so that all lengths stay constants; what
// stays symbolic is the content: opcode bytes, data bytes.  Integers are the concrete boundary values listed below
// (the full script-number range is covered by builder_push_int in c16_builder.rs).
#[derive(Clone, Copy)]
struct Exp { push: bool, op: u8, data: [u8; 4], n: usize }
const NOEXP: Exp = Exp { push: false, op: 0, data: [0; 4], n: 0 };

fn fold(op: u8) -> Option<u8> {
    match op { 0x87 => Some(0x88), 0x9c => Some(0x9d), 0xac => Some(0xad), 0xae => Some(0xaf), 0xc1 => Some(0xc2), _ => None }
}

const KINDS: usize = 12;
/// kind 0: opcode with a VERIFY form (symbolic among the five); 1: any other opcode > 0x4e (symbolic);
/// 2: empty data push; 3: one symbolic byte; 4: three symbolic bytes;
/// 5..=10: push_int(-1), push_int(0), push_int(16), push_int(17), push_int(128), push_int(-300);  11: push_verify
struct St { exp: [Exp; 4], k: usize, risky: bool }

fn apply(kind: usize, b: Builder, st: &mut St) -> Builder {
    let k = st.k;
    match kind {
        0 => {
            let op: u8 = kani::any();
            kani::assume(fold(op).is_some());
            st.exp[k] = Exp { push: false, op, data: [0; 4], n: 0 };
            st.k += 1;
            b.push_opcode(opcodes::All::from(op))
        }
        1 => {
            let op: u8 = kani::any();
            kani::assume(op > 0x4e && fold(op).is_none());
            st.exp[k] = Exp { push: false, op, data: [0; 4], n: 0 };
            st.k += 1;
            b.push_opcode(opcodes::All::from(op))
        }
        2 => {
            st.exp[k] = Exp { push: true, op: 0, data: [0; 4], n: 0 };
            st.k += 1;
            b.push_slice(&[])
        }
        3 => {
            let x: u8 = kani::any();
            // `01 x` for x in 1..=16 / 0x81 is what push_slice emits; instructions_minimal() refuses it (observation)
            if x == 0x81 || (x >= 1 && x <= 16) { st.risky = true; }
            st.exp[k] = Exp { push: true, op: 0, data: [x, 0, 0, 0], n: 1 };
            st.k += 1;
            b.push_slice(&[x])
        }
        4 => {
            let d: [u8; 3] = kani::any();
            st.exp[k] = Exp { push: true, op: 0, data: [d[0], d[1], d[2], 0], n: 3 };
            st.k += 1;
            b.push_slice(&d)
        }
        5 => { st.exp[k] = Exp { push: false, op: 0x4f, data: [0; 4], n: 0 }; st.k += 1; b.push_int(-1) }
        6 => { st.exp[k] = Exp { push: true, op: 0, data: [0; 4], n: 0 }; st.k += 1; b.push_int(0) } // OP_0 reads as the empty push
        7 => { st.exp[k] = Exp { push: false, op: 0x60, data: [0; 4], n: 0 }; st.k += 1; b.push_int(16) }
        8 => { st.exp[k] = Exp { push: true, op: 0, data: [17, 0, 0, 0], n: 1 }; st.k += 1; b.push_int(17) }
        9 => { st.exp[k] = Exp { push: true, op: 0, data: [0x80, 0x00, 0, 0], n: 2 }; st.k += 1; b.push_int(128) }
        10 => { st.exp[k] = Exp { push: true, op: 0, data: [0x2c, 0x81, 0, 0], n: 2 }; st.k += 1; b.push_int(-300) }
        _ => {
            // push_verify folds into the directly preceding element iff that is an opcode with a VERIFY form
            let folded = if k > 0 && !st.exp[k - 1].push { fold(st.exp[k - 1].op) } else { None };
            match folded {
                Some(f) => { st.exp[k - 1].op = f; }
                None => { st.exp[k] = Exp { push: false, op: 0x69, data: [0; 4], n: 0 }; st.k += 1; }
            }
            b.push_verify()
        }
    }
}

fn check_parse(s: &[u8], st: &St, minimal: bool) {
    // the iterator `Script::instructions{,_minimal}()` returns, built over the builder's bytes directly: going through
    // `into_script()` (a shrinking realloc) makes the script bytes opaque to CBMC's constant propagation (measured:
    // 40-160 s per two-operation sequence instead of seconds); `into_script` is checked separately below
    let mut it = Instructions { data: s, enforce_minimal: minimal };
    let mut i = 0;
    while i < 3 {
        if i < st.k {
            match it.next() {
                Some(Ok(Instruction::Op(op))) => assert!(!st.exp[i].push && st.exp[i].op == op.into_u8()),
                Some(Ok(Instruction::PushBytes(p))) => {
                    assert!(st.exp[i].push && p.len() == st.exp[i].n);
                    let mut j = 0;
                    while j < 3 {
                        if j < p.len() { assert!(p[j] == st.exp[i].data[j]); }
                        j += 1;
                    }
                }
                Some(Err(_)) => assert!(false, "builder output does not parse"),
                None => assert!(false, "builder output ends early"),
            }
        }
        i += 1;
    }
    assert!(it.next().is_none());
}

fn finish(b: Builder, st: &St) {
    let b = ManuallyDrop::new(b);
    check_parse(&b.0[..], st, false);
    if !st.risky {
        check_parse(&b.0[..], st, true);
    }
}

fn scenario2(k1: usize, k2: usize) {
    let mut st = St { exp: [NOEXP; 4], k: 0, risky: false };
    let b = apply(k1, Builder::new(), &mut st);
    let b = apply(k2, b, &mut st);
    finish(b, &st);
}
fn scenario3(k1: usize, k2: usize, k3: usize) {
    let mut st = St { exp: [NOEXP; 4], k: 0, risky: false };
    let b = apply(k1, Builder::new(), &mut st);
    let b = apply(k2, b, &mut st);
    let b = apply(k3, b, &mut st);
    finish(b, &st);
}
macro_rules! all2 { ($a:expr) => { all2!($a; 0, 1, 2, 3, 4, 5, 6, 7, 8, 9, 10, 11); }; ($a:expr; $($b:expr),*) => { $( scenario2($a, $b); )* }; }
macro_rules! all3 { ($a:expr, $b:expr) => { all3!($a, $b; 0, 1, 2, 3, 4, 5, 6, 7, 8, 9, 10, 11); }; ($a:expr, $b:expr; $($c:expr),*) => { $( scenario3($a, $b, $c); )* }; }

macro_rules! compose2 {
    ($name:ident, $a:expr) => {
        #[kani::proof]
        #[kani::unwind(6)] // push_int's script-number Vec is iterated as a heap slice (not constant-bounded for CBMC)
        fn $name() {
            let _ = KINDS;
            all2!($a);
            kani::cover!(true);
        }
    };
}
macro_rules! compose3 {
    ($name:ident, $a:expr, $b:expr) => {
        #[kani::proof]
        #[kani::unwind(6)]
        fn $name() {
            all3!($a, $b);
            kani::cover!(true);
        }
    };
}
macro_rules! compose2sel {
    ($name:ident, $a:expr; $($b:expr),*) => {
        #[kani::proof]
        #[kani::unwind(6)]
        fn $name() {
            all2!($a; $($b),*);
            kani::cover!(true);
        }
    };
}
//@ harness: builder_compose2_op_verify class=B tier=quick bound="2 operations: opcode with a VERIFY form (symbolic among the five), then push_verify" timeout=900
//@ clause: push_verify folds exactly into a directly preceding EQUAL/NUMEQUAL/CHECKSIG/CHECKMULTISIG/CHECKSIGFROMSTACK and the folded script parses back to the single VERIFY-form opcode
compose2sel!(builder_compose2_op_verify, 0; 11);
//@ harness: builder_compose2_op_a class=B tier=thorough bound="2 operations: first = opcode with VERIFY form, second = opcode kinds 0,1 / data 0,1,3 bytes" timeout=1800
//@ clause: iterating the script built by two builder operations yields exactly those operations (instructions(); also instructions_minimal() unless a single byte 1..=16/0x81 was pushed as data)
compose2sel!(builder_compose2_op_a, 0; 0, 1, 2, 3, 4);
//@ harness: builder_compose2_op_b class=B tier=thorough bound="2 operations: first = opcode with VERIFY form, second = ints -1,0,16,17,128,-300" timeout=1800
//@ clause: same
compose2sel!(builder_compose2_op_b, 0; 5, 6, 7, 8, 9, 10);
//@ harness: builder_compose2_opn_verify class=B tier=quick bound="2 operations: any non-foldable opcode > 0x4e, then push_verify" timeout=900
//@ clause: push_verify after any other opcode appends OP_VERIFY
compose2sel!(builder_compose2_opn_verify, 1; 11);
//@ harness: builder_compose2_opn_a class=B tier=thorough bound="2 operations: first = any non-foldable opcode > 0x4e, second = opcode kinds 0,1 / data 0,1,3 bytes" timeout=1800
//@ clause: same as builder_compose2_op_a
compose2sel!(builder_compose2_opn_a, 1; 0, 1, 2, 3, 4);
//@ harness: builder_compose2_opn_b class=B tier=thorough bound="2 operations: first = any non-foldable opcode > 0x4e, second = ints -1,0,16,17,128,-300" timeout=1800
//@ clause: same
compose2sel!(builder_compose2_opn_b, 1; 5, 6, 7, 8, 9, 10);
//@ harness: builder_compose2_d0 class=B tier=quick bound="2 operations: first = empty data push, second = each of the 12 kinds" timeout=900
//@ clause: same; data is never folded
compose2!(builder_compose2_d0, 2);
//@ harness: builder_compose2_d1 class=B tier=thorough bound="2 operations: first = 1-byte data push (any byte), second = each of the 12 kinds" timeout=1800
//@ clause: same; a data byte equal to a foldable opcode is not folded
compose2!(builder_compose2_d1, 3);
//@ harness: builder_compose2_d3 class=B tier=quick bound="2 operations: first = 3-byte data push (any bytes), second = each of the 12 kinds" timeout=900
//@ clause: same
compose2!(builder_compose2_d3, 4);
//@ harness: builder_compose2_int_small class=B tier=quick bound="2 operations: first = push_int(16), second = each of the 12 kinds" timeout=900
//@ clause: same; small-integer opcodes are remembered as last opcode but have no VERIFY form
compose2!(builder_compose2_int_small, 7);
//@ harness: builder_compose2_int_wide class=B tier=quick bound="2 operations: first = push_int(128), second = each of the 12 kinds" timeout=900
//@ clause: same; script numbers are data pushes
compose2!(builder_compose2_int_wide, 9);
//@ harness: builder_compose2_verify class=B tier=quick bound="2 operations: first = push_verify on the empty builder, second = each of the 12 kinds" timeout=900
//@ clause: same; push_verify on an empty builder appends OP_VERIFY, a second push_verify appends another
compose2!(builder_compose2_verify, 11);
macro_rules! compose3sel {
    ($name:ident, $a:expr, $b:expr; $($c:expr),*) => {
        #[kani::proof]
        #[kani::unwind(6)]
        fn $name() {
            all3!($a, $b; $($c),*);
            kani::cover!(true);
        }
    };
}
//@ harness: builder_compose3_op_verify_a class=B tier=thorough bound="3 operations: foldable opcode, push_verify, then opcode kinds 0,1 / data 0,1 bytes" timeout=2400
//@ clause: same for three operations: after a fold the VERIFY form is the last opcode and is not folded again
compose3sel!(builder_compose3_op_verify_a, 0, 11; 0, 1, 2, 3);
//@ harness: builder_compose3_op_verify_b class=B tier=thorough bound="3 operations: foldable opcode, push_verify, then data 3 bytes / ints -1,0,16" timeout=2400
//@ clause: same
compose3sel!(builder_compose3_op_verify_b, 0, 11; 4, 5, 6, 7);
//@ harness: builder_compose3_op_verify_c class=B tier=thorough bound="3 operations: foldable opcode, push_verify, then ints 17,128,-300 / push_verify" timeout=2400
//@ clause: same
compose3sel!(builder_compose3_op_verify_c, 0, 11; 8, 9, 10, 11);
//@ harness: builder_compose3_d1_op_a class=B tier=thorough bound="3 operations: 1-byte data push, foldable opcode, then opcode kinds 0,1 / data 0,1 bytes" timeout=2400
//@ clause: same for three operations: folding after data + opcode touches only the opcode
compose3sel!(builder_compose3_d1_op_a, 3, 0; 0, 1, 2, 3);
//@ harness: builder_compose3_d1_op_b class=B tier=thorough bound="3 operations: 1-byte data push, foldable opcode, then data 3 bytes / ints -1,0,16" timeout=2400
//@ clause: same
compose3sel!(builder_compose3_d1_op_b, 3, 0; 4, 5, 6, 7);
//@ harness: builder_compose3_d1_op_c class=B tier=thorough bound="3 operations: 1-byte data push, foldable opcode, then ints 17,128,-300 / push_verify" timeout=2400
//@ clause: same
compose3sel!(builder_compose3_d1_op_c, 3, 0; 8, 9, 10, 11);
