//@ property: C01
//@ mount: src/transaction.rs
//@ functions: src/transaction.rs::OutPoint::consensus_encode, src/transaction.rs::OutPoint::consensus_decode, src/transaction.rs::AssetIssuance::consensus_encode, src/transaction.rs::AssetIssuance::consensus_decode, src/transaction.rs::TxIn::consensus_encode, src/transaction.rs::TxIn::consensus_decode, src/transaction.rs::TxIn::has_issuance, src/transaction.rs::TxOut::consensus_encode, src/transaction.rs::TxOut::consensus_decode, src/encode.rs::deserialize_partial
// Assumptions: support/c01_ffi_models.rs (libsecp parse/serialize are inverse partial injections; seckey_verify exact).
use super::*;
use crate::encode::{self, Decodable, Encodable};
use secp256k1_zkp::ffi as zffi;

#[path = "support/sinks.rs"]
mod sinks;
use sinks::{forget, ArraySink};
#[path = "support/c01_ffi_models.rs"]
mod ffi_models;
#[path = "support/c01_spec.rs"]
mod spec;
use spec::Spec;

macro_rules! ffi_proof {
    (fn $name:ident() $body:block) => {
        #[kani::proof]
        #[kani::stub(zffi::secp256k1_pedersen_commitment_parse, ffi_models::pedersen_commitment_parse)]
        #[kani::stub(zffi::secp256k1_pedersen_commitment_serialize, ffi_models::pedersen_commitment_serialize)]
        #[kani::stub(zffi::secp256k1_generator_parse, ffi_models::generator_parse)]
        #[kani::stub(zffi::secp256k1_generator_serialize, ffi_models::generator_serialize)]
        #[kani::stub(zffi::secp256k1_ec_pubkey_parse, ffi_models::ec_pubkey_parse)]
        #[kani::stub(zffi::secp256k1_ec_pubkey_serialize, ffi_models::ec_pubkey_serialize)]
        #[kani::stub(zffi::secp256k1_ec_pubkey_cmp, ffi_models::ec_pubkey_cmp)]
        #[kani::stub(zffi::secp256k1_ec_seckey_verify, ffi_models::ec_seckey_verify)]
        fn $name() $body
    };
}

fn enc<const N: usize, T: Encodable>(v: &T) -> (usize, ArraySink<N>) {
    let mut s = ArraySink::<N>::new();
    match v.consensus_encode(&mut s) {
        Ok(n) => (n, s),
        Err(e) => {
            forget(e);
            assert!(false);
            (0, s)
        }
    }
}
fn le32(b: &[u8], at: usize) -> u32 {
    u32::from_le_bytes([b[at], b[at + 1], b[at + 2], b[at + 3]])
}
fn assert_prefix_eq<const N: usize>(a: &[u8; N], b: &[u8; N], k: usize) {
    let mut i = 0;
    while i < N {
        if i < k {
            assert!(a[i] == b[i]);
        }
        i += 1;
    }
}

// ---------------------------------------------------------------------------------------------------------------
// OutPoint
// ---------------------------------------------------------------------------------------------------------------

//@ harness: outpoint_codec class=F tier=quick
//@ clause: OutPoint: every 37-byte buffer and every truncation decodes iff >= 36 bytes, consumes 36, txid = first 32 bytes in order, vout = little-endian u32 (no flag stripping at this level); re-encoding reproduces the bytes and reports 36; every OutPoint encodes to 36 bytes that decode to an equal value
#[kani::proof]
fn outpoint_codec() {
    let buf: [u8; 37] = kani::any();
    let len: usize = kani::any();
    kani::assume(len <= 37);
    match encode::deserialize_partial::<OutPoint>(&buf[..len]) {
        Ok((o, k)) => {
            assert!(len >= 36 && k == 36);
            let t = o.txid.to_byte_array();
            let mut i = 0;
            while i < 32 { assert!(t[i] == buf[i]); i += 1; }
            assert!(o.vout == le32(&buf, 32));
            let (n, s) = enc::<37, _>(&o);
            assert!(n == 36 && s.len == 36);
            assert_prefix_eq(&s.buf, &buf, 36);
            kani::cover!(o.vout == 0xffff_ffff);
            kani::cover!(o.vout & (1 << 31) != 0 && o.vout != 0xffff_ffff);
        }
        Err(e) => { forget(e); assert!(len < 36); kani::cover!(len == 35); }
    }
    // encode -> decode
    let o = OutPoint { txid: Txid::from_byte_array(kani::any()), vout: kani::any() };
    let (n, s) = enc::<37, _>(&o);
    assert!(n == 36 && s.len == 36);
    match encode::deserialize::<OutPoint>(&s.buf[..36]) {
        Ok(p) => assert!(p == o),
        Err(e) => { forget(e); assert!(false); }
    }
}

// ---------------------------------------------------------------------------------------------------------------
// AssetIssuance
// ---------------------------------------------------------------------------------------------------------------

fn value_need(p: u8) -> usize {
    match p { 0 => 1, 1 => 9, 8 | 9 => 33, _ => 0 }
}
fn arr32(b: &[u8], at: usize) -> [u8; 32] {
    let mut a = [0u8; 32];
    a.copy_from_slice(&b[at..at + 32]);
    a
}
fn arr33(b: &[u8], at: usize) -> [u8; 33] {
    let mut a = [0u8; 33];
    a.copy_from_slice(&b[at..at + 33]);
    a
}
fn is_zero32(a: &[u8; 32]) -> bool {
    let mut z = true;
    let mut i = 0;
    while i < 32 { if a[i] != 0 { z = false; } i += 1; }
    z
}

//@ harness: issuance_dec_enc class=F tier=thorough timeout=900
//@ clause: AssetIssuance: every 131-byte buffer: accepted iff the blinding nonce is zero or a valid scalar and both amounts have an accepted prefix/commitment; consumed == 64 + len(amount) + len(inflation_keys); fields are the bytes in order; re-encoding reproduces the consumed bytes (truncation is covered at the leaf level: integers, arrays and confidential values)
ffi_proof! {
fn issuance_dec_enc() {
    ffi_models::init();
    const N: usize = 131;
    let buf: [u8; N] = kani::any();
    let r = encode::deserialize_partial::<AssetIssuance>(&buf[..]);
    // oracle
    let nonce = arr32(&buf, 0);
    let nonce_ok = is_zero32(&nonce) || ffi_models::seckey_valid(&nonce);
    let n1 = value_need(buf[64]);
    let p2 = if n1 != 0 { buf[64 + n1] } else { 0 };
    let n2 = if n1 != 0 { value_need(p2) } else { 0 };
    match r {
        Ok((iss, k)) => {
            assert!(nonce_ok && n1 != 0 && n2 != 0);
            assert!(k == 64 + n1 + n2);
            assert!(iss.asset_blinding_nonce.as_ref() == &nonce);
            assert!(iss.asset_entropy == arr32(&buf, 32));
            assert!(iss.amount.encoded_length() == n1 && iss.inflation_keys.encoded_length() == n2);
            let (n, s) = enc::<N, _>(&iss);
            assert!(n == k && s.len == k);
            assert_prefix_eq(&s.buf, &buf, k);
            kani::cover!(k == 66);
            kani::cover!(k == 130);
            kani::cover!(n1 == 9 && n2 == 33);
        }
        Err(e) => {
            forget(e);
            kani::cover!(!nonce_ok);
            let bad_prefix = n1 == 0 || n2 == 0;
            let bad_commit = (n1 == 33 && !ffi_models::pedersen_acc(&arr33(&buf, 64)))
                || (n1 != 0 && n2 == 33 && !ffi_models::pedersen_acc(&arr33(&buf, 64 + n1)));
            assert!(!nonce_ok || bad_prefix || bad_commit);
        }
    }
}
}

// ---------------------------------------------------------------------------------------------------------------
// TxIn
// ---------------------------------------------------------------------------------------------------------------

fn any_issuance_nonnull() -> AssetIssuance {
    let i = AssetIssuance {
        asset_blinding_nonce: spec::any_tweak(),
        asset_entropy: kani::any(),
        amount: spec::any_value(),
        inflation_keys: spec::any_value(),
    };
    kani::assume(!(matches!(i.amount, confidential::Value::Null) && matches!(i.inflation_keys, confidential::Value::Null)));
    i
}

/// "canonical in-memory TxIn": index < 2^30, or the index is 0xffff_ffff and no flag is in force; a null issuance is
/// the all-zero one.  (Every value the decoder returns is of this form.)
fn any_txin<const L: usize>() -> TxIn {
    let issuance = if kani::any() { any_issuance_nonnull() } else { AssetIssuance::null() };
    let t = TxIn {
        previous_output: OutPoint { txid: Txid::from_byte_array(kani::any()), vout: kani::any() },
        is_pegin: kani::any(),
        script_sig: Script::from(spec::any_vec::<L>()),
        sequence: Sequence(kani::any()),
        asset_issuance: issuance,
        witness: TxInWitness::default(),
    };
    let v = t.previous_output.vout;
    let iss_null = matches!(t.asset_issuance.amount, confidential::Value::Null)
        && matches!(t.asset_issuance.inflation_keys, confidential::Value::Null);
    kani::assume(v < (1 << 30) || (v == 0xffff_ffff && !t.is_pegin && iss_null));
    t
}

macro_rules! txin_enc_harness {
    ($name:ident, $l:expr) => {
        ffi_proof! {
        fn $name() {
            ffi_models::init_accept_all();
            const L: usize = $l;
            const N: usize = 41 + L + 130 + 1;
            let t = any_txin::<L>();
            let iss_null = matches!(t.asset_issuance.amount, confidential::Value::Null)
                && matches!(t.asset_issuance.inflation_keys, confidential::Value::Null);
            // has_issuance <=> issuance present
            assert!(t.has_issuance() == !iss_null);
            // oracle: Elements wire format of an input
            let mut sp = Spec::<N>::new();
            sp.bytes(&t.previous_output.txid.to_byte_array());
            let mut wire = t.previous_output.vout;
            if t.is_pegin { wire |= 0x4000_0000; }
            if !iss_null { wire |= 0x8000_0000; }
            sp.u32le(wire);
            sp.var_bytes(t.script_sig.as_bytes());
            sp.u32le(t.sequence.0);
            if !iss_null {
                sp.bytes(t.asset_issuance.asset_blinding_nonce.as_ref());
                sp.bytes(&t.asset_issuance.asset_entropy);
                sp.value(&t.asset_issuance.amount);
                sp.value(&t.asset_issuance.inflation_keys);
            }
            let (n, s) = enc::<N, _>(&t);
            assert!(n == s.len);
            sp.assert_eq(&s.buf, n);
            // bit 31 of the wire index <=> issuance (outside the 0xffff_ffff exemption)
            if t.previous_output.vout != 0xffff_ffff {
                assert!((le32(&s.buf, 32) & 0x8000_0000 != 0) == t.has_issuance());
                assert!((le32(&s.buf, 32) & 0x4000_0000 != 0) == t.is_pegin);
            } else {
                assert!(le32(&s.buf, 32) == 0xffff_ffff);
            }
            // decode . encode == id
            match encode::deserialize_partial::<TxIn>(&s.buf[..]) {
                Ok((u, k)) => { assert!(k == n); assert!(u == t); forget(u); }
                Err(e) => { forget(e); assert!(false); }
            }
            kani::cover!(t.is_pegin && !iss_null);
            kani::cover!(t.previous_output.vout == 0xffff_ffff);
            kani::cover!(n == 41 + L + 130);
            forget(t);
        }
        }
    };
}

//@ harness: txin_enc_l0 class=F tier=thorough bound="script_sig length exactly 0" timeout=900
//@ clause: every canonical TxIn (index < 2^30 or the 0xffff_ffff outpoint without flags; pegin/issuance/reissuance, null/explicit/confidential amounts): encode writes txid, index with bit 30 = pegin and bit 31 = has_issuance folded in, script, sequence and the issuance iff present; reported length == bytes written; decoding those bytes gives an equal TxIn and consumes all
txin_enc_harness!(txin_enc_l0, 0);
//@ harness: txin_enc_l2 class=F tier=thorough bound="script_sig length exactly 2" timeout=900
//@ clause: same, script_sig of 2 symbolic bytes
txin_enc_harness!(txin_enc_l2, 2);

macro_rules! txin_dec_harness {
    ($name:ident, $l:expr) => {
        #[kani::proof]
        fn $name() {
            const L: usize = $l;
            const N: usize = 41 + L + 1;
            let mut buf: [u8; N] = kani::any();
            buf[36] = L as u8; // concrete script length (DESIGN §2: symbolic allocation lengths are unaffordable)
            let wire = le32(&buf, 32);
            // this harness: the no-issuance paths (bit 31 clear, or the 0xffff_ffff exemption)
            kani::assume(wire & 0x8000_0000 == 0 || wire == 0xffff_ffff);
            match encode::deserialize_partial::<TxIn>(&buf[..]) {
                Ok((t, k)) => {
                    assert!(k == 41 + L);
                    assert!(t.previous_output.txid.to_byte_array() == arr32(&buf, 0));
                    if wire == 0xffff_ffff {
                        assert!(t.previous_output.vout == 0xffff_ffff && !t.is_pegin && !t.has_issuance());
                    } else {
                        assert!(t.previous_output.vout == wire & 0x3fff_ffff);
                        assert!(t.is_pegin == (wire & 0x4000_0000 != 0));
                        assert!(!t.has_issuance());
                    }
                    assert!(t.asset_issuance == AssetIssuance::null());
                    assert!(t.script_sig.len() == L);
                    let mut i = 0;
                    while i < L { assert!(t.script_sig.as_bytes()[i] == buf[37 + i]); i += 1; }
                    assert!(t.sequence.0 == le32(&buf, 37 + L));
                    assert!(t.witness.is_empty());
                    let (n, s) = enc::<N, _>(&t);
                    assert!(n == k && s.len == k);
                    assert_prefix_eq(&s.buf, &buf, k);
                    kani::cover!(wire == 0xffff_ffff);
                    kani::cover!(t.is_pegin);
                    forget(t);
                }
                Err(e) => { forget(e); assert!(false); }
            }
        }
    };
}

//@ harness: txin_dec_l0 class=F tier=quick bound="script_sig length byte exactly 0; no-issuance paths; complete input" timeout=900
//@ clause: TxIn decode, every 42-byte buffer with an empty script, bit 31 clear or index 0xffff_ffff: accepted, consumes 41; pegin flag = bit 30 and both flag bits stripped from the index, except index 0xffff_ffff which is kept with no flags and no issuance read; re-encoding reproduces the consumed bytes
txin_dec_harness!(txin_dec_l0, 0);
//@ harness: txin_dec_l1 class=F tier=thorough bound="script_sig length byte exactly 1; no-issuance paths; complete input" timeout=900
//@ clause: same with a 1-byte script
txin_dec_harness!(txin_dec_l1, 1);
//@ harness: txin_dec_l2 class=F tier=thorough bound="script_sig length byte exactly 2; no-issuance paths; complete input" timeout=900
//@ clause: same with a 2-byte script
txin_dec_harness!(txin_dec_l2, 2);

//@ harness: txin_dec_trunc class=B tier=quick bound="script_sig length byte 1; input truncated by one byte (41 of 42 bytes)"
//@ clause: a TxIn that lacks its last byte is rejected
#[kani::proof]
fn txin_dec_trunc() {
    let mut buf: [u8; 41] = kani::any();
    buf[36] = 1;
    buf[35] &= 0x7f;
    match encode::deserialize_partial::<TxIn>(&buf[..]) {
        Ok((t, _)) => { forget(t); assert!(false); }
        Err(e) => { forget(e); kani::cover!(true); }
    }
}

/// issuance path at concrete amount prefixes ($pa / $pk are the prefix bytes of amount and inflation keys)
macro_rules! txin_dec_issuance {
    ($name:ident, $pa:expr, $pk:expr) => {
        ffi_proof! {
        fn $name() {
            ffi_models::init();
            const LA: usize = if $pa == 0 { 1 } else if $pa == 1 { 9 } else { 33 };
            const LK: usize = if $pk == 0 { 1 } else if $pk == 1 { 9 } else { 33 };
            const K: usize = 41 + 64 + LA + LK;
            const N: usize = K + 1;
            // symbolic: wire index, sequence, blinding nonce, and the amount payloads; txid and entropy are fixed (their
            // handling is covered with full range by outpoint_codec / issuance_dec_enc) to keep the struct copies cheap
            let mut buf: [u8; N] = [0u8; N];
            let idx: [u8; 4] = kani::any();
            let seq: [u8; 4] = kani::any();
            let nonce_in: [u8; 32] = kani::any();
            let pay: [u8; LA + LK] = kani::any();
            buf[32..36].copy_from_slice(&idx);
            buf[37..41].copy_from_slice(&seq);
            buf[41..73].copy_from_slice(&nonce_in);
            buf[41 + 64..41 + 64 + LA + LK].copy_from_slice(&pay);
            buf[36] = 0;
            buf[41 + 64] = $pa;
            buf[41 + 64 + LA] = $pk;
            let wire = le32(&buf, 32);
            kani::assume(wire & 0x8000_0000 != 0 && wire != 0xffff_ffff);
            let nonce = arr32(&buf, 41);
            let nonce_ok = is_zero32(&nonce) || ffi_models::seckey_valid(&nonce);
            let null_iss = $pa == 0 && $pk == 0;
            let bad_commit = ($pa >= 8 && !ffi_models::pedersen_acc(&arr33(&buf, 41 + 64)))
                || ($pk >= 8 && !ffi_models::pedersen_acc(&arr33(&buf, 41 + 64 + LA)));
            kani::cover!(nonce_ok && !bad_commit && wire & 0x4000_0000 != 0);
            kani::cover!(!nonce_ok);
            match encode::deserialize_partial::<TxIn>(&buf[..]) {
                Ok((t, k)) => {
                    assert!(nonce_ok && !null_iss && !bad_commit);
                    assert!(k == K);
                    assert!(t.has_issuance());
                    assert!(t.previous_output.vout == wire & 0x3fff_ffff);
                    assert!(t.is_pegin == (wire & 0x4000_0000 != 0));
                    assert!(t.asset_issuance.asset_blinding_nonce.as_ref() == &nonce);
                    assert!(t.asset_issuance.asset_entropy == arr32(&buf, 41 + 32));
                    assert!(t.asset_issuance.amount.encoded_length() == LA && t.asset_issuance.inflation_keys.encoded_length() == LK);
                    let (n, s) = enc::<N, _>(&t);
                    assert!(n == k && s.len == k);
                    assert_prefix_eq(&s.buf, &buf, k);
                    forget(t);
                }
                Err(e) => {
                    assert!(!nonce_ok || bad_commit || null_iss);
                    if nonce_ok && null_iss {
                        assert!(matches!(e, encode::Error::ParseFailed(m) if m == "superfluous asset issuance"));
                    }
                    forget(e);
                }
            }
        }
        }
    };
}
//@ harness: txin_dec_issuance_null class=F tier=thorough bound="empty script; issuance amount prefixes 00/00" timeout=900
//@ clause: TxIn decode with bit 31 set and index != 0xffff_ffff: an issuance is read; a null issuance (both amounts null) is rejected with ParseFailed("superfluous asset issuance") — never accepted
txin_dec_issuance!(txin_dec_issuance_null, 0u8, 0u8);
//@ harness: txin_dec_issuance_expl class=F tier=thorough bound="empty script; issuance amount prefixes 01/00" timeout=900
//@ clause: TxIn decode with bit 31 set (explicit amount, null keys): accepted iff the blinding nonce is zero or a valid scalar; has_issuance(); flags stripped; consumed == 41+64+9+1; re-encoding reproduces the bytes
txin_dec_issuance!(txin_dec_issuance_expl, 1u8, 0u8);
//@ harness: txin_dec_issuance_conf class=F tier=thorough bound="empty script; issuance amount prefixes 00/09 (reissuance-token-only shape with a confidential amount)" timeout=900
//@ clause: same with null amount and confidential inflation keys: accepted iff nonce valid and the commitment parses
txin_dec_issuance!(txin_dec_issuance_conf, 0u8, 9u8);
//@ harness: txin_dec_issuance_conf2 class=F tier=thorough bound="empty script; issuance amount prefixes 08/01" timeout=900
//@ clause: same with confidential amount and explicit inflation keys
txin_dec_issuance!(txin_dec_issuance_conf2, 8u8, 1u8);

// ---------------------------------------------------------------------------------------------------------------
// TxOut
// ---------------------------------------------------------------------------------------------------------------

macro_rules! txout_enc_harness {
    ($name:ident, $l:expr) => {
        ffi_proof! {
        fn $name() {
            ffi_models::init();
            const L: usize = $l;
            const N: usize = 99 + 1 + L + 1;
            let o = TxOut {
                asset: spec::any_asset(),
                value: spec::any_value(),
                nonce: spec::any_nonce(),
                script_pubkey: Script::from(spec::any_vec::<L>()),
                witness: TxOutWitness::default(),
            };
            let mut sp = Spec::<N>::new();
            sp.asset(&o.asset);
            sp.value(&o.value);
            sp.nonce(&o.nonce);
            sp.var_bytes(o.script_pubkey.as_bytes());
            let (n, s) = enc::<N, _>(&o);
            assert!(n == s.len);
            sp.assert_eq(&s.buf, n);
            assert!(n == o.asset.encoded_length() + o.value.encoded_length() + o.nonce.encoded_length() + 1 + L);
            kani::cover!(n == 3 + 1 + L);
            kani::cover!(n == 99 + 1 + L);
            kani::cover!(o.value.is_explicit() && o.asset.is_confidential());
            forget(o);
        }
        }
    };
}

//@ harness: txout_enc_l0 class=F tier=thorough bound="script_pubkey length exactly 0" timeout=900
//@ clause: every TxOut (asset, value, nonce each null / explicit / any commitment the parser returns): encode writes asset, value, nonce, script in that order (wire-format oracle); reported length == bytes written == sum of the encoded_length()s + script. (decode of those bytes: txout_dec_* harnesses; for decoder-obtained values enc-then-dec == id follows from dec-then-enc == id)
txout_enc_harness!(txout_enc_l0, 0);
//@ harness: txout_enc_l3 class=F tier=thorough bound="script_pubkey length exactly 3" timeout=900
//@ clause: same with a 3-byte script
txout_enc_harness!(txout_enc_l3, 3);

/// TxOut decode at a concrete shape: the three prefix bytes are fixed so that the script-length byte sits at a
/// concrete offset (needed to keep the allocation length concrete); payloads, script bytes and truncation symbolic.
macro_rules! txout_dec_harness {
    ($name:ident, $pa:expr, $pv:expr, $pn:expr, $l:expr) => {
        ffi_proof! {
        fn $name() {
            ffi_models::init();
            const L: usize = $l;
            const LA: usize = if $pa == 0 { 1 } else { 33 };
            const LV: usize = if $pv == 0 { 1 } else if $pv == 1 { 9 } else { 33 };
            const LN: usize = if $pn == 0 { 1 } else { 33 };
            const K: usize = LA + LV + LN + 1 + L;
            const N: usize = K + 1;
            let mut buf: [u8; N] = kani::any();
            buf[0] = $pa;
            buf[LA] = $pv;
            buf[LA + LV] = $pn;
            buf[LA + LV + LN] = L as u8;
            match encode::deserialize_partial::<TxOut>(&buf[..]) {
                Ok((o, k)) => {
                    assert!(k == K);
                    assert!(o.asset.encoded_length() == LA && o.value.encoded_length() == LV && o.nonce.encoded_length() == LN);
                    assert!(o.script_pubkey.len() == L);
                    assert!(o.witness.is_empty());
                    // independent oracle of the wire format, then byte equality with the input
                    let mut sp = Spec::<N>::new();
                    sp.asset(&o.asset);
                    sp.value(&o.value);
                    sp.nonce(&o.nonce);
                    sp.var_bytes(o.script_pubkey.as_bytes());
                    sp.assert_eq(&buf, k);
                    let (n, s) = enc::<N, _>(&o);
                    assert!(n == k && s.len == k);
                    assert_prefix_eq(&s.buf, &buf, k);
                    kani::cover!(true);
                    forget(o);
                }
                Err(e) => {
                    forget(e);
                    let bad = ($pa >= 10 && !ffi_models::generator_acc(&arr33(&buf, 0)))
                        || ($pv >= 8 && !ffi_models::pedersen_acc(&arr33(&buf, LA)))
                        || ($pn >= 2 && !ffi_models::pubkey_acc(&arr33(&buf, LA + LV)));
                    assert!(bad);
                }
            }
        }
        }
    };
}

//@ harness: txout_dec_null class=F tier=thorough bound="prefix bytes 0/0/0, script length byte 0" timeout=900
//@ clause: TxOut decode (all-null fields, empty script), complete input plus one trailing byte: accepted; consumed == sum of the field lengths; the bytes equal the wire-format oracle of the decoded value; re-encoding reproduces them
txout_dec_harness!(txout_dec_null, 0u8, 0u8, 0u8, 0);
//@ harness: txout_dec_explicit class=F tier=thorough bound="prefix bytes 1/1/0, script length byte 2" timeout=900
//@ clause: same, explicit asset and value, null nonce, 2-byte script
txout_dec_harness!(txout_dec_explicit, 1u8, 1u8, 0u8, 2);
//@ harness: txout_dec_conf class=F tier=thorough bound="prefix bytes 0x0b/0x08/0x03, script length byte 3" timeout=900
//@ clause: same, confidential asset, value and nonce (parse accept-set symbolic), 3-byte script; rejected iff a commitment is outside the accept-set
txout_dec_harness!(txout_dec_conf, 0x0bu8, 0x08u8, 0x03u8, 3);
//@ harness: txout_dec_mixed class=F tier=thorough bound="prefix bytes 0x0a/0x01/0x01, script length byte 1" timeout=900
//@ clause: same, confidential asset, explicit value, explicit nonce, 1-byte script
txout_dec_harness!(txout_dec_mixed, 0x0au8, 0x01u8, 0x01u8, 1);
