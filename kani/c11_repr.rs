//@ property: C11
//@ mount: src/pset/map/input.rs
//@ functions: src/pset/map/input.rs::Input::issuance_ids, src/pset/map/input.rs::Input::from_txin, src/transaction.rs::TxIn::issuance_ids
use super::*;
use crate::issuance::{AssetEntropy, ContractHash};
use crate::hashes::sha256;
use crate::TxInWitness;

// Recording model of the entropy derivation (SHA-256 cannot run under CBMC): logs the (outpoint, contract) it is asked
// to hash and returns a value that is injective in the contract; the assertion below compares the logged arguments.
static mut LOG_N: usize = 0;
static mut LOG_VOUT: [u32; 2] = [0; 2];
static mut LOG_TXID: [[u8; 32]; 2] = [[0; 32]; 2];
static mut LOG_CONTRACT: [[u8; 32]; 2] = [[0; 32]; 2];

fn model_generate_asset_entropy(prevout: OutPoint, contract_hash: ContractHash) -> AssetEntropy {
    unsafe {
        let n = LOG_N;
        if n < 2 {
            LOG_VOUT[n] = prevout.vout;
            LOG_TXID[n] = prevout.txid.to_byte_array();
            LOG_CONTRACT[n] = contract_hash.to_byte_array();
        }
        LOG_N = n + 1;
    }
    AssetEntropy::from_byte_array(contract_hash.to_byte_array())
}
// model of the fast merkle root for two leaves: bytewise xor (injective in each leaf for a fixed other leaf)
fn model_fast_merkle_root(leaves: &[[u8; 32]]) -> sha256::Midstate {
    let mut out = [0u8; 32];
    if leaves.len() == 2 {
        let mut i = 0;
        while i < 32 {
            out[i] = leaves[0][i] ^ leaves[1][i];
            i += 1;
        }
    }
    sha256::Midstate::new(out, 64)
}

fn any_issuance_txin() -> TxIn {
    let txid: [u8; 32] = kani::any();
    let nonce: [u8; 32] = if kani::any() { [0u8; 32] } else { kani::any() };
    let amount = match kani::any::<u8>() % 3 {
        0 => confidential::Value::Null,
        1 => confidential::Value::Explicit(kani::any()),
        _ => confidential::Value::Confidential(unsafe {
            core::mem::transmute::<[u8; 64], secp256k1_zkp::PedersenCommitment>(kani::any())
        }),
    };
    TxIn {
        previous_output: OutPoint { txid: Txid::from_byte_array(txid), vout: kani::any() },
        is_pegin: kani::any(),
        script_sig: Script::new(),
        sequence: Sequence::MAX,
        asset_issuance: AssetIssuance {
            // Tweak is a plain 32-byte wrapper; every byte string is admitted here (a superset of valid tweaks)
            asset_blinding_nonce: unsafe { core::mem::transmute::<[u8; 32], Tweak>(nonce) },
            asset_entropy: kani::any(),
            amount,
            inflation_keys: if kani::any() { confidential::Value::Null } else { confidential::Value::Explicit(kani::any()) },
        },
        witness: TxInWitness::default(),
    }
}

//@ harness: pset_input_ids_agree_with_txin class=F tier=quick props=C11 timeout=900
//@ clause: a transaction input (index < 2^30 or the null outpoint; optionally pegin; any issuance) and the PSET input built from it yield the same (asset id, token id), and for a new issuance both hash the same outpoint: the plain index without pegin/issuance flag bits
#[kani::proof]
#[kani::stub(crate::issuance::AssetId::generate_asset_entropy, model_generate_asset_entropy)]
#[kani::stub(crate::fast_merkle_root::fast_merkle_root, model_fast_merkle_root)]
fn pset_input_ids_agree_with_txin() {
    let t = any_issuance_txin();
    kani::assume(t.previous_output.vout < (1 << 30) || t.previous_output.vout == 0xffff_ffff);
    // the ids are only meaningful for inputs that carry an issuance (issuance_ids() itself does not check)
    kani::assume(t.has_issuance());
    // wire-format ambiguity, excluded: index 0x3fff_ffff with BOTH flags folds to 0xffff_ffff, which every layer
    // (consensus decoding, PSET extraction) reads as the flag-less null index; such an input has no faithful encoding at all
    kani::assume(!(t.previous_output.vout == 0x3fff_ffff && t.is_pegin));
    let vout = t.previous_output.vout;
    let new_issuance = t.asset_issuance.asset_blinding_nonce == ZERO_TWEAK;
    let (a1, k1) = t.issuance_ids();
    let inp = Input::from_txin(t);
    let (a2, k2) = inp.issuance_ids();
    core::mem::forget(inp);
    unsafe {
        // (under concrete playback the stubs are not applied and the log stays empty: then only the id equality below is checked)
        kani::cover!(LOG_N == 2);
        if LOG_N == 0 && new_issuance {
        } else if new_issuance {
            assert!(LOG_N == 2);
            assert!(LOG_VOUT[0] == vout, "TxIn hashes the plain index");
            assert!(LOG_VOUT[1] == vout, "PSET input hashes the plain index (no pegin/issuance flag bits)");
            assert!(LOG_TXID[0] == LOG_TXID[1] && LOG_CONTRACT[0] == LOG_CONTRACT[1]);
        } else {
            assert!(LOG_N == 0);
        }
    }
    assert!(a1 == a2);
    assert!(k1 == k2);
    kani::cover!(new_issuance);
    kani::cover!(!new_issuance);
}
