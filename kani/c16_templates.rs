//@ property: C16
//@ mount: src/script.rs
//@ functions: src/script.rs::Script::is_p2pkh, src/script.rs::Script::is_p2sh, src/script.rs::Script::is_p2pk, src/script.rs::Script::is_witness_program, src/script.rs::Script::is_v0_p2wpkh, src/script.rs::Script::is_v0_p2wsh, src/script.rs::Script::is_v1_p2tr, src/script.rs::Script::is_v1plus_p2witprog, src/script.rs::Script::is_op_return, src/script.rs::Script::is_provably_unspendable, src/address.rs::Address::from_script, src/address.rs::Address::script_pubkey
//
// Template predicates and script<->address agreement, on ALL byte strings of length 0..=45 (symbolic [u8;45] +
// symbolic length).  The `Script` under test is a *view* of the stack array: `Box::from_raw` on the array's
// memory, wrapped in `ManuallyDrop` and never dropped (assumption: `Script` is a plain owner of a `Box<[u8]>` and
// the functions under contract only read through it) - this avoids a symbolic-length allocation (README cost rule).
use super::*;
use crate::address::{Address, AddressParams, Payload};
use core::mem::ManuallyDrop;
use std::convert::TryFrom as _;
use bitcoin::hashes::Hash as _;

const N: usize = 45;

/// allocation-free `Script` over `buf[..len]`; never dropped.
fn view(buf: &mut [u8], len: usize) -> ManuallyDrop<Script> {
    let p = core::ptr::slice_from_raw_parts_mut(buf.as_mut_ptr(), len);
    ManuallyDrop::new(Script(unsafe { Box::from_raw(p) }))
}

// ---- byte-pattern specifications, written from the property statement / BIP-16, BIP-141, BIP-341 -------------
fn spec_p2pkh(b: &[u8; N], len: usize) -> bool {
    len == 25 && b[0] == 0x76 && b[1] == 0xa9 && b[2] == 0x14 && b[23] == 0x88 && b[24] == 0xac
}
fn spec_p2sh(b: &[u8; N], len: usize) -> bool {
    len == 23 && b[0] == 0xa9 && b[1] == 0x14 && b[22] == 0x87
}
fn spec_p2pk_short(b: &[u8; N], len: usize) -> bool {
    len == 35 && b[0] == 0x21 && b[34] == 0xac
}
fn spec_version_opcode(op: u8) -> Option<u8> {
    if op == 0 { Some(0) } else if op >= 0x51 && op <= 0x60 { Some(op - 0x50) } else { None }
}
/// witness program: one version opcode (OP_0, OP_1..OP_16), one direct push of 2..=40 bytes, nothing else.
fn spec_witness_program(b: &[u8; N], len: usize) -> Option<(u8, usize)> {
    if len < 4 || len > 42 { return None; }
    let v = match spec_version_opcode(b[0]) { Some(v) => v, None => return None };
    let p = b[1] as usize;
    if p < 2 || p > 40 { return None; }
    if len != p + 2 { return None; }
    Some((v, p))
}

//@ harness: script_template_predicates class=F tier=quick
//@ clause: for every byte string of length 0..=45: is_p2pkh / is_p2sh / is_p2pk / is_witness_program / is_v0_p2wpkh / is_v0_p2wsh / is_v1_p2tr / is_op_return / is_provably_unspendable hold exactly when the bytes have the template form (witness program <=> version opcode in {0x00,0x51..=0x60}, one direct push of 2..=40 bytes, exact length); no predicate panics
#[kani::proof]
fn script_template_predicates() {
    let mut b: [u8; N] = kani::any();
    let len: usize = kani::any();
    kani::assume(len <= N);
    let c = b;
    let s = view(&mut b, len);
    assert!(s.len() == len);
    assert!(s.is_p2pkh() == spec_p2pkh(&c, len));
    assert!(s.is_p2sh() == spec_p2sh(&c, len));
    assert!(s.is_p2pk() == spec_p2pk_short(&c, len));
    let wp = spec_witness_program(&c, len);
    assert!(s.is_witness_program() == wp.is_some());
    assert!(s.is_v0_p2wpkh() == (wp == Some((0, 20))));
    assert!(s.is_v0_p2wsh() == (wp == Some((0, 32))));
    assert!(s.is_v1_p2tr() == (wp == Some((1, 32))));
    assert!(s.is_op_return() == (len >= 1 && c[0] == 0x6a));
    assert!(s.is_provably_unspendable() == (len == 0 || c[0] == 0x6a));
    kani::cover!(s.is_p2pkh());
    kani::cover!(s.is_p2sh());
    kani::cover!(s.is_p2pk());
    kani::cover!(s.is_v1_p2tr());
    kani::cover!(s.is_witness_program() && len == 4);
    kani::cover!(s.is_witness_program() && len == 42 && c[0] == 0x60);
    kani::cover!(len == 0);
    kani::cover!(len == N);
}

//@ harness: script_is_v1plus_p2witprog class=F tier=quick
//@ clause: is_v1plus_p2witprog holds exactly for witness programs of version 1..=16 with a 2..=40-byte program (all byte strings of length 0..=45). Regression check for DESIGN section 6 D7 (the push had no lower bound; failed before the fix with `OP_16 <1 byte>`)
#[kani::proof]
fn script_is_v1plus_p2witprog() {
    let mut b: [u8; N] = kani::any();
    let len: usize = kani::any();
    kani::assume(len <= N);
    let c = b;
    let s = view(&mut b, len);
    let want = match spec_witness_program(&c, len) { Some((v, _)) => v >= 1, None => false };
    assert!(s.is_v1plus_p2witprog() == want);
    // implied by the statement: every v1+ template is a witness program
    assert!(!s.is_v1plus_p2witprog() || s.is_witness_program());
    kani::cover!(want);
    kani::cover!(!want && len == 2);
}

//@ harness: script_p2pk_uncompressed class=F tier=quick
//@ clause: at length 67 (outside the 0..=45 window): is_p2pk <=> 0x41 <65 bytes> OP_CHECKSIG; none of the other templates matches
#[kani::proof]
fn script_p2pk_uncompressed() {
    let mut b: [u8; 67] = kani::any();
    let c = b;
    let s = view(&mut b, 67);
    assert!(s.is_p2pk() == (c[0] == 0x41 && c[66] == 0xac));
    assert!(!s.is_p2pkh() && !s.is_p2sh() && !s.is_witness_program() && !s.is_v1plus_p2witprog());
    assert!(!s.is_v0_p2wpkh() && !s.is_v0_p2wsh() && !s.is_v1_p2tr());
    kani::cover!(s.is_p2pk());
}

//@ harness: script_unspendable_size_limit class=F tier=quick
//@ clause: is_provably_unspendable at the MAX_SCRIPT_SIZE boundary: a 10000-byte script is unspendable iff it starts with OP_RETURN; every 10001-byte script is unspendable (first byte symbolic, rest zero)
#[kani::proof]
fn script_unspendable_size_limit() {
    let first: u8 = kani::any();
    let mut v0 = vec![0u8; 10_000];
    v0[0] = first;
    let s0 = ManuallyDrop::new(Script::from(v0));
    assert!(s0.is_provably_unspendable() == (first == 0x6a));
    let mut v1 = vec![0u8; 10_001];
    v1[0] = first;
    let s1 = ManuallyDrop::new(Script::from(v1));
    assert!(s1.is_provably_unspendable());
    assert!(s1.is_op_return() == (first == 0x6a));
    kani::cover!(first == 0x6a);
    kani::cover!(first != 0x6a);
}

/// the templates for which the statement says an address exists
fn spec_address_template(b: &[u8; N], len: usize) -> bool {
    if spec_p2pkh(b, len) || spec_p2sh(b, len) { return true; }
    match spec_witness_program(b, len) {
        Some((0, p)) => p == 20 || p == 32,
        Some((_, _)) => true,
        None => false,
    }
}

//@ harness: address_from_script_iff_template class=F tier=quick
//@ clause: Address::from_script(script, None, params) is Some exactly for p2pkh, p2sh, v0 witness programs of 20/32 bytes and v1..v16 witness programs of 2..=40 bytes (all byte strings of length 0..=45); the payload carries exactly the hash / version / program bytes of the script (so that, with the address_script_pubkey_* harnesses, script_pubkey() of that address is the original script). Regression check for DESIGN section 6 D7 (before the fix `OP_n OP_0` and `OP_n <1 byte>`, e.g. bytes 60 01 14, yielded an address)
#[kani::proof]
fn address_from_script_iff_template() {
    let mut b: [u8; N] = kani::any();
    let len: usize = kani::any();
    kani::assume(len <= N);
    let c = b;
    let s = view(&mut b, len);
    let r = Address::from_script(&s, None, &AddressParams::ELEMENTS);
    let want = spec_address_template(&c, len);
    let j: usize = kani::any();
    kani::assume(j < 40);
    match r {
        Some(a) => {
            assert!(want, "from_script returned an address for a non-template script");
            assert!(a.blinding_pubkey.is_none());
            match &a.payload {
                Payload::PubkeyHash(h) => {
                    assert!(spec_p2pkh(&c, len));
                    let hb: &[u8] = h.as_ref();
                    assert!(hb.len() == 20 && hb[j % 20] == c[3 + j % 20]);
                }
                Payload::ScriptHash(h) => {
                    assert!(spec_p2sh(&c, len));
                    let hb: &[u8] = h.as_ref();
                    assert!(hb.len() == 20 && hb[j % 20] == c[2 + j % 20]);
                }
                Payload::WitnessProgram { version, program } => {
                    assert!(spec_witness_program(&c, len) == Some((version.to_u8(), program.len())));
                    // every program byte (symbolic index) is the script byte after the two header bytes
                    if j < program.len() { assert!(program[j] == c[2 + j]); }
                }
            }
            core::mem::forget(a);
        }
        None => assert!(!want, "from_script refused a template script"),
    }
    kani::cover!(want && len == 25);
    kani::cover!(want && len == 42);
    kani::cover!(!want && len == 22);
}

/// `script_pubkey` must encode witness versions 0..=16 with the small-integer opcodes; reaching the generic
/// script-number encoder (a loop with a symbolic bound) from there would already be a violation.
fn scriptint_unreachable(_n: i64) -> Vec<u8> {
    assert!(false, "witness version pushed through build_scriptint");
    Vec::new()
}

// script_pubkey() inverts from_script: case split on concrete lengths (the builder allocates and copies).
macro_rules! addr_roundtrip {
    ($name:ident, $len:expr, $unw:literal) => {
        #[kani::proof]
        #[kani::stub(build_scriptint, scriptint_unreachable)]
        #[kani::unwind($unw)] // the program length is concrete on every path but CBMC merges it with the `None` path
        fn $name() {
            const L: usize = $len;
            let mut b: [u8; L] = kani::any();
            let c = b;
            let s = view(&mut b, L);
            match Address::from_script(&s, None, &AddressParams::LIQUID) {
                Some(a) => {
                    let back = ManuallyDrop::new(a.script_pubkey());
                    assert!(back.len() == L);
                    let bb = back.as_bytes();
                    let mut i = 0;
                    while i < L {
                        assert!(bb[i] == c[i]);
                        i += 1;
                    }
                    kani::cover!(true);
                    core::mem::forget(a);
                }
                None => {}
            }
        }
    };
}
//@ harness: address_script_roundtrip_l23 class=F tier=thorough timeout=1200
//@ clause: whenever from_script yields an address, address.script_pubkey() is byte-identical to the script: all 23-byte scripts (p2sh, v1+ with 21-byte program)
addr_roundtrip!(address_script_roundtrip_l23, 23, 26);
//@ harness: address_script_roundtrip_l25 class=F tier=thorough timeout=1200
//@ clause: same, all 25-byte scripts (p2pkh, v1+ with 23-byte program)
addr_roundtrip!(address_script_roundtrip_l25, 25, 28);
//@ harness: address_script_roundtrip_l22 class=F tier=thorough timeout=1200
//@ clause: same, all 22-byte scripts (v0 p2wpkh, v1+ with 20-byte program)
addr_roundtrip!(address_script_roundtrip_l22, 22, 25);
//@ harness: address_script_roundtrip_l04 class=F tier=quick
//@ clause: same, all 4-byte scripts (shortest witness program)
addr_roundtrip!(address_script_roundtrip_l04, 4, 7);

// ---- script_pubkey() on each payload kind (second half of the round trip, no Option merge, concrete lengths) ----
fn any_witver() -> (u8, bech32::Fe32) {
    let v: u8 = kani::any();
    kani::assume(v <= 16);
    match bech32::Fe32::try_from(v) {
        Ok(f) => (v, f),
        Err(_) => { kani::assume(false); (0, bech32::Fe32::Q) }
    }
}

macro_rules! spk_witness {
    ($name:ident, $len:expr, $unw:literal) => {
        #[kani::proof]
        #[kani::stub(build_scriptint, scriptint_unreachable)]
        #[kani::unwind($unw)] // iterating a heap-allocated slice (the program Vec) is not constant-bounded for CBMC
        fn $name() {
            const L: usize = $len;
            let prog: [u8; L] = kani::any();
            let (v, fe) = any_witver();
            let a = ManuallyDrop::new(Address {
                params: &AddressParams::ELEMENTS,
                payload: Payload::WitnessProgram { version: fe, program: prog.to_vec() },
                blinding_pubkey: None,
            });
            let s = ManuallyDrop::new(a.script_pubkey());
            let out = s.as_bytes();
            assert!(out.len() == L + 2);
            assert!(out[0] == if v == 0 { 0 } else { 0x50 + v });
            assert!(out[1] as usize == L);
            let j: usize = kani::any();
            kani::assume(j < L);
            assert!(out[2 + j] == prog[j]);
            // and it is recognised again as the same template
            assert!(s.is_witness_program());
            kani::cover!(v == 16);
            kani::cover!(v == 0);
        }
    };
}
//@ harness: address_script_pubkey_wit_l02 class=F tier=quick
//@ clause: script_pubkey() of a witness-program address (every version 0..=16, every 2-byte program) is `<version opcode> <push 2> <program>`: small-integer opcode for the version (never the generic script-number encoder), direct push, program verbatim
spk_witness!(address_script_pubkey_wit_l02, 2, 4);
//@ harness: address_script_pubkey_wit_l20 class=F tier=quick
//@ clause: same, every 20-byte program (p2wpkh and v1+)
spk_witness!(address_script_pubkey_wit_l20, 20, 22);
//@ harness: address_script_pubkey_wit_l32 class=F tier=thorough
//@ clause: same, every 32-byte program (p2wsh, p2tr and v2+)
spk_witness!(address_script_pubkey_wit_l32, 32, 34);
//@ harness: address_script_pubkey_wit_l40 class=F tier=thorough
//@ clause: same, every 40-byte program (longest)
spk_witness!(address_script_pubkey_wit_l40, 40, 42);

//@ harness: address_script_pubkey_hashes class=F tier=quick
//@ clause: script_pubkey() of a p2pkh address is `76 a9 14 <hash> 88 ac`, of a p2sh address `a9 14 <hash> 87`, for every 20-byte hash; both are recognised again by is_p2pkh / is_p2sh
#[kani::proof]
fn address_script_pubkey_hashes() {
    let h: [u8; 20] = kani::any();
    let j: usize = kani::any();
    kani::assume(j < 20);
    let a = ManuallyDrop::new(Address {
        params: &AddressParams::LIQUID,
        payload: Payload::PubkeyHash(PubkeyHash::from_byte_array(h)),
        blinding_pubkey: None,
    });
    let s = ManuallyDrop::new(a.script_pubkey());
    let o = s.as_bytes();
    assert!(o.len() == 25 && o[0] == 0x76 && o[1] == 0xa9 && o[2] == 0x14 && o[23] == 0x88 && o[24] == 0xac);
    assert!(o[3 + j] == h[j]);
    assert!(s.is_p2pkh());
    let a2 = ManuallyDrop::new(Address {
        params: &AddressParams::LIQUID,
        payload: Payload::ScriptHash(ScriptHash::from_byte_array(h)),
        blinding_pubkey: None,
    });
    let s2 = ManuallyDrop::new(a2.script_pubkey());
    let o2 = s2.as_bytes();
    assert!(o2.len() == 23 && o2[0] == 0xa9 && o2[1] == 0x14 && o2[22] == 0x87);
    assert!(o2[2 + j] == h[j]);
    assert!(s2.is_p2sh());
    kani::cover!(true);
}
