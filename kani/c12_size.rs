//@ property: C12
//@ mount: src/transaction.rs
//@ functions: src/transaction.rs::Transaction::scaled_size, src/transaction.rs::Transaction::size, src/transaction.rs::Transaction::weight, src/transaction.rs::Transaction::vsize, src/transaction.rs::Transaction::discount_weight, src/transaction.rs::Transaction::discount_vsize, src/transaction.rs::Transaction::has_witness, src/transaction.rs::TxOutWitness::rangeproof_len, src/transaction.rs::TxOutWitness::surjectionproof_len, src/transaction.rs::Transaction::consensus_encode
// Assumptions: support/c01_ffi_models.rs (commitment serialize writes 33 bytes; proof length = length of the parsed
// byte string).  Every length comparison is against the REAL encoder writing into a counting sink.
// Written argument (not machine-checked): the per-input and per-output summands of scaled_size are independent, so two
// of each exercise every path of the map(..).sum() closures.
use super::*;
use crate::encode::Encodable;
use secp256k1_zkp::ffi as zffi;

#[path = "support/sinks.rs"]
mod sinks;
use sinks::{forget, CountSink};
#[path = "support/c01_ffi_models.rs"]
mod ffi_models;
#[path = "support/c01_spec.rs"]
mod spec;

macro_rules! ffi_proof {
    (fn $name:ident() $body:block) => {
        #[kani::proof]
        #[kani::unwind(3)] // scaled_size uses iter().map().sum() (slice::Iter::fold), whose trip count CBMC cannot constant-fold; every loop in these harnesses runs <= 2 times (unwinding assertions on)
        #[kani::stub(zffi::secp256k1_pedersen_commitment_parse, ffi_models::pedersen_commitment_parse)]
        #[kani::stub(zffi::secp256k1_pedersen_commitment_serialize, ffi_models::pedersen_commitment_serialize)]
        #[kani::stub(zffi::secp256k1_generator_parse, ffi_models::generator_parse)]
        #[kani::stub(zffi::secp256k1_generator_serialize, ffi_models::generator_serialize)]
        #[kani::stub(zffi::secp256k1_ec_pubkey_parse, ffi_models::ec_pubkey_parse)]
        #[kani::stub(zffi::secp256k1_ec_pubkey_serialize, ffi_models::ec_pubkey_serialize)]
        #[kani::stub(zffi::secp256k1_rangeproof_info, ffi_models::rangeproof_info)]
        #[kani::stub(zffi::secp256k1_surjectionproof_parse, ffi_models::surjectionproof_parse)]
        #[kani::stub(zffi::secp256k1_surjectionproof_serialize, ffi_models::surjectionproof_serialize)]
        #[kani::stub(zffi::secp256k1_surjectionproof_serialized_size, ffi_models::surjectionproof_serialized_size)]
        fn $name() $body
    };
}

/// real encoder into a counting sink; also checks "reported length == bytes written"
fn enc_len<T: Encodable>(v: &T) -> usize {
    let mut s = CountSink(0);
    match v.consensus_encode(&mut s) {
        Ok(n) => { assert!(n == s.0); n }
        Err(e) => { forget(e); assert!(false); 0 }
    }
}

fn rangeproof(n: usize) -> Option<Box<RangeProof>> {
    if n == 0 { return None; }
    let v = vec![0u8; n];
    let r = match RangeProof::from_slice(&v) {
        Ok(p) => Some(Box::new(p)),
        Err(e) => { forget(e); kani::assume(false); None }
    };
    forget(v);
    r
}
fn surjproof(n: usize) -> Option<Box<SurjectionProof>> {
    if n == 0 { return None; }
    let v = vec![0u8; n];
    let r = match SurjectionProof::from_slice(&v) {
        Ok(p) => Some(Box::new(p)),
        Err(e) => { forget(e); kani::assume(false); None }
    };
    forget(v);
    r
}

/// witness-stack shape: up to two items of the given lengths (usize::MAX = absent)
const NO: usize = usize::MAX;
fn stack(a: usize, b: usize) -> Vec<Vec<u8>> {
    let mut v = Vec::with_capacity(2);
    if a != NO { v.push(vec![0u8; a]); }
    if b != NO { v.push(vec![0u8; b]); }
    v
}

/// an input whose *structural* features are symbolic (pegin, issuance / reissuance, null / explicit / confidential
/// amounts, index incl. the null outpoint) and whose variable-length fields have the given concrete lengths
fn mk_in(script: usize, arp: usize, krp: usize, sw0: usize, sw1: usize, pw0: usize) -> TxIn {
    let issuance = if kani::any() {
        let i = AssetIssuance {
            asset_blinding_nonce: secp256k1_zkp::ZERO_TWEAK,
            asset_entropy: [0u8; 32],
            amount: spec::any_value(),
            inflation_keys: spec::any_value(),
        };
        kani::assume(!(i.amount.is_null() && i.inflation_keys.is_null()));
        i
    } else {
        AssetIssuance::null()
    };
    TxIn {
        previous_output: OutPoint { txid: Txid::from_byte_array([0u8; 32]), vout: kani::any() },
        is_pegin: kani::any(),
        script_sig: Script::from(vec![0u8; script]),
        sequence: Sequence(kani::any()),
        asset_issuance: issuance,
        witness: TxInWitness {
            amount_rangeproof: rangeproof(arp),
            inflation_keys_rangeproof: rangeproof(krp),
            script_witness: stack(sw0, sw1),
            pegin_witness: stack(pw0, NO),
        },
    }
}
fn mk_out(script: usize, sp: usize, rp: usize) -> TxOut {
    TxOut {
        asset: spec::any_asset(),
        value: spec::any_value(),
        nonce: spec::any_nonce(),
        script_pubkey: Script::from(vec![0u8; script]),
        witness: TxOutWitness { surjection_proof: surjproof(sp), rangeproof: rangeproof(rp) },
    }
}

/// The C12 contract for one transaction. Consumes (forgets) the transaction.
fn check_tx(mut tx: Transaction) {
    let size = tx.size();
    let weight = tx.weight();
    let vsize = tx.vsize();
    let dweight = tx.discount_weight();
    let dvsize = tx.discount_vsize();
    let hw = tx.has_witness();
    let full = enc_len(&tx);
    // discount, from the property text: per output, witness bytes beyond the two of an empty witness,
    // 4*(33-9) for a confidential value, 4*(33-1) for a confidential nonce
    let mut disc = 0usize;
    let no = tx.output.len();
    let mut j = 0;
    while j < no {
        let o = &tx.output[j];
        let wb = if hw { enc_len(&o.witness) } else { 0 };
        assert!(o.witness.rangeproof_len() + o.witness.surjectionproof_len() + 2 <= enc_len(&o.witness));
        disc += if wb > 2 { wb - 2 } else { 0 };
        if matches!(o.value, confidential::Value::Confidential(_)) { disc += 96; }
        if matches!(o.nonce, confidential::Nonce::Confidential(_)) { disc += 128; }
        j += 1;
    }
    // strip every witness in place
    let ni = tx.input.len();
    let mut i = 0;
    while i < ni {
        forget(core::mem::replace(&mut tx.input[i].witness, TxInWitness::empty()));
        i += 1;
    }
    let mut k = 0;
    while k < no {
        forget(core::mem::replace(&mut tx.output[k].witness, TxOutWitness::empty()));
        k += 1;
    }
    assert!(!tx.has_witness());
    let stripped = enc_len(&tx);

    assert!(size == full);
    assert!(weight == 3 * stripped + full);
    assert!(vsize == (weight + 3) / 4);
    assert!(disc <= weight);
    assert!(dweight == weight - disc);
    assert!(dvsize == (dweight + 3) / 4);
    if hw { assert!(full > stripped); } else { assert!(full == stripped); }
    // the stripped transaction itself
    assert!(tx.size() == stripped && tx.weight() == 4 * stripped);
    forget(tx);
}

fn mk_tx(input: Vec<TxIn>, output: Vec<TxOut>) -> Transaction {
    Transaction { version: kani::any(), lock_time: LockTime::from_consensus(kani::any()), input, output }
}

//@ harness: size_tx_empty class=F tier=quick bound="0 inputs, 0 outputs"
//@ clause: the transaction with no inputs and no outputs: size == serialized length (11), weight == 4*size, vsize == size, discount figures equal the plain ones
#[kani::proof]
fn size_tx_empty() {
    let tx = mk_tx(Vec::new(), Vec::new());
    assert!(tx.size() == 11);
    check_tx(tx);
    kani::cover!(true);
}

//@ harness: size_tx_nowit_1x1 class=B tier=quick bound="1 input (script 1 byte), 1 output (script 2 bytes), no witness; all structural features symbolic"
//@ clause: size == len(serialize), weight == 3*len(stripped)+len(full) == 4*size, vsize == ceil(weight/4), discount_weight == weight - 96*[value confidential] - 128*[nonce confidential] with no underflow, for every pegin/issuance/null-explicit-confidential combination
ffi_proof! {
fn size_tx_nowit_1x1() {
    ffi_models::init_accept_all();
    let mut i = Vec::with_capacity(1);
    i.push(mk_in(1, 0, 0, NO, NO, NO));
    let mut o = Vec::with_capacity(1);
    o.push(mk_out(2, 0, 0));
    let tx = mk_tx(i, o);
    kani::cover!(tx.input[0].has_issuance() && tx.output[0].value.is_confidential() && tx.output[0].nonce.is_confidential());
    kani::cover!(!tx.input[0].has_issuance() && tx.output[0].nonce.is_null());
    assert!(!tx.has_witness());
    check_tx(tx);
}
}

//@ harness: size_tx_inwit_2x1 class=B tier=thorough bound="2 inputs (scripts 0 and 2 bytes; witness: amount proof 3, keys proof 0/2, script witness [1,0] / [], pegin witness [2] / []), 1 output without witness" timeout=900
//@ clause: witness only on inputs: same contract; the output witness contributes exactly the 2 bytes of an empty witness and is not discounted
ffi_proof! {
fn size_tx_inwit_2x1() {
    ffi_models::init_accept_all();
    let mut i = Vec::with_capacity(2);
    i.push(mk_in(0, 3, 0, 1, 0, 2));
    i.push(mk_in(2, 0, 2, NO, NO, NO));
    let mut o = Vec::with_capacity(1);
    o.push(mk_out(1, 0, 0));
    let tx = mk_tx(i, o);
    assert!(tx.has_witness());
    kani::cover!(tx.input[0].has_issuance() && !tx.input[1].has_issuance());
    check_tx(tx);
}
}

//@ harness: size_tx_outwit_1x2 class=B tier=thorough bound="1 input without witness, 2 outputs (scripts 0 and 3 bytes; witness: surjection 2 + range 3 / only range 1)" timeout=900
//@ clause: witness only on outputs: same contract; discount_weight subtracts, per output, (its witness bytes - 2) + 96*[value confidential] + 128*[nonce confidential]
ffi_proof! {
fn size_tx_outwit_1x2() {
    ffi_models::init_accept_all();
    let mut i = Vec::with_capacity(1);
    i.push(mk_in(1, 0, 0, NO, NO, NO));
    let mut o = Vec::with_capacity(2);
    o.push(mk_out(0, 2, 3));
    o.push(mk_out(3, 0, 1));
    let tx = mk_tx(i, o);
    assert!(tx.has_witness());
    kani::cover!(tx.output[0].value.is_confidential() && tx.output[1].value.is_explicit());
    check_tx(tx);
}
}

//@ harness: size_tx_bothwit_2x2 class=B tier=thorough bound="2 inputs, 2 outputs, witnesses on one input and one output, small concrete lengths" timeout=900
//@ clause: witnesses on both sides, plus one input and one output with an empty witness inside a witness-carrying transaction (each still serializes its 4 resp. 2 empty-witness bytes)
ffi_proof! {
fn size_tx_bothwit_2x2() {
    ffi_models::init_accept_all();
    let mut i = Vec::with_capacity(2);
    i.push(mk_in(1, 0, 0, NO, NO, NO));
    i.push(mk_in(0, 2, 1, 0, NO, NO));
    let mut o = Vec::with_capacity(2);
    o.push(mk_out(1, 0, 0));
    o.push(mk_out(2, 1, 2));
    let tx = mk_tx(i, o);
    assert!(tx.has_witness());
    kani::cover!(true);
    check_tx(tx);
}
}

/// one field at a time at a varint boundary length; everything else minimal. 1 input, 1 output.
macro_rules! boundary_harness {
    ($name:ident, $l:expr, $surj:expr) => {
        ffi_proof! {
        fn $name() {
            ffi_models::init_accept_all();
            ffi_models::surj_len_only_mode();
            const L: usize = $l;
            // which single field takes the boundary length: 0 script_sig, 1 script_pubkey, 2 script-witness item,
            // 3 pegin-witness item, 4 input amount proof, 5 output range proof, 6 output surjection proof
            let mut f = 0;
            while f < 7 {
                if f == 6 && !$surj { f += 1; continue; }
                let mut i = Vec::with_capacity(1);
                i.push(mk_in(
                    if f == 0 { L } else { 1 },
                    if f == 4 { L } else { 0 },
                    0,
                    if f == 2 { L } else { NO },
                    NO,
                    if f == 3 { L } else { NO },
                ));
                let mut o = Vec::with_capacity(1);
                o.push(mk_out(if f == 1 { L } else { 1 }, if f == 6 { L } else { 0 }, if f == 5 { L } else { 0 }));
                let tx = mk_tx(i, o);
                assert!(tx.has_witness() == (f >= 2));
                check_tx(tx);
                f += 1;
            }
            kani::cover!(true);
        }
        }
    };
}

//@ harness: size_tx_boundary_fc class=B tier=thorough bound="1 input, 1 output; one of 7 variable-length fields at a time has length 0xFC" timeout=900
//@ clause: the same contract with a field length just below the 1->3 byte varint boundary, for script_sig, script_pubkey, a script-witness item, a pegin-witness item, an input range proof, an output range proof, an output surjection proof
boundary_harness!(size_tx_boundary_fc, 0xFC, true);
//@ harness: size_tx_boundary_fd class=B tier=thorough bound="1 input, 1 output; one of 7 fields at a time has length 0xFD" timeout=900
//@ clause: same, first length with a 3-byte varint
boundary_harness!(size_tx_boundary_fd, 0xFD, true);
//@ harness: size_tx_boundary_ffff class=B tier=thorough bound="1 input, 1 output; one of 6 fields at a time has length 0xFFFF (surjection proofs cannot be that long)" timeout=900
//@ clause: same, last length with a 3-byte varint
boundary_harness!(size_tx_boundary_ffff, 0xFFFF, false);
//@ harness: size_tx_boundary_10000 class=B tier=thorough bound="1 input, 1 output; one of 6 fields at a time has length 0x10000" timeout=900
//@ clause: same, first length with a 5-byte varint
boundary_harness!(size_tx_boundary_10000, 0x10000, false);

//@ harness: txoutwitness_lens class=B tier=quick bound="surjection proof length in {0,2,8}, range proof length in {0,1,0xFD}"
//@ clause: TxOutWitness::rangeproof_len / surjectionproof_len are 0 for an absent proof and otherwise the serialized proof length, so the witness serializes to varint(len)+len for each
ffi_proof! {
fn txoutwitness_lens() {
    ffi_models::init_accept_all();
    let w = TxOutWitness { surjection_proof: surjproof(8), rangeproof: rangeproof(0xFD) };
    assert!(w.surjectionproof_len() == 8 && w.rangeproof_len() == 0xFD);
    assert!(enc_len(&w) == 1 + 8 + 3 + 0xFD);
    forget(w);
    let w = TxOutWitness { surjection_proof: surjproof(2), rangeproof: rangeproof(0) };
    assert!(w.surjectionproof_len() == 2 && w.rangeproof_len() == 0 && !w.is_empty());
    assert!(enc_len(&w) == 1 + 2 + 1);
    forget(w);
    let w = TxOutWitness { surjection_proof: surjproof(0), rangeproof: rangeproof(1) };
    assert!(w.surjectionproof_len() == 0 && w.rangeproof_len() == 1 && !w.is_empty());
    assert!(enc_len(&w) == 1 + 1 + 1);
    forget(w);
    let w = TxOutWitness::empty();
    assert!(w.surjectionproof_len() == 0 && w.rangeproof_len() == 0 && w.is_empty() && enc_len(&w) == 2);
    kani::cover!(true);
}
}

// ---- experiments (to be removed) ----
ffi_proof! {
fn exp_conc_1x1() {
    ffi_models::init_accept_all();
    let inp = TxIn {
        previous_output: OutPoint { txid: Txid::from_byte_array([0u8; 32]), vout: 1 },
        is_pegin: false,
        script_sig: Script::from(vec![0u8; 1]),
        sequence: Sequence(0),
        asset_issuance: AssetIssuance::null(),
        witness: TxInWitness { amount_rangeproof: None, inflation_keys_rangeproof: None, script_witness: stack(NO, NO), pegin_witness: stack(NO, NO) },
    };
    let out = TxOut { asset: confidential::Asset::Null, value: confidential::Value::Explicit(5), nonce: confidential::Nonce::Null,
        script_pubkey: Script::from(vec![0u8; 2]), witness: TxOutWitness::empty() };
    let mut i = Vec::with_capacity(1); i.push(inp);
    let mut o = Vec::with_capacity(1); o.push(out);
    let tx = mk_tx(i, o);
    check_tx(tx);
}
}
ffi_proof! {
fn exp_symscalar_1x1() {
    ffi_models::init_accept_all();
    let inp = TxIn {
        previous_output: OutPoint { txid: Txid::from_byte_array([0u8; 32]), vout: kani::any() },
        is_pegin: kani::any(),
        script_sig: Script::from(vec![0u8; 1]),
        sequence: Sequence(kani::any()),
        asset_issuance: AssetIssuance::null(),
        witness: TxInWitness { amount_rangeproof: None, inflation_keys_rangeproof: None, script_witness: stack(NO, NO), pegin_witness: stack(NO, NO) },
    };
    let out = TxOut { asset: confidential::Asset::Null, value: confidential::Value::Explicit(kani::any()), nonce: confidential::Nonce::Null,
        script_pubkey: Script::from(vec![0u8; 2]), witness: TxOutWitness::empty() };
    let mut i = Vec::with_capacity(1); i.push(inp);
    let mut o = Vec::with_capacity(1); o.push(out);
    let tx = mk_tx(i, o);
    check_tx(tx);
}
}
