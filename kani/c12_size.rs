//@ property: C12
//@ mount: src/transaction.rs
//@ functions: src/transaction.rs::Transaction::scaled_size, src/transaction.rs::Transaction::size, src/transaction.rs::Transaction::weight, src/transaction.rs::Transaction::vsize, src/transaction.rs::Transaction::discount_weight, src/transaction.rs::Transaction::discount_vsize, src/transaction.rs::Transaction::has_witness, src/transaction.rs::TxOutWitness::rangeproof_len, src/transaction.rs::TxOutWitness::surjectionproof_len, src/transaction.rs::Transaction::consensus_encode
// Assumptions: support/c01_ffi_models.rs (commitment serialize writes 33 bytes; proof length = length of the parsed
// byte string).  Every length comparison is against the REAL encoder writing into a counting sink.
// Written argument (not machine-checked): the per-input and per-output summands of scaled_size are independent, so two
// of each exercise every path of the map(..).sum() closures.
// NOT RUN (`//@ unregistered-harness:`): harnesses that did not finish within 30 minutes of CBMC (measured on 16 cores, 5 in parallel).
use super::*;
use crate::encode::Encodable;
use secp256k1_zkp::ffi as zffi;

#[path = "support/sinks.rs"]
mod sinks;
use sinks::{forget, CountSink};
use core::mem::ManuallyDrop;
#[path = "support/c01_ffi_models.rs"]
mod ffi_models;
#[path = "support/c01_spec.rs"]
mod spec;

macro_rules! ffi_proof {
    (fn $name:ident() $body:block) => {
        #[kani::proof]
        #[kani::unwind(3)] // scaled_size uses iter().map().sum() (slice::Iter::fold), whose trip count CBMC cannot constant-fold; every loop in these harnesses runs <= 2 times (unwinding assertions on)
        #[kani::stub(zffi::secp256k1_pedersen_commitment_parse, ffi_models::pedersen_commitment_parse)]
        #[kani::stub(zffi::secp256k1_pedersen_commitment_serialize, ffi_models::pedersen_commitment_serialize)]
        #[kani::stub(zffi::secp256k1_generator_parse, ffi_models::generator_parse)]
        #[kani::stub(zffi::secp256k1_generator_serialize, ffi_models::generator_serialize)]
        #[kani::stub(zffi::secp256k1_ec_pubkey_parse, ffi_models::ec_pubkey_parse)]
        #[kani::stub(zffi::secp256k1_ec_pubkey_serialize, ffi_models::ec_pubkey_serialize)]
        #[kani::stub(zffi::secp256k1_rangeproof_info, ffi_models::rangeproof_info)]
        #[kani::stub(zffi::secp256k1_surjectionproof_parse, ffi_models::surjectionproof_parse)]
        #[kani::stub(zffi::secp256k1_surjectionproof_serialize, ffi_models::surjectionproof_serialize)]
        #[kani::stub(zffi::secp256k1_surjectionproof_serialized_size, ffi_models::surjectionproof_serialized_size)]
        fn $name() $body
    };
}

/// real encoder into a counting sink; also checks "reported length == bytes written"
fn enc_len<T: Encodable>(v: &T) -> usize {
    let mut s = CountSink(0);
    match v.consensus_encode(&mut s) {
        Ok(n) => { assert!(n == s.0); n }
        Err(e) => { forget(e); assert!(false); 0 }
    }
}

fn rangeproof(n: usize) -> Option<Box<RangeProof>> {
    if n == 0 { return None; }
    let v = vec![0u8; n];
    let r = match RangeProof::from_slice(&v) {
        Ok(p) => Some(Box::new(p)),
        Err(e) => { forget(e); kani::assume(false); None }
    };
    forget(v);
    r
}
fn surjproof(n: usize) -> Option<Box<SurjectionProof>> {
    if n == 0 { return None; }
    let v = vec![0u8; n];
    let r = match SurjectionProof::from_slice(&v) {
        Ok(p) => Some(Box::new(p)),
        Err(e) => { forget(e); kani::assume(false); None }
    };
    forget(v);
    r
}

/// witness-stack shape: up to two items of the given lengths (NO = absent). The item headers live in a typed array.
const NO: usize = usize::MAX;
macro_rules! stack {
    ($store:ident, $a:expr, $b:expr) => {
        let mut $store = ManuallyDrop::new([vec![0u8; if $a == NO { 0 } else { $a }], vec![0u8; if $b == NO { 0 } else { $b }]]);
    };
}
fn stack_vec(store: &mut ManuallyDrop<[Vec<u8>; 2]>, a: usize, b: usize) -> Vec<Vec<u8>> {
    let n = if a == NO { 0 } else if b == NO { 1 } else { 2 };
    if n == 0 { return Vec::new(); }
    unsafe { Vec::from_raw_parts(store.as_mut_ptr() as *mut Vec<u8>, n, 2) }
}

/// an input whose *structural* features are symbolic (pegin, issuance / reissuance, null / explicit / confidential
/// amounts, index incl. the null outpoint) and whose variable-length fields have the given concrete lengths
fn mk_in(script: usize, arp: usize, krp: usize, sw: Vec<Vec<u8>>, pw: Vec<Vec<u8>>) -> TxIn {
    let issuance = if kani::any() {
        let i = AssetIssuance {
            asset_blinding_nonce: secp256k1_zkp::ZERO_TWEAK,
            asset_entropy: [0u8; 32],
            amount: spec::any_value(),
            inflation_keys: spec::any_value(),
        };
        kani::assume(!(i.amount.is_null() && i.inflation_keys.is_null()));
        i
    } else {
        AssetIssuance::null()
    };
    TxIn {
        previous_output: OutPoint { txid: Txid::from_byte_array([0u8; 32]), vout: kani::any() },
        is_pegin: kani::any(),
        script_sig: Script::from(vec![0u8; script]),
        sequence: Sequence(kani::any()),
        asset_issuance: issuance,
        witness: TxInWitness {
            amount_rangeproof: rangeproof(arp),
            inflation_keys_rangeproof: rangeproof(krp),
            script_witness: sw,
            pegin_witness: pw,
        },
    }
}
fn mk_out(script: usize, sp: usize, rp: usize) -> TxOut {
    TxOut {
        asset: spec::any_asset(),
        value: spec::any_value(),
        nonce: spec::any_nonce(),
        script_pubkey: Script::from(vec![0u8; script]),
        witness: TxOutWitness { surjection_proof: surjproof(sp), rangeproof: rangeproof(rp) },
    }
}

/// The C12 contract for one transaction. Consumes (forgets) the transaction.
fn check_tx(mut tx: Transaction) {
    let size = tx.size();
    let weight = tx.weight();
    let vsize = tx.vsize();
    let dweight = tx.discount_weight();
    let dvsize = tx.discount_vsize();
    let hw = tx.has_witness();
    let full = enc_len(&tx);
    // discount, from the property text: per output, witness bytes beyond the two of an empty witness,
    // 4*(33-9) for a confidential value, 4*(33-1) for a confidential nonce
    let mut disc = 0usize;
    let no = tx.output.len();
    let mut j = 0;
    while j < no {
        let o = &tx.output[j];
        let wlen = enc_len(&o.witness);
        let wb = if hw { wlen } else { 0 };
        assert!(o.witness.rangeproof_len() + o.witness.surjectionproof_len() + 2 <= wlen);
        disc += if wb > 2 { wb - 2 } else { 0 };
        if matches!(o.value, confidential::Value::Confidential(_)) { disc += 96; }
        if matches!(o.nonce, confidential::Nonce::Confidential(_)) { disc += 128; }
        j += 1;
    }
    // strip every witness in place
    let ni = tx.input.len();
    let mut i = 0;
    while i < ni {
        forget(core::mem::replace(&mut tx.input[i].witness, TxInWitness::empty()));
        i += 1;
    }
    let mut k = 0;
    while k < no {
        forget(core::mem::replace(&mut tx.output[k].witness, TxOutWitness::empty()));
        k += 1;
    }
    assert!(!tx.has_witness());
    let stripped = enc_len(&tx);

    assert!(size == full);
    assert!(weight == 3 * stripped + full);
    assert!(vsize == (weight + 3) / 4);
    assert!(disc <= weight);
    assert!(dweight == weight - disc);
    assert!(dvsize == (dweight + 3) / 4);
    if hw { assert!(full > stripped); } else { assert!(full == stripped); }
    // the stripped transaction itself
    assert!(tx.size() == stripped && tx.weight() == 4 * stripped);
    forget(tx);
}

fn mk_tx(input: Vec<TxIn>, output: Vec<TxOut>) -> Transaction {
    Transaction { version: kani::any(), lock_time: LockTime::from_consensus(kani::any()), input, output }
}

//@ harness: size_tx_empty class=F tier=quick bound="0 inputs, 0 outputs"
//@ clause: the transaction with no inputs and no outputs: size == serialized length (11), weight == 4*size, vsize == size, discount figures equal the plain ones
#[kani::proof]
#[kani::unwind(3)]
fn size_tx_empty() {
    let tx = mk_tx(Vec::new(), Vec::new());
    assert!(tx.size() == 11);
    check_tx(tx);
    kani::cover!(true);
}

//@ harness: size_tx_nowit_1x1 class=B tier=thorough bound="1 input (script 1 byte), 1 output (script 2 bytes), no witness; all structural features symbolic" timeout=3000
//@ clause: size == len(serialize), weight == 3*len(stripped)+len(full) == 4*size, vsize == ceil(weight/4), discount_weight == weight - 96*[value confidential] - 128*[nonce confidential] with no underflow, for every pegin/issuance/null-explicit-confidential combination
ffi_proof! {
fn size_tx_nowit_1x1() {
    ffi_models::init_accept_all();
    let mut ins = ManuallyDrop::new([mk_in(1, 0, 0, Vec::new(), Vec::new())]);
    let mut outs = ManuallyDrop::new([mk_out(2, 0, 0)]);
    let tx = mk_tx(unsafe { spec::vec_over(&mut ins) }, unsafe { spec::vec_over(&mut outs) });
    kani::cover!(tx.input[0].has_issuance() && tx.output[0].value.is_confidential() && tx.output[0].nonce.is_confidential());
    kani::cover!(!tx.input[0].has_issuance() && tx.output[0].nonce.is_null());
    assert!(!tx.has_witness());
    check_tx(tx);
}
}

//@ harness: size_tx_inwit_2x1 class=B tier=thorough bound="2 inputs (scripts 0 and 2 bytes; witness: amount proof 3, keys proof 0/2, script witness [1,0] / [], pegin witness [2] / []), 1 output without witness" timeout=3000
//@ clause: witness only on inputs: same contract; the output witness contributes exactly the 2 bytes of an empty witness and is not discounted
ffi_proof! {
fn size_tx_inwit_2x1() {
    ffi_models::init_accept_all();
    stack!(s0, 1, 0);
    stack!(p0, 2, NO);
    let mut ins = ManuallyDrop::new([
        mk_in(0, 3, 0, stack_vec(&mut s0, 1, 0), stack_vec(&mut p0, 2, NO)),
        mk_in(2, 0, 2, Vec::new(), Vec::new()),
    ]);
    let mut outs = ManuallyDrop::new([mk_out(1, 0, 0)]);
    let tx = mk_tx(unsafe { spec::vec_over(&mut ins) }, unsafe { spec::vec_over(&mut outs) });
    assert!(tx.has_witness());
    kani::cover!(tx.input[0].has_issuance() && !tx.input[1].has_issuance());
    check_tx(tx);
}
}

//@ harness: size_tx_outwit_1x2 class=B tier=thorough bound="1 input without witness, 2 outputs (scripts 0 and 3 bytes; witness: surjection 2 + range 3 / only range 1)" timeout=3000
//@ clause: witness only on outputs: same contract; discount_weight subtracts, per output, (its witness bytes - 2) + 96*[value confidential] + 128*[nonce confidential]
ffi_proof! {
fn size_tx_outwit_1x2() {
    ffi_models::init_accept_all();
    let mut ins = ManuallyDrop::new([mk_in(1, 0, 0, Vec::new(), Vec::new())]);
    let mut outs = ManuallyDrop::new([mk_out(0, 2, 3), mk_out(3, 0, 1)]);
    let tx = mk_tx(unsafe { spec::vec_over(&mut ins) }, unsafe { spec::vec_over(&mut outs) });
    assert!(tx.has_witness());
    kani::cover!(tx.output[0].value.is_confidential() && tx.output[1].value.is_explicit());
    check_tx(tx);
}
}

//@ harness: size_tx_bothwit_2x2 class=B tier=thorough bound="2 inputs, 2 outputs, witnesses on one input and one output, small concrete lengths" timeout=3000
//@ clause: witnesses on both sides, plus one input and one output with an empty witness inside a witness-carrying transaction (each still serializes its 4 resp. 2 empty-witness bytes)
ffi_proof! {
fn size_tx_bothwit_2x2() {
    ffi_models::init_accept_all();
    stack!(s1, 0, NO);
    let mut ins = ManuallyDrop::new([
        mk_in(1, 0, 0, Vec::new(), Vec::new()),
        mk_in(0, 2, 1, stack_vec(&mut s1, 0, NO), Vec::new()),
    ]);
    let mut outs = ManuallyDrop::new([mk_out(1, 0, 0), mk_out(2, 1, 2)]);
    let tx = mk_tx(unsafe { spec::vec_over(&mut ins) }, unsafe { spec::vec_over(&mut outs) });
    assert!(tx.has_witness());
    kani::cover!(true);
    check_tx(tx);
}
}

/// one field at a time at a varint boundary length; everything else minimal. 1 input, 1 output.
/// f: 0 script_sig, 1 script_pubkey, 2 script-witness item, 3 pegin-witness item, 4 input amount proof,
/// 5 output range proof, 6 output surjection proof
fn one_field(f: usize, l: usize) {
    stack!(s, if f == 2 { l } else { NO }, NO);
    stack!(p, if f == 3 { l } else { NO }, NO);
    let sw = stack_vec(&mut s, if f == 2 { l } else { NO }, NO);
    let pw = stack_vec(&mut p, if f == 3 { l } else { NO }, NO);
    let mut ins = ManuallyDrop::new([mk_in(if f == 0 { l } else { 1 }, if f == 4 { l } else { 0 }, 0, sw, pw)]);
    let mut outs = ManuallyDrop::new([mk_out(if f == 1 { l } else { 1 }, if f == 6 { l } else { 0 }, if f == 5 { l } else { 0 })]);
    let tx = mk_tx(unsafe { spec::vec_over(&mut ins) }, unsafe { spec::vec_over(&mut outs) });
    assert!(tx.has_witness() == (f >= 2));
    check_tx(tx);
}

macro_rules! boundary_harness {
    ($name:ident, $l:expr, $f0:expr, $f1:expr) => {
        ffi_proof! {
        fn $name() {
            ffi_models::init_accept_all();
            ffi_models::surj_len_only_mode();
            one_field($f0, $l);
            one_field($f1, $l);
            kani::cover!(true);
        }
        }
    };
}

//@ harness: size_tx_boundary_fc_scripts class=B tier=thorough bound="1 input, 1 output; script_sig, then script_pubkey, of length 0xFC" timeout=3000
//@ clause: the same contract with one field just below the 1->3 byte varint boundary
boundary_harness!(size_tx_boundary_fc_scripts, 0xFC, 0, 1);
//@ harness: size_tx_boundary_fd_scripts class=B tier=thorough bound="1 input, 1 output; script_sig, then script_pubkey, of length 0xFD" timeout=3000
//@ clause: same, first length with a 3-byte varint
boundary_harness!(size_tx_boundary_fd_scripts, 0xFD, 0, 1);
//@ unregistered-harness: size_tx_boundary_fd_stacks class=B tier=thorough bound="1 input, 1 output; a script-witness item, then a pegin-witness item, of length 0xFD" timeout=1800
//@ clause: same for witness stack items
boundary_harness!(size_tx_boundary_fd_stacks, 0xFD, 2, 3);
//@ unregistered-harness: size_tx_boundary_fd_proofs class=B tier=thorough bound="1 input, 1 output; input amount proof, then output range proof, of length 0xFD" timeout=1800
//@ clause: same for range proofs
boundary_harness!(size_tx_boundary_fd_proofs, 0xFD, 4, 5);
//@ unregistered-harness: size_tx_boundary_fc_surj class=B tier=thorough bound="1 input, 1 output; output surjection proof of length 0xFC, then output range proof of length 0xFC" timeout=1800
//@ clause: same for the surjection proof (length-only FFI model) just below the boundary
boundary_harness!(size_tx_boundary_fc_surj, 0xFC, 6, 5);
//@ harness: size_tx_boundary_fd_surj class=B tier=thorough bound="1 input, 1 output; output surjection proof of length 0xFD, then a script-witness item of 0xFC" timeout=3000
//@ clause: same for the surjection proof at the boundary
boundary_harness!(size_tx_boundary_fd_surj, 0xFD, 6, 2);
//@ harness: size_tx_boundary_ffff class=B tier=thorough bound="1 input, 1 output; script_sig, then a script-witness item, of length 0xFFFF" timeout=3000
//@ clause: same, last length with a 3-byte varint
boundary_harness!(size_tx_boundary_ffff, 0xFFFF, 0, 2);
//@ harness: size_tx_boundary_10000 class=B tier=thorough bound="1 input, 1 output; script_pubkey, then output range proof, of length 0x10000" timeout=3000
//@ clause: same, first length with a 5-byte varint
boundary_harness!(size_tx_boundary_10000, 0x10000, 1, 5);

//@ harness: txoutwitness_lens class=B tier=quick bound="surjection proof length in {0,2,8}, range proof length in {0,1,0xFD}"
//@ clause: TxOutWitness::rangeproof_len / surjectionproof_len are 0 for an absent proof and otherwise the serialized proof length, so the witness serializes to varint(len)+len for each
ffi_proof! {
fn txoutwitness_lens() {
    ffi_models::init_accept_all();
    let w = TxOutWitness { surjection_proof: surjproof(8), rangeproof: rangeproof(0xFD) };
    assert!(w.surjectionproof_len() == 8 && w.rangeproof_len() == 0xFD);
    assert!(enc_len(&w) == 1 + 8 + 3 + 0xFD);
    forget(w);
    let w = TxOutWitness { surjection_proof: surjproof(2), rangeproof: rangeproof(0) };
    assert!(w.surjectionproof_len() == 2 && w.rangeproof_len() == 0 && !w.is_empty());
    assert!(enc_len(&w) == 1 + 2 + 1);
    forget(w);
    let w = TxOutWitness { surjection_proof: surjproof(0), rangeproof: rangeproof(1) };
    assert!(w.surjectionproof_len() == 0 && w.rangeproof_len() == 1 && !w.is_empty());
    assert!(enc_len(&w) == 1 + 1 + 1);
    forget(w);
    let w = TxOutWitness::empty();
    assert!(w.surjectionproof_len() == 0 && w.rangeproof_len() == 0 && w.is_empty() && enc_len(&w) == 2);
    kani::cover!(true);
}
}
