//@ property: C08 C10
//@ mount: src/pset/mod.rs
//@ functions: src/pset/mod.rs::PartiallySignedTransaction::locktime
use super::*;
use crate::locktime::{Height, Time};

fn any_time() -> Option<Time> {
    if kani::any() {
        let n: u32 = kani::any();
        match Time::from_consensus(n) {
            Ok(t) => Some(t),
            Err(e) => { core::mem::forget(e); kani::assume(false); None }
        }
    } else { None }
}
fn any_height() -> Option<Height> {
    if kani::any() {
        let n: u32 = kani::any();
        match Height::from_consensus(n) {
            Ok(t) => Some(t),
            Err(e) => { core::mem::forget(e); kani::assume(false); None }
        }
    } else { None }
}

macro_rules! locktime_harness {
    ($name:ident, $n:expr) => {
        #[kani::proof]
        fn $name() {
            const N: usize = $n;
            let mut ts: [Option<Time>; N] = [None; N];
            let mut hs: [Option<Height>; N] = [None; N];
            let mut pset = PartiallySignedTransaction::new_v2();
            let fb: Option<u32> = kani::any();
            pset.global.tx_data.fallback_locktime = fb.map(LockTime::from_consensus);
            pset.inputs = Vec::with_capacity(N);
            let mut i = 0;
            while i < N {
                ts[i] = any_time();
                hs[i] = any_height();
                let mut inp = Input::default();
                inp.required_time_locktime = ts[i];
                inp.required_height_locktime = hs[i];
                pset.inputs.push(inp);
                i += 1;
            }
            // oracle written from BIP-370
            let mut any_c = false; let mut all_h = true; let mut all_t = true;
            let mut mh: u32 = 0; let mut mt: u32 = 0;
            let mut k = 0;
            while k < N {
                let c = ts[k].is_some() || hs[k].is_some();
                if c { any_c = true; if hs[k].is_none() { all_h = false; } if ts[k].is_none() { all_t = false; } }
                if let Some(h) = hs[k] { if h.to_consensus_u32() > mh { mh = h.to_consensus_u32(); } }
                if let Some(t) = ts[k] { if t.to_consensus_u32() > mt { mt = t.to_consensus_u32(); } }
                k += 1;
            }
            let r = pset.locktime();
            core::mem::forget(pset);
            if !any_c {
                let want = match fb { Some(x) => x, None => 0 };
                match r { Ok(l) => assert!(l.to_consensus_u32() == want), Err(e) => { core::mem::forget(e); assert!(false); } }
            } else if all_h {
                match r { Ok(l) => assert!(l.is_block_height() && l.to_consensus_u32() == mh, "height preferred when every constraining input supports it"),
                          Err(e) => { core::mem::forget(e); assert!(false); } }
            } else if all_t {
                match r { Ok(l) => assert!(l.is_block_time() && l.to_consensus_u32() == mt), Err(e) => { core::mem::forget(e); assert!(false); } }
            } else {
                match r { Ok(_) => assert!(false), Err(e) => { assert!(matches!(e, Error::LocktimeConflict)); core::mem::forget(e); } }
            }
            kani::cover!(any_c && all_h && all_t);
            kani::cover!(any_c && !all_h && all_t);
        }
    };
}

//@ harness: locktime_bip370_n1 class=B tier=quick bound="exactly 1 input" props=C08,C10 timeout=600
//@ clause: paired counterexample finder for the Verus unit c08_locktime: BIP-370 selection, every {none,time,height,both} assignment and fallback; no panic
locktime_harness!(locktime_bip370_n1, 1);
//@ harness: locktime_bip370_n2 class=B tier=quick bound="exactly 2 inputs" props=C08,C10 timeout=600
//@ clause: same, 2 inputs (needed for the conflict branch)
locktime_harness!(locktime_bip370_n2, 2);
//@ harness: locktime_bip370_n3 class=B tier=thorough bound="exactly 3 inputs" props=C08,C10 timeout=900
//@ clause: same, 3 inputs
locktime_harness!(locktime_bip370_n3, 3);
