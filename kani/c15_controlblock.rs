//@ property: C15
//@ mount: src/taproot.rs
//@ functions: src/taproot.rs::ControlBlock::size, src/taproot.rs::ControlBlock::serialize, src/taproot.rs::ControlBlock::encode, src/taproot.rs::ControlBlock::from_slice, src/taproot.rs::TaprootMerkleBranch::encode, src/taproot.rs::TaprootMerkleBranch::serialize
//
// "the control block ... survives serialization, and has the length implied by the leaf's depth":
// for every control block with a path of D nodes: size() = 33 + 32 D, serialize() has exactly that layout and length,
// and from_slice(serialize(c)) == c.  D is concrete per instance (allocation), everything else symbolic.
// libsecp's x-only parse/serialize/cmp are the models of support/c16_ffi_models.rs.
use super::*;
use core::mem::ManuallyDrop;

#[path = "support/c16_ffi_models.rs"]
mod fm;
use fm::sffi;
#[path = "support/sinks.rs"]
mod sinks;

fn any_leaf_version() -> LeafVersion {
    let v: u8 = kani::any();
    match LeafVersion::from_u8(v) {
        Ok(l) => l,
        Err(_) => { kani::assume(false); LeafVersion::default() }
    }
}

macro_rules! cb_roundtrip {
    ($name:ident, $d:expr, $unw:literal) => {
        #[kani::proof]
        #[kani::unwind($unw)] // loops over the path Vec (heap slices are not constant-bounded for CBMC)
        #[kani::stub(sffi::secp256k1_xonly_pubkey_parse, fm::model_xonly_pubkey_parse)]
        #[kani::stub(sffi::secp256k1_xonly_pubkey_serialize, fm::model_xonly_pubkey_serialize)]
        #[kani::stub(sffi::secp256k1_xonly_pubkey_cmp, fm::model_xonly_pubkey_cmp)]
        fn $name() {
            const D: usize = $d;
            const L: usize = 33 + 32 * D;
            fm::init();
            let key: [u8; 32] = kani::any();
            kani::assume(fm::xonly_acc(&key)); // a key that exists came out of a successful parse
            let nodes: [[u8; 32]; D] = kani::any();
            let mut v = Vec::with_capacity(D);
            let mut i = 0;
            while i < D {
                v.push(TapNodeHash::from_byte_array(nodes[i]));
                i += 1;
            }
            let odd: bool = kani::any();
            let c = ManuallyDrop::new(ControlBlock {
                leaf_version: any_leaf_version(),
                output_key_parity: if odd { secp256k1_zkp::Parity::Odd } else { secp256k1_zkp::Parity::Even },
                internal_key: fm::xonly_from(key),
                merkle_branch: TaprootMerkleBranch(v),
            });
            // length implied by the depth
            assert!(c.size() == L);
            // encode() reports what it wrote
            let mut sink = sinks::ArraySink::<L>::new();
            match c.encode(&mut sink) {
                Ok(n) => assert!(n == L && sink.len == L),
                Err(e) => { core::mem::forget(e); assert!(false); }
            }
            let ser = ManuallyDrop::new(c.serialize());
            assert!(ser.len() == L);
            let j: usize = kani::any();
            kani::assume(j < L);
            assert!(ser[j] == sink.buf[j]);
            // layout: parity | leaf version, x-only key, path nodes in order
            let want = if j == 0 {
                c.leaf_version.as_u8() | (odd as u8)
            } else if j < 33 {
                key[j - 1]
            } else {
                nodes[(j - 33) / 32][(j - 33) % 32]
            };
            if fm::seen() { assert!(ser[j] == want); }
            // survives serialization
            match ControlBlock::from_slice(&ser) {
                Ok(c2) => {
                    let c2 = ManuallyDrop::new(c2);
                    // field-wise equality, byte by byte at a symbolic position (no memcmp loops):
                    assert!(c2.leaf_version == c.leaf_version);
                    assert!(c2.output_key_parity == c.output_key_parity);
                    assert!(c2.merkle_branch.as_inner().len() == D);
                    if j >= 33 {
                        let n2: &[u8] = c2.merkle_branch.as_inner()[(j - 33) / 32].as_ref();
                        assert!(n2[(j - 33) % 32] == nodes[(j - 33) / 32][(j - 33) % 32]);
                    }
                    if fm::seen() {
                        // equal keys <=> equal serializations (FFI contract); and the derived == agrees
                        let k2 = c2.internal_key.serialize();
                        if j >= 1 && j < 33 { assert!(k2[j - 1] == key[j - 1]); }
                        assert!(c2.internal_key == c.internal_key);
                    }
                    assert!(c2.size() == L);
                    kani::cover!(odd);
                    kani::cover!(!odd && c.leaf_version.as_u8() == 0xc4);
                }
                Err(_) => { if fm::seen() { assert!(false, "serialized control block does not parse"); } }
            }
        }
    };
}
//@ harness: control_block_roundtrip_d0 class=F tier=quick
//@ clause: every control block of depth 0 (any valid leaf version, parity, accepted internal key): size() == 33, serialize()/encode() write exactly `version|parity, key` (33 bytes, reported length equal), from_slice(serialize(c)) == c
cb_roundtrip!(control_block_roundtrip_d0, 0, 3);
//@ harness: control_block_roundtrip_d1 class=F tier=quick timeout=900
//@ clause: same at depth 1: size() == 65, the path node follows the key verbatim, round trip exact
cb_roundtrip!(control_block_roundtrip_d1, 1, 4);
//@ harness: control_block_roundtrip_d2 class=F tier=thorough timeout=1800
//@ clause: same at depth 2: size() == 97, path nodes in order, round trip exact
cb_roundtrip!(control_block_roundtrip_d2, 2, 5);
