//@ property: C01
//@ mount: src/transaction.rs
//@ functions: src/transaction.rs::Transaction::consensus_encode, src/transaction.rs::Transaction::consensus_decode, src/transaction.rs::Transaction::has_witness, src/encode.rs::deserialize_partial, src/encode.rs::Vec<T>::consensus_decode
// Assumptions: support/c01_ffi_models.rs.  Decode harnesses fix every length field and every structure-selecting byte
// (index flags, confidential prefixes) of the shape to concrete values, because a symbolic cursor position makes the
// next allocation length symbolic (DESIGN §2); the structure-selecting bytes are covered with full symbolic range at
// the TxIn / TxOut / confidential level (c01_txparts.rs, c01_confidential.rs).
use super::*;
use crate::encode::{self, Decodable, Encodable};
use secp256k1_zkp::ffi as zffi;

#[path = "support/sinks.rs"]
mod sinks;
use sinks::{forget, ArraySink};
#[path = "support/c01_ffi_models.rs"]
mod ffi_models;
#[path = "support/c01_spec.rs"]
mod spec;
use spec::Spec;

macro_rules! ffi_proof {
    (fn $name:ident() $body:block) => {
        #[kani::proof]
        #[kani::stub(zffi::secp256k1_pedersen_commitment_parse, ffi_models::pedersen_commitment_parse)]
        #[kani::stub(zffi::secp256k1_pedersen_commitment_serialize, ffi_models::pedersen_commitment_serialize)]
        #[kani::stub(zffi::secp256k1_generator_parse, ffi_models::generator_parse)]
        #[kani::stub(zffi::secp256k1_generator_serialize, ffi_models::generator_serialize)]
        #[kani::stub(zffi::secp256k1_ec_pubkey_parse, ffi_models::ec_pubkey_parse)]
        #[kani::stub(zffi::secp256k1_ec_pubkey_serialize, ffi_models::ec_pubkey_serialize)]
        #[kani::stub(zffi::secp256k1_rangeproof_info, ffi_models::rangeproof_info)]
        #[kani::stub(zffi::secp256k1_surjectionproof_parse, ffi_models::surjectionproof_parse)]
        #[kani::stub(zffi::secp256k1_surjectionproof_serialize, ffi_models::surjectionproof_serialize)]
        #[kani::stub(zffi::secp256k1_surjectionproof_serialized_size, ffi_models::surjectionproof_serialized_size)]
        fn $name() $body
    };
}

macro_rules! dec_proof {
    (fn $name:ident() $body:block) => {
        #[kani::proof]
        #[kani::unwind(3)]
        #[kani::stub(zffi::secp256k1_ec_seckey_verify, ffi_models::ec_seckey_verify_noloop)]
        #[kani::stub(zffi::secp256k1_rangeproof_info, ffi_models::rangeproof_info)]
        fn $name() $body
    };
}

fn enc<const N: usize, T: Encodable>(v: &T) -> (usize, ArraySink<N>) {
    let mut s = ArraySink::<N>::new();
    match v.consensus_encode(&mut s) {
        Ok(n) => (n, s),
        Err(e) => { forget(e); assert!(false); (0, s) }
    }
}
fn assert_prefix_eq<const N: usize>(a: &[u8; N], b: &[u8; N], k: usize) {
    let mut i = 0;
    while i < N {
        if i < k { assert!(a[i] == b[i]); }
        i += 1;
    }
}
fn le32(b: &[u8], at: usize) -> u32 {
    u32::from_le_bytes([b[at], b[at + 1], b[at + 2], b[at + 3]])
}

/// ParseFailed messages are told apart by their length (a string comparison would need a 44-iteration memcmp loop,
/// which does not fit the small unwind bound these harnesses need): 22 = "bad witness flag in tx",
/// 44 = "witness flag set but no witnesses were given"
fn parse_failed_len(e: &encode::Error) -> usize {
    match e { encode::Error::ParseFailed(m) => m.len(), _ => 0 }
}

// ---------------------------------------------------------------------------------------------------------------
// flag byte, full range, on the smallest transaction
// ---------------------------------------------------------------------------------------------------------------

//@ harness: tx_dec_0x0 class=F tier=thorough bound="0 inputs, 0 outputs" timeout=3000
//@ clause: Transaction decode, flag byte over its full range on the input/output-less transaction: flag 0 -> accepted, 11 bytes, no witness; flag 1 -> rejected "witness flag set but no witnesses were given" (there is nothing that could carry a witness); any other flag -> rejected "bad witness flag in tx"; re-encoding reproduces the bytes with flag == has_witness(); a 10-byte truncation is rejected
#[kani::proof]
#[kani::unwind(3)]
fn tx_dec_0x0() {
    let mut buf: [u8; 12] = kani::any();
    buf[5] = 0;
    buf[6] = 0;
    let flag = buf[4];
    match encode::deserialize_partial::<Transaction>(&buf[..]) {
        Ok((tx, k)) => {
            assert!(flag == 0 && k == 11);
            assert!(tx.version == le32(&buf, 0) && tx.lock_time.to_consensus_u32() == le32(&buf, 7));
            assert!(tx.input.is_empty() && tx.output.is_empty() && !tx.has_witness());
            let (n, s) = enc::<12, _>(&tx);
            assert!(n == 11 && s.len == 11);
            assert!(s.buf[0] == buf[0] && s.buf[1] == buf[1] && s.buf[2] == buf[2] && s.buf[3] == buf[3]);
            assert!(s.buf[4] == 0 && s.buf[5] == 0 && s.buf[6] == 0);
            assert!(s.buf[7] == buf[7] && s.buf[8] == buf[8] && s.buf[9] == buf[9] && s.buf[10] == buf[10]);
            kani::cover!(true);
            forget(tx);
        }
        Err(e) => {
            assert!(flag != 0);
            if flag == 1 {
                assert!(parse_failed_len(&e) == 44);
                kani::cover!(true);
            } else {
                assert!(parse_failed_len(&e) == 22);
                kani::cover!(flag == 2);
            }
            forget(e);
        }
    }
    match encode::deserialize_partial::<Transaction>(&buf[..10]) {
        Ok((tx, _)) => { forget(tx); assert!(false); }
        Err(e) => forget(e),
    }
}

//@ harness: tx_dec_flag_byte class=F tier=thorough bound="0 inputs, 0 outputs, version and lock time zero; flag byte over its full range" timeout=3000
//@ clause: Transaction decode accepts the input/output-less transaction only with flag byte 0: flag 1 is rejected (nothing could carry a witness), every other flag byte is rejected as a bad witness flag - so no two byte strings that differ in the flag byte decode to equal transactions
#[kani::proof]
#[kani::unwind(3)]
fn tx_dec_flag_byte() {
    let flag: u8 = kani::any();
    let buf: [u8; 11] = [0, 0, 0, 0, flag, 0, 0, 0, 0, 0, 0];
    match encode::deserialize_partial::<Transaction>(&buf[..]) {
        Ok((tx, k)) => {
            assert!(flag == 0 && k == 11);
            assert!(tx.input.is_empty() && tx.output.is_empty());
            kani::cover!(true);
            forget(tx);
        }
        Err(e) => {
            assert!(flag != 0);
            if flag == 1 { assert!(parse_failed_len(&e) == 44); } else { assert!(parse_failed_len(&e) == 22); }
            kani::cover!(flag == 2);
            kani::cover!(flag == 1);
            forget(e);
        }
    }
}

// ---------------------------------------------------------------------------------------------------------------
// 1 input, 1 output shapes
// ---------------------------------------------------------------------------------------------------------------

/// $vout: concrete wire index (selects pegin / issuance / coinbase exemption), $iss: issuance bytes present,
/// $rp: length of the output range proof in the witness section (0 = none), $swc: script-witness items (0 or 1, 1 byte each)
///
/// The decoded transaction lives in heap memory, where CBMC cannot constant-fold the lengths of nested vectors; the
/// harness therefore runs under a small unwind bound, checks every decoded field directly against the input bytes and
/// does not re-encode (Transaction encode == wire-format oracle is tx_enc_1x1; composing the two gives dec-then-enc == id).
macro_rules! tx_dec_1x1 {
    ($name:ident, $vout:expr, $iss:expr, $rp:expr, $swc:expr) => {
        dec_proof! {
        fn $name() {
            ffi_models::init();
            const ISS: usize = if $iss { 64 + 9 + 1 } else { 0 };   // nonce, entropy, explicit amount, null keys
            const RP: usize = $rp;
            const SWC: usize = $swc;
            const IN0: usize = 6;                                    // offset of the input
            const OUT0: usize = IN0 + 36 + 1 + 1 + 4 + ISS + 1;      // offset of the output
            const K0: usize = OUT0 + (33 + 9 + 1 + 1 + 2) + 4;
            const K1: usize = K0 + (1 + 1 + 1 + 2 * SWC + 1) + (1 + 1 + RP);
            const N: usize = K1 + 1;
            let mut buf: [u8; N] = kani::any();
            let v = u32::to_le_bytes($vout);
            buf[5] = 1;                                              // #inputs
            buf[IN0 + 32] = v[0]; buf[IN0 + 33] = v[1]; buf[IN0 + 34] = v[2]; buf[IN0 + 35] = v[3];
            buf[IN0 + 36] = 1;                                       // script_sig: 1 byte
            if $iss { buf[IN0 + 42 + 64] = 1; buf[IN0 + 42 + 64 + 9] = 0; }
            buf[OUT0 - 1] = 1;                                       // #outputs
            buf[OUT0] = 1;                                           // explicit asset
            buf[OUT0 + 33] = 1;                                      // explicit value
            buf[OUT0 + 42] = 0;                                      // null nonce
            buf[OUT0 + 43] = 2;                                      // script_pubkey: 2 bytes
            // witness section
            buf[K0] = 0; buf[K0 + 1] = 0; buf[K0 + 2] = SWC as u8;
            if SWC == 1 { buf[K0 + 3] = 1; }
            buf[K0 + 3 + 2 * SWC] = 0;                               // pegin witness: empty
            buf[K0 + 4 + 2 * SWC] = 0;                               // surjection proof: none
            buf[K0 + 5 + 2 * SWC] = RP as u8;
            let all_empty = RP == 0 && SWC == 0;
            let rp_ok = RP == 0 || ffi_models::rangeproof_acc(&buf[K1 - RP..K1]);
            // the issuance blinding nonce is fixed to the valid scalar 1: Tweak::from_inner loops over all 32 bytes for
            // an out-of-range scalar, which does not fit the unwind bound (validity is covered by txin_dec_issuance_*)
            if $iss {
                const ONE: [u8; 32] = [0, 0, 0, 0, 0, 0, 0, 0, 0, 0, 0, 0, 0, 0, 0, 0, 0, 0, 0, 0, 0, 0, 0, 0, 0, 0, 0, 0, 0, 0, 0, 1];
                buf[IN0 + 42..IN0 + 74].copy_from_slice(&ONE);
            }
            let flag = buf[4];
            let nonce_ok = true;
            kani::cover!(flag == 1 && rp_ok && nonce_ok);
            kani::cover!(flag > 1 && nonce_ok);
            match encode::deserialize_partial::<Transaction>(&buf[..]) {
                Ok((tx, k)) => {
                    assert!(flag <= 1 && nonce_ok);
                    if flag == 0 { assert!(k == K0); } else { assert!(k == K1 && !all_empty && rp_ok); }
                    // flag byte <=> has_witness()
                    assert!(tx.has_witness() == (flag == 1));
                    assert!(tx.input.len() == 1 && tx.output.len() == 1);
                    assert!(tx.version == le32(&buf, 0) && tx.lock_time.to_consensus_u32() == le32(&buf, K0 - 4));
                    let inp = &tx.input[0];
                    if $vout == 0xffff_ffffu32 {
                        assert!(inp.previous_output.vout == 0xffff_ffff && !inp.is_pegin && !inp.has_issuance());
                    } else {
                        assert!(inp.previous_output.vout == $vout & 0x3fff_ffff);
                        assert!(inp.is_pegin == ($vout & 0x4000_0000 != 0));
                        assert!(inp.has_issuance() == ($vout & 0x8000_0000u32 != 0));
                    }
                    assert!(inp.previous_output.txid.to_byte_array()[0] == buf[IN0] && inp.previous_output.txid.to_byte_array()[31] == buf[IN0 + 31]);
                    assert!(inp.script_sig.len() == 1 && inp.script_sig.as_bytes()[0] == buf[IN0 + 37]);
                    assert!(inp.sequence.0 == le32(&buf, IN0 + 38));
                    if $iss {
                        assert!(inp.asset_issuance.asset_entropy[0] == buf[IN0 + 74] && inp.asset_issuance.asset_entropy[31] == buf[IN0 + 105]);
                        assert!(inp.asset_issuance.amount.is_explicit() && inp.asset_issuance.inflation_keys.is_null());
                    }
                    let out = &tx.output[0];
                    assert!(out.asset.is_explicit() && out.value.is_explicit() && out.nonce.is_null());
                    assert!(out.script_pubkey.len() == 2 && out.script_pubkey.as_bytes()[0] == buf[OUT0 + 44] && out.script_pubkey.as_bytes()[1] == buf[OUT0 + 45]);
                    if flag == 1 {
                        assert!(inp.witness.amount_rangeproof.is_none() && inp.witness.inflation_keys_rangeproof.is_none());
                        assert!(inp.witness.script_witness.len() == SWC && inp.witness.pegin_witness.len() == 0);
                        if SWC == 1 { assert!(inp.witness.script_witness[0].len() == 1 && inp.witness.script_witness[0][0] == buf[K0 + 4]); }
                        assert!(out.witness.rangeproof.is_none() == (RP == 0));
                        assert!(out.witness.rangeproof_len() == RP);
                        assert!(out.witness.surjection_proof.is_none());
                    } else {
                        assert!(inp.witness.is_empty() && out.witness.is_empty());
                    }
                    forget(tx);
                }
                Err(e) => {
                    if flag > 1 && nonce_ok { assert!(parse_failed_len(&e) == 22); }
                    if flag == 1 && nonce_ok && all_empty { assert!(parse_failed_len(&e) == 44); }
                    assert!(flag > 1 || !nonce_ok || (flag == 1 && (all_empty || !rp_ok)));
                    forget(e);
                }
            }
        }
        }
    };
}

//@ harness: tx_dec_1x1_plain class=B tier=thorough bound="1 input (index 1, 1-byte script, no issuance), 1 explicit output (2-byte script); witness section: script witness [1 byte], output range proof 2 bytes; unwind 3" timeout=1800
//@ clause: Transaction decode at this shape, flag byte full range: flag 0 -> consumed stops before the witness section and has_witness() is false; flag 1 -> witness section read, accepted iff the proof parses, has_witness() true; flag >= 2 -> "bad witness flag in tx"; every decoded field equals the corresponding input bytes
tx_dec_1x1!(tx_dec_1x1_plain, 1u32, false, 2, 1);
//@ harness: tx_dec_1x1_emptywit class=B tier=thorough bound="1 input, 1 output as above; witness section all empty (00 00 00 00 / 00 00); unwind 3" timeout=1800
//@ clause: flag 1 with only empty witnesses is rejected with "witness flag set but no witnesses were given"; flag 0 accepted
tx_dec_1x1!(tx_dec_1x1_emptywit, 1u32, false, 0, 0);
//@ harness: tx_dec_1x1_pegin_issuance class=B tier=thorough bound="1 input with wire index 0xC0000005 (pegin + issuance: explicit amount, null keys), 1 explicit output; witness: script witness [] , output range proof 1 byte; unwind 3" timeout=1800
//@ clause: same contract on a pegin input carrying an issuance: flags stripped from the index, has_issuance() and is_pegin set, issuance bytes consumed
tx_dec_1x1!(tx_dec_1x1_pegin_issuance, 0xC000_0005u32, true, 1, 0);
//@ harness: tx_dec_1x1_coinbase class=B tier=thorough bound="1 input with wire index 0xffffffff, 1 explicit output; witness: script witness [1 byte], no proofs; unwind 3" timeout=1800
//@ clause: same contract on the 0xffff_ffff index: kept verbatim, no pegin, no issuance read although bits 30/31 are set
tx_dec_1x1!(tx_dec_1x1_coinbase, 0xffff_ffffu32, false, 0, 1);

// ---------------------------------------------------------------------------------------------------------------
// encode side with symbolic structure: layout oracle and flag == has_witness()
// ---------------------------------------------------------------------------------------------------------------

fn any_rangeproof<const L: usize>() -> Option<Box<RangeProof>> {
    if L == 0 || !kani::any::<bool>() { return None; }
    let b: [u8; L] = kani::any();
    match RangeProof::from_slice(&b) {
        Ok(p) => Some(Box::new(p)),
        Err(e) => { forget(e); kani::assume(false); None }
    }
}
fn any_surjproof<const L: usize>() -> Option<Box<SurjectionProof>> {
    if L == 0 || !kani::any::<bool>() { return None; }
    let b: [u8; L] = kani::any();
    match SurjectionProof::from_slice(&b) {
        Ok(p) => Some(Box::new(p)),
        Err(e) => { forget(e); kani::assume(false); None }
    }
}
fn any_stack() -> Vec<Vec<u8>> {
    let mut v = Vec::with_capacity(1);
    if kani::any() { v.push(spec::any_vec::<1>()); }
    v
}
fn spec_opt_rp<const N: usize>(sp: &mut Spec<N>, p: &Option<Box<RangeProof>>) {
    match p { None => sp.u8(0), Some(p) => { let v = p.serialize(); sp.var_bytes(&v); forget(v); } }
}

//@ harness: tx_enc_1x1 class=B tier=thorough bound="1 input (1-byte script), 1 output (1-byte script); each of the six witness fields independently present (1-2 bytes / 1 item) or absent; pegin, issuance, null/explicit/confidential fields symbolic" timeout=900
//@ clause: Transaction encode == wire-format oracle: version, flag byte == has_witness() as 0/1, inputs (flags folded), outputs, lock time, and iff the flag is 1 the input witnesses then the output witnesses; reported length == bytes written; has_witness() iff some witness field is present
ffi_proof! {
fn tx_enc_1x1() {
    ffi_models::init_accept_all();
    const N: usize = 4 + 1 + 1 + (41 + 1 + 130) + 1 + (99 + 2) + 4 + (3 + 2 + 2 + 2) + (3 + 3) + 1;
    let iss_present: bool = kani::any();
    let issuance = if iss_present {
        let i = AssetIssuance { asset_blinding_nonce: spec::raw_tweak(), asset_entropy: kani::any(), amount: spec::any_value(), inflation_keys: spec::any_value() };
        kani::assume(!(i.amount.is_null() && i.inflation_keys.is_null()));
        i
    } else { AssetIssuance::null() };
    let inp = TxIn {
        previous_output: OutPoint { txid: Txid::from_byte_array(kani::any()), vout: kani::any() },
        is_pegin: kani::any(),
        script_sig: Script::from(spec::any_vec::<1>()),
        sequence: Sequence(kani::any()),
        asset_issuance: issuance,
        witness: TxInWitness {
            amount_rangeproof: any_rangeproof::<2>(),
            inflation_keys_rangeproof: any_rangeproof::<1>(),
            script_witness: any_stack(),
            pegin_witness: any_stack(),
        },
    };
    kani::assume(inp.previous_output.vout < (1 << 30) || (inp.previous_output.vout == 0xffff_ffff && !inp.is_pegin && !iss_present));
    let out = TxOut {
        asset: spec::any_asset(), value: spec::any_value(), nonce: spec::any_nonce(),
        script_pubkey: Script::from(spec::any_vec::<1>()),
        witness: TxOutWitness { surjection_proof: any_surjproof::<2>(), rangeproof: any_rangeproof::<2>() },
    };
    let wit_present = inp.witness.amount_rangeproof.is_some() || inp.witness.inflation_keys_rangeproof.is_some()
        || inp.witness.script_witness.len() > 0 || inp.witness.pegin_witness.len() > 0
        || out.witness.surjection_proof.is_some() || out.witness.rangeproof.is_some();
    let mut ins = core::mem::ManuallyDrop::new([inp]);
    let mut outs = core::mem::ManuallyDrop::new([out]);
    let tx = Transaction { version: kani::any(), lock_time: LockTime::from_consensus(kani::any()),
        input: unsafe { spec::vec_over(&mut ins) }, output: unsafe { spec::vec_over(&mut outs) } };
    assert!(tx.has_witness() == wit_present);
    // oracle
    let mut sp = Spec::<N>::new();
    sp.u32le(tx.version);
    sp.u8(if wit_present { 1 } else { 0 });
    sp.varint(1);
    {
        let t = &tx.input[0];
        sp.bytes(&t.previous_output.txid.to_byte_array());
        let mut wire = t.previous_output.vout;
        if t.is_pegin { wire |= 0x4000_0000; }
        if iss_present { wire |= 0x8000_0000; }
        sp.u32le(wire);
        sp.var_bytes(t.script_sig.as_bytes());
        sp.u32le(t.sequence.0);
        if iss_present {
            sp.bytes(t.asset_issuance.asset_blinding_nonce.as_ref());
            sp.bytes(&t.asset_issuance.asset_entropy);
            sp.value(&t.asset_issuance.amount);
            sp.value(&t.asset_issuance.inflation_keys);
        }
    }
    sp.varint(1);
    {
        let o = &tx.output[0];
        sp.asset(&o.asset); sp.value(&o.value); sp.nonce(&o.nonce);
        sp.var_bytes(o.script_pubkey.as_bytes());
    }
    sp.u32le(tx.lock_time.to_consensus_u32());
    if wit_present {
        let w = &tx.input[0].witness;
        spec_opt_rp(&mut sp, &w.amount_rangeproof);
        spec_opt_rp(&mut sp, &w.inflation_keys_rangeproof);
        sp.varint(w.script_witness.len() as u64);
        if w.script_witness.len() > 0 { sp.var_bytes(&w.script_witness[0]); }
        sp.varint(w.pegin_witness.len() as u64);
        if w.pegin_witness.len() > 0 { sp.var_bytes(&w.pegin_witness[0]); }
        let ow = &tx.output[0].witness;
        match ow.surjection_proof { None => sp.u8(0), Some(ref p) => { let v = p.serialize(); sp.var_bytes(&v); forget(v); } }
        spec_opt_rp(&mut sp, &ow.rangeproof);
    }
    let (n, s) = enc::<N, _>(&tx);
    assert!(n == s.len);
    sp.assert_eq(&s.buf, n);
    assert!(s.buf[4] == (tx.has_witness() as u8));
    kani::cover!(wit_present && iss_present);
    kani::cover!(!wit_present);
    kani::cover!(tx.output[0].witness.surjection_proof.is_some() && tx.input[0].witness.is_empty());
    forget(tx);
}
}
