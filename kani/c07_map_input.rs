//@ property: C07
//@ mount: src/pset/map/input.rs
//@ functions: src/pset/map/input.rs::Input::get_pairs, src/pset/map/input.rs::Input::insert_pair, src/pset/macros.rs::impl_pset_get_pair!, src/pset/macros.rs::impl_pset_insert_pair!, src/pset/macros.rs::impl_pset_prop_insert_pair!
// Per-field map contract of `pset::Input` at the `raw::Pair` level (DESIGN §4 C07: the byte-level decoder loop is not
// affordable; the byte framing of Pair/Key is c07_raw.rs).
//
// For one field f at a time: a = Input::default() with f := symbolic value (collections: one entry).
//   (enc)   a.get_pairs() = [f's pair] + the two mandatory pairs (previous txid, output index), in the fixed emission order;
//   (dec)   feeding every non-mandatory pair to insert_pair on a default map (what `Decodable for Input` does; the
//           mandatory keys are consumed by the decoder itself and `insert_pair` must refuse them as DuplicateKey)
//           rebuilds a map b with b.f == a.f and b == a;
//   (fix)   b.get_pairs() is pair-for-pair identical to a.get_pairs()  (re-serialization is a fixpoint);
//   (dup)   inserting f's pair a second time is Err(DuplicateKey) and leaves the value in place.
// Oracle from the property text: "serializes to [pairs] that deserialize to an equal PSET ... re-encodes to itself
// unchanged; duplicate keys ... are rejected".
use super::*;
use crate::LockTime;

#[path = "support/c07_ffi.rs"]
mod ffi_models;
use ffi_models::*;

fn fgt<T>(t: T) { core::mem::forget(t) }

fn copy_pair(p: &raw::Pair) -> raw::Pair {
    raw::Pair { key: raw::Key { type_value: p.key.type_value, key: p.key.key.clone() }, value: p.value.clone() }
}
fn is_mandatory(p: &raw::Pair) -> bool {
    p.key.type_value == PSET_IN_PREVIOUS_TXID || p.key.type_value == PSET_IN_OUTPUT_INDEX
}
/// pair lists equal, element by element (written out: `Vec<Pair> == Vec<Pair>` is derive + memcmp)
fn pairs_equal(x: &Vec<raw::Pair>, y: &Vec<raw::Pair>) -> bool {
    if x.len() != y.len() { return false; }
    let mut i = 0;
    while i < x.len() {
        if x[i].key.type_value != y[i].key.type_value { return false; }
        if x[i].key.key != y[i].key.key { return false; }
        if x[i].value != y[i].value { return false; }
        i += 1;
    }
    true
}

macro_rules! input_field_rt {
    ($name:ident, $unwind:literal, |$a:ident| $set:block, $field:ident $(, $stub:meta)*) => {
        #[kani::proof]
        #[kani::unwind($unwind)]
        $(#[$stub])*
        fn $name() {
            let mut $a = Input::default();
            $set;
            let a = $a;
            let p1 = match a.get_pairs() { Ok(p) => p, Err(e) => { fgt(e); assert!(false, "get_pairs failed"); return; } };
            assert!(p1.len() == 3, "one pair for the field plus the two mandatory pairs");
            kani::cover!(p1.len() == 3);
            let mut b = Input::default();
            let mut fpair: Option<raw::Pair> = None;
            let mut mandatory = 0;
            // fixed trip count (3 pairs): what `Decodable for Input` does with each pair it reads
            let mut idx = 0;
            while idx < 3 {
                let p = copy_pair(&p1[idx]);
                if is_mandatory(&p) {
                    mandatory += 1;
                    // insert_pair refuses the keys the decoder owns
                    match b.insert_pair(p) {
                        Ok(()) => assert!(false, "mandatory key accepted by insert_pair"),
                        Err(e) => { assert!(matches!(e, encode::Error::PsetError(Error::DuplicateKey(_)))); fgt(e); }
                    }
                } else {
                    fpair = Some(copy_pair(&p));
                    match b.insert_pair(p) { Ok(()) => {}, Err(e) => { fgt(e); assert!(false, "own pair rejected by insert_pair"); } }
                }
                idx += 1;
            }
            assert!(mandatory == 2);
            assert!(b.$field == a.$field, "decoded field equals the original");
            // (whole-map equality `b == a` - a derived comparison over ~45 fields and 12 B-trees - made this harness exceed
            //  16 GB; the fixpoint of the pair list below pins every other field to its default just as well)
            let p2 = match b.get_pairs() { Ok(p) => p, Err(e) => { fgt(e); assert!(false); return; } };
            assert!(pairs_equal(&p1, &p2), "re-serialization is a fixpoint");
            match fpair {
                Some(p) => match b.insert_pair(p) {
                    Ok(()) => assert!(false, "duplicate key accepted"),
                    Err(e) => { assert!(matches!(e, encode::Error::PsetError(Error::DuplicateKey(_))), "duplicate key => DuplicateKey"); fgt(e); }
                },
                None => assert!(false, "field produced no pair"),
            }
            assert!(b.$field == a.$field, "rejected duplicate does not disturb the stored value");
            fgt(a); fgt(b); fgt(p1); fgt(p2);
        }
    };
}

fn any_time() -> locktime::Time {
    match locktime::Time::from_consensus(kani::any()) { Ok(t) => t, Err(e) => { fgt(e); kani::assume(false); unreachable!() } }
}
fn any_height() -> locktime::Height {
    match locktime::Height::from_consensus(kani::any()) { Ok(t) => t, Err(e) => { fgt(e); kani::assume(false); unreachable!() } }
}
fn script2() -> Script { let b: [u8; 2] = kani::any(); Script::from(b.to_vec()) }

//@ harness: c07_in_rt_sequence class=F tier=quick timeout=600
//@ clause: Input.sequence: pair emission, decode to an equal map, fixpoint, duplicate key rejected
input_field_rt!(c07_in_rt_sequence, 34, |a| { a.sequence = Some(Sequence(kani::any())) }, sequence);
//@ harness: c07_in_rt_sighash_type class=F tier=thorough timeout=600
//@ clause: Input.sighash_type (any u32, standard or not): pair emission, decode to an equal map, fixpoint, duplicate key rejected
input_field_rt!(c07_in_rt_sighash_type, 34, |a| { a.sighash_type = Some(PsbtSighashType::from_u32(kani::any())) }, sighash_type);
//@ harness: c07_in_rt_required_time_locktime class=F tier=quick timeout=600
//@ clause: Input.required_time_locktime (every value >= 500000000): round trip, fixpoint, duplicate rejected
input_field_rt!(c07_in_rt_required_time_locktime, 34, |a| { a.required_time_locktime = Some(any_time()) }, required_time_locktime);
//@ harness: c07_in_rt_required_height_locktime class=F tier=thorough timeout=600
//@ clause: Input.required_height_locktime (every value < 500000000): round trip, fixpoint, duplicate rejected
input_field_rt!(c07_in_rt_required_height_locktime, 34, |a| { a.required_height_locktime = Some(any_height()) }, required_height_locktime);
//@ harness: c07_in_rt_redeem_script class=B tier=quick bound="script of exactly 2 symbolic bytes" timeout=600
//@ clause: Input.redeem_script: round trip, fixpoint, duplicate rejected
input_field_rt!(c07_in_rt_redeem_script, 34, |a| { a.redeem_script = Some(script2()) }, redeem_script);
//@ harness: c07_in_rt_witness_script class=B tier=thorough bound="script of exactly 2 symbolic bytes" timeout=600
//@ clause: Input.witness_script: round trip, fixpoint, duplicate rejected
input_field_rt!(c07_in_rt_witness_script, 34, |a| { a.witness_script = Some(script2()) }, witness_script);
//@ harness: c07_in_rt_final_script_sig class=B tier=thorough bound="script of exactly 2 symbolic bytes" timeout=600
//@ clause: Input.final_script_sig: round trip, fixpoint, duplicate rejected
input_field_rt!(c07_in_rt_final_script_sig, 34, |a| { a.final_script_sig = Some(script2()) }, final_script_sig);
//@ harness: c07_in_rt_issuance_value_amount class=F tier=quick timeout=600
//@ clause: Input.issuance_value_amount (Elements proprietary key, prefix "pset", subtype 0x00): round trip, fixpoint, duplicate rejected
input_field_rt!(c07_in_rt_issuance_value_amount, 34, |a| { a.issuance_value_amount = Some(kani::any()) }, issuance_value_amount);
//@ harness: c07_in_rt_issuance_inflation_keys class=F tier=thorough timeout=600
//@ clause: Input.issuance_inflation_keys: round trip, fixpoint, duplicate rejected
input_field_rt!(c07_in_rt_issuance_inflation_keys, 34, |a| { a.issuance_inflation_keys = Some(kani::any()) }, issuance_inflation_keys);
//@ harness: c07_in_rt_pegin_value class=F tier=thorough timeout=600
//@ clause: Input.pegin_value: round trip, fixpoint, duplicate rejected
input_field_rt!(c07_in_rt_pegin_value, 34, |a| { a.pegin_value = Some(kani::any()) }, pegin_value);
//@ harness: c07_in_rt_amount class=F tier=thorough timeout=600
//@ clause: Input.amount (explicit value): round trip, fixpoint, duplicate rejected
input_field_rt!(c07_in_rt_amount, 34, |a| { a.amount = Some(kani::any()) }, amount);
//@ harness: c07_in_rt_blinded_issuance class=F tier=thorough timeout=600
//@ clause: Input.blinded_issuance: round trip, fixpoint, duplicate rejected
input_field_rt!(c07_in_rt_blinded_issuance, 34, |a| { a.blinded_issuance = Some(kani::any()) }, blinded_issuance);
//@ harness: c07_in_rt_asset class=F tier=quick timeout=600
//@ clause: Input.asset (explicit asset id): round trip, fixpoint, duplicate rejected
input_field_rt!(c07_in_rt_asset, 34, |a| { a.asset = Some(AssetId::from_byte_array(kani::any())) }, asset);
//@ harness: c07_in_rt_issuance_asset_entropy class=F tier=thorough timeout=600
//@ clause: Input.issuance_asset_entropy: round trip, fixpoint, duplicate rejected
input_field_rt!(c07_in_rt_issuance_asset_entropy, 34, |a| { a.issuance_asset_entropy = Some(kani::any()) }, issuance_asset_entropy);
//@ harness: c07_in_rt_pegin_genesis_hash class=F tier=thorough timeout=600
//@ clause: Input.pegin_genesis_hash: round trip, fixpoint, duplicate rejected
input_field_rt!(c07_in_rt_pegin_genesis_hash, 34, |a| { a.pegin_genesis_hash = Some(BlockHash::from_byte_array(kani::any())) }, pegin_genesis_hash);
//@ harness: c07_in_rt_tap_merkle_root class=F tier=thorough timeout=600
//@ clause: Input.tap_merkle_root: round trip, fixpoint, duplicate rejected
input_field_rt!(c07_in_rt_tap_merkle_root, 34, |a| { a.tap_merkle_root = Some(TapNodeHash::from_byte_array(kani::any())) }, tap_merkle_root);
//@ harness: c07_in_rt_pegin_claim_script class=B tier=thorough bound="script of exactly 2 symbolic bytes" timeout=600
//@ clause: Input.pegin_claim_script: round trip, fixpoint, duplicate rejected
input_field_rt!(c07_in_rt_pegin_claim_script, 34, |a| { a.pegin_claim_script = Some(script2()) }, pegin_claim_script);
//@ harness: c07_in_rt_pegin_txout_proof class=B tier=thorough bound="2 symbolic bytes" timeout=600
//@ clause: Input.pegin_txout_proof: round trip, fixpoint, duplicate rejected
input_field_rt!(c07_in_rt_pegin_txout_proof, 34, |a| { let b: [u8; 2] = kani::any(); a.pegin_txout_proof = Some(b.to_vec()) }, pegin_txout_proof);

//@ harness: c07_in_rt_unknown class=B tier=quick bound="one unknown pair: type byte outside the known input types, 1 symbolic key byte, 1-byte value" timeout=600
//@ clause: an unknown pair survives get_pairs / insert_pair unchanged, re-serializes identically and is rejected when repeated
input_field_rt!(c07_in_rt_unknown, 34, |a| {
    let t: u8 = kani::any();
    // not one of the types Input understands (0x00..=0x18 except 0x09, and 0xFC)
    kani::assume((t > 0x18 || t == 0x09) && t != 0xFC);
    let k: [u8; 1] = kani::any();
    let v: [u8; 1] = kani::any();
    a.unknown.insert(raw::Key { type_value: t, key: k.to_vec() }, v.to_vec());
}, unknown);

//@ harness: c07_in_rt_proprietary class=B tier=thorough bound="one foreign proprietary pair: 1-byte prefix (so never \"pset\"), symbolic subtype, 1-byte key, 1-byte value" timeout=600
//@ clause: a foreign proprietary pair survives get_pairs / insert_pair unchanged, re-serializes identically and is rejected when repeated
input_field_rt!(c07_in_rt_proprietary, 34, |a| {
    let p: [u8; 1] = kani::any();
    let k: [u8; 1] = kani::any();
    let v: [u8; 1] = kani::any();
    a.proprietary.insert(raw::ProprietaryKey { prefix: p.to_vec(), subtype: kani::any(), key: k.to_vec() }, v.to_vec());
}, proprietary);

//@ harness: c07_in_insert_keyed_invalid class=F tier=quick timeout=600
//@ clause: an un-keyed input field whose raw key carries key data is rejected as InvalidKey, never stored (shown for the sequence type 0x10 with 1 symbolic key byte)
#[kani::proof]
#[kani::unwind(6)]
fn c07_in_insert_keyed_invalid() {
    let k: [u8; 1] = kani::any();
    let v: [u8; 4] = kani::any();
    let mut b = Input::default();
    let r = b.insert_pair(raw::Pair { key: raw::Key { type_value: PSET_IN_SEQUENCE, key: k.to_vec() }, value: v.to_vec() });
    kani::cover!(true);
    match r {
        Ok(()) => assert!(false, "keyed sequence accepted"),
        Err(e) => { assert!(matches!(e, encode::Error::PsetError(Error::InvalidKey(_)))); fgt(e); }
    }
    assert!(b.sequence.is_none());
    fgt(b);
}
