//@ property: C18
//@ mount: src/fast_merkle_root.rs
//@ functions: src/fast_merkle_root.rs::fast_merkle_root
use super::*;

// Model of the compression step (SHA-256 cannot run under CBMC): a cheap, non-commutative, non-associative mixing
// function. fast_merkle_root is parametric in sha256midstate, so a disagreement with the definitional tree under ANY
// concrete compression function is a genuine violation; agreement under this one is only the bounded stand-in
// (the unbounded statement is the Verus unit c18_fast_merkle_root).
fn model_arr(left: &[u8], right: &[u8]) -> [u8; 32] {
    let mut out = [0u8; 32];
    let mut i = 0;
    while i < 32 {
        out[i] = left[i].rotate_left(3) ^ right[i].wrapping_mul(5).wrapping_add(0x6b) ^ left[(i + 1) % 32];
        i += 1;
    }
    out
}
fn model_midstate(left: &[u8], right: &[u8]) -> sha256::Midstate {
    sha256::Midstate::new(model_arr(left, right), 64)
}
fn model_bytes(l: &[u8; 32], r: &[u8; 32]) -> [u8; 32] {
    // copy to locals first: Kani 0.68/CBMC 6.11 returned a wrong (unconstrained) result for the FIRST call of a loop
    // function that receives two slices pointing into the same nested array object (reproduced standalone; the
    // failure direction is a spurious alarm, never a spurious success)
    let a = *l;
    let b = *r;
    model_arr(&a[..], &b[..])
}

// definitional tree, written from the property text: pair adjacent nodes left to right, promote an unpaired last node
fn definitional_root<const N: usize>(leaves: &[[u8; 32]; N]) -> [u8; 32] {
    if N == 0 {
        return [0u8; 32];
    }
    let mut level = *leaves;
    let mut n = N;
    while n > 1 {
        let mut next = [[0u8; 32]; N];
        let mut m = 0;
        let mut i = 0;
        while i < n {
            if i + 1 < n {
                next[m] = model_bytes(&level[i], &level[i + 1]);
            } else {
                next[m] = level[i];
            }
            m += 1;
            i += 2;
        }
        level = next;
        n = m;
    }
    level[0]
}

macro_rules! fmr_harness {
    ($name:ident, $n:expr) => {
        #[kani::proof]
        #[kani::stub(sha256midstate, model_midstate)]
        fn $name() {
            const N: usize = $n;
            let leaves: [[u8; 32]; N] = kani::any();
            let got = fast_merkle_root(&leaves[..]);
            let want = definitional_root::<N>(&leaves);
            // bytewise comparison on purpose: `[u8; 32] == [u8; 32]` (raw_eq) gave a spurious mismatch under Kani 0.68
            // for arrays that went through a by-value copy of the enclosing array (measured; all 32 bytes equal)
            let g = *got.as_parts().0;
            let mut k = 0;
            while k < 32 {
                assert!(g[k] == want[k], "fast_merkle_root equals the definitional tree");
                k += 1;
            }
            kani::cover!(true);
        }
    };
}

//@ harness: fmr_n0 class=B tier=quick bound="exactly 0 leaves" timeout=300
//@ clause: paired counterexample finder for Verus unit c18_fast_merkle_root: root == definitional tree (model compression), empty list gives the all-zero value
fmr_harness!(fmr_n0, 0);
//@ harness: fmr_n1 class=B tier=quick bound="exactly 1 leaf" timeout=300
//@ clause: same, single leaf gives that leaf
fmr_harness!(fmr_n1, 1);
//@ harness: fmr_n2 class=B tier=quick bound="exactly 2 leaves" timeout=300
//@ clause: same, 2 leaves
fmr_harness!(fmr_n2, 2);
//@ harness: fmr_n3 class=B tier=quick bound="exactly 3 leaves" timeout=300
//@ clause: same, 3 leaves (promotion)
fmr_harness!(fmr_n3, 3);
//@ harness: fmr_n5 class=B tier=quick bound="exactly 5 leaves" timeout=600
//@ clause: same, 5 leaves (zero bit between set bits of the count)
fmr_harness!(fmr_n5, 5);
//@ harness: fmr_n6 class=B tier=quick bound="exactly 6 leaves" timeout=600
//@ clause: same, 6 leaves
fmr_harness!(fmr_n6, 6);
//@ harness: fmr_n7 class=B tier=thorough bound="exactly 7 leaves" timeout=900
//@ clause: same, 7 leaves
fmr_harness!(fmr_n7, 7);
//@ harness: fmr_n9 class=B tier=thorough bound="exactly 9 leaves" timeout=900
//@ clause: same, 9 leaves
fmr_harness!(fmr_n9, 9);
//@ harness: fmr_n11 class=B tier=thorough bound="exactly 11 leaves" timeout=1200
//@ clause: same, 11 leaves
fmr_harness!(fmr_n11, 11);
