//@ property: C05
//@ mount: src/blind.rs
//@ functions: src/blind.rs::Transaction::verify_tx_amt_proofs, src/blind.rs::TxOut::get_value_commit, src/blind.rs::TxOut::get_asset_gen
// NOTE (cost): the 2-output instances below (`//@ unregistered-harness:`) are not run by the driver. The same contract with
// 1 input / 2 outputs and all kinds symbolic verified in 1085 s (3827 checks, 9/9 covers) on the tree BEFORE the D9 repair;
// since the repair skips zero-value outputs with `continue`, the number of collected output commitments is a branch-dependent
// (for CBMC: symbolic) Vec length and the 2-output shape runs out of memory (>12 GB). The registered contract harness is
// the 1-output shape `verify_amt_1in_1out` (130 s).
//
// Rust-side control-flow contract of amount verification, relative to assumed libsecp256k1-zkp primitives
// (assumption A-secp: support/c05_ffi_models.rs -- constructors are injective term encodings, verifiers log their
// arguments and answer with a symbolic verdict).
// Oracle, from the C05 statement: verification succeeds only if (a) one spent output per input was supplied,
// (b) every output with a confidential value carries a range proof that the primitive accepted for THAT output's
// commitment, script and asset generator, (c) every output with a confidential asset carries a surjection proof that
// the primitive accepted for that output's generator against the generators of the inputs, (d) the balance primitive was
// asked about exactly [spent commitments] vs [output commitments] and said "equal". Explicit amounts enter the balance
// as unblinded commitments of that amount under that asset's generator.
use super::*;
use secp256k1_zkp::ffi as zffi;
use secp256k1_zkp::{All, AllPreallocated};

#[path = "support/c05_ffi_models.rs"]
mod fm;

/// `false` on the real code; every harness stubs it by `models_active_yes`. Under `cargo kani playback` stubs are not
/// applied, so this tells the harness whether the libsecp models (and their recorders) are in force.
fn models_active() -> bool { false }
fn models_active_yes() -> bool { true }

macro_rules! fake_secp {
    ($name:ident) => {
        // No libsecp context is created: Secp256k1<C> = { ctx: NonNull<Context>, PhantomData<C> }, only `ctx()` is read, and
        // handed to the stubbed FFI entry points, which ignore it. (Creating a real one -- `Secp256k1::new()` -- reaches
        // `rand::thread_rng` and makes kani-compiler 0.68 panic in intrinsics.rs, so it is not even compiled in.)
        // Consequently these harnesses cannot be replayed on real code: without the models they stop here.
        kani::cover!(models_active(), "libsecp models / recorders active");
        if !models_active() { return; }
        let md = unsafe { Secp256k1::from_raw_all(core::ptr::NonNull::<zffi::Context>::dangling()) };
        let $name: &Secp256k1<All> = unsafe { &*((&*md) as *const Secp256k1<AllPreallocated<'_>> as *const Secp256k1<All>) };
    };
}

fn raw_commit(c: &PedersenCommitment) -> [u8; 64] {
    assert!(core::mem::size_of::<PedersenCommitment>() == 64);
    unsafe { *(c as *const PedersenCommitment as *const [u8; 64]) }
}
fn raw_gen(g: &Generator) -> [u8; 64] {
    assert!(core::mem::size_of::<Generator>() == 64);
    unsafe { *(g as *const Generator as *const [u8; 64]) }
}

fn sym_tag() -> [u8; 32] {
    let mut t = [0u8; 32];
    t[0] = kani::any();
    t[31] = kani::any();
    t
}
fn sym_ser(prefix: u8) -> [u8; 33] {
    let mut s = [0u8; 33];
    s[0] = prefix;
    s[1] = kani::any();
    s[32] = kani::any();
    s
}

/// An asset field with its expected generator encoding. kind: 0 = null, 1 = explicit, 2 = confidential
fn mk_asset(kind: u8) -> (Asset, [u8; 64]) {
    if kind == 0 {
        (Asset::Null, [0u8; 64])
    } else if kind == 1 {
        let tag = sym_tag();
        (Asset::Explicit(AssetId::from_byte_array(tag)), fm::gen_unblinded_raw(&tag))
    } else {
        let ser = sym_ser(0x0a);
        match Generator::from_slice(&ser) {
            Ok(g) => (Asset::Confidential(g), fm::gen_parsed_raw(&ser)),
            Err(_) => { kani::assume(false); (Asset::Null, [0u8; 64]) }
        }
    }
}
/// A value field. kind: 0 = null, 1 = explicit (symbolic amount), 2 = confidential. Returns (value, amount, parsed commitment encoding)
fn mk_value(kind: u8) -> (Value, u64, [u8; 64]) {
    if kind == 0 {
        (Value::Null, 0, [0u8; 64])
    } else if kind == 1 {
        let v: u64 = kani::any();
        (Value::Explicit(v), v, [0u8; 64])
    } else {
        let ser = sym_ser(0x08);
        match PedersenCommitment::from_slice(&ser) {
            Ok(c) => (Value::Confidential(c), 0, fm::commit_parsed_raw(&ser)),
            Err(_) => { kani::assume(false); (Value::Null, 0, [0u8; 64]) }
        }
    }
}
/// expected commitment of an output given its kinds (the statement: explicit => unblinded commitment under the asset's generator)
fn want_commit(vkind: u8, amount: u64, parsed: &[u8; 64], gen: &[u8; 64]) -> [u8; 64] {
    if vkind == 1 { fm::commit_unblinded_raw(amount, gen) } else { *parsed }
}

// independent restatement of Elements' CScript::IsUnspendable plus the empty-script (fee) rule
fn unspendable(script: &[u8]) -> bool {
    script.is_empty() || script[0] == 0x6a || script.len() > 10_000
}

macro_rules! txout_commit_harness {
    ($name:ident, $slen:expr) => {
        #[kani::proof]
        #[kani::stub(models_active, models_active_yes)]
        #[kani::stub(zffi::secp256k1_generator_generate_blinded, fm::generator_generate_blinded)]
        #[kani::stub(zffi::secp256k1_generator_parse, fm::generator_parse)]
        #[kani::stub(zffi::secp256k1_pedersen_commitment_parse, fm::pedersen_commitment_parse)]
        #[kani::stub(zffi::secp256k1_pedersen_commit, fm::pedersen_commit)]
        fn $name() {
            const SLEN: usize = $slen;
            fake_secp!(secp);
            let akind: u8 = kani::any();
            let vkind: u8 = kani::any();
            kani::assume(akind < 3 && vkind < 3);
            let (asset, gen) = mk_asset(akind);
            let (value, amount, parsed) = mk_value(vkind);
            let sbytes: [u8; SLEN] = kani::any();
            let txout = TxOut { asset, value, nonce: Nonce::Null, script_pubkey: Script::from(sbytes.to_vec()), witness: TxOutWitness::default() };

            match txout.get_asset_gen(secp) {
                Ok(g) => { assert!(akind != 0); if models_active() { assert!(raw_gen(&g) == gen); } }
                Err(e) => { assert!(akind == 0); assert!(e == TxOutError::UnExpectedNullAsset); }
            }
            match txout.get_value_commit(secp) {
                Ok(c) => {
                    assert!(vkind != 0);
                    if vkind == 1 {
                        assert!(amount != 0 && akind != 0);
                        if models_active() { assert!(raw_commit(&c) == fm::commit_unblinded_raw(amount, &gen), "explicit value => unblinded commitment of that value under that asset's generator"); }
                        kani::cover!(akind == 2);
                        kani::cover!(akind == 1 && amount == u64::MAX);
                    } else {
                        if models_active() { assert!(raw_commit(&c) == parsed); }
                        kani::cover!(akind == 0); // a confidential value does not need the asset
                    }
                }
                Err(e) => {
                    if vkind == 0 {
                        assert!(e == TxOutError::UnExpectedNullValue);
                    } else {
                        assert!(vkind == 1);
                        if amount == 0 {
                            if unspendable(&sbytes) { assert!(e == TxOutError::ZeroValueCommitment); kani::cover!(true); }
                            else { assert!(e == TxOutError::NonUnspendableZeroValue); }
                        } else {
                            assert!(akind == 0 && e == TxOutError::UnExpectedNullAsset);
                        }
                    }
                }
            }
            // reachability of the spendable-zero case (impossible for the empty script, which is always unspendable)
            kani::cover!(SLEN == 0 || (vkind == 1 && amount == 0 && !unspendable(&sbytes)));
            core::mem::forget(txout);
        }
    };
}
//@ harness: txout_commit_script0 class=B tier=quick bound="script length 0 (the fee-output rule); every asset/value kind, every amount" props=C05 timeout=600
//@ clause: get_asset_gen: null asset => UnExpectedNullAsset, explicit => generator of that asset tag, confidential => itself. get_value_commit: null => UnExpectedNullValue; explicit non-zero => unblinded commitment of that value under that asset's generator; confidential => itself; explicit zero => ZeroValueCommitment on a provably unspendable script
txout_commit_harness!(txout_commit_script0, 0);
//@ harness: txout_commit_script1 class=B tier=quick bound="script length 1, symbolic byte (OP_RETURN and every other opcode)" props=C05 timeout=600
//@ clause: same; explicit zero => ZeroValueCommitment iff the script starts with OP_RETURN, otherwise NonUnspendableZeroValue
txout_commit_harness!(txout_commit_script1, 1);
//@ harness: txout_commit_script3 class=B tier=quick bound="script length 3, symbolic bytes" props=C05 timeout=600
//@ clause: same with a 3-byte script
txout_commit_harness!(txout_commit_script3, 3);

// ---------------------------------------------------------------------------------------------------------------
// verify_tx_amt_proofs

fn mk_rangeproof(id: u8) -> Option<Box<RangeProof>> {
    match RangeProof::from_slice(&[id, 0x77]) { Ok(p) => Some(Box::new(p)), Err(_) => { kani::assume(false); None } }
}
fn mk_surjproof(id: u8) -> Option<Box<SurjectionProof>> {
    match SurjectionProof::from_slice(&[id]) { Ok(p) => Some(Box::new(p)), Err(_) => { kani::assume(false); None } }
}
fn mk_input() -> TxIn {
    let mut i = TxIn::default();
    i.previous_output.vout = kani::any();
    i
}

const RP_ID: u8 = 0xA1;
const SP_ID: u8 = 0xB2;

struct Out {
    akind: u8,
    vkind: u8,
    amount: u64,
    gen: [u8; 64],
    commit: [u8; 64],
    has_rp: bool,
    has_sp: bool,
    script: [u8; 2],
}
/// An output with symbolic kinds (explicit non-zero / confidential), symbolic presence of each proof, 2-byte script.
fn mk_out(rp_id: u8, sp_id: u8, fixed: Option<(u8, u8, bool, bool)>) -> (TxOut, Out) {
    let (akind, vkind): (u8, u8) = match fixed { Some((a, v, _, _)) => (a, v), None => (kani::any(), kani::any()) };
    kani::assume((akind == 1 || akind == 2) && (vkind == 1 || vkind == 2));
    let (asset, gen) = mk_asset(akind);
    let (value, amount, parsed) = mk_value(vkind);
    if vkind == 1 { kani::assume(amount != 0); }
    let (has_rp, has_sp): (bool, bool) = match fixed { Some((_, _, r, p)) => (r, p), None => (kani::any(), kani::any()) };
    let script: [u8; 2] = [0x51, kani::any()];
    let witness = TxOutWitness {
        surjection_proof: if has_sp { mk_surjproof(sp_id) } else { None },
        rangeproof: if has_rp { mk_rangeproof(rp_id) } else { None },
    };
    let commit = want_commit(vkind, amount, &parsed, &gen);
    (TxOut { asset, value, nonce: Nonce::Null, script_pubkey: Script::from(script.to_vec()), witness }, Out { akind, vkind, amount, gen, commit, has_rp, has_sp, script })
}

macro_rules! amt_stubs {
    ($(#[$m:meta])* fn $name:ident() $body:block) => {
        $(#[$m])*
        #[kani::proof]
        #[kani::stub(models_active, models_active_yes)]
        #[kani::stub(zffi::secp256k1_generator_generate_blinded, fm::generator_generate_blinded)]
        #[kani::stub(zffi::secp256k1_generator_parse, fm::generator_parse)]
        #[kani::stub(zffi::secp256k1_pedersen_commitment_parse, fm::pedersen_commitment_parse)]
        #[kani::stub(zffi::secp256k1_pedersen_commit, fm::pedersen_commit)]
        #[kani::stub(zffi::secp256k1_rangeproof_info, fm::rangeproof_info)]
        #[kani::stub(zffi::secp256k1_surjectionproof_parse, fm::surjectionproof_parse)]
        #[kani::stub(zffi::secp256k1_rangeproof_verify, fm::rangeproof_verify)]
        #[kani::stub(zffi::secp256k1_surjectionproof_verify, fm::surjectionproof_verify)]
        #[kani::stub(zffi::secp256k1_pedersen_verify_tally, fm::pedersen_verify_tally)]
        fn $name() $body
    };
}

macro_rules! verify_amt_harness {
    ($name:ident, $s_akind:expr, $s_vkind:expr, $fixed:expr, $with_fee:expr) => {
amt_stubs! {
// since the D9 repair the number of collected output commitments depends on a branch (zero-value outputs are skipped),
// so the loops over them have a symbolic bound: unwind 4 covers 1 input / 2 outputs (unwinding assertions stay on)
#[kani::unwind(4)]
fn $name() {
    fake_secp!(secp);
    // spent output
    let s_akind: u8 = $s_akind;
    let s_vkind: u8 = $s_vkind;
    let (s_asset, s_gen) = mk_asset(s_akind);
    let (s_value, s_amount, s_parsed) = mk_value(s_vkind);
    if s_vkind == 1 { kani::assume(s_amount != 0); }
    let s_commit = want_commit(s_vkind, s_amount, &s_parsed, &s_gen);
    let spent = [TxOut { asset: s_asset, value: s_value, nonce: Nonce::Null, script_pubkey: Script::new(), witness: TxOutWitness::default() }];
    // outputs
    let (out0, o0) = mk_out(RP_ID, SP_ID, $fixed);
    let fee_tag = sym_tag();
    let fee_amt: u64 = kani::any();
    kani::assume(fee_amt != 0);
    let fee = TxOut::new_fee(fee_amt, AssetId::from_byte_array(fee_tag));
    let fee_commit = fm::commit_unblinded_raw(fee_amt, &fm::gen_unblinded_raw(&fee_tag));
    let with_fee: bool = $with_fee;
    let output = if with_fee { vec![out0, fee] } else { core::mem::forget(fee); vec![out0] };
    let tx = Transaction { version: 2, lock_time: crate::LockTime::ZERO, input: vec![mk_input()], output };

    let r = tx.verify_tx_amt_proofs(secp, &spent);

    let (rp_n, sp_n, ta_n) = unsafe { (fm::RP_N, fm::SP_N, fm::TALLY_N) };
    let rp = unsafe { fm::RP_LOG[0] };
    let sp = unsafe { fm::SP_LOG[0] };
    let ta = unsafe { fm::TALLY_LOG[0] };
    // which checks the statement requires for this transaction
    let need_rp = o0.vkind == 2;
    let need_sp = o0.akind == 2;
    let rp_ok = !need_rp || (o0.has_rp && rp_n == 1 && rp.verdict
        && fm::eq64(&rp.commit, &o0.commit) && fm::eq64(&rp.gen, &o0.gen) && rp.proof0 == RP_ID && rp.plen == 2
        && rp.extra_len == 2 && rp.extra[0] == o0.script[0] && rp.extra[1] == o0.script[1]);
    let sp_ok = !need_sp || (o0.has_sp && sp_n == 1 && sp.verdict
        && sp.proof_id == SP_ID as usize && sp.ndom == 1 && fm::eq64(&sp.dom[0], &s_gen) && fm::eq64(&sp.codomain, &o0.gen));
    let ta_ok = ta_n == 1 && ta.verdict && ta.npos == 1 && fm::eq64(&ta.pos[0], &s_commit)
        && fm::eq64(&ta.neg[0], &o0.commit)
        && (if with_fee { ta.nneg == 2 && fm::eq64(&ta.neg[1], &fee_commit) } else { ta.nneg == 1 });
    if !models_active() { core::mem::forget(r); core::mem::forget(tx); core::mem::forget(spent); return; }
    match r {
        Ok(()) => {
            assert!(rp_ok, "Ok although the range proof of a confidential value was not verified for this output");
            assert!(sp_ok, "Ok although the surjection proof of a confidential asset was not verified for this output");
            assert!(ta_ok, "Ok although the balance primitive was not asked about exactly these commitments / said no");
            // no verification of proofs that are not required
            assert!(need_rp || rp_n == 0);
            assert!(need_sp || sp_n == 0);
            let fixed: Option<(u8, u8, bool, bool)> = $fixed;
            kani::cover!(need_rp && need_sp);
            kani::cover!(fixed.is_some() || (!need_rp && !need_sp));
        }
        Err(e) => {
            assert!(!(rp_ok && sp_ok && ta_ok), "all required checks passed, yet verification failed");
            match &e {
                VerificationError::RangeProofMissing(i) => assert!(*i == 0 && need_rp && !o0.has_rp),
                VerificationError::RangeProofError(i, _) => assert!(*i == 0 && need_rp && o0.has_rp && rp_n == 1 && !rp.verdict),
                VerificationError::SurjectionProofMissing(i) => assert!(*i == 0 && need_sp && !o0.has_sp),
                VerificationError::SurjectionProofVerificationError(i) => assert!(*i == 0 && need_sp && o0.has_sp && sp_n == 1 && !sp.verdict),
                VerificationError::BalanceCheckFailed => assert!(ta_n == 1 && !ta.verdict && rp_ok && sp_ok),
                _ => assert!(false, "no other failure is possible for this shape"),
            }
            let fixed: Option<(u8, u8, bool, bool)> = $fixed;
            kani::cover!(fixed.is_some() || matches!(e, VerificationError::RangeProofMissing(_)));
            kani::cover!(matches!(e, VerificationError::RangeProofError(..)));
            kani::cover!(fixed.is_some() || matches!(e, VerificationError::SurjectionProofMissing(_)));
            kani::cover!(matches!(e, VerificationError::SurjectionProofVerificationError(_)));
            kani::cover!(matches!(e, VerificationError::BalanceCheckFailed));
            core::mem::forget(e);
        }
    }
    core::mem::forget(tx);
    core::mem::forget(spent);
}
}
    };
}
//@ unregistered-harness: verify_amt_spent_explicit class=B tier=thorough bound="1 input without issuance spending an explicit output; output 0 explicit-or-confidential asset and value with optional proofs and a 2-byte script, output 1 an explicit fee; primitives assumed (A-secp)" props=C05 timeout=1500
//@ unregistered-clause: verify_tx_amt_proofs returns Ok iff: a confidential value has a range proof verified (verdict Ok) with that output's commitment, script bytes and asset generator; a confidential asset has a surjection proof verified (true) for that output's generator over [spent generator]; the balance primitive was called once with [spent commitment] vs [output commitments in order] and returned true. Each Err variant names a true reason.
verify_amt_harness!(verify_amt_spent_explicit, 1, 1, None, true);
//@ unregistered-harness: verify_amt_blinded_output class=B tier=thorough bound="1 input spending an explicit output; output 0 has a confidential asset and value and carries both proofs, output 1 an explicit fee; primitives assumed (A-secp), verdicts symbolic" props=C05 timeout=1500
//@ unregistered-clause: for a blinded output carrying both proofs, Ok iff the range proof was verified Ok for that output's commitment / script / generator, the surjection proof was verified true for that output's generator over [spent generator], and the balance primitive said true for [spent commitment] vs [output commitments]
verify_amt_harness!(verify_amt_blinded_output, 1, 1, Some((2, 2, true, true)), true);
//@ harness: verify_amt_1in_1out class=B tier=quick bound="1 input spending an explicit output; ONE output with explicit-or-confidential asset and value and optional proofs (no fee output); primitives assumed (A-secp), verdicts symbolic; unwind 4" props=C05 timeout=1500
//@ clause: Ok iff the required range / surjection proofs are present and were verified for that output's commitment, script and generator with a positive verdict, and the balance primitive said true for [spent commitment] vs [output commitment]; each Err variant names a true reason
verify_amt_harness!(verify_amt_1in_1out, 1, 1, None, false);
//@ unregistered-harness: verify_amt_spent_confidential class=B tier=thorough bound="as verify_amt_spent_explicit, the spent output has a confidential asset and value" props=C05 timeout=1500
//@ unregistered-clause: same, with the spent output's generator and commitment taken as they are
verify_amt_harness!(verify_amt_spent_confidential, 2, 2, None, true);

macro_rules! len_mismatch_harness {
    ($name:ident, $nin:expr, $nspent:expr) => {
        amt_stubs! {
        fn $name() {
            fake_secp!(secp);
            let mut input = Vec::with_capacity($nin);
            let mut i = 0;
            while i < $nin { input.push(mk_input()); i += 1; }
            let mut spent: Vec<TxOut> = Vec::with_capacity($nspent);
            let mut k = 0;
            while k < $nspent { spent.push(TxOut::new_fee(5, AssetId::from_byte_array(sym_tag()))); k += 1; }
            let tx = Transaction { version: 2, lock_time: crate::LockTime::ZERO, input, output: vec![TxOut::new_fee(5, AssetId::from_byte_array(sym_tag()))] };
            let r = tx.verify_tx_amt_proofs(secp, &spent[..]);
            match r {
                Ok(()) => assert!(false, "a spent-output list of the wrong length must be rejected"),
                Err(e) => { assert!(e == VerificationError::UtxoInputLenMismatch, "... and rejected as such"); core::mem::forget(e); }
            }
            // rejected before any primitive is consulted
            if models_active() { unsafe { assert!(fm::RP_N == 0 && fm::SP_N == 0 && fm::TALLY_N == 0 && fm::COMMIT_CALLS == 0); } }
            kani::cover!(true);
            core::mem::forget(tx);
            core::mem::forget(spent);
        }
        }
    };
}
//@ harness: amt_len_mismatch_1in_0spent class=B tier=quick bound="1 input, 0 spent outputs" props=C05 timeout=600
//@ clause: a spent-output list shorter than the inputs is rejected with UtxoInputLenMismatch before any primitive is called
len_mismatch_harness!(amt_len_mismatch_1in_0spent, 1, 0);
//@ harness: amt_len_mismatch_1in_2spent class=B tier=quick bound="1 input, 2 spent outputs" props=C05 timeout=600
//@ clause: a spent-output list longer than the inputs is rejected with UtxoInputLenMismatch
len_mismatch_harness!(amt_len_mismatch_1in_2spent, 1, 2);
//@ harness: amt_len_mismatch_0in_1spent class=B tier=quick bound="0 inputs, 1 spent output" props=C05 timeout=600
//@ clause: spent outputs for a transaction without inputs are rejected with UtxoInputLenMismatch
len_mismatch_harness!(amt_len_mismatch_0in_1spent, 0, 1);

// ---------------------------------------------------------------------------------------------------------------
// zero-value outputs

/// 1 explicit input and ONE output: an explicit ZERO amount on the given script. (A second, ordinary output would make the
/// number of collected output commitments depend on a branch that CBMC does not resolve; measured: 12 GB, OOM.)
/// Every primitive answers "valid", so only the Rust-side admissibility rule is observed.
fn zero_value_case(script1: Vec<u8>) -> (Result<(), VerificationError>, [u8; 64]) {
    let md = unsafe { Secp256k1::from_raw_all(core::ptr::NonNull::<zffi::Context>::dangling()) };
    let secp: &Secp256k1<All> = unsafe { &*((&*md) as *const Secp256k1<AllPreallocated<'_>> as *const Secp256k1<All>) };
    unsafe { fm::ALL_VALID = true; }
    let tag = sym_tag();
    let amt: u64 = kani::any();
    kani::assume(amt != 0);
    let asset = AssetId::from_byte_array(tag);
    let spent = [TxOut { asset: Asset::Explicit(asset), value: Value::Explicit(amt), nonce: Nonce::Null, script_pubkey: Script::new(), witness: TxOutWitness::default() }];
    let out0 = TxOut { asset: Asset::Explicit(asset), value: Value::Explicit(0), nonce: Nonce::Null, script_pubkey: Script::from(script1), witness: TxOutWitness::default() };
    let tx = Transaction { version: 2, lock_time: crate::LockTime::ZERO, input: vec![mk_input()], output: vec![out0] };
    let r = tx.verify_tx_amt_proofs(secp, &spent);
    core::mem::forget(tx);
    core::mem::forget(spent);
    (r, fm::commit_unblinded_raw(amt, &fm::gen_unblinded_raw(&tag)))
}

amt_stubs! {
//@ harness: zero_value_spendable_rejected class=B tier=quick bound="1 explicit input, 1 explicit output with amount 0 on a 1-byte script whose opcode is symbolic and not OP_RETURN; primitives answer valid; unwind 4" props=C05 timeout=600
//@ clause: a zero-value explicit output on a script that is not provably unspendable makes amount verification fail even when every primitive says valid
#[kani::unwind(4)]
fn zero_value_spendable_rejected() {
    kani::cover!(models_active(), "libsecp models / recorders active");
    if !models_active() { return; }
    let op: u8 = kani::any();
    kani::assume(op != 0x6a);
    let (r, _) = zero_value_case(vec![op]);
    match r {
        Ok(()) => assert!(false, "zero value on a spendable script admitted"),
        Err(e) => { kani::cover!(true); core::mem::forget(e); }
    }
}
}

macro_rules! zero_value_admissible {
    ($name:ident, $script:expr) => {
        amt_stubs! {
        // the number of output commitments depends on whether a zero-value output is skipped, so the loops over them
        // have a symbolic bound: unwind 4 covers every loop of this harness and of the verifier for 1 input / 1 output (unwinding assertions stay on)
        #[kani::unwind(4)]
        fn $name() {
            kani::cover!(models_active(), "libsecp models / recorders active");
            if !models_active() { return; }
            let (r, c_in) = zero_value_case($script);
            match r {
                Ok(()) => {
                    // admissible, and it contributes nothing to the balance (recorder-based: only with the models in force)
                    if models_active() {
                        let ta = unsafe { fm::TALLY_LOG[0] };
                        unsafe { assert!(fm::TALLY_N == 1); }
                        assert!(ta.npos == 1 && fm::eq64(&ta.pos[0], &c_in));
                        assert!(ta.nneg == 0, "the zero-value output contributes nothing to the balance");
                    }
                    kani::cover!(true);
                }
                Err(e) => {
                    core::mem::forget(e);
                    assert!(false, "zero-value output on a provably unspendable script must be admissible");
                }
            }
        }
        }
    };
}
//@ harness: zero_value_opreturn_admissible class=B tier=quick bound="1 explicit input, 1 explicit output with amount 0 on the script OP_RETURN; primitives answer valid; unwind 4" props=C05 timeout=600
//@ clause: zero-value outputs are admissible on provably unspendable scripts (OP_RETURN burn): verification does not fail on it and the zero output is not part of the balance call. (DESIGN section 6, D9: failed before the repair of verify_tx_amt_proofs, kept as regression check)
zero_value_admissible!(zero_value_opreturn_admissible, vec![0x6au8]);
//@ harness: zero_value_emptyscript_admissible class=B tier=quick bound="as above with the empty script (zero fee output)" props=C05 timeout=600
//@ clause: zero-value outputs are admissible on the empty script (zero fee). (DESIGN section 6, D9: failed before the repair of verify_tx_amt_proofs, kept as regression check)
zero_value_admissible!(zero_value_emptyscript_admissible, Vec::new());
