//@ property: C14
//@ mount: src/pset/map/input.rs
//@ functions: src/pset/map/input.rs::Input::merge, src/pset/macros.rs::merge!
// Per-field contract of `Input::merge` (C14: "yields a PSET containing ... every optional field present in either
// operand", "does not depend on which operand is merged into which").
//
// Shape of every generated harness: operands a, b are `Input::default()` plus the field under test, where
// (a.f, b.f) ranges over {(None,None), (Some(v),None), (None,Some(v)), (Some(v),Some(v))} for a symbolic v
// ("identical or disjoint additions" of the property's quantifier).  Oracle, from the property text only:
//   merge(a,b).f == a.f.or(b.f) == merge(b,a).f, merge returns Ok, and every *other* field keeps its default
// (the whole result equals `Input::default()` with f := a.f.or(b.f)).
use super::*;

#[path = "support/c07_ffi.rs"]
mod ffi_models;
use ffi_models::*;

fn script2() -> Script {
    let b: [u8; 2] = kani::any();
    Script::from(b.to_vec())
}
fn bytes2() -> Vec<u8> {
    let b: [u8; 2] = kani::any();
    b.to_vec()
}
fn wit1() -> Vec<Vec<u8>> {
    let b: [u8; 1] = kani::any();
    vec![b.to_vec()]
}
fn any_tx0() -> Transaction {
    Transaction { version: kani::any(), lock_time: LockTime::from_consensus(kani::any()), input: vec![], output: vec![] }
}
fn any_btx0() -> bitcoin::Transaction {
    bitcoin::Transaction {
        version: bitcoin::transaction::Version(kani::any()),
        lock_time: bitcoin::absolute::LockTime::from_consensus(kani::any()),
        input: vec![],
        output: vec![],
    }
}
fn any_txout() -> TxOut {
    let mut o = TxOut::default();
    o.value = confidential::Value::Explicit(kani::any());
    o.asset = confidential::Asset::Explicit(AssetId::from_byte_array(kani::any()));
    o
}
fn any_time() -> locktime::Time {
    let n: u32 = kani::any();
    match locktime::Time::from_consensus(n) {
        Ok(t) => t,
        Err(e) => { core::mem::forget(e); kani::assume(false); unreachable!() }
    }
}
fn any_height() -> locktime::Height {
    let n: u32 = kani::any();
    match locktime::Height::from_consensus(n) {
        Ok(t) => t,
        Err(e) => { core::mem::forget(e); kani::assume(false); unreachable!() }
    }
}
fn any_schnorr_sig() -> schnorr::SchnorrSig {
    let b: [u8; 64] = kani::any();
    let sig = match secp256k1_zkp::schnorr::Signature::from_slice(&b) {
        Ok(s) => s,
        Err(e) => { core::mem::forget(e); kani::assume(false); unreachable!() }
    };
    let t: u8 = kani::any();
    let hash_ty = match SchnorrSighashType::from_u8(t) { Some(h) => h, None => { kani::assume(false); unreachable!() } };
    schnorr::SchnorrSig { sig, hash_ty }
}
use crate::LockTime;
fn any_tweak() -> Tweak {
    let b: [u8; 32] = kani::any();
    match Tweak::from_inner(b) {
        Ok(t) => t,
        Err(e) => { core::mem::forget(e); kani::assume(false); unreachable!() }
    }
}
fn fgt<T>(t: T) { core::mem::forget(t) }

macro_rules! input_merge_opt {
    ($name:ident, $field:ident, $mk:expr $(, $stub:meta)*) => {
        #[kani::proof]
        $(#[$stub])*
        fn $name() {
            let v = $mk;
            let in_a: bool = kani::any();
            let in_b: bool = kani::any();
            let mut a1 = Input::default();
            let mut b1 = Input::default();
            let mut a2 = Input::default();
            let mut b2 = Input::default();
            let mut want = Input::default();
            if in_a { a1.$field = Some(v.clone()); a2.$field = Some(v.clone()); }
            if in_b { b1.$field = Some(v.clone()); b2.$field = Some(v.clone()); }
            if in_a || in_b { want.$field = Some(v.clone()); }
            kani::cover!(in_a && !in_b);
            kani::cover!(!in_a && in_b);
            kani::cover!(in_a && in_b);
            // a <- b
            match a1.merge(b1) { Ok(()) => {}, Err(e) => { core::mem::forget(e); assert!(false, "merge of conflict-free operands failed"); } }
            // b <- a
            match b2.merge(a2) { Ok(()) => {}, Err(e) => { core::mem::forget(e); assert!(false, "merge of conflict-free operands failed"); } }
            assert!(a1.$field == want.$field, "field present in either operand is present in merge(a,b)");
            assert!(b2.$field == want.$field, "merge(b,a) agrees with merge(a,b)");
            assert!(a1 == want, "no other field disturbed");
            assert!(b2 == want, "no other field disturbed (other order)");
            fgt(a1); fgt(b2); fgt(want); fgt(v);
        }
    };
}

// ---- the two fields DESIGN §6 D10 predicts to fail: each alone in its harness ----
//@ harness: c14_in_merge_sequence class=F tier=quick
//@ clause: Input::merge: `sequence` present in either operand (identical or one-sided) is present in the result, in both merge orders (EXPECTED to fail on the pinned tree: D10)
input_merge_opt!(c14_in_merge_sequence, sequence, Sequence(kani::any()));
//@ harness: c14_in_merge_sighash_type class=F tier=quick
//@ clause: Input::merge: `sighash_type` present in either operand is present in the result, in both merge orders (EXPECTED to fail on the pinned tree: D10)
input_merge_opt!(c14_in_merge_sighash_type, sighash_type, PsbtSighashType::from_u32(kani::any()));

// ---- all other Option fields ----
// scalar (heap-free) values: symbolic presence pattern
//@ harness: c14_in_merge_required_time_locktime class=F tier=quick
//@ clause: Input::merge keeps required_time_locktime present in either operand (identical or one-sided), order-insensitive, no other field disturbed
input_merge_opt!(c14_in_merge_required_time_locktime, required_time_locktime, any_time());
//@ harness: c14_in_merge_required_height_locktime class=F tier=quick
//@ clause: Input::merge keeps required_height_locktime present in either operand (identical or one-sided), order-insensitive, no other field disturbed
input_merge_opt!(c14_in_merge_required_height_locktime, required_height_locktime, any_height());
//@ harness: c14_in_merge_tap_key_sig class=F tier=quick
//@ clause: Input::merge keeps the taproot key-spend signature present in either operand (identical or one-sided), order-insensitive, no other field disturbed
input_merge_opt!(c14_in_merge_tap_key_sig, tap_key_sig, any_schnorr_sig());
//@ harness: c14_in_merge_tap_merkle_root class=F tier=quick
//@ clause: Input::merge keeps tap_merkle_root present in either operand (identical or one-sided), order-insensitive, no other field disturbed
input_merge_opt!(c14_in_merge_tap_merkle_root, tap_merkle_root, TapNodeHash::from_byte_array(kani::any()));
//@ harness: c14_in_merge_issuance_value_amount class=F tier=quick
//@ clause: Input::merge keeps issuance_value_amount present in either operand (identical or one-sided), order-insensitive, no other field disturbed
input_merge_opt!(c14_in_merge_issuance_value_amount, issuance_value_amount, kani::any::<u64>());
//@ harness: c14_in_merge_pegin_genesis_hash class=F tier=quick
//@ clause: Input::merge keeps pegin_genesis_hash present in either operand (identical or one-sided), order-insensitive, no other field disturbed
input_merge_opt!(c14_in_merge_pegin_genesis_hash, pegin_genesis_hash, BlockHash::from_byte_array(kani::any()));
//@ harness: c14_in_merge_pegin_value class=F tier=quick
//@ clause: Input::merge keeps pegin_value present in either operand (identical or one-sided), order-insensitive, no other field disturbed
input_merge_opt!(c14_in_merge_pegin_value, pegin_value, kani::any::<u64>());
//@ harness: c14_in_merge_issuance_inflation_keys class=F tier=quick
//@ clause: Input::merge keeps issuance_inflation_keys present in either operand (identical or one-sided), order-insensitive, no other field disturbed
input_merge_opt!(c14_in_merge_issuance_inflation_keys, issuance_inflation_keys, kani::any::<u64>());
//@ harness: c14_in_merge_issuance_asset_entropy class=F tier=quick
//@ clause: Input::merge keeps issuance_asset_entropy present in either operand (identical or one-sided), order-insensitive, no other field disturbed
input_merge_opt!(c14_in_merge_issuance_asset_entropy, issuance_asset_entropy, kani::any::<[u8; 32]>());
//@ harness: c14_in_merge_amount class=F tier=quick
//@ clause: Input::merge keeps the explicit amount present in either operand (identical or one-sided), order-insensitive, no other field disturbed
input_merge_opt!(c14_in_merge_amount, amount, kani::any::<u64>());
//@ harness: c14_in_merge_asset class=F tier=quick
//@ clause: Input::merge keeps the explicit asset present in either operand (identical or one-sided), order-insensitive, no other field disturbed
input_merge_opt!(c14_in_merge_asset, asset, AssetId::from_byte_array(kani::any()));
//@ harness: c14_in_merge_blinded_issuance class=F tier=quick
//@ clause: Input::merge keeps blinded_issuance present in either operand (identical or one-sided), order-insensitive, no other field disturbed
input_merge_opt!(c14_in_merge_blinded_issuance, blinded_issuance, kani::any::<u8>());
//@ harness: c14_in_merge_tap_internal_key class=F tier=quick
//@ clause: Input::merge keeps tap_internal_key present in either operand (identical or one-sided), order-insensitive (x-only key comparison through the assumed libsecp model)
input_merge_opt!(c14_in_merge_tap_internal_key, tap_internal_key, any_xonly(), kani::stub(zffi::secp256k1_xonly_pubkey_cmp, model_xonly_pubkey_cmp));
//@ harness: c14_in_merge_issuance_value_comm class=F tier=quick
//@ clause: Input::merge keeps issuance_value_comm present in either operand, order-insensitive (commitment built through the assumed parse model)
input_merge_opt!(c14_in_merge_issuance_value_comm, issuance_value_comm, any_pedersen(), kani::stub(zffi::secp256k1_pedersen_commitment_parse, model_pedersen_commitment_parse));
//@ harness: c14_in_merge_issuance_inflation_keys_comm class=F tier=quick
//@ clause: Input::merge keeps issuance_inflation_keys_comm present in either operand, order-insensitive
input_merge_opt!(c14_in_merge_issuance_inflation_keys_comm, issuance_inflation_keys_comm, any_pedersen(), kani::stub(zffi::secp256k1_pedersen_commitment_parse, model_pedersen_commitment_parse));
//@ harness: c14_in_merge_issuance_blinding_nonce class=F tier=quick
//@ clause: Input::merge keeps issuance_blinding_nonce present in either operand, order-insensitive (tweak range check through the exact seckey_verify model)
input_merge_opt!(c14_in_merge_issuance_blinding_nonce, issuance_blinding_nonce, any_tweak(), kani::stub(zffi::secp256k1_ec_seckey_verify, model_ec_seckey_verify));

// Fields whose value owns heap memory (scripts, byte vectors, witness stacks, transactions).  Measured: with a
// *symbolic* presence pattern these take > 25 min each, with a concrete pattern ~1 min.  So the presence patterns are
// split into two harnesses per field:
//   *_onesided : only ONE operand has the field (value symbolic); merged in BOTH directions, i.e. "present only in the
//                second operand" and "present only in the first operand"; both results equal default + f := Some(v)
//   *_identical: both operands have the identical value
macro_rules! input_merge_heap {
    ($one:ident, $ident:ident, $field:ident, $mk:expr $(, $stub:meta)*) => {
        #[kani::proof]
        $(#[$stub])*
        fn $one() {
            let v = $mk;
            let mut a1 = Input::default(); let mut b1 = Input::default();
            let a2 = Input::default(); let mut b2 = Input::default();
            let mut want = Input::default();
            b1.$field = Some(v.clone()); b2.$field = Some(v.clone()); want.$field = Some(v);
            match a1.merge(b1) { Ok(()) => {}, Err(e) => { fgt(e); assert!(false, "merge of conflict-free operands failed"); } }
            match b2.merge(a2) { Ok(()) => {}, Err(e) => { fgt(e); assert!(false, "merge of conflict-free operands failed"); } }
            kani::cover!(true);
            assert!(a1.$field == want.$field, "field present only in the second operand is present in the result");
            assert!(b2.$field == want.$field, "field present only in the first operand is kept");
            assert!(a1 == want, "no other field disturbed");
            assert!(b2 == want, "no other field disturbed (other order)");
            fgt(a1); fgt(b2); fgt(want);
        }
        #[kani::proof]
        $(#[$stub])*
        fn $ident() {
            let v = $mk;
            let mut a1 = Input::default(); let mut b1 = Input::default();
            let mut want = Input::default();
            a1.$field = Some(v.clone()); b1.$field = Some(v.clone()); want.$field = Some(v);
            match a1.merge(b1) { Ok(()) => {}, Err(e) => { fgt(e); assert!(false, "merge of identical additions failed"); } }
            kani::cover!(true);
            assert!(a1 == want, "identical additions merge to that value, nothing else disturbed");
            fgt(a1); fgt(want);
        }
    };
}
//@ harness: c14_in_merge_non_witness_utxo_onesided class=B tier=thorough bound="transaction with 0 inputs / 0 outputs, symbolic version and lock time"
//@ clause: Input::merge: non_witness_utxo present in exactly one operand is present in the result whichever operand is merged into which; no other field disturbed
//@ harness: c14_in_merge_non_witness_utxo_identical class=B tier=thorough bound="transaction with 0 inputs / 0 outputs, symbolic version and lock time"
//@ clause: Input::merge: identical non_witness_utxo in both operands merges to that value
input_merge_heap!(c14_in_merge_non_witness_utxo_onesided, c14_in_merge_non_witness_utxo_identical, non_witness_utxo, any_tx0());
//@ harness: c14_in_merge_witness_utxo_onesided class=B tier=quick bound="TxOut with explicit symbolic value and asset, null nonce, empty script"
//@ clause: Input::merge: witness_utxo present in exactly one operand is present in the result whichever operand is merged into which; no other field disturbed
//@ harness: c14_in_merge_witness_utxo_identical class=B tier=thorough bound="TxOut with explicit symbolic value and asset, null nonce, empty script"
//@ clause: Input::merge: identical witness_utxo in both operands merges to that value
input_merge_heap!(c14_in_merge_witness_utxo_onesided, c14_in_merge_witness_utxo_identical, witness_utxo, any_txout());
//@ harness: c14_in_merge_redeem_script_onesided class=B tier=quick bound="script of exactly 2 symbolic bytes"
//@ clause: Input::merge: redeem_script present in exactly one operand is present in the result whichever operand is merged into which; no other field disturbed
//@ harness: c14_in_merge_redeem_script_identical class=B tier=thorough bound="script of exactly 2 symbolic bytes"
//@ clause: Input::merge: identical redeem_script in both operands merges to that value
input_merge_heap!(c14_in_merge_redeem_script_onesided, c14_in_merge_redeem_script_identical, redeem_script, script2());
//@ harness: c14_in_merge_witness_script_onesided class=B tier=thorough bound="script of exactly 2 symbolic bytes"
//@ clause: Input::merge: witness_script present in exactly one operand is present in the result whichever operand is merged into which; no other field disturbed
//@ harness: c14_in_merge_witness_script_identical class=B tier=thorough bound="script of exactly 2 symbolic bytes"
//@ clause: Input::merge: identical witness_script in both operands merges to that value
input_merge_heap!(c14_in_merge_witness_script_onesided, c14_in_merge_witness_script_identical, witness_script, script2());
//@ harness: c14_in_merge_final_script_sig_onesided class=B tier=quick bound="script of exactly 2 symbolic bytes"
//@ clause: Input::merge: final_script_sig present in exactly one operand is present in the result whichever operand is merged into which; no other field disturbed
//@ harness: c14_in_merge_final_script_sig_identical class=B tier=thorough bound="script of exactly 2 symbolic bytes"
//@ clause: Input::merge: identical final_script_sig in both operands merges to that value
input_merge_heap!(c14_in_merge_final_script_sig_onesided, c14_in_merge_final_script_sig_identical, final_script_sig, script2());
//@ harness: c14_in_merge_final_script_witness_onesided class=B tier=thorough bound="witness stack of one 1-byte element" timeout=3000
//@ clause: Input::merge: final_script_witness present in exactly one operand is present in the result whichever operand is merged into which; no other field disturbed
//@ harness: c14_in_merge_final_script_witness_identical class=B tier=thorough bound="witness stack of one 1-byte element"
//@ clause: Input::merge: identical final_script_witness in both operands merges to that value
input_merge_heap!(c14_in_merge_final_script_witness_onesided, c14_in_merge_final_script_witness_identical, final_script_witness, wit1());
//@ harness: c14_in_merge_pegin_tx_onesided class=B tier=thorough bound="bitcoin transaction with 0 inputs / 0 outputs"
//@ clause: Input::merge: pegin_tx present in exactly one operand is present in the result whichever operand is merged into which; no other field disturbed
//@ harness: c14_in_merge_pegin_tx_identical class=B tier=thorough bound="bitcoin transaction with 0 inputs / 0 outputs"
//@ clause: Input::merge: identical pegin_tx in both operands merges to that value
input_merge_heap!(c14_in_merge_pegin_tx_onesided, c14_in_merge_pegin_tx_identical, pegin_tx, any_btx0());
//@ harness: c14_in_merge_pegin_txout_proof_onesided class=B tier=thorough bound="2 symbolic bytes"
//@ clause: Input::merge: pegin_txout_proof present in exactly one operand is present in the result whichever operand is merged into which; no other field disturbed
//@ harness: c14_in_merge_pegin_txout_proof_identical class=B tier=thorough bound="2 symbolic bytes"
//@ clause: Input::merge: identical pegin_txout_proof in both operands merges to that value
input_merge_heap!(c14_in_merge_pegin_txout_proof_onesided, c14_in_merge_pegin_txout_proof_identical, pegin_txout_proof, bytes2());
//@ harness: c14_in_merge_pegin_claim_script_onesided class=B tier=thorough bound="script of exactly 2 symbolic bytes"
//@ clause: Input::merge: pegin_claim_script present in exactly one operand is present in the result whichever operand is merged into which; no other field disturbed
//@ harness: c14_in_merge_pegin_claim_script_identical class=B tier=thorough bound="script of exactly 2 symbolic bytes"
//@ clause: Input::merge: identical pegin_claim_script in both operands merges to that value
input_merge_heap!(c14_in_merge_pegin_claim_script_onesided, c14_in_merge_pegin_claim_script_identical, pegin_claim_script, script2());
//@ harness: c14_in_merge_pegin_witness_onesided class=B tier=thorough bound="witness stack of one 1-byte element"
//@ clause: Input::merge: pegin_witness present in exactly one operand is present in the result whichever operand is merged into which; no other field disturbed
//@ harness: c14_in_merge_pegin_witness_identical class=B tier=thorough bound="witness stack of one 1-byte element"
//@ clause: Input::merge: identical pegin_witness in both operands merges to that value
input_merge_heap!(c14_in_merge_pegin_witness_onesided, c14_in_merge_pegin_witness_identical, pegin_witness, wit1());
//@ harness: c14_in_merge_issuance_value_rangeproof_onesided class=B tier=thorough bound="3-byte range proof (structural validity through the rangeproof_info model)"
//@ clause: Input::merge: issuance_value_rangeproof present in exactly one operand is present in the result whichever operand is merged into which; no other field disturbed
//@ harness: c14_in_merge_issuance_value_rangeproof_identical class=B tier=thorough bound="3-byte range proof"
//@ clause: Input::merge: identical issuance_value_rangeproof in both operands merges to that value
input_merge_heap!(c14_in_merge_issuance_value_rangeproof_onesided, c14_in_merge_issuance_value_rangeproof_identical, issuance_value_rangeproof, any_rangeproof3(), kani::stub(zffi::secp256k1_rangeproof_info, model_rangeproof_info));
//@ harness: c14_in_merge_issuance_keys_rangeproof_onesided class=B tier=thorough bound="3-byte range proof (structural validity through the rangeproof_info model)"
//@ clause: Input::merge: issuance_keys_rangeproof present in exactly one operand is present in the result whichever operand is merged into which; no other field disturbed
//@ harness: c14_in_merge_issuance_keys_rangeproof_identical class=B tier=thorough bound="3-byte range proof"
//@ clause: Input::merge: identical issuance_keys_rangeproof in both operands merges to that value
input_merge_heap!(c14_in_merge_issuance_keys_rangeproof_onesided, c14_in_merge_issuance_keys_rangeproof_identical, issuance_keys_rangeproof, any_rangeproof3(), kani::stub(zffi::secp256k1_rangeproof_info, model_rangeproof_info));
//@ harness: c14_in_merge_in_utxo_rangeproof_onesided class=B tier=thorough bound="3-byte range proof (structural validity through the rangeproof_info model)"
//@ clause: Input::merge: in_utxo_rangeproof present in exactly one operand is present in the result whichever operand is merged into which; no other field disturbed
//@ harness: c14_in_merge_in_utxo_rangeproof_identical class=B tier=thorough bound="3-byte range proof"
//@ clause: Input::merge: identical in_utxo_rangeproof in both operands merges to that value
input_merge_heap!(c14_in_merge_in_utxo_rangeproof_onesided, c14_in_merge_in_utxo_rangeproof_identical, in_utxo_rangeproof, any_rangeproof3(), kani::stub(zffi::secp256k1_rangeproof_info, model_rangeproof_info));
//@ harness: c14_in_merge_in_issuance_blind_value_proof_onesided class=B tier=thorough bound="3-byte range proof (structural validity through the rangeproof_info model)"
//@ clause: Input::merge: in_issuance_blind_value_proof present in exactly one operand is present in the result whichever operand is merged into which; no other field disturbed
//@ harness: c14_in_merge_in_issuance_blind_value_proof_identical class=B tier=thorough bound="3-byte range proof"
//@ clause: Input::merge: identical in_issuance_blind_value_proof in both operands merges to that value
input_merge_heap!(c14_in_merge_in_issuance_blind_value_proof_onesided, c14_in_merge_in_issuance_blind_value_proof_identical, in_issuance_blind_value_proof, any_rangeproof3(), kani::stub(zffi::secp256k1_rangeproof_info, model_rangeproof_info));
//@ harness: c14_in_merge_in_issuance_blind_inflation_keys_proof_onesided class=B tier=thorough bound="3-byte range proof (structural validity through the rangeproof_info model)"
//@ clause: Input::merge: in_issuance_blind_inflation_keys_proof present in exactly one operand is present in the result whichever operand is merged into which; no other field disturbed
//@ harness: c14_in_merge_in_issuance_blind_inflation_keys_proof_identical class=B tier=thorough bound="3-byte range proof"
//@ clause: Input::merge: identical in_issuance_blind_inflation_keys_proof in both operands merges to that value
input_merge_heap!(c14_in_merge_in_issuance_blind_inflation_keys_proof_onesided, c14_in_merge_in_issuance_blind_inflation_keys_proof_identical, in_issuance_blind_inflation_keys_proof, any_rangeproof3(), kani::stub(zffi::secp256k1_rangeproof_info, model_rangeproof_info));
//@ harness: c14_in_merge_blind_value_proof_onesided class=B tier=thorough bound="3-byte range proof (structural validity through the rangeproof_info model)"
//@ clause: Input::merge: blind_value_proof present in exactly one operand is present in the result whichever operand is merged into which; no other field disturbed
//@ harness: c14_in_merge_blind_value_proof_identical class=B tier=thorough bound="3-byte range proof"
//@ clause: Input::merge: identical blind_value_proof in both operands merges to that value
input_merge_heap!(c14_in_merge_blind_value_proof_onesided, c14_in_merge_blind_value_proof_identical, blind_value_proof, any_rangeproof3(), kani::stub(zffi::secp256k1_rangeproof_info, model_rangeproof_info));
// not covered: blind_asset_proof (SurjectionProof is an 8 KB FFI struct; not attempted)

// ---- BTreeMap fields ----
// Oracle (property text): every entry of either operand is in the result, nothing else, whichever operand is merged
// into which.  AFFORDABLE SHAPE (measured): exactly one operand holds ONE entry, the other operand's map is empty; both
// merge directions.  Two-entry unions (one entry per operand, or the same entry in both) were tried with symbolic and
// with concretely ordered keys and did not finish / exhausted memory in 10-15 min each (B-tree insertion into a
// non-empty leaf), so unions of non-empty maps are NOT covered here.
// `#[kani::unwind(3)]`: the consuming B-tree iterator inside `extend(other.map)` descends with
// `loop { match node.force() { Leaf => return, Internal => descend } }`, which CBMC unwinds forever without a bound
// (measured); with the bound, the unwinding assertion proves that the depth is 0.
macro_rules! input_merge_map1 {
    ($name:ident, $field:ident, $mkk:expr, $mkv:expr $(, $stub:meta)*) => { input_merge_map1u!($name, 3, $field, $mkk, $mkv $(, $stub)*); };
}
// explicit unwind bound: maps keyed by 20/32-byte hashes or by keys compare them with memcmp (a 32-iteration loop for CBMC)
macro_rules! input_merge_map1u {
    ($name:ident, $unw:literal, $field:ident, $mkk:expr, $mkv:expr $(, $stub:meta)*) => {
        #[kani::proof]
        #[kani::unwind($unw)]
        $(#[$stub])*
        fn $name() {
            let k = $mkk; let v = $mkv;
            let mut a1 = Input::default(); let mut b1 = Input::default();
            let a2 = Input::default(); let mut b2 = Input::default();
            b1.$field.insert(k.clone(), v.clone());
            b2.$field.insert(k.clone(), v.clone());
            match a1.merge(b1) { Ok(()) => {}, Err(e) => { fgt(e); assert!(false, "merge of conflict-free operands failed"); } }
            match b2.merge(a2) { Ok(()) => {}, Err(e) => { fgt(e); assert!(false, "merge of conflict-free operands failed"); } }
            kani::cover!(true);
            assert!(a1.$field.len() == 1 && b2.$field.len() == 1, "exactly the entry of the operand that had one");
            assert!(a1.$field.iter().next() == Some((&k, &v)), "entry present only in the second operand is in the result");
            assert!(b2.$field.iter().next() == Some((&k, &v)), "entry present only in the first operand is kept");
            fgt(a1); fgt(b2); fgt(k); fgt(v);
        }
    };
}
fn raw_key1() -> raw::Key {
    let b: [u8; 1] = kani::any();
    raw::Key { type_value: kani::any(), key: b.to_vec() }
}
fn prop_key1() -> raw::ProprietaryKey {
    let p: [u8; 1] = kani::any();
    let k: [u8; 1] = kani::any();
    raw::ProprietaryKey { prefix: p.to_vec(), subtype: kani::any(), key: k.to_vec() }
}
fn val1() -> Vec<u8> {
    let b: [u8; 1] = kani::any();
    b.to_vec()
}
fn any_btc_pubkey() -> PublicKey {
    PublicKey { inner: any_secp_pubkey(), compressed: kani::any() }
}
fn key_source1() -> KeySource {
    let f: [u8; 4] = kani::any();
    let c: u32 = kani::any();
    (bitcoin::bip32::Fingerprint::from(f), bitcoin::bip32::DerivationPath::from(vec![bitcoin::bip32::ChildNumber::from(c)]))
}
//@ harness: c14_in_merge_unknown_onesided class=B tier=quick bound="one entry in one operand, the other operand's map empty; symbolic type byte + 1 symbolic key byte; 1-byte value"
//@ clause: Input::merge: a unknown pair present in exactly one operand is present (alone) in the result whichever operand is merged into which
input_merge_map1!(c14_in_merge_unknown_onesided, unknown, raw_key1(), val1());
//@ harness: c14_in_merge_proprietary_onesided class=B tier=quick bound="one entry in one operand, the other operand's map empty; 1-byte prefix, symbolic subtype, 1-byte key; 1-byte value"
//@ clause: Input::merge: a proprietary pair present in exactly one operand is present (alone) in the result whichever operand is merged into which
input_merge_map1!(c14_in_merge_proprietary_onesided, proprietary, prop_key1(), val1());
//@ harness: c14_in_merge_partial_sigs_onesided class=B tier=thorough bound="one entry in one operand, the other operand's map empty; symbolic public key (libsecp comparison through the assumed model); 1-byte signature" timeout=3000
//@ clause: Input::merge: a partial signature present in exactly one operand is present (alone) in the result whichever operand is merged into which
input_merge_map1u!(c14_in_merge_partial_sigs_onesided, 34, partial_sigs, any_btc_pubkey(), val1(), kani::stub(zffi::secp256k1_ec_pubkey_cmp, model_ec_pubkey_cmp));
//@ harness: c14_in_merge_bip32_derivation_onesided class=B tier=thorough bound="one entry in one operand, the other operand's map empty; symbolic public key; key source with a 1-element path"
//@ clause: Input::merge: a BIP-32 key derivation present in exactly one operand is present (alone) in the result whichever operand is merged into which
input_merge_map1u!(c14_in_merge_bip32_derivation_onesided, 34, bip32_derivation, any_btc_pubkey(), key_source1(), kani::stub(zffi::secp256k1_ec_pubkey_cmp, model_ec_pubkey_cmp));
//@ harness: c14_in_merge_ripemd160_preimages_onesided class=B tier=thorough bound="one entry in one operand, the other operand's map empty; symbolic 20-byte hash key (merge does not check the hash/preimage relation); 1-byte preimage"
//@ clause: Input::merge: a RIPEMD160 preimage present in exactly one operand is present (alone) in the result whichever operand is merged into which
input_merge_map1u!(c14_in_merge_ripemd160_preimages_onesided, 34, ripemd160_preimages, ripemd160::Hash::from_byte_array(kani::any()), val1());
//@ harness: c14_in_merge_sha256_preimages_onesided class=B tier=thorough bound="one entry in one operand, the other operand's map empty; symbolic 32-byte hash key; 1-byte preimage" timeout=3000
//@ clause: Input::merge: a SHA256 preimage present in exactly one operand is present (alone) in the result whichever operand is merged into which
input_merge_map1u!(c14_in_merge_sha256_preimages_onesided, 34, sha256_preimages, sha256::Hash::from_byte_array(kani::any()), val1());
//@ harness: c14_in_merge_hash160_preimages_onesided class=B tier=thorough bound="one entry in one operand, the other operand's map empty; symbolic 20-byte hash key; 1-byte preimage"
//@ clause: Input::merge: a HASH160 preimage present in exactly one operand is present (alone) in the result whichever operand is merged into which
input_merge_map1u!(c14_in_merge_hash160_preimages_onesided, 34, hash160_preimages, hash160::Hash::from_byte_array(kani::any()), val1());
//@ harness: c14_in_merge_hash256_preimages_onesided class=B tier=thorough bound="one entry in one operand, the other operand's map empty; symbolic 32-byte hash key; 1-byte preimage"
//@ clause: Input::merge: a HASH256 preimage present in exactly one operand is present (alone) in the result whichever operand is merged into which
input_merge_map1u!(c14_in_merge_hash256_preimages_onesided, 34, hash256_preimages, sha256d::Hash::from_byte_array(kani::any()), val1());
//@ harness: c14_in_merge_tap_script_sigs_onesided class=B tier=thorough bound="one entry in one operand, the other operand's map empty; symbolic x-only key (comparison through the assumed model) and leaf hash; symbolic signature" timeout=3000
//@ clause: Input::merge: a taproot script-spend signature present in exactly one operand is present (alone) in the result whichever operand is merged into which
input_merge_map1u!(c14_in_merge_tap_script_sigs_onesided, 34, tap_script_sigs, (any_xonly(), TapLeafHash::from_byte_array(kani::any())), any_schnorr_sig(), kani::stub(zffi::secp256k1_xonly_pubkey_cmp, model_xonly_pubkey_cmp));
//@ harness: c14_in_merge_tap_key_origins_onesided class=B tier=thorough bound="one entry in one operand, the other operand's map empty; symbolic x-only key; one leaf hash, key source with a 1-element path"
//@ clause: Input::merge: a taproot key origin present in exactly one operand is present (alone) in the result whichever operand is merged into which
input_merge_map1u!(c14_in_merge_tap_key_origins_onesided, 34, tap_key_origins, any_xonly(), (vec![TapLeafHash::from_byte_array(kani::any())], key_source1()), kani::stub(zffi::secp256k1_xonly_pubkey_cmp, model_xonly_pubkey_cmp));
// not covered: tap_scripts (ControlBlock keys: merkle branch + x-only key; not attempted)

// ---- interaction of the two UTXO fields (candidate disagreement found while reading Input::merge) ----
//@ harness: c14_in_merge_utxo_pair_order class=B tier=quick bound="non_witness_utxo = empty transaction with symbolic version/lock time; witness_utxo = explicit TxOut"
//@ clause: a has only non_witness_utxo, b has only witness_utxo (disjoint additions): both orders of Input::merge give the same result and both fields survive (EXPECTED to fail: merge(a,b) clears non_witness_utxo, merge(b,a) keeps it)
#[kani::proof]
fn c14_in_merge_utxo_pair_order() {
    let tx = any_tx0();
    let out = any_txout();
    let mut a1 = Input::default(); a1.non_witness_utxo = Some(tx.clone());
    let mut a2 = Input::default(); a2.non_witness_utxo = Some(tx.clone());
    let mut b1 = Input::default(); b1.witness_utxo = Some(out.clone());
    let mut b2 = Input::default(); b2.witness_utxo = Some(out.clone());
    match a1.merge(b1) { Ok(()) => {}, Err(e) => { fgt(e); assert!(false); } }
    match b2.merge(a2) { Ok(()) => {}, Err(e) => { fgt(e); assert!(false); } }
    kani::cover!(true);
    assert!(a1.witness_utxo == Some(out.clone()) && b2.witness_utxo == Some(out), "witness_utxo kept in both orders");
    assert!(a1.non_witness_utxo == b2.non_witness_utxo, "result independent of which operand is merged into which");
    assert!(a1.non_witness_utxo == Some(tx), "optional field present in an operand is present in the result");
    fgt(a1); fgt(b2);
}

//@ harness: c14_in_merge_locktime_max class=F tier=quick
//@ clause: Input::merge on two different required lock times of the same kind: result is order-insensitive and at least as constraining as both (the larger), never a panic
#[kani::proof]
fn c14_in_merge_locktime_max() {
    let ta = if kani::any() { Some(any_time()) } else { None };
    let tb = if kani::any() { Some(any_time()) } else { None };
    let ha = if kani::any() { Some(any_height()) } else { None };
    let hb = if kani::any() { Some(any_height()) } else { None };
    let mut a1 = Input::default(); a1.required_time_locktime = ta; a1.required_height_locktime = ha;
    let mut a2 = Input::default(); a2.required_time_locktime = ta; a2.required_height_locktime = ha;
    let mut b1 = Input::default(); b1.required_time_locktime = tb; b1.required_height_locktime = hb;
    let mut b2 = Input::default(); b2.required_time_locktime = tb; b2.required_height_locktime = hb;
    match a1.merge(b1) { Ok(()) => {}, Err(e) => { fgt(e); assert!(false); } }
    match b2.merge(a2) { Ok(()) => {}, Err(e) => { fgt(e); assert!(false); } }
    assert!(a1.required_time_locktime == b2.required_time_locktime && a1.required_height_locktime == b2.required_height_locktime);
    let tu = |x: Option<locktime::Time>| x.map(|t| t.to_consensus_u32());
    let hu = |x: Option<locktime::Height>| x.map(|t| t.to_consensus_u32());
    // oracle: present iff present in either; value = numeric max of those present
    let want_t = match (tu(ta), tu(tb)) { (None, x) => x, (x, None) => x, (Some(x), Some(y)) => Some(if x > y { x } else { y }) };
    let want_h = match (hu(ha), hu(hb)) { (None, x) => x, (x, None) => x, (Some(x), Some(y)) => Some(if x > y { x } else { y }) };
    assert!(tu(a1.required_time_locktime) == want_t);
    assert!(hu(a1.required_height_locktime) == want_h);
    kani::cover!(ta.is_some() && tb.is_some() && ta != tb);
    kani::cover!(ha.is_none() && hb.is_some());
    fgt(a1); fgt(b2);
}
