//@ property: C14
//@ mount: src/pset/map/input.rs
//@ functions: src/pset/map/input.rs::Input::merge, src/pset/macros.rs::merge!
// Per-field contract of `Input::merge` (C14: "yields a PSET containing ... every optional field present in either
// operand", "does not depend on which operand is merged into which").
//
// Shape of every generated harness: operands a, b are `Input::default()` plus the field under test, where
// (a.f, b.f) ranges over {(None,None), (Some(v),None), (None,Some(v)), (Some(v),Some(v))} for a symbolic v
// ("identical or disjoint additions" of the property's quantifier).  Oracle, from the property text only:
//   merge(a,b).f == a.f.or(b.f) == merge(b,a).f, merge returns Ok, and every *other* field keeps its default
// (the whole result equals `Input::default()` with f := a.f.or(b.f)).
use super::*;

#[path = "support/c07_ffi.rs"]
mod ffi_models;
use ffi_models::*;

fn script2() -> Script {
    let b: [u8; 2] = kani::any();
    Script::from(b.to_vec())
}
fn bytes2() -> Vec<u8> {
    let b: [u8; 2] = kani::any();
    b.to_vec()
}
fn wit1() -> Vec<Vec<u8>> {
    let b: [u8; 1] = kani::any();
    vec![b.to_vec()]
}
fn any_tx0() -> Transaction {
    Transaction { version: kani::any(), lock_time: LockTime::from_consensus(kani::any()), input: vec![], output: vec![] }
}
fn any_btx0() -> bitcoin::Transaction {
    bitcoin::Transaction {
        version: bitcoin::transaction::Version(kani::any()),
        lock_time: bitcoin::absolute::LockTime::from_consensus(kani::any()),
        input: vec![],
        output: vec![],
    }
}
fn any_txout() -> TxOut {
    let mut o = TxOut::default();
    o.value = confidential::Value::Explicit(kani::any());
    o.asset = confidential::Asset::Explicit(AssetId::from_byte_array(kani::any()));
    o
}
fn any_time() -> locktime::Time {
    let n: u32 = kani::any();
    match locktime::Time::from_consensus(n) {
        Ok(t) => t,
        Err(e) => { core::mem::forget(e); kani::assume(false); unreachable!() }
    }
}
fn any_height() -> locktime::Height {
    let n: u32 = kani::any();
    match locktime::Height::from_consensus(n) {
        Ok(t) => t,
        Err(e) => { core::mem::forget(e); kani::assume(false); unreachable!() }
    }
}
fn any_schnorr_sig() -> schnorr::SchnorrSig {
    let b: [u8; 64] = kani::any();
    let sig = match secp256k1_zkp::schnorr::Signature::from_slice(&b) {
        Ok(s) => s,
        Err(e) => { core::mem::forget(e); kani::assume(false); unreachable!() }
    };
    let t: u8 = kani::any();
    let hash_ty = match SchnorrSighashType::from_u8(t) { Some(h) => h, None => { kani::assume(false); unreachable!() } };
    schnorr::SchnorrSig { sig, hash_ty }
}
use crate::LockTime;
fn fgt<T>(t: T) { core::mem::forget(t) }

macro_rules! input_merge_opt {
    ($name:ident, $field:ident, $mk:expr $(, stubs = [$($stub:meta),*])?) => {
        #[kani::proof]
        $($(#[$stub])*)?
        fn $name() {
            let v = $mk;
            let in_a: bool = kani::any();
            let in_b: bool = kani::any();
            let mut a1 = Input::default();
            let mut b1 = Input::default();
            let mut a2 = Input::default();
            let mut b2 = Input::default();
            let mut want = Input::default();
            if in_a { a1.$field = Some(v.clone()); a2.$field = Some(v.clone()); }
            if in_b { b1.$field = Some(v.clone()); b2.$field = Some(v.clone()); }
            if in_a || in_b { want.$field = Some(v.clone()); }
            kani::cover!(in_a && !in_b);
            kani::cover!(!in_a && in_b);
            kani::cover!(in_a && in_b);
            // a <- b
            match a1.merge(b1) { Ok(()) => {}, Err(e) => { core::mem::forget(e); assert!(false, "merge of conflict-free operands failed"); } }
            // b <- a
            match b2.merge(a2) { Ok(()) => {}, Err(e) => { core::mem::forget(e); assert!(false, "merge of conflict-free operands failed"); } }
            assert!(a1.$field == want.$field, "field present in either operand is present in merge(a,b)");
            assert!(b2.$field == want.$field, "merge(b,a) agrees with merge(a,b)");
            assert!(a1 == want, "no other field disturbed");
            assert!(b2 == want, "no other field disturbed (other order)");
            fgt(a1); fgt(b2); fgt(want); fgt(v);
        }
    };
}

// ---- the two fields DESIGN §6 D10 predicts to fail: each alone in its harness ----
//@ harness: c14_in_merge_sequence class=F tier=quick
//@ clause: Input::merge: `sequence` present in either operand (identical or one-sided) is present in the result, in both merge orders (EXPECTED to fail on the pinned tree: D10)
input_merge_opt!(c14_in_merge_sequence, sequence, Sequence(kani::any()));
//@ harness: c14_in_merge_sighash_type class=F tier=quick
//@ clause: Input::merge: `sighash_type` present in either operand is present in the result, in both merge orders (EXPECTED to fail on the pinned tree: D10)
input_merge_opt!(c14_in_merge_sighash_type, sighash_type, PsbtSighashType::from_u32(kani::any()));

// ---- all other Option fields ----
// scalar (heap-free) values: symbolic presence pattern
//@ harness: c14_in_merge_required_time_locktime class=F tier=quick
//@ clause: Input::merge keeps required_time_locktime present in either operand (identical or one-sided), order-insensitive, no other field disturbed
input_merge_opt!(c14_in_merge_required_time_locktime, required_time_locktime, any_time());
//@ harness: c14_in_merge_required_height_locktime class=F tier=thorough
//@ clause: Input::merge keeps required_height_locktime present in either operand (identical or one-sided), order-insensitive, no other field disturbed
input_merge_opt!(c14_in_merge_required_height_locktime, required_height_locktime, any_height());
//@ harness: c14_in_merge_tap_key_sig class=F tier=quick
//@ clause: Input::merge keeps the taproot key-spend signature present in either operand (identical or one-sided), order-insensitive, no other field disturbed
input_merge_opt!(c14_in_merge_tap_key_sig, tap_key_sig, any_schnorr_sig());
//@ harness: c14_in_merge_tap_merkle_root class=F tier=thorough
//@ clause: Input::merge keeps tap_merkle_root present in either operand (identical or one-sided), order-insensitive, no other field disturbed
input_merge_opt!(c14_in_merge_tap_merkle_root, tap_merkle_root, TapNodeHash::from_byte_array(kani::any()));
//@ harness: c14_in_merge_issuance_value_amount class=F tier=quick
//@ clause: Input::merge keeps issuance_value_amount present in either operand (identical or one-sided), order-insensitive, no other field disturbed
input_merge_opt!(c14_in_merge_issuance_value_amount, issuance_value_amount, kani::any::<u64>());
//@ harness: c14_in_merge_pegin_genesis_hash class=F tier=thorough
//@ clause: Input::merge keeps pegin_genesis_hash present in either operand (identical or one-sided), order-insensitive, no other field disturbed
input_merge_opt!(c14_in_merge_pegin_genesis_hash, pegin_genesis_hash, BlockHash::from_byte_array(kani::any()));
//@ harness: c14_in_merge_pegin_value class=F tier=thorough
//@ clause: Input::merge keeps pegin_value present in either operand (identical or one-sided), order-insensitive, no other field disturbed
input_merge_opt!(c14_in_merge_pegin_value, pegin_value, kani::any::<u64>());
//@ harness: c14_in_merge_issuance_inflation_keys class=F tier=thorough
//@ clause: Input::merge keeps issuance_inflation_keys present in either operand (identical or one-sided), order-insensitive, no other field disturbed
input_merge_opt!(c14_in_merge_issuance_inflation_keys, issuance_inflation_keys, kani::any::<u64>());
//@ harness: c14_in_merge_issuance_asset_entropy class=F tier=quick
//@ clause: Input::merge keeps issuance_asset_entropy present in either operand (identical or one-sided), order-insensitive, no other field disturbed
input_merge_opt!(c14_in_merge_issuance_asset_entropy, issuance_asset_entropy, kani::any::<[u8; 32]>());
//@ harness: c14_in_merge_amount class=F tier=thorough
//@ clause: Input::merge keeps the explicit amount present in either operand (identical or one-sided), order-insensitive, no other field disturbed
input_merge_opt!(c14_in_merge_amount, amount, kani::any::<u64>());
//@ harness: c14_in_merge_asset class=F tier=quick
//@ clause: Input::merge keeps the explicit asset present in either operand (identical or one-sided), order-insensitive, no other field disturbed
input_merge_opt!(c14_in_merge_asset, asset, AssetId::from_byte_array(kani::any()));
//@ harness: c14_in_merge_blinded_issuance class=F tier=thorough
//@ clause: Input::merge keeps blinded_issuance present in either operand (identical or one-sided), order-insensitive, no other field disturbed
input_merge_opt!(c14_in_merge_blinded_issuance, blinded_issuance, kani::any::<u8>());

// Fields whose value owns heap memory (scripts, byte vectors, witness stacks, transactions).  Measured: with a
// *symbolic* presence pattern these take > 25 min each, with a concrete pattern ~1 min.  So the presence patterns are
// split into two harnesses per field:
//   *_onesided : only ONE operand has the field (value symbolic); merged in BOTH directions, i.e. "present only in the
//                second operand" and "present only in the first operand"; both results equal default + f := Some(v)
//   *_identical: both operands have the identical value
macro_rules! input_merge_heap {
    ($one:ident, $ident:ident, $field:ident, $mk:expr) => {
        #[kani::proof]
        fn $one() {
            let v = $mk;
            let mut a1 = Input::default(); let mut b1 = Input::default();
            let a2 = Input::default(); let mut b2 = Input::default();
            let mut want = Input::default();
            b1.$field = Some(v.clone()); b2.$field = Some(v.clone()); want.$field = Some(v);
            match a1.merge(b1) { Ok(()) => {}, Err(e) => { fgt(e); assert!(false, "merge of conflict-free operands failed"); } }
            match b2.merge(a2) { Ok(()) => {}, Err(e) => { fgt(e); assert!(false, "merge of conflict-free operands failed"); } }
            kani::cover!(true);
            assert!(a1.$field == want.$field, "field present only in the second operand is present in the result");
            assert!(b2.$field == want.$field, "field present only in the first operand is kept");
            assert!(a1 == want, "no other field disturbed");
            assert!(b2 == want, "no other field disturbed (other order)");
            fgt(a1); fgt(b2); fgt(want);
        }
        #[kani::proof]
        fn $ident() {
            let v = $mk;
            let mut a1 = Input::default(); let mut b1 = Input::default();
            let mut want = Input::default();
            a1.$field = Some(v.clone()); b1.$field = Some(v.clone()); want.$field = Some(v);
            match a1.merge(b1) { Ok(()) => {}, Err(e) => { fgt(e); assert!(false, "merge of identical additions failed"); } }
            kani::cover!(true);
            assert!(a1 == want, "identical additions merge to that value, nothing else disturbed");
            fgt(a1); fgt(want);
        }
    };
}
//@ harness: c14_in_merge_non_witness_utxo_onesided class=B tier=thorough bound="transaction with 0 inputs / 0 outputs, symbolic version and lock time"
//@ clause: Input::merge: non_witness_utxo present in exactly one operand is present in the result whichever operand is merged into which; no other field disturbed
//@ harness: c14_in_merge_non_witness_utxo_identical class=B tier=thorough bound="transaction with 0 inputs / 0 outputs, symbolic version and lock time"
//@ clause: Input::merge: identical non_witness_utxo in both operands merges to that value
input_merge_heap!(c14_in_merge_non_witness_utxo_onesided, c14_in_merge_non_witness_utxo_identical, non_witness_utxo, any_tx0());
//@ harness: c14_in_merge_witness_utxo_onesided class=B tier=quick bound="TxOut with explicit symbolic value and asset, null nonce, empty script"
//@ clause: Input::merge: witness_utxo present in exactly one operand is present in the result whichever operand is merged into which; no other field disturbed
//@ harness: c14_in_merge_witness_utxo_identical class=B tier=thorough bound="TxOut with explicit symbolic value and asset, null nonce, empty script"
//@ clause: Input::merge: identical witness_utxo in both operands merges to that value
input_merge_heap!(c14_in_merge_witness_utxo_onesided, c14_in_merge_witness_utxo_identical, witness_utxo, any_txout());
//@ harness: c14_in_merge_redeem_script_onesided class=B tier=quick bound="script of exactly 2 symbolic bytes"
//@ clause: Input::merge: redeem_script present in exactly one operand is present in the result whichever operand is merged into which; no other field disturbed
//@ harness: c14_in_merge_redeem_script_identical class=B tier=thorough bound="script of exactly 2 symbolic bytes"
//@ clause: Input::merge: identical redeem_script in both operands merges to that value
input_merge_heap!(c14_in_merge_redeem_script_onesided, c14_in_merge_redeem_script_identical, redeem_script, script2());
//@ harness: c14_in_merge_witness_script_onesided class=B tier=thorough bound="script of exactly 2 symbolic bytes"
//@ clause: Input::merge: witness_script present in exactly one operand is present in the result whichever operand is merged into which; no other field disturbed
//@ harness: c14_in_merge_witness_script_identical class=B tier=thorough bound="script of exactly 2 symbolic bytes"
//@ clause: Input::merge: identical witness_script in both operands merges to that value
input_merge_heap!(c14_in_merge_witness_script_onesided, c14_in_merge_witness_script_identical, witness_script, script2());
//@ harness: c14_in_merge_final_script_sig_onesided class=B tier=quick bound="script of exactly 2 symbolic bytes"
//@ clause: Input::merge: final_script_sig present in exactly one operand is present in the result whichever operand is merged into which; no other field disturbed
//@ harness: c14_in_merge_final_script_sig_identical class=B tier=thorough bound="script of exactly 2 symbolic bytes"
//@ clause: Input::merge: identical final_script_sig in both operands merges to that value
input_merge_heap!(c14_in_merge_final_script_sig_onesided, c14_in_merge_final_script_sig_identical, final_script_sig, script2());
//@ harness: c14_in_merge_final_script_witness_onesided class=B tier=quick bound="witness stack of one 1-byte element"
//@ clause: Input::merge: final_script_witness present in exactly one operand is present in the result whichever operand is merged into which; no other field disturbed
//@ harness: c14_in_merge_final_script_witness_identical class=B tier=thorough bound="witness stack of one 1-byte element"
//@ clause: Input::merge: identical final_script_witness in both operands merges to that value
input_merge_heap!(c14_in_merge_final_script_witness_onesided, c14_in_merge_final_script_witness_identical, final_script_witness, wit1());
//@ harness: c14_in_merge_pegin_tx_onesided class=B tier=thorough bound="bitcoin transaction with 0 inputs / 0 outputs"
//@ clause: Input::merge: pegin_tx present in exactly one operand is present in the result whichever operand is merged into which; no other field disturbed
//@ harness: c14_in_merge_pegin_tx_identical class=B tier=thorough bound="bitcoin transaction with 0 inputs / 0 outputs"
//@ clause: Input::merge: identical pegin_tx in both operands merges to that value
input_merge_heap!(c14_in_merge_pegin_tx_onesided, c14_in_merge_pegin_tx_identical, pegin_tx, any_btx0());
//@ harness: c14_in_merge_pegin_txout_proof_onesided class=B tier=thorough bound="2 symbolic bytes"
//@ clause: Input::merge: pegin_txout_proof present in exactly one operand is present in the result whichever operand is merged into which; no other field disturbed
//@ harness: c14_in_merge_pegin_txout_proof_identical class=B tier=thorough bound="2 symbolic bytes"
//@ clause: Input::merge: identical pegin_txout_proof in both operands merges to that value
input_merge_heap!(c14_in_merge_pegin_txout_proof_onesided, c14_in_merge_pegin_txout_proof_identical, pegin_txout_proof, bytes2());
//@ harness: c14_in_merge_pegin_claim_script_onesided class=B tier=thorough bound="script of exactly 2 symbolic bytes"
//@ clause: Input::merge: pegin_claim_script present in exactly one operand is present in the result whichever operand is merged into which; no other field disturbed
//@ harness: c14_in_merge_pegin_claim_script_identical class=B tier=thorough bound="script of exactly 2 symbolic bytes"
//@ clause: Input::merge: identical pegin_claim_script in both operands merges to that value
input_merge_heap!(c14_in_merge_pegin_claim_script_onesided, c14_in_merge_pegin_claim_script_identical, pegin_claim_script, script2());
//@ harness: c14_in_merge_pegin_witness_onesided class=B tier=thorough bound="witness stack of one 1-byte element"
//@ clause: Input::merge: pegin_witness present in exactly one operand is present in the result whichever operand is merged into which; no other field disturbed
//@ harness: c14_in_merge_pegin_witness_identical class=B tier=thorough bound="witness stack of one 1-byte element"
//@ clause: Input::merge: identical pegin_witness in both operands merges to that value
input_merge_heap!(c14_in_merge_pegin_witness_onesided, c14_in_merge_pegin_witness_identical, pegin_witness, wit1());

// ---- BTreeMap fields: one entry per operand ----
// Oracle (property text): the result contains every entry of either operand, nothing else, in both merge orders.
// Measured: with fully symbolic keys (symbolic relative order => symbolic B-tree slot positions for the heap-owning
// values) the harness does not finish in 15 min.  So the *leading* key byte is concrete and different in the two
// operands (the order of the two keys is then concrete; merging in both directions exercises both insertion orders),
// every other key byte and the values are symbolic.  `#[kani::unwind(5)]`: the consuming B-tree iterator inside
// `extend(other.map)` descends with `loop { match node.force() { Leaf => return, Internal => descend } }`, which CBMC
// unwinds forever without a bound (measured); with the bound the unwinding assertion proves the depth is 0/1.  `*_identical`: both operands hold the same entry.
macro_rules! input_merge_map {
    ($dis:ident, $ident:ident, $field:ident, $mkk:expr, $mkv:expr) => {
        #[kani::proof]
        #[kani::unwind(5)]
        fn $dis() {
            let mk = $mkk;
            let (k1, k2) = (mk(0x21u8), mk(0x7eu8));
            let v1: Vec<u8> = $mkv; let v2: Vec<u8> = $mkv;
            let mut a1 = Input::default(); let mut b1 = Input::default();
            let mut a2 = Input::default(); let mut b2 = Input::default();
            a1.$field.insert(k1.clone(), v1.clone()); a2.$field.insert(k1.clone(), v1.clone());
            b1.$field.insert(k2.clone(), v2.clone()); b2.$field.insert(k2.clone(), v2.clone());
            match a1.merge(b1) { Ok(()) => {}, Err(e) => { fgt(e); assert!(false, "merge of conflict-free operands failed"); } }
            match b2.merge(a2) { Ok(()) => {}, Err(e) => { fgt(e); assert!(false, "merge of conflict-free operands failed"); } }
            kani::cover!(true);
            assert!(a1.$field.len() == 2 && b2.$field.len() == 2, "union has exactly the entries of both operands");
            assert!(a1.$field.get(&k1) == Some(&v1) && a1.$field.get(&k2) == Some(&v2), "merge(a,b) holds both entries");
            assert!(b2.$field.get(&k1) == Some(&v1) && b2.$field.get(&k2) == Some(&v2), "merge(b,a) holds both entries");
            fgt(a1); fgt(b2);
        }
        #[kani::proof]
        #[kani::unwind(5)]
        fn $ident() {
            let mk = $mkk;
            let k1 = mk(kani::any());
            let v1: Vec<u8> = $mkv;
            let mut a1 = Input::default(); let mut b1 = Input::default();
            a1.$field.insert(k1.clone(), v1.clone());
            b1.$field.insert(k1.clone(), v1.clone());
            match a1.merge(b1) { Ok(()) => {}, Err(e) => { fgt(e); assert!(false, "merge of identical additions failed"); } }
            kani::cover!(true);
            assert!(a1.$field.len() == 1 && a1.$field.get(&k1) == Some(&v1), "identical entries merge to one");
            fgt(a1);
        }
    };
}
fn raw_key1(t: u8) -> raw::Key {
    let b: [u8; 1] = kani::any();
    raw::Key { type_value: t, key: b.to_vec() }
}
fn prop_key1(p0: u8) -> raw::ProprietaryKey {
    let k: [u8; 1] = kani::any();
    raw::ProprietaryKey { prefix: vec![p0], subtype: kani::any(), key: k.to_vec() }
}
fn val1() -> Vec<u8> {
    let b: [u8; 1] = kani::any();
    b.to_vec()
}
fn arr20(lead: u8) -> [u8; 20] { let mut a: [u8; 20] = kani::any(); a[0] = lead; a }
fn arr32(lead: u8) -> [u8; 32] { let mut a: [u8; 32] = kani::any(); a[0] = lead; a }
//@ harness: c14_in_merge_unknown_disjoint class=B tier=quick bound="one entry per operand; key = type byte (0x21 / 0x7e in the disjoint case, symbolic in the identical case) + 1 symbolic key byte; 1-byte values"
//@ clause: Input::merge: the `unknown` pairs of the result are the union of the operands' entries (disjoint keys), in both merge orders
//@ harness: c14_in_merge_unknown_identical class=B tier=thorough bound="the same single entry in both operands"
//@ clause: Input::merge: an identical entry of the `unknown` pairs in both operands appears once in the result
input_merge_map!(c14_in_merge_unknown_disjoint, c14_in_merge_unknown_identical, unknown, raw_key1, val1());
//@ harness: c14_in_merge_proprietary_disjoint class=B tier=quick bound="one entry per operand; 1-byte prefix (concrete, different per operand), symbolic subtype, 1 symbolic key byte; 1-byte values"
//@ clause: Input::merge: the proprietary pairs of the result are the union of the operands' entries (disjoint keys), in both merge orders
//@ harness: c14_in_merge_proprietary_identical class=B tier=thorough bound="the same single entry in both operands"
//@ clause: Input::merge: an identical entry of the proprietary pairs in both operands appears once in the result
input_merge_map!(c14_in_merge_proprietary_disjoint, c14_in_merge_proprietary_identical, proprietary, prop_key1, val1());
//@ harness: c14_in_merge_ripemd160_preimages_disjoint class=B tier=thorough bound="one entry per operand; 20-byte hash keys, first byte concrete, rest symbolic (merge does not check the hash/preimage relation); 1-byte values"
//@ clause: Input::merge: RIPEMD160 preimages of the result are the union of the operands' entries (disjoint keys), in both merge orders
//@ harness: c14_in_merge_ripemd160_preimages_identical class=B tier=thorough bound="the same single entry in both operands"
//@ clause: Input::merge: an identical entry of RIPEMD160 preimages in both operands appears once in the result
input_merge_map!(c14_in_merge_ripemd160_preimages_disjoint, c14_in_merge_ripemd160_preimages_identical, ripemd160_preimages, |l| ripemd160::Hash::from_byte_array(arr20(l)), val1());
//@ harness: c14_in_merge_sha256_preimages_disjoint class=B tier=quick bound="one entry per operand; 32-byte hash keys, first byte concrete, rest symbolic; 1-byte values"
//@ clause: Input::merge: SHA256 preimages of the result are the union of the operands' entries (disjoint keys), in both merge orders
//@ harness: c14_in_merge_sha256_preimages_identical class=B tier=thorough bound="the same single entry in both operands"
//@ clause: Input::merge: an identical entry of SHA256 preimages in both operands appears once in the result
input_merge_map!(c14_in_merge_sha256_preimages_disjoint, c14_in_merge_sha256_preimages_identical, sha256_preimages, |l| sha256::Hash::from_byte_array(arr32(l)), val1());
//@ harness: c14_in_merge_hash160_preimages_disjoint class=B tier=thorough bound="one entry per operand; 20-byte hash keys, first byte concrete, rest symbolic; 1-byte values"
//@ clause: Input::merge: HASH160 preimages of the result are the union of the operands' entries (disjoint keys), in both merge orders
//@ harness: c14_in_merge_hash160_preimages_identical class=B tier=thorough bound="the same single entry in both operands"
//@ clause: Input::merge: an identical entry of HASH160 preimages in both operands appears once in the result
input_merge_map!(c14_in_merge_hash160_preimages_disjoint, c14_in_merge_hash160_preimages_identical, hash160_preimages, |l| hash160::Hash::from_byte_array(arr20(l)), val1());
//@ harness: c14_in_merge_hash256_preimages_disjoint class=B tier=thorough bound="one entry per operand; 32-byte hash keys, first byte concrete, rest symbolic; 1-byte values"
//@ clause: Input::merge: HASH256 preimages of the result are the union of the operands' entries (disjoint keys), in both merge orders
//@ harness: c14_in_merge_hash256_preimages_identical class=B tier=thorough bound="the same single entry in both operands"
//@ clause: Input::merge: an identical entry of HASH256 preimages in both operands appears once in the result
input_merge_map!(c14_in_merge_hash256_preimages_disjoint, c14_in_merge_hash256_preimages_identical, hash256_preimages, |l| sha256d::Hash::from_byte_array(arr32(l)), val1());

// ---- interaction of the two UTXO fields (candidate disagreement found while reading Input::merge) ----
//@ harness: c14_in_merge_utxo_pair_order class=B tier=quick bound="non_witness_utxo = empty transaction with symbolic version/lock time; witness_utxo = explicit TxOut"
//@ clause: a has only non_witness_utxo, b has only witness_utxo (disjoint additions): both orders of Input::merge give the same result and both fields survive (EXPECTED to fail: merge(a,b) clears non_witness_utxo, merge(b,a) keeps it)
#[kani::proof]
fn c14_in_merge_utxo_pair_order() {
    let tx = any_tx0();
    let out = any_txout();
    let mut a1 = Input::default(); a1.non_witness_utxo = Some(tx.clone());
    let mut a2 = Input::default(); a2.non_witness_utxo = Some(tx.clone());
    let mut b1 = Input::default(); b1.witness_utxo = Some(out.clone());
    let mut b2 = Input::default(); b2.witness_utxo = Some(out.clone());
    match a1.merge(b1) { Ok(()) => {}, Err(e) => { fgt(e); assert!(false); } }
    match b2.merge(a2) { Ok(()) => {}, Err(e) => { fgt(e); assert!(false); } }
    kani::cover!(true);
    assert!(a1.witness_utxo == Some(out.clone()) && b2.witness_utxo == Some(out), "witness_utxo kept in both orders");
    assert!(a1.non_witness_utxo == b2.non_witness_utxo, "result independent of which operand is merged into which");
    assert!(a1.non_witness_utxo == Some(tx), "optional field present in an operand is present in the result");
    fgt(a1); fgt(b2);
}

//@ harness: c14_in_merge_locktime_max class=F tier=quick
//@ clause: Input::merge on two different required lock times of the same kind: result is order-insensitive and at least as constraining as both (the larger), never a panic
#[kani::proof]
fn c14_in_merge_locktime_max() {
    let ta = if kani::any() { Some(any_time()) } else { None };
    let tb = if kani::any() { Some(any_time()) } else { None };
    let ha = if kani::any() { Some(any_height()) } else { None };
    let hb = if kani::any() { Some(any_height()) } else { None };
    let mut a1 = Input::default(); a1.required_time_locktime = ta; a1.required_height_locktime = ha;
    let mut a2 = Input::default(); a2.required_time_locktime = ta; a2.required_height_locktime = ha;
    let mut b1 = Input::default(); b1.required_time_locktime = tb; b1.required_height_locktime = hb;
    let mut b2 = Input::default(); b2.required_time_locktime = tb; b2.required_height_locktime = hb;
    match a1.merge(b1) { Ok(()) => {}, Err(e) => { fgt(e); assert!(false); } }
    match b2.merge(a2) { Ok(()) => {}, Err(e) => { fgt(e); assert!(false); } }
    assert!(a1.required_time_locktime == b2.required_time_locktime && a1.required_height_locktime == b2.required_height_locktime);
    let tu = |x: Option<locktime::Time>| x.map(|t| t.to_consensus_u32());
    let hu = |x: Option<locktime::Height>| x.map(|t| t.to_consensus_u32());
    // oracle: present iff present in either; value = numeric max of those present
    let want_t = match (tu(ta), tu(tb)) { (None, x) => x, (x, None) => x, (Some(x), Some(y)) => Some(if x > y { x } else { y }) };
    let want_h = match (hu(ha), hu(hb)) { (None, x) => x, (x, None) => x, (Some(x), Some(y)) => Some(if x > y { x } else { y }) };
    assert!(tu(a1.required_time_locktime) == want_t);
    assert!(hu(a1.required_height_locktime) == want_h);
    kani::cover!(ta.is_some() && tb.is_some() && ta != tb);
    kani::cover!(ha.is_none() && hb.is_some());
    fgt(a1); fgt(b2);
}
