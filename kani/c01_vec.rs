//@ property: C01 C12
//@ mount: src/encode.rs
//@ functions: src/encode.rs::consensus_encode_with_size, src/encode.rs::Vec<T>::consensus_decode, src/encode.rs::[T]::consensus_encode, src/encode.rs::Box<[T]>::consensus_decode, src/script.rs::Script::consensus_decode, src/encode.rs::deserialize, src/encode.rs::deserialize_partial
use super::*;
use crate::{Script, TxOut};
use std::io::Cursor;

#[path = "support/sinks.rs"]
mod sinks;
use sinks::{forget, ArraySink, CountSink};

trait AsBytes { fn bytes(&self) -> &[u8]; }
impl AsBytes for Vec<u8> { fn bytes(&self) -> &[u8] { &self[..] } }
impl AsBytes for Script { fn bytes(&self) -> &[u8] { self.as_bytes() } }

fn varint_len(v: u64) -> usize {
    if v < 0xFD { 1 } else if v <= 0xFFFF { 3 } else if v <= 0xFFFF_FFFF { 5 } else { 9 }
}

// ---------------------------------------------------------------------------------------------------------------
// consensus_encode_with_size
// ---------------------------------------------------------------------------------------------------------------

//@ harness: encode_with_size_len class=B tier=quick bound="slice length <= 0x10001 (crosses the 1-, 3- and 5-byte varint boundaries)" props=C01,C12
//@ clause: consensus_encode_with_size(data) returns |varint(len)| + len and writes exactly that many bytes, for every slice length up to 65537 (content irrelevant: counting sink)
#[kani::proof]
fn encode_with_size_len() {
    const N: usize = 0x1_0001;
    static DATA: [u8; N] = [0u8; N];
    let n: usize = kani::any();
    kani::assume(n <= N);
    let mut sink = CountSink(0);
    match consensus_encode_with_size(&DATA[..n], &mut sink) {
        Ok(r) => {
            assert!(r == varint_len(n as u64) + n);
            assert!(sink.0 == r);
            kani::cover!(n == 0xFC && r == 0xFD);
            kani::cover!(n == 0xFD && r == 0x100);
            kani::cover!(n == 0xFFFF && r == 0x10002);
            kani::cover!(n == 0x10000 && r == 0x10005);
        }
        Err(e) => { forget(e); assert!(false); }
    }
}

//@ harness: encode_with_size_bytes class=B tier=quick bound="slice length <= 4" props=C01
//@ clause: consensus_encode_with_size writes the CompactSize of the length followed by the bytes themselves, in order (content check at small lengths); same through the Vec<u8>, Box<[u8]>, Script and ScriptBuf encoders
#[kani::proof]
fn encode_with_size_bytes() {
    let data: [u8; 4] = kani::any();
    let n: usize = kani::any();
    kani::assume(n <= 4);
    let mut sink = ArraySink::<6>::new();
    match consensus_encode_with_size(&data[..n], &mut sink) {
        Ok(r) => {
            assert!(r == 1 + n && sink.len == r && sink.buf[0] == n as u8);
            let mut i = 0;
            while i < 4 { if i < n { assert!(sink.buf[1 + i] == data[i]); } i += 1; }
            kani::cover!(n == 0);
            kani::cover!(n == 4);
        }
        Err(e) => { forget(e); assert!(false); }
    }
    // the typed encoders delegate to the same format
    let v: Vec<u8> = data[..2].to_vec();
    let mut s2 = ArraySink::<6>::new();
    match v.consensus_encode(&mut s2) {
        Ok(r) => assert!(r == 3 && s2.len == 3 && s2.buf[0] == 2 && s2.buf[1] == data[0] && s2.buf[2] == data[1]),
        Err(e) => { forget(e); assert!(false); }
    }
    let sc = Script::from(v);
    let mut s3 = ArraySink::<6>::new();
    match sc.consensus_encode(&mut s3) {
        Ok(r) => assert!(r == 3 && s3.len == 3 && s3.buf[0] == 2 && s3.buf[1] == data[0] && s3.buf[2] == data[1]),
        Err(e) => { forget(e); assert!(false); }
    }
    forget(sc);
}

// ---------------------------------------------------------------------------------------------------------------
// Vec<u8> / Script decode at concrete lengths
// ---------------------------------------------------------------------------------------------------------------

macro_rules! vec_u8_dec {
    ($name:ident, $ty:ty, $l:expr) => {
        #[kani::proof]
        fn $name() {
            const L: usize = $l;
            const P: usize = if L < 0xFD { 1 } else { 3 };
            const N: usize = P + L + 1;
            let mut buf: [u8; N] = kani::any();
            if L < 0xFD { buf[0] = L as u8; } else { buf[0] = 0xFD; buf[1] = L as u8; buf[2] = (L >> 8) as u8; }
            let len: usize = kani::any();
            kani::assume(len <= N);
            match deserialize_partial::<$ty>(&buf[..len]) {
                Ok((v, k)) => {
                    assert!(k == P + L && len >= k);
                    let b: &[u8] = v.bytes();
                    assert!(b.len() == L);
                    let mut i = 0;
                    while i < L { assert!(b[i] == buf[P + i]); i += 1; }
                    // re-encode reproduces the bytes
                    let mut s = ArraySink::<N>::new();
                    match v.consensus_encode(&mut s) {
                        Ok(r) => {
                            assert!(r == k && s.len == k);
                            let mut j = 0;
                            while j < N { if j < k { assert!(s.buf[j] == buf[j]); } j += 1; }
                        }
                        Err(e) => { forget(e); assert!(false); }
                    }
                    kani::cover!(len == k);
                    kani::cover!(len == k + 1);
                    forget(v);
                }
                Err(e) => { forget(e); assert!(len < P + L); kani::cover!(len + 1 == P + L); }
            }
        }
    };
}

//@ harness: vec_u8_dec_0 class=F tier=quick bound="declared length 0" props=C01
//@ clause: Vec<u8> decode at declared length 0, every truncation/extension by one byte: accepted iff prefix+payload present; content = payload; re-encode reproduces the consumed bytes
vec_u8_dec!(vec_u8_dec_0, Vec<u8>, 0);
//@ harness: vec_u8_dec_1 class=F tier=quick bound="declared length 1" props=C01
//@ clause: same, length 1
vec_u8_dec!(vec_u8_dec_1, Vec<u8>, 1);
//@ harness: vec_u8_dec_3 class=F tier=quick bound="declared length 3" props=C01
//@ clause: same, length 3
vec_u8_dec!(vec_u8_dec_3, Vec<u8>, 3);
//@ harness: vec_u8_dec_fc class=F tier=thorough bound="declared length 0xFC (largest 1-byte varint)" props=C01 timeout=900
//@ clause: same, length 0xFC
vec_u8_dec!(vec_u8_dec_fc, Vec<u8>, 0xFC);
//@ harness: vec_u8_dec_fd class=F tier=thorough bound="declared length 0xFD (smallest 3-byte varint)" props=C01 timeout=900
//@ clause: same, length 0xFD with the 3-byte length prefix FD FD 00
vec_u8_dec!(vec_u8_dec_fd, Vec<u8>, 0xFD);
//@ harness: script_dec_2 class=F tier=quick bound="declared length 2" props=C01
//@ clause: Script (Box<[u8]>) decode at declared length 2: same contract as Vec<u8>
vec_u8_dec!(script_dec_2, Script, 2);

//@ harness: vec_u8_dec_nonminimal class=F tier=quick props=C01
//@ clause: a byte vector whose length prefix is a non-minimal CompactSize (FD xx 00 with xx < 0xFD, FE with value < 0x10000, FF with value < 2^32) is rejected with NonMinimalVarInt whatever follows
#[kani::proof]
fn vec_u8_dec_nonminimal() {
    let buf: [u8; 12] = kani::any();
    let v16 = u16::from_le_bytes([buf[1], buf[2]]) as u64;
    let v32 = u32::from_le_bytes([buf[1], buf[2], buf[3], buf[4]]) as u64;
    let v64 = u64::from_le_bytes([buf[1], buf[2], buf[3], buf[4], buf[5], buf[6], buf[7], buf[8]]);
    let nonmin = (buf[0] == 0xFD && v16 < 0xFD) || (buf[0] == 0xFE && v32 < 0x10000) || (buf[0] == 0xFF && v64 < 0x1_0000_0000);
    kani::assume(nonmin);
    match deserialize_partial::<Vec<u8>>(&buf[..]) {
        Ok((v, _)) => { forget(v); assert!(false); }
        Err(e) => { assert!(matches!(e, Error::NonMinimalVarInt)); forget(e); }
    }
    kani::cover!(buf[0] == 0xFD && v16 == 2);
    kani::cover!(buf[0] == 0xFF);
}

// ---------------------------------------------------------------------------------------------------------------
// MAX_VEC_SIZE : rejection happens before any allocation / read
// ---------------------------------------------------------------------------------------------------------------

/// a minimal CompactSize for `v` into the first bytes of a 12-byte buffer (rest symbolic)
fn put_varint(buf: &mut [u8; 12], v: u64) {
    if v < 0xFD {
        buf[0] = v as u8;
    } else if v <= 0xFFFF {
        buf[0] = 0xFD; buf[1] = v as u8; buf[2] = (v >> 8) as u8;
    } else if v <= 0xFFFF_FFFF {
        buf[0] = 0xFE; buf[1] = v as u8; buf[2] = (v >> 8) as u8; buf[3] = (v >> 16) as u8; buf[4] = (v >> 24) as u8;
    } else {
        buf[0] = 0xFF;
        let b = v.to_le_bytes();
        buf[1] = b[0]; buf[2] = b[1]; buf[3] = b[2]; buf[4] = b[3];
        buf[5] = b[4]; buf[6] = b[5]; buf[7] = b[6]; buf[8] = b[7];
    }
}

//@ harness: vec_u8_oversize class=F tier=quick props=C01
//@ clause: Vec<u8> decode: every declared length > 4_000_000 (any varint width, up to u64::MAX) is rejected with OversizedVectorAllocation{requested = declared, max = 4_000_000} even though the buffer holds only a few bytes, i.e. the bound is checked before allocating or reading
#[kani::proof]
fn vec_u8_oversize() {
    let mut buf: [u8; 12] = kani::any();
    let declared: u64 = kani::any();
    kani::assume(declared > 4_000_000);
    put_varint(&mut buf, declared);
    match deserialize_partial::<Vec<u8>>(&buf[..]) {
        Ok((v, _)) => { forget(v); assert!(false); }
        Err(e) => {
            assert!(matches!(e, Error::OversizedVectorAllocation { requested, max } if requested as u64 == declared && max == 4_000_000));
            forget(e);
        }
    }
    kani::cover!(declared == 4_000_001);
    kani::cover!(declared == u64::MAX);
}

//@ harness: vec_u8_maxsize_boundary class=F tier=thorough props=C01 timeout=900
//@ clause: the bound is exact: a declared length of exactly 4_000_000 is not an OversizedVectorAllocation (a short buffer then fails with an I/O error instead)
#[kani::proof]
fn vec_u8_maxsize_boundary() {
    let mut buf: [u8; 12] = kani::any();
    put_varint(&mut buf, 4_000_000);
    match deserialize_partial::<Vec<u8>>(&buf[..]) {
        Ok((v, _)) => { forget(v); assert!(false); }
        Err(e) => { assert!(matches!(e, Error::Io(_))); forget(e); kani::cover!(true); }
    }
}

//@ harness: vec_vec_oversize class=F tier=quick props=C01
//@ clause: Vec<Vec<u8>> decode (non-u8 branch): every declared element count n with n * size_of::<Vec<u8>>() > 4_000_000 (or overflowing usize) is rejected before with_capacity: OversizedVectorAllocation{requested = n*24, max = 4_000_000}, or ParseFailed("Invalid length") on overflow
#[kani::proof]
#[kani::unwind(2)] // the element loop `for _ in 0..len` has a symbolic bound; the unwinding assertion proves it is never entered
fn vec_vec_oversize() {
    let mut buf: [u8; 12] = kani::any();
    let declared: u64 = kani::any();
    const SZ: u64 = core::mem::size_of::<Vec<u8>>() as u64;
    kani::assume(declared > 4_000_000 / SZ);
    put_varint(&mut buf, declared);
    match deserialize_partial::<Vec<Vec<u8>>>(&buf[..]) {
        Ok((v, _)) => { forget(v); assert!(false); }
        Err(e) => {
            match declared.checked_mul(SZ) {
                Some(bytes) => assert!(matches!(e, Error::OversizedVectorAllocation { requested, max } if requested as u64 == bytes && max == 4_000_000)),
                None => assert!(matches!(e, Error::ParseFailed(_))),
            }
            forget(e);
        }
    }
    kani::cover!(declared == 4_000_000 / SZ + 1);
    kani::cover!(declared == u64::MAX);
}

//@ harness: vec_txout_oversize class=F tier=thorough props=C01,C10 timeout=1800
//@ clause: Vec<TxOut> decode: every declared element count n with n * size_of::<TxOut>() > 4_000_000 is rejected before allocation
#[kani::proof]
#[kani::unwind(2)] // as above
fn vec_txout_oversize() {
    let mut buf: [u8; 12] = kani::any();
    let declared: u64 = kani::any();
    const SZ: u64 = core::mem::size_of::<TxOut>() as u64;
    kani::assume(declared > 4_000_000 / SZ);
    put_varint(&mut buf, declared);
    match deserialize_partial::<Vec<TxOut>>(&buf[..]) {
        Ok((v, _)) => { forget(v); assert!(false); }
        Err(e) => {
            match declared.checked_mul(SZ) {
                Some(bytes) => assert!(matches!(e, Error::OversizedVectorAllocation { requested, max } if requested as u64 == bytes && max == 4_000_000)),
                None => assert!(matches!(e, Error::ParseFailed(_))),
            }
            forget(e);
        }
    }
    kani::cover!(declared == 4_000_000 / SZ + 1);
}

//@ harness: vec_u8_strict class=F tier=thorough bound="declared length 1" props=C01 timeout=3000
//@ clause: deserialize::<Vec<u8>>(b) is Ok iff deserialize_partial(b) is Ok and consumed everything; leftover bytes give ParseFailed("data not consumed entirely when explicitly deserializing")
#[kani::proof]
fn vec_u8_strict() {
    let mut buf: [u8; 4] = kani::any();
    buf[0] = 1;
    let len: usize = kani::any();
    kani::assume(len <= 4);
    match deserialize::<Vec<u8>>(&buf[..len]) {
        Ok(v) => { assert!(len == 2 && v.len() == 1 && v[0] == buf[1]); kani::cover!(true); forget(v); }
        Err(e) => {
            assert!(len != 2);
            if len > 2 {
                assert!(matches!(e, Error::ParseFailed(m) if m == "data not consumed entirely when explicitly deserializing"));
                kani::cover!(len == 4);
            }
            forget(e);
        }
    }
}
