//@ property: C02
//@ mount: src/transaction.rs
//@ functions: src/transaction.rs::Transaction::txid, src/transaction.rs::Transaction::wtxid
// Recording model of the hash engine (DESIGN §3.1 hash_models):  `<sha256d::HashEngine as HashEngine>::input` appends
// its argument to a per-harness byte log, `sha256d::Hash::from_engine` returns an arbitrary digest.
// ASSUMED: a SHA-256d digest is a function of the concatenation of the `input` calls (streaming property of the
// engine), and SHA-256d itself.  No SHA-256 is executed.  What is proved is the statement about the byte stream
// handed to the engine, which is the part the crate controls.
use super::*;
use crate::encode::Encodable;
use crate::hashes::sha256d as h256d;
use crate::hashes::HashEngine as HE;
use secp256k1_zkp::ffi as zffi;

#[path = "support/sinks.rs"]
mod sinks;
use sinks::{forget, ArraySink};
#[path = "support/c01_ffi_models.rs"]
mod ffi_models;
#[path = "support/c01_spec.rs"]
mod spec;

const LOGN: usize = 400;
static mut LOG: [u8; LOGN] = [0u8; LOGN];
static mut LOG_LEN: usize = 0;
static mut FINALIZED: usize = 0;

fn rec_input(_e: &mut h256d::HashEngine, data: &[u8]) {
    unsafe {
        assert!(data.len() <= LOGN - LOG_LEN);
        let at = LOG_LEN;
        LOG[at..at + data.len()].copy_from_slice(data);
        LOG_LEN = at + data.len();
    }
}
fn rec_from_engine(e: h256d::HashEngine) -> h256d::Hash {
    unsafe { FINALIZED += 1; }
    forget(e);
    h256d::Hash::from_byte_array(kani::any())
}
fn log_reset() {
    unsafe { LOG_LEN = 0; FINALIZED = 0; }
}

macro_rules! rec_proof {
    (fn $name:ident() $body:block) => {
        #[kani::proof]
        #[kani::stub(<h256d::HashEngine as HE>::input, rec_input)]
        #[kani::stub(h256d::Hash::from_engine, rec_from_engine)]
        #[kani::stub(zffi::secp256k1_pedersen_commitment_parse, ffi_models::pedersen_commitment_parse)]
        #[kani::stub(zffi::secp256k1_pedersen_commitment_serialize, ffi_models::pedersen_commitment_serialize)]
        #[kani::stub(zffi::secp256k1_generator_parse, ffi_models::generator_parse)]
        #[kani::stub(zffi::secp256k1_generator_serialize, ffi_models::generator_serialize)]
        #[kani::stub(zffi::secp256k1_ec_pubkey_parse, ffi_models::ec_pubkey_parse)]
        #[kani::stub(zffi::secp256k1_ec_pubkey_serialize, ffi_models::ec_pubkey_serialize)]
        #[kani::stub(zffi::secp256k1_rangeproof_info, ffi_models::rangeproof_info)]
        fn $name() $body
    };
}

fn enc<const N: usize, T: Encodable>(v: &T) -> (usize, ArraySink<N>) {
    let mut s = ArraySink::<N>::new();
    match v.consensus_encode(&mut s) {
        Ok(n) => (n, s),
        Err(e) => { forget(e); assert!(false); (0, s) }
    }
}
fn log_equals<const N: usize>(s: &ArraySink<N>) {
    unsafe {
        assert!(LOG_LEN == s.len);
        let mut i = 0;
        while i < N {
            if i < s.len { assert!(LOG[i] == s.buf[i]); }
            i += 1;
        }
    }
}

fn rangeproof<const L: usize>() -> Option<Box<RangeProof>> {
    if L == 0 { return None; }
    let b: [u8; L] = kani::any();
    match RangeProof::from_slice(&b) {
        Ok(p) => Some(Box::new(p)),
        Err(e) => { forget(e); kani::assume(false); None }
    }
}

/// 1 input / 1 output transaction; structural features symbolic; witness presence chosen by the caller
fn mk_tx(in_wit: bool, out_wit: bool, ins: &mut core::mem::ManuallyDrop<[TxIn; 1]>, outs: &mut core::mem::ManuallyDrop<[TxOut; 1]>, sws: &mut core::mem::ManuallyDrop<[Vec<u8>; 1]>) -> Transaction {
    let iss_present: bool = kani::any();
    let issuance = if iss_present {
        let i = AssetIssuance { asset_blinding_nonce: spec::raw_tweak(), asset_entropy: kani::any(), amount: spec::any_value(), inflation_keys: spec::any_value() };
        kani::assume(!(i.amount.is_null() && i.inflation_keys.is_null()));
        i
    } else { AssetIssuance::null() };
    sws[0] = spec::any_vec::<2>();
    let sw: Vec<Vec<u8>> = if in_wit { unsafe { spec::vec_over(sws) } } else { Vec::new() };
    let inp = TxIn {
        previous_output: OutPoint { txid: Txid::from_byte_array(kani::any()), vout: kani::any() },
        is_pegin: kani::any(),
        script_sig: Script::from(spec::any_vec::<1>()),
        sequence: Sequence(kani::any()),
        asset_issuance: issuance,
        witness: TxInWitness {
            amount_rangeproof: if in_wit { rangeproof::<1>() } else { None },
            inflation_keys_rangeproof: None,
            script_witness: sw,
            pegin_witness: Vec::new(),
        },
    };
    let out = TxOut {
        asset: spec::any_asset(), value: spec::any_value(), nonce: spec::any_nonce(),
        script_pubkey: Script::from(spec::any_vec::<2>()),
        witness: TxOutWitness { surjection_proof: None, rangeproof: if out_wit { rangeproof::<2>() } else { None } },
    };
    unsafe { core::ptr::write(&mut ins[0], inp); core::ptr::write(&mut outs[0], out); }
    Transaction { version: kani::any(), lock_time: LockTime::from_consensus(kani::any()),
        input: unsafe { spec::vec_over(ins) }, output: unsafe { spec::vec_over(outs) } }
}

macro_rules! txid_harness {
    ($name:ident, $iw:expr, $ow:expr) => {
        rec_proof! {
        fn $name() {
            ffi_models::init_accept_all();
            const N: usize = 320;
            // element storage in typed local arrays (see spec::vec_over)
            let mut ins = core::mem::ManuallyDrop::new([TxIn::default()]);
            let mut outs = core::mem::ManuallyDrop::new([TxOut::default()]);
            let mut sws = core::mem::ManuallyDrop::new([Vec::new()]);
            let mut tx = mk_tx($iw, $ow, &mut ins, &mut outs, &mut sws);
            assert!(tx.has_witness() == ($iw || $ow));
            // wtxid: the engine sees exactly the full serialization
            log_reset();
            let _w = tx.wtxid();
            unsafe { assert!(FINALIZED == 1); }
            let (nf, full) = enc::<N, _>(&tx);
            assert!(nf == full.len);
            log_equals(&full);
            // txid: the engine sees exactly the serialization of the same transaction with every witness cleared
            // (flag byte 0, no witness section)
            log_reset();
            let _t = tx.txid();
            unsafe { assert!(FINALIZED == 1); }
            forget(core::mem::replace(&mut tx.input[0].witness, TxInWitness::empty()));
            forget(core::mem::replace(&mut tx.output[0].witness, TxOutWitness::empty()));
            let (ns, stripped) = enc::<N, _>(&tx);
            assert!(ns == stripped.len);
            log_equals(&stripped);
            assert!(stripped.buf[4] == 0);
            // corollaries: without witness the two streams coincide; with witness they differ at byte 4 (the flag)
            if $iw || $ow {
                assert!(full.buf[4] == 1 && full.len > stripped.len);
            } else {
                assert!(full.len == stripped.len && full.buf[4] == 0);
            }
            kani::cover!(tx.input[0].has_issuance());
            kani::cover!(tx.output[0].nonce.is_confidential());
            forget(tx);
        }
        }
    };
}

//@ harness: txid_stream_nowit class=B tier=thorough bound="1 input (1-byte script), 1 output (2-byte script), no witness; pegin/issuance/confidential features symbolic" timeout=900
//@ clause: the byte stream hashed by txid() is the witness-stripped serialization (flag 0) and the stream hashed by wtxid() is the full serialization; for a transaction without witness the two streams are identical (so wtxid == txid)
txid_harness!(txid_stream_nowit, false, false);
//@ harness: txid_stream_inwit class=B tier=thorough bound="as above, input witness: 1-byte amount proof and a 2-byte stack item" timeout=900
//@ clause: same with a witness on the input only: the txid stream does not contain any witness byte (equals the serialization after clearing all witnesses), the wtxid stream is the full serialization and differs from it at the flag byte
txid_harness!(txid_stream_inwit, true, false);
//@ harness: txid_stream_outwit class=B tier=thorough bound="as above, output witness: 2-byte range proof" timeout=900
//@ clause: same with a witness on the output only
txid_harness!(txid_stream_outwit, false, true);
