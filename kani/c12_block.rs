//@ property: C12
//@ mount: src/block.rs
//@ functions: src/block.rs::Block::size, src/block.rs::Block::weight
// NOT RUN (`//@ unregistered-harness:`): harnesses that did not finish within 30 minutes of CBMC (measured on 16 cores, 5 in parallel).
use super::*;
use crate::confidential;
use crate::{AssetIssuance, LockTime, OutPoint, Sequence, TxIn, TxInWitness, TxOut, TxOutWitness, Txid};

#[path = "support/sinks.rs"]
mod sinks;
use sinks::{forget, CountSink};
use core::mem::ManuallyDrop;

fn enc_len<T: Encodable>(v: &T) -> usize {
    let mut s = CountSink(0);
    match v.consensus_encode(&mut s) {
        Ok(n) => { assert!(n == s.0); n }
        Err(e) => { forget(e); assert!(false); 0 }
    }
}

fn small_tx(with_witness: bool, ins: &mut ManuallyDrop<[TxIn; 1]>, outs: &mut ManuallyDrop<[TxOut; 1]>, sws: &mut ManuallyDrop<[Vec<u8>; 1]>) -> Transaction {
    sws[0] = vec![0u8; 3];
    let sw: Vec<Vec<u8>> = if with_witness { unsafe { Vec::from_raw_parts(sws.as_mut_ptr() as *mut Vec<u8>, 1, 1) } } else { Vec::new() };
    let inp = TxIn {
        previous_output: OutPoint { txid: Txid::from_byte_array([0u8; 32]), vout: kani::any() },
        is_pegin: kani::any(),
        script_sig: Script::from(vec![0u8; 2]),
        sequence: Sequence(kani::any()),
        asset_issuance: AssetIssuance::null(),
        witness: TxInWitness { amount_rangeproof: None, inflation_keys_rangeproof: None, script_witness: sw, pegin_witness: Vec::new() },
    };
    let out = TxOut {
        asset: confidential::Asset::Null,
        value: confidential::Value::Explicit(kani::any()),
        nonce: confidential::Nonce::Null,
        script_pubkey: Script::from(vec![0u8; 1]),
        witness: TxOutWitness::empty(),
    };
    unsafe { core::ptr::write(&mut ins[0], inp); core::ptr::write(&mut outs[0], out); }
    Transaction { version: kani::any(), lock_time: LockTime::from_consensus(kani::any()),
        input: unsafe { Vec::from_raw_parts(ins.as_mut_ptr() as *mut TxIn, 1, 1) },
        output: unsafe { Vec::from_raw_parts(outs.as_mut_ptr() as *mut TxOut, 1, 1) } }
}

macro_rules! block_harness {
    ($name:ident, $dyn:expr, $wit:expr) => {
        #[kani::proof]
        #[kani::unwind(3)] // Block::size/weight and Transaction::scaled_size use iter().map().sum(); every loop here runs <= 2 times
        fn $name() {
            let ext = if $dyn {
                let mut w = Vec::with_capacity(1);
                w.push(vec![0u8; 2]);
                ExtData::Dynafed { current: dynafed::Params::Null, proposed: dynafed::Params::Null, signblock_witness: w }
            } else {
                ExtData::Proof { challenge: Script::from(vec![0u8; 1]), solution: Script::from(vec![0u8; 2]) }
            };
            let header = BlockHeader {
                version: kani::any(),
                prev_blockhash: BlockHash::from_byte_array([0u8; 32]),
                merkle_root: TxMerkleNode::from_byte_array([0u8; 32]),
                time: kani::any(),
                height: kani::any(),
                ext,
            };
            // element storage in typed local arrays: CBMC cannot constant-fold lengths of nested vectors read back from heap memory
            let mut ins = ManuallyDrop::new([TxIn::default()]);
            let mut outs = ManuallyDrop::new([TxOut::default()]);
            let mut sws = ManuallyDrop::new([Vec::new()]);
            let mut txs = ManuallyDrop::new([small_tx($wit, &mut ins, &mut outs, &mut sws)]);
            let block = Block { header, txdata: unsafe { Vec::from_raw_parts(txs.as_mut_ptr() as *mut Transaction, 1, 1) } };
            let hdr = enc_len(&block.header);
            let txw = block.txdata[0].weight();
            let txs_len = enc_len(&block.txdata[0]);
            let size = block.size();
            let weight = block.weight();
            // size == serialized length of the whole block
            assert!(size == enc_len(&block));
            assert!(size == hdr + 1 + txs_len);
            // weight == 4 * (header + count) + sum of transaction weights
            assert!(weight == 4 * (hdr + 1) + txw);
            if $wit { assert!(weight < 4 * size); } else { assert!(weight == 4 * size); }
            kani::cover!(true);
            forget(block);
        }
    };
}

//@ harness: block_size_weight_legacy class=B tier=thorough bound="legacy header (1-byte challenge, 2-byte solution), 1 transaction (1 input with a 3-byte witness item, 1 explicit output)" timeout=3000
//@ clause: Block::size == serialized length of the block; Block::weight == 4*(header bytes + tx-count varint) + sum of Transaction::weight
block_harness!(block_size_weight_legacy, false, true);
//@ unregistered-harness: block_size_weight_dynafed class=B tier=thorough bound="dynafed header (null/null params, signblock witness [2 bytes]), 1 transaction without witness" timeout=900
//@ clause: same for a dynafed header; without transaction witnesses weight == 4*size
block_harness!(block_size_weight_dynafed, true, false);
