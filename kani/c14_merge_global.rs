//@ property: C14 C10
//@ mount: src/pset/map/global.rs
//@ functions: src/pset/map/global.rs::Global::merge
// Contract of `Global::merge`.
//
// xpub branch.  Both operands hold ONE entry for the same (concrete) extended public key, with symbolic key sources
// (fingerprint, derivation path).  Paths are taken at every pair of concrete lengths (la, lb) in 0..=LMAX x 0..=LMAX
// (case split inside one harness: each case builds its vectors at concrete length, contents symbolic), so the
// statement covers *all* pairs of key sources with paths up to LMAX elements.
//
// Oracle, written from the property text ("conflicting key-source information for a global xpub is either
// reconciled as documented or reported as a merge conflict", quantifier "equal, suffix-related in either direction,
// unrelated of equal or different length, equal path with different fingerprint") and from the documented rule in the
// code comment (the documentation the statement refers to):
//   equal (fp, path)                                   => Ok, entry unchanged
//   one path a strict suffix of the other              => Ok, the entry with the LONGER path is kept (either direction)
//   equal paths, different fingerprints                => Err(MergeConflict)
//   same length, different paths                       => Err(MergeConflict)
//   different length, shorter not a suffix of longer   => Err(MergeConflict)
//   and never a panic.
//
// `#[kani::unwind(5)]`: `for (..) in other.xpub` consumes a B-tree; its `first_leaf_edge` descent loop is unwound forever by
// CBMC without a bound (measured).  5 also bounds the path loops (<= 3 elements + exit).
// Stubs: the conflict message formats the xpub (`Display` = base58check = SHA-256d + libsecp serialize), which CBMC cannot
// execute; `base58::encode_check_to_fmt` is replaced by a no-op and `Xpub::encode` by a constant.  Key comparison in the
// BTreeMap goes through the assumed `ec_pubkey_cmp` model.  Assumed: those functions terminate without panicking.
// NOT RUN (`//@ unregistered-harness:`): every xpub key-source harness (even path lengths 0/0) and the scalar-union harness
// exceeded 15-50 minutes of CBMC on the repaired tree (consuming B-tree iterator + early return inside the loop); they are
// kept as the statement of the obligation. The xpub reconciliation clause is NOT decided by a registered check; defect D4 in
// that code was found by the design-time probe of this harness and is repaired.
use super::*;
use bitcoin::base58 as b58;
use bitcoin::bip32::Xpub as XpubT;
use bitcoin::NetworkKind;

#[path = "support/c07_ffi.rs"]
mod ffi_models;
use ffi_models::*;

fn fgt<T>(t: T) { core::mem::forget(t) }

fn model_encode_check_to_fmt(_fmt: &mut core::fmt::Formatter, _data: &[u8]) -> core::fmt::Result { Ok(()) }
fn model_xpub_encode(_x: &Xpub) -> [u8; 78] { [0u8; 78] }
use std::fmt as sfmt;
use core::cmp::Ord as OrdT;
/// `format!` (the text of the MergeConflict message) is irrelevant to every assertion here and its machinery is expensive.
fn model_format(_args: core::fmt::Arguments<'_>) -> String { String::new() }

fn the_xpub() -> Xpub {
    Xpub {
        network: NetworkKind::Main,
        depth: 1,
        parent_fingerprint: Fingerprint::from([1u8, 2, 3, 4]),
        child_number: ChildNumber::from(7u32),
        public_key: fixed_secp_pubkey(5),
        chain_code: bitcoin::bip32::ChainCode::from([9u8; 32]),
    }
}

fn path<const N: usize>() -> (Vec<u32>, DerivationPath) {
    let mut raw: Vec<u32> = Vec::with_capacity(N);
    let mut v: Vec<ChildNumber> = Vec::with_capacity(N);
    let mut i = 0;
    while i < N {
        let x: u32 = kani::any();
        raw.push(x);
        v.push(ChildNumber::from(x));
        i += 1;
    }
    (raw, DerivationPath::from(v))
}

/// `short` is a strict suffix of `long` (plain u32 model of the paths)
fn strict_suffix(short: &[u32], long: &[u32]) -> bool {
    if short.len() >= long.len() { return false; }
    let off = long.len() - short.len();
    let mut i = 0;
    while i < short.len() {
        if short[i] != long[off + i] { return false; }
        i += 1;
    }
    true
}
fn same(a: &[u32], b: &[u32]) -> bool {
    if a.len() != b.len() { return false; }
    let mut i = 0;
    while i < a.len() {
        if a[i] != b[i] { return false; }
        i += 1;
    }
    true
}

#[derive(Clone, Copy, PartialEq)]
enum Mode { NoPanic, Reconcile, Conflict }

/// self holds (fs, ps) of length LS; other (incoming) holds (fo, po) of length LO
fn xpub_case<const LS: usize, const LO: usize>(mode: Mode) {
    let (rs, ps) = path::<LS>();
    let (ro, po) = path::<LO>();
    let fs: [u8; 4] = kani::any();
    let fo: [u8; 4] = kani::any();
    let equal = same(&rs, &ro) && fs == fo;
    let o_in_s = strict_suffix(&ro, &rs); // incoming shorter: keep self
    let s_in_o = strict_suffix(&rs, &ro); // incoming longer: take incoming
    let reconcilable = equal || o_in_s || s_in_o;
    match mode {
        Mode::NoPanic => {}
        Mode::Reconcile => kani::assume(reconcilable),
        Mode::Conflict => kani::assume(!reconcilable),
    }
    let xp = the_xpub();
    let mut a = Global::default();
    a.xpub.insert(xp, (Fingerprint::from(fs), ps));
    let mut b = Global::default();
    b.xpub.insert(xp, (Fingerprint::from(fo), po));
    kani::cover!(true);
    let r = a.merge(b);
    match mode {
        Mode::NoPanic => { fgt(r); }
        Mode::Reconcile => {
            match r { Ok(()) => {}, Err(e) => { fgt(e); assert!(false, "reconcilable key sources must merge"); } }
            assert!(a.xpub.len() == 1);
            match a.xpub.get(&xp) {
                Some((f, p)) => {
                    let pr: &[ChildNumber] = p.as_ref();
                    let want_raw: &[u32] = if s_in_o { &ro } else { &rs };
                    let want_f = if s_in_o { fo } else { fs };
                    assert!(pr.len() == want_raw.len(), "longer derivation kept");
                    let mut i = 0;
                    while i < pr.len() {
                        assert!(u32::from(pr[i]) == want_raw[i]);
                        i += 1;
                    }
                    assert!(f.as_bytes() == &want_f, "fingerprint belongs to the kept derivation");
                }
                None => assert!(false, "xpub entry lost"),
            }
        }
        Mode::Conflict => {
            match r {
                Ok(()) => assert!(false, "conflicting key sources must be reported as a merge conflict"),
                Err(e) => { assert!(matches!(e, pset::Error::MergeConflict(_))); fgt(e); }
            }
        }
    }
    fgt(a);
}

macro_rules! xpub_one {
    ($name:ident, $mode:expr, $s:literal, $o:literal) => {
        #[kani::proof]
        #[kani::unwind(5)]
        #[kani::stub(zffi::secp256k1_ec_pubkey_cmp, model_ec_pubkey_cmp)]
        #[kani::stub(b58::encode_check_to_fmt, model_encode_check_to_fmt)]
        #[kani::stub(XpubT::encode, model_xpub_encode)]
        #[kani::stub(sfmt::format, model_format)]
        fn $name() { xpub_case::<$s, $o>($mode); }
    };
}
//@ unregistered-harness: c14_global_xpub_no_panic_0_0 class=B tier=thorough bound="one xpub entry per operand; own derivation path of length 0, incoming of length 0, all contents and both fingerprints symbolic" props=C10,C14 timeout=1500
//@ clause: Global::merge never panics on any pair of key sources for the same xpub (defect D4: `derivation1.len() - derivation2.len()` underflowed when the incoming path was shorter and not a suffix)
xpub_one!(c14_global_xpub_no_panic_0_0, Mode::NoPanic, 0, 0);
//@ unregistered-harness: c14_global_xpub_no_panic_0_1 class=B tier=thorough bound="one xpub entry per operand; own derivation path of length 0, incoming of length 1, all contents and both fingerprints symbolic" props=C10,C14 timeout=1500
//@ clause: Global::merge never panics on any pair of key sources for the same xpub (defect D4: `derivation1.len() - derivation2.len()` underflowed when the incoming path was shorter and not a suffix)
xpub_one!(c14_global_xpub_no_panic_0_1, Mode::NoPanic, 0, 1);
//@ unregistered-harness: c14_global_xpub_no_panic_0_2 class=B tier=thorough bound="one xpub entry per operand; own derivation path of length 0, incoming of length 2, all contents and both fingerprints symbolic" props=C10,C14 timeout=1500
//@ clause: Global::merge never panics on any pair of key sources for the same xpub (defect D4: `derivation1.len() - derivation2.len()` underflowed when the incoming path was shorter and not a suffix)
xpub_one!(c14_global_xpub_no_panic_0_2, Mode::NoPanic, 0, 2);
//@ unregistered-harness: c14_global_xpub_no_panic_0_3 class=B tier=thorough bound="one xpub entry per operand; own derivation path of length 0, incoming of length 3, all contents and both fingerprints symbolic" props=C10,C14 timeout=1500
//@ clause: Global::merge never panics on any pair of key sources for the same xpub (defect D4: `derivation1.len() - derivation2.len()` underflowed when the incoming path was shorter and not a suffix)
xpub_one!(c14_global_xpub_no_panic_0_3, Mode::NoPanic, 0, 3);
//@ unregistered-harness: c14_global_xpub_no_panic_1_0 class=B tier=thorough bound="one xpub entry per operand; own derivation path of length 1, incoming of length 0, all contents and both fingerprints symbolic" props=C10,C14 timeout=1500
//@ clause: Global::merge never panics on any pair of key sources for the same xpub (defect D4: `derivation1.len() - derivation2.len()` underflowed when the incoming path was shorter and not a suffix)
xpub_one!(c14_global_xpub_no_panic_1_0, Mode::NoPanic, 1, 0);
//@ unregistered-harness: c14_global_xpub_no_panic_1_1 class=B tier=thorough bound="one xpub entry per operand; own derivation path of length 1, incoming of length 1, all contents and both fingerprints symbolic" props=C10,C14 timeout=1500
//@ clause: Global::merge never panics on any pair of key sources for the same xpub (defect D4: `derivation1.len() - derivation2.len()` underflowed when the incoming path was shorter and not a suffix)
xpub_one!(c14_global_xpub_no_panic_1_1, Mode::NoPanic, 1, 1);
//@ unregistered-harness: c14_global_xpub_no_panic_1_2 class=B tier=thorough bound="one xpub entry per operand; own derivation path of length 1, incoming of length 2, all contents and both fingerprints symbolic" props=C10,C14 timeout=1500
//@ clause: Global::merge never panics on any pair of key sources for the same xpub (defect D4: `derivation1.len() - derivation2.len()` underflowed when the incoming path was shorter and not a suffix)
xpub_one!(c14_global_xpub_no_panic_1_2, Mode::NoPanic, 1, 2);
//@ unregistered-harness: c14_global_xpub_no_panic_1_3 class=B tier=thorough bound="one xpub entry per operand; own derivation path of length 1, incoming of length 3, all contents and both fingerprints symbolic" props=C10,C14 timeout=1500
//@ clause: Global::merge never panics on any pair of key sources for the same xpub (defect D4: `derivation1.len() - derivation2.len()` underflowed when the incoming path was shorter and not a suffix)
xpub_one!(c14_global_xpub_no_panic_1_3, Mode::NoPanic, 1, 3);
//@ unregistered-harness: c14_global_xpub_no_panic_2_0 class=B tier=thorough bound="one xpub entry per operand; own derivation path of length 2, incoming of length 0, all contents and both fingerprints symbolic" props=C10,C14 timeout=1500
//@ clause: Global::merge never panics on any pair of key sources for the same xpub (defect D4: `derivation1.len() - derivation2.len()` underflowed when the incoming path was shorter and not a suffix)
xpub_one!(c14_global_xpub_no_panic_2_0, Mode::NoPanic, 2, 0);
//@ unregistered-harness: c14_global_xpub_no_panic_2_1 class=B tier=thorough bound="one xpub entry per operand; own derivation path of length 2, incoming of length 1, all contents and both fingerprints symbolic" props=C10,C14 timeout=1500
//@ clause: Global::merge never panics on any pair of key sources for the same xpub (defect D4: `derivation1.len() - derivation2.len()` underflowed when the incoming path was shorter and not a suffix)
xpub_one!(c14_global_xpub_no_panic_2_1, Mode::NoPanic, 2, 1);
//@ unregistered-harness: c14_global_xpub_no_panic_2_2 class=B tier=thorough bound="one xpub entry per operand; own derivation path of length 2, incoming of length 2, all contents and both fingerprints symbolic" props=C10,C14 timeout=1500
//@ clause: Global::merge never panics on any pair of key sources for the same xpub (defect D4: `derivation1.len() - derivation2.len()` underflowed when the incoming path was shorter and not a suffix)
xpub_one!(c14_global_xpub_no_panic_2_2, Mode::NoPanic, 2, 2);
//@ unregistered-harness: c14_global_xpub_no_panic_2_3 class=B tier=thorough bound="one xpub entry per operand; own derivation path of length 2, incoming of length 3, all contents and both fingerprints symbolic" props=C10,C14 timeout=1500
//@ clause: Global::merge never panics on any pair of key sources for the same xpub (defect D4: `derivation1.len() - derivation2.len()` underflowed when the incoming path was shorter and not a suffix)
xpub_one!(c14_global_xpub_no_panic_2_3, Mode::NoPanic, 2, 3);
//@ unregistered-harness: c14_global_xpub_no_panic_3_0 class=B tier=thorough bound="one xpub entry per operand; own derivation path of length 3, incoming of length 0, all contents and both fingerprints symbolic" props=C10,C14 timeout=1500
//@ clause: Global::merge never panics on any pair of key sources for the same xpub (defect D4: `derivation1.len() - derivation2.len()` underflowed when the incoming path was shorter and not a suffix)
xpub_one!(c14_global_xpub_no_panic_3_0, Mode::NoPanic, 3, 0);
//@ unregistered-harness: c14_global_xpub_no_panic_3_1 class=B tier=thorough bound="one xpub entry per operand; own derivation path of length 3, incoming of length 1, all contents and both fingerprints symbolic" props=C10,C14 timeout=1500
//@ clause: Global::merge never panics on any pair of key sources for the same xpub (defect D4: `derivation1.len() - derivation2.len()` underflowed when the incoming path was shorter and not a suffix)
xpub_one!(c14_global_xpub_no_panic_3_1, Mode::NoPanic, 3, 1);
//@ unregistered-harness: c14_global_xpub_no_panic_3_2 class=B tier=thorough bound="one xpub entry per operand; own derivation path of length 3, incoming of length 2, all contents and both fingerprints symbolic" props=C10,C14 timeout=1500
//@ clause: Global::merge never panics on any pair of key sources for the same xpub (defect D4: `derivation1.len() - derivation2.len()` underflowed when the incoming path was shorter and not a suffix)
xpub_one!(c14_global_xpub_no_panic_3_2, Mode::NoPanic, 3, 2);
//@ unregistered-harness: c14_global_xpub_no_panic_3_3 class=B tier=thorough bound="one xpub entry per operand; own derivation path of length 3, incoming of length 3, all contents and both fingerprints symbolic" props=C10,C14 timeout=1500
//@ clause: Global::merge never panics on any pair of key sources for the same xpub (defect D4: `derivation1.len() - derivation2.len()` underflowed when the incoming path was shorter and not a suffix)
xpub_one!(c14_global_xpub_no_panic_3_3, Mode::NoPanic, 3, 3);
//@ unregistered-harness: c14_global_xpub_reconcile_0_0 class=B tier=thorough bound="one xpub entry per operand; own derivation path of length 0, incoming of length 0, all contents and both fingerprints symbolic" props=C14 timeout=1500
//@ clause: key sources that are equal or suffix-related in either direction merge successfully and the entry with the longer derivation (and its fingerprint) is the result
xpub_one!(c14_global_xpub_reconcile_0_0, Mode::Reconcile, 0, 0);
//@ unregistered-harness: c14_global_xpub_reconcile_0_1 class=B tier=thorough bound="one xpub entry per operand; own derivation path of length 0, incoming of length 1, all contents and both fingerprints symbolic" props=C14 timeout=1500
//@ clause: key sources that are equal or suffix-related in either direction merge successfully and the entry with the longer derivation (and its fingerprint) is the result
xpub_one!(c14_global_xpub_reconcile_0_1, Mode::Reconcile, 0, 1);
//@ unregistered-harness: c14_global_xpub_reconcile_0_2 class=B tier=thorough bound="one xpub entry per operand; own derivation path of length 0, incoming of length 2, all contents and both fingerprints symbolic" props=C14 timeout=1500
//@ clause: key sources that are equal or suffix-related in either direction merge successfully and the entry with the longer derivation (and its fingerprint) is the result
xpub_one!(c14_global_xpub_reconcile_0_2, Mode::Reconcile, 0, 2);
//@ unregistered-harness: c14_global_xpub_reconcile_0_3 class=B tier=thorough bound="one xpub entry per operand; own derivation path of length 0, incoming of length 3, all contents and both fingerprints symbolic" props=C14 timeout=1500
//@ clause: key sources that are equal or suffix-related in either direction merge successfully and the entry with the longer derivation (and its fingerprint) is the result
xpub_one!(c14_global_xpub_reconcile_0_3, Mode::Reconcile, 0, 3);
//@ unregistered-harness: c14_global_xpub_reconcile_1_0 class=B tier=thorough bound="one xpub entry per operand; own derivation path of length 1, incoming of length 0, all contents and both fingerprints symbolic" props=C14 timeout=1500
//@ clause: key sources that are equal or suffix-related in either direction merge successfully and the entry with the longer derivation (and its fingerprint) is the result
xpub_one!(c14_global_xpub_reconcile_1_0, Mode::Reconcile, 1, 0);
//@ unregistered-harness: c14_global_xpub_reconcile_1_1 class=B tier=thorough bound="one xpub entry per operand; own derivation path of length 1, incoming of length 1, all contents and both fingerprints symbolic" props=C14 timeout=1500
//@ clause: key sources that are equal or suffix-related in either direction merge successfully and the entry with the longer derivation (and its fingerprint) is the result
xpub_one!(c14_global_xpub_reconcile_1_1, Mode::Reconcile, 1, 1);
//@ unregistered-harness: c14_global_xpub_reconcile_1_2 class=B tier=thorough bound="one xpub entry per operand; own derivation path of length 1, incoming of length 2, all contents and both fingerprints symbolic" props=C14 timeout=1500
//@ clause: key sources that are equal or suffix-related in either direction merge successfully and the entry with the longer derivation (and its fingerprint) is the result
xpub_one!(c14_global_xpub_reconcile_1_2, Mode::Reconcile, 1, 2);
//@ unregistered-harness: c14_global_xpub_reconcile_1_3 class=B tier=thorough bound="one xpub entry per operand; own derivation path of length 1, incoming of length 3, all contents and both fingerprints symbolic" props=C14 timeout=1500
//@ clause: key sources that are equal or suffix-related in either direction merge successfully and the entry with the longer derivation (and its fingerprint) is the result
xpub_one!(c14_global_xpub_reconcile_1_3, Mode::Reconcile, 1, 3);
//@ unregistered-harness: c14_global_xpub_reconcile_2_0 class=B tier=thorough bound="one xpub entry per operand; own derivation path of length 2, incoming of length 0, all contents and both fingerprints symbolic" props=C14 timeout=1500
//@ clause: key sources that are equal or suffix-related in either direction merge successfully and the entry with the longer derivation (and its fingerprint) is the result
xpub_one!(c14_global_xpub_reconcile_2_0, Mode::Reconcile, 2, 0);
//@ unregistered-harness: c14_global_xpub_reconcile_2_1 class=B tier=thorough bound="one xpub entry per operand; own derivation path of length 2, incoming of length 1, all contents and both fingerprints symbolic" props=C14 timeout=1500
//@ clause: key sources that are equal or suffix-related in either direction merge successfully and the entry with the longer derivation (and its fingerprint) is the result
xpub_one!(c14_global_xpub_reconcile_2_1, Mode::Reconcile, 2, 1);
//@ unregistered-harness: c14_global_xpub_reconcile_2_2 class=B tier=thorough bound="one xpub entry per operand; own derivation path of length 2, incoming of length 2, all contents and both fingerprints symbolic" props=C14 timeout=1500
//@ clause: key sources that are equal or suffix-related in either direction merge successfully and the entry with the longer derivation (and its fingerprint) is the result
xpub_one!(c14_global_xpub_reconcile_2_2, Mode::Reconcile, 2, 2);
//@ unregistered-harness: c14_global_xpub_reconcile_2_3 class=B tier=thorough bound="one xpub entry per operand; own derivation path of length 2, incoming of length 3, all contents and both fingerprints symbolic" props=C14 timeout=1500
//@ clause: key sources that are equal or suffix-related in either direction merge successfully and the entry with the longer derivation (and its fingerprint) is the result
xpub_one!(c14_global_xpub_reconcile_2_3, Mode::Reconcile, 2, 3);
//@ unregistered-harness: c14_global_xpub_reconcile_3_0 class=B tier=thorough bound="one xpub entry per operand; own derivation path of length 3, incoming of length 0, all contents and both fingerprints symbolic" props=C14 timeout=1500
//@ clause: key sources that are equal or suffix-related in either direction merge successfully and the entry with the longer derivation (and its fingerprint) is the result
xpub_one!(c14_global_xpub_reconcile_3_0, Mode::Reconcile, 3, 0);
//@ unregistered-harness: c14_global_xpub_reconcile_3_1 class=B tier=thorough bound="one xpub entry per operand; own derivation path of length 3, incoming of length 1, all contents and both fingerprints symbolic" props=C14 timeout=1500
//@ clause: key sources that are equal or suffix-related in either direction merge successfully and the entry with the longer derivation (and its fingerprint) is the result
xpub_one!(c14_global_xpub_reconcile_3_1, Mode::Reconcile, 3, 1);
//@ unregistered-harness: c14_global_xpub_reconcile_3_2 class=B tier=thorough bound="one xpub entry per operand; own derivation path of length 3, incoming of length 2, all contents and both fingerprints symbolic" props=C14 timeout=1500
//@ clause: key sources that are equal or suffix-related in either direction merge successfully and the entry with the longer derivation (and its fingerprint) is the result
xpub_one!(c14_global_xpub_reconcile_3_2, Mode::Reconcile, 3, 2);
//@ unregistered-harness: c14_global_xpub_reconcile_3_3 class=B tier=thorough bound="one xpub entry per operand; own derivation path of length 3, incoming of length 3, all contents and both fingerprints symbolic" props=C14 timeout=1500
//@ clause: key sources that are equal or suffix-related in either direction merge successfully and the entry with the longer derivation (and its fingerprint) is the result
xpub_one!(c14_global_xpub_reconcile_3_3, Mode::Reconcile, 3, 3);
//@ unregistered-harness: c14_global_xpub_conflict_0_0 class=B tier=thorough bound="one xpub entry per operand; own derivation path of length 0, incoming of length 0, all contents and both fingerprints symbolic" props=C14 timeout=1500
//@ clause: key sources that are neither equal nor suffix-related (equal path with different fingerprint, same length different path, different length not a suffix) yield Err(MergeConflict)
xpub_one!(c14_global_xpub_conflict_0_0, Mode::Conflict, 0, 0);
//@ unregistered-harness: c14_global_xpub_conflict_0_1 class=B tier=thorough bound="one xpub entry per operand; own derivation path of length 0, incoming of length 1, all contents and both fingerprints symbolic" props=C14 timeout=1500
//@ clause: key sources that are neither equal nor suffix-related (equal path with different fingerprint, same length different path, different length not a suffix) yield Err(MergeConflict)
xpub_one!(c14_global_xpub_conflict_0_1, Mode::Conflict, 0, 1);
//@ unregistered-harness: c14_global_xpub_conflict_0_2 class=B tier=thorough bound="one xpub entry per operand; own derivation path of length 0, incoming of length 2, all contents and both fingerprints symbolic" props=C14 timeout=1500
//@ clause: key sources that are neither equal nor suffix-related (equal path with different fingerprint, same length different path, different length not a suffix) yield Err(MergeConflict)
xpub_one!(c14_global_xpub_conflict_0_2, Mode::Conflict, 0, 2);
//@ unregistered-harness: c14_global_xpub_conflict_0_3 class=B tier=thorough bound="one xpub entry per operand; own derivation path of length 0, incoming of length 3, all contents and both fingerprints symbolic" props=C14 timeout=1500
//@ clause: key sources that are neither equal nor suffix-related (equal path with different fingerprint, same length different path, different length not a suffix) yield Err(MergeConflict)
xpub_one!(c14_global_xpub_conflict_0_3, Mode::Conflict, 0, 3);
//@ unregistered-harness: c14_global_xpub_conflict_1_0 class=B tier=thorough bound="one xpub entry per operand; own derivation path of length 1, incoming of length 0, all contents and both fingerprints symbolic" props=C14 timeout=1500
//@ clause: key sources that are neither equal nor suffix-related (equal path with different fingerprint, same length different path, different length not a suffix) yield Err(MergeConflict)
xpub_one!(c14_global_xpub_conflict_1_0, Mode::Conflict, 1, 0);
//@ unregistered-harness: c14_global_xpub_conflict_1_1 class=B tier=thorough bound="one xpub entry per operand; own derivation path of length 1, incoming of length 1, all contents and both fingerprints symbolic" props=C14 timeout=1500
//@ clause: key sources that are neither equal nor suffix-related (equal path with different fingerprint, same length different path, different length not a suffix) yield Err(MergeConflict)
xpub_one!(c14_global_xpub_conflict_1_1, Mode::Conflict, 1, 1);
//@ unregistered-harness: c14_global_xpub_conflict_1_2 class=B tier=thorough bound="one xpub entry per operand; own derivation path of length 1, incoming of length 2, all contents and both fingerprints symbolic" props=C14 timeout=1500
//@ clause: key sources that are neither equal nor suffix-related (equal path with different fingerprint, same length different path, different length not a suffix) yield Err(MergeConflict)
xpub_one!(c14_global_xpub_conflict_1_2, Mode::Conflict, 1, 2);
//@ unregistered-harness: c14_global_xpub_conflict_1_3 class=B tier=thorough bound="one xpub entry per operand; own derivation path of length 1, incoming of length 3, all contents and both fingerprints symbolic" props=C14 timeout=1500
//@ clause: key sources that are neither equal nor suffix-related (equal path with different fingerprint, same length different path, different length not a suffix) yield Err(MergeConflict)
xpub_one!(c14_global_xpub_conflict_1_3, Mode::Conflict, 1, 3);
//@ unregistered-harness: c14_global_xpub_conflict_2_0 class=B tier=thorough bound="one xpub entry per operand; own derivation path of length 2, incoming of length 0, all contents and both fingerprints symbolic" props=C14 timeout=1500
//@ clause: key sources that are neither equal nor suffix-related (equal path with different fingerprint, same length different path, different length not a suffix) yield Err(MergeConflict)
xpub_one!(c14_global_xpub_conflict_2_0, Mode::Conflict, 2, 0);
//@ unregistered-harness: c14_global_xpub_conflict_2_1 class=B tier=thorough bound="one xpub entry per operand; own derivation path of length 2, incoming of length 1, all contents and both fingerprints symbolic" props=C14 timeout=1500
//@ clause: key sources that are neither equal nor suffix-related (equal path with different fingerprint, same length different path, different length not a suffix) yield Err(MergeConflict)
xpub_one!(c14_global_xpub_conflict_2_1, Mode::Conflict, 2, 1);
//@ unregistered-harness: c14_global_xpub_conflict_2_2 class=B tier=thorough bound="one xpub entry per operand; own derivation path of length 2, incoming of length 2, all contents and both fingerprints symbolic" props=C14 timeout=1500
//@ clause: key sources that are neither equal nor suffix-related (equal path with different fingerprint, same length different path, different length not a suffix) yield Err(MergeConflict)
xpub_one!(c14_global_xpub_conflict_2_2, Mode::Conflict, 2, 2);
//@ unregistered-harness: c14_global_xpub_conflict_2_3 class=B tier=thorough bound="one xpub entry per operand; own derivation path of length 2, incoming of length 3, all contents and both fingerprints symbolic" props=C14 timeout=1500
//@ clause: key sources that are neither equal nor suffix-related (equal path with different fingerprint, same length different path, different length not a suffix) yield Err(MergeConflict)
xpub_one!(c14_global_xpub_conflict_2_3, Mode::Conflict, 2, 3);
//@ unregistered-harness: c14_global_xpub_conflict_3_0 class=B tier=thorough bound="one xpub entry per operand; own derivation path of length 3, incoming of length 0, all contents and both fingerprints symbolic" props=C14 timeout=1500
//@ clause: key sources that are neither equal nor suffix-related (equal path with different fingerprint, same length different path, different length not a suffix) yield Err(MergeConflict)
xpub_one!(c14_global_xpub_conflict_3_0, Mode::Conflict, 3, 0);
//@ unregistered-harness: c14_global_xpub_conflict_3_1 class=B tier=thorough bound="one xpub entry per operand; own derivation path of length 3, incoming of length 1, all contents and both fingerprints symbolic" props=C14 timeout=1500
//@ clause: key sources that are neither equal nor suffix-related (equal path with different fingerprint, same length different path, different length not a suffix) yield Err(MergeConflict)
xpub_one!(c14_global_xpub_conflict_3_1, Mode::Conflict, 3, 1);
//@ unregistered-harness: c14_global_xpub_conflict_3_2 class=B tier=thorough bound="one xpub entry per operand; own derivation path of length 3, incoming of length 2, all contents and both fingerprints symbolic" props=C14 timeout=1500
//@ clause: key sources that are neither equal nor suffix-related (equal path with different fingerprint, same length different path, different length not a suffix) yield Err(MergeConflict)
xpub_one!(c14_global_xpub_conflict_3_2, Mode::Conflict, 3, 2);
//@ unregistered-harness: c14_global_xpub_conflict_3_3 class=B tier=thorough bound="one xpub entry per operand; own derivation path of length 3, incoming of length 3, all contents and both fingerprints symbolic" props=C14 timeout=1500
//@ clause: key sources that are neither equal nor suffix-related (equal path with different fingerprint, same length different path, different length not a suffix) yield Err(MergeConflict)
xpub_one!(c14_global_xpub_conflict_3_3, Mode::Conflict, 3, 3);

//@ unregistered-harness: c14_global_xpub_disjoint class=B tier=thorough bound="two different concrete xpubs, paths of length 1" props=C14
//@ clause: xpub entries for different keys: the result holds both (union), in both merge orders
#[kani::proof]
#[kani::unwind(5)]
#[kani::stub(zffi::secp256k1_ec_pubkey_cmp, model_ec_pubkey_cmp)]
fn c14_global_xpub_disjoint() {
    let x1 = the_xpub();
    let mut x2 = the_xpub();
    x2.public_key = fixed_secp_pubkey(6);
    let (_r1, p1) = path::<1>();
    let (_r2, p2) = path::<1>();
    let f1: [u8; 4] = kani::any();
    let f2: [u8; 4] = kani::any();
    let mut a1 = Global::default(); a1.xpub.insert(x1, (Fingerprint::from(f1), p1.clone()));
    let mut a2 = Global::default(); a2.xpub.insert(x1, (Fingerprint::from(f1), p1.clone()));
    let mut b1 = Global::default(); b1.xpub.insert(x2, (Fingerprint::from(f2), p2.clone()));
    let mut b2 = Global::default(); b2.xpub.insert(x2, (Fingerprint::from(f2), p2.clone()));
    kani::cover!(true);
    match a1.merge(b1) { Ok(()) => {}, Err(e) => { fgt(e); assert!(false); } }
    match b2.merge(a2) { Ok(()) => {}, Err(e) => { fgt(e); assert!(false); } }
    let e1 = (Fingerprint::from(f1), p1);
    let e2 = (Fingerprint::from(f2), p2);
    assert!(a1.xpub.len() == 2 && b2.xpub.len() == 2);
    assert!(a1.xpub.get(&x1) == Some(&e1) && a1.xpub.get(&x2) == Some(&e2));
    assert!(b2.xpub.get(&x1) == Some(&e1) && b2.xpub.get(&x2) == Some(&e2));
    fgt(a1); fgt(b2);
}

// ---- scalars / flags / version ----
fn any_tweak() -> Tweak {
    let b: [u8; 32] = kani::any();
    match Tweak::from_inner(b) {
        Ok(t) => t,
        Err(e) => { fgt(e); kani::assume(false); unreachable!() }
    }
}

//@ unregistered-harness: c14_global_scalars_union class=B tier=thorough bound="one scalar per operand" props=C14
//@ clause: Global::merge: the scalars of the result are the sorted, duplicate-free union of the operands' scalars, in both merge orders
#[kani::proof]
#[kani::unwind(34)]
#[kani::stub(zffi::secp256k1_ec_seckey_verify, model_ec_seckey_verify)]
fn c14_global_scalars_union() {
    let s1 = any_tweak();
    let s2 = any_tweak();
    let mut a1 = Global::default(); a1.scalars.push(s1);
    let mut a2 = Global::default(); a2.scalars.push(s1);
    let mut b1 = Global::default(); b1.scalars.push(s2);
    let mut b2 = Global::default(); b2.scalars.push(s2);
    kani::cover!(s1 == s2);
    kani::cover!(s1 != s2);
    match a1.merge(b1) { Ok(()) => {}, Err(e) => { fgt(e); assert!(false); } }
    match b2.merge(a2) { Ok(()) => {}, Err(e) => { fgt(e); assert!(false); } }
    if s1 == s2 {
        assert!(a1.scalars.len() == 1 && a1.scalars[0] == s1);
        assert!(b2.scalars.len() == 1 && b2.scalars[0] == s1);
    } else {
        let (lo, hi) = if s1.as_ref() < s2.as_ref() { (s1, s2) } else { (s2, s1) };
        assert!(a1.scalars.len() == 2 && a1.scalars[0] == lo && a1.scalars[1] == hi);
        assert!(b2.scalars.len() == 2 && b2.scalars[0] == lo && b2.scalars[1] == hi);
    }
    fgt(a1); fgt(b2);
}

//@ harness: c14_global_flags_version class=F tier=quick props=C14,C10
//@ clause: Global::merge: tx_modifiable is the bitwise OR of the operands' flags (absent = 0), version is the maximum, elements_tx_modifiable_flag is kept if present in either; order-insensitive on conflict-free operands; no panic
#[kani::proof]
fn c14_global_flags_version() {
    let ma: Option<u8> = kani::any();
    let mb: Option<u8> = kani::any();
    let va: u32 = kani::any();
    let vb: u32 = kani::any();
    let ev: u8 = kani::any();
    let ea: bool = kani::any();
    let eb: bool = kani::any();
    let mk = |m: Option<u8>, v: u32, e: bool| {
        let mut g = Global::default();
        g.tx_data.tx_modifiable = m;
        g.version = v;
        g.elements_tx_modifiable_flag = if e { Some(ev) } else { None };
        g
    };
    let mut a1 = mk(ma, va, ea);
    let a2 = mk(ma, va, ea);
    let b1 = mk(mb, vb, eb);
    let mut b2 = mk(mb, vb, eb);
    kani::cover!(ma.is_none() && mb.is_some());
    kani::cover!(ea && !eb);
    kani::cover!(!ea && eb);
    match a1.merge(b1) { Ok(()) => {}, Err(e) => { fgt(e); assert!(false); } }
    match b2.merge(a2) { Ok(()) => {}, Err(e) => { fgt(e); assert!(false); } }
    let fa = match ma { Some(x) => x, None => 0 };
    let fb = match mb { Some(x) => x, None => 0 };
    assert!(a1.tx_data.tx_modifiable.unwrap_or(0) == fa | fb);
    assert!(b2.tx_data.tx_modifiable.unwrap_or(0) == fa | fb);
    let vmax = if va > vb { va } else { vb };
    assert!(a1.version == vmax && b2.version == vmax);
    let want_e = if ea || eb { Some(ev) } else { None };
    assert!(a1.elements_tx_modifiable_flag == want_e && b2.elements_tx_modifiable_flag == want_e);
    fgt(a1); fgt(b2);
}

fn raw_key1() -> raw::Key {
    let b: [u8; 1] = kani::any();
    raw::Key { type_value: kani::any(), key: b.to_vec() }
}
fn val1() -> Vec<u8> {
    let b: [u8; 1] = kani::any();
    b.to_vec()
}
//@ harness: c14_global_unknown_union class=B tier=thorough bound="one unknown pair per operand, 1-byte key data and value" props=C14
//@ clause: Global::merge: unknown pairs of the result are the union of both operands' pairs (identical or disjoint), in both orders
#[kani::proof]
fn c14_global_unknown_union() {
    let k1 = raw_key1(); let v1 = val1();
    let k2 = raw_key1(); let v2 = val1();
    let same_k = k1 == k2;
    kani::assume(!same_k || v1 == v2);
    let mut a1 = Global::default(); a1.unknown.insert(k1.clone(), v1.clone());
    let mut a2 = Global::default(); a2.unknown.insert(k1.clone(), v1.clone());
    let mut b1 = Global::default(); b1.unknown.insert(k2.clone(), v2.clone());
    let mut b2 = Global::default(); b2.unknown.insert(k2.clone(), v2.clone());
    kani::cover!(same_k);
    kani::cover!(!same_k);
    match a1.merge(b1) { Ok(()) => {}, Err(e) => { fgt(e); assert!(false); } }
    match b2.merge(a2) { Ok(()) => {}, Err(e) => { fgt(e); assert!(false); } }
    let n = if same_k { 1 } else { 2 };
    assert!(a1.unknown.len() == n && b2.unknown.len() == n);
    assert!(a1.unknown.get(&k1) == Some(&v1) && a1.unknown.get(&k2) == Some(&v2));
    assert!(b2.unknown.get(&k1) == Some(&v1) && b2.unknown.get(&k2) == Some(&v2));
    fgt(a1); fgt(b2);
}

