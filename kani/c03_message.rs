//@ property: C03
//@ mount: src/sighash.rs
//@ functions: src/sighash.rs::SighashCache::encode_segwitv0_signing_data_to, src/sighash.rs::SighashCache::encode_legacy_signing_data_to, src/sighash.rs::SighashCache::taproot_encode_signing_data_to
// STATUS: NOT VERIFIED -- none of the harnesses of this module finished within the budget (they compile and are kept as the
// statement of the obligation; `//@ unregistered-harness:` lines are ignored by the driver). Measured: segwitv0_message_1in_1out
// (symbolic hash type) 11.6 GB after 13 min, killed; legacy_message_1in_2out no answer after 25 min / 5.5 GB. The cost is
// symbolic execution of the encoders (every enum branch explored, ~1-3 s per `?` on `Result<_, encode::Error>`).
//
// Signing-message assembly of the three algorithms, compared byte for byte with an independent oracle.
// Assumption A-hash (support/c03_hash_models.rs): the SHA-256 engine is replaced by a recording model -- a digest is a
// deterministic, order- and length-sensitive function of the bytes fed to the engine. Every sub-hash field of the
// message is compared with the model digest of the stream that the specification prescribes, so the obligation is
// "the right bytes are hashed, and the right fields are at the right positions"; equality of real SHA-256 digests for
// equal pre-images is SHA-256 itself.
// Oracle sources: BIP-143 with the Elements issuance extension (hashIssuance after hashSequence; the input's issuance after
// nSequence), the legacy serializer of Elements' interpreter.cpp (SIGHASH_SINGLE out-of-range constant, sequence zeroing,
// ANYONECANPAY input selection; the pegin/issuance flags are carried in the outpoint index as in the repository's
// Elements-generated issuance vector), BIP-341 with the Elements extensions (genesis hash twice, no epoch byte,
// outpoint flags, asset/amount, issuance, issuance-rangeproof and output-witness commitments).
use super::*;
use crate::hashes::sha256::HashEngine as ShaEngine;
use crate::hashes::sha256::Hash as ShaHash;
use crate::hashes::HashEngine as HashEngineTrait;
use crate::transaction::{AssetIssuance, OutPoint, TxOutWitness};
use crate::{AssetId, LockTime, Txid};

#[path = "support/sinks.rs"]
mod sinks;
#[path = "support/c03_hash_models.rs"]
mod hm;
use sinks::ArraySink;
use hm::Stream;

const CAP: usize = 400;

/// oracle-side message buffer
struct Msg {
    b: [u8; CAP],
    n: usize,
}
impl Msg {
    fn new() -> Self { Msg { b: [0u8; CAP], n: 0 } }
    fn put(&mut self, d: &[u8]) {
        let mut i = 0;
        while i < d.len() {
            self.b[self.n + i] = d[i];
            i += 1;
        }
        self.n += d.len();
    }
}

/// symbolic description of the transaction, kept as plain data for the oracle
#[derive(Copy, Clone)]
struct InD {
    txid: [u8; 32],
    vout: u32,
    pegin: bool,
    seq: u32,
}
#[derive(Copy, Clone)]
struct OutD {
    asset: [u8; 32],
    value: u64,
    spk: u8,
}
fn any_in() -> InD {
    let mut txid = [0u8; 32];
    txid[0] = kani::any();
    txid[31] = kani::any();
    InD { txid, vout: kani::any(), pegin: kani::any(), seq: kani::any() }
}
fn any_out() -> OutD {
    let mut asset = [0u8; 32];
    asset[0] = kani::any();
    asset[31] = kani::any();
    OutD { asset, value: kani::any(), spk: kani::any() }
}
fn mk_txin(d: &InD) -> TxIn {
    TxIn {
        previous_output: OutPoint { txid: Txid::from_byte_array(d.txid), vout: d.vout },
        is_pegin: d.pegin,
        script_sig: Script::new(),
        sequence: Sequence(d.seq),
        asset_issuance: AssetIssuance::default(),
        witness: TxInWitness::default(),
    }
}
fn mk_txout(d: &OutD) -> TxOut {
    TxOut {
        asset: confidential::Asset::Explicit(AssetId::from_byte_array(d.asset)),
        value: confidential::Value::Explicit(d.value),
        nonce: confidential::Nonce::Null,
        script_pubkey: Script::from(vec![d.spk]),
        witness: TxOutWitness::default(),
    }
}
// ---- wire forms, restated from the Elements serialization rules ---------------------------------------------------
fn put_outpoint(m: &mut Msg, d: &InD) { m.put(&d.txid); m.put(&d.vout.to_le_bytes()); }
fn s_outpoint(s: &mut Stream, d: &InD) { s.put(&d.txid); s.put(&d.vout.to_le_bytes()); }
/// CTxOut: asset (01 || 32) value (01 || 8 bytes big endian) nonce (00) scriptPubKey (len || bytes)
fn txout_ser(d: &OutD) -> [u8; 45] {
    let mut o = [0u8; 45];
    o[0] = 1;
    o[1..33].copy_from_slice(&d.asset);
    o[33] = 1;
    o[34..42].copy_from_slice(&d.value.to_be_bytes());
    o[42] = 0;
    o[43] = 1;
    o[44] = d.spk;
    o
}

// =====================================================================================================================
// BIP-143 / Elements
macro_rules! segwit_harness {
    ($name:ident, $nin:expr, $nout:expr, $ty:expr) => {
        #[kani::proof]
        #[kani::stub(<ShaEngine as HashEngineTrait>::input, hm::input_fold)]
        #[kani::stub(ShaHash::from_engine, hm::from_engine_fold)]
        #[kani::stub(std::io::Write::write_all, hm::WriteAllOnce::write_all_once)]
        fn $name() {
            const NIN: usize = $nin;
            const NOUT: usize = $nout;
            let ins: [InD; NIN] = core::array::from_fn(|_| any_in());
            let outs: [OutD; NOUT] = core::array::from_fn(|_| any_out());
            let version: u32 = kani::any();
            let mut input = Vec::with_capacity(NIN);
            let mut k = 0;
            while k < NIN { input.push(mk_txin(&ins[k])); k += 1; }
            let mut output = Vec::with_capacity(NOUT);
            let mut k = 0;
            while k < NOUT { output.push(mk_txout(&outs[k])); k += 1; }
            let tx = Transaction { version, lock_time: LockTime::ZERO, input, output };
            let idx: usize = kani::any();
            kani::assume(idx < NIN); // documented panic otherwise
            let ty: Option<u32> = $ty;
            let raw_type: u32 = match ty { Some(x) => x, None => kani::any() };
            let t = EcdsaSighashType::from_u32(raw_type);
            let sc: u8 = kani::any();
            let script_code = Script::from(vec![sc]);
            let amount: u64 = kani::any();

            let mut sink = ArraySink::<CAP>::new();
            let mut cache = SighashCache::new(&tx);
            let r = cache.encode_segwitv0_signing_data_to(&mut sink, idx, &script_code, confidential::Value::Explicit(amount), t);
            core::mem::forget(cache);
            match r { Ok(()) => {}, Err(e) => { core::mem::forget(e); assert!(false); } }

            // ---- oracle ----
            let code = t.as_u32();
            let acp = code & 0x80 != 0;
            let base = code & 0x1f; // 1 ALL, 2 NONE, 3 SINGLE (canonical after from_u32)
            let zero = [0u8; 32];
            let mut m = Msg::new();
            m.put(&version.to_le_bytes());
            // hashPrevouts
            if acp { m.put(&zero); } else {
                let mut s = Stream::new();
                let mut k = 0; while k < NIN { s_outpoint(&mut s, &ins[k]); k += 1; }
                m.put(&s.digest_d());
            }
            // hashSequence
            if !acp && base == 1 {
                let mut s = Stream::new();
                let mut k = 0; while k < NIN { s.put(&ins[k].seq.to_le_bytes()); k += 1; }
                m.put(&s.digest_d());
            } else { m.put(&zero); }
            // hashIssuance (Elements): one 0x00 per input without issuance
            if acp { m.put(&zero); } else {
                let mut s = Stream::new();
                let mut k = 0; while k < NIN { s.put(&[0u8]); k += 1; }
                m.put(&s.digest_d());
            }
            let mut j = 0;
            while j < NIN {
                if j == idx {
                    put_outpoint(&mut m, &ins[j]);
                    m.put(&[1u8, sc]);
                    m.put(&[1u8]); m.put(&amount.to_be_bytes());
                    m.put(&ins[j].seq.to_le_bytes());
                }
                j += 1;
            }
            // hashOutputs
            if base == 1 {
                let mut s = Stream::new();
                let mut k = 0; while k < NOUT { s.put(&txout_ser(&outs[k])); k += 1; }
                m.put(&s.digest_d());
            } else if base == 3 && idx < NOUT {
                let mut s = Stream::new();
                let mut k = 0; while k < NOUT { if k == idx { s.put(&txout_ser(&outs[k])); } k += 1; }
                m.put(&s.digest_d());
            } else { m.put(&zero); }
            m.put(&0u32.to_le_bytes());
            m.put(&code.to_le_bytes());

            assert!(sink.len == m.n, "message length");
            assert!(sink.len == 4 + 96 + 36 + 2 + 9 + 4 + 32 + 4 + 4);
            assert!(sink.buf == m.b, "BIP-143/Elements message bytes");
            kani::cover!(ty.is_some() || (acp && base == 3));
            kani::cover!(ty.is_some() || (!acp && base == 2));
            kani::cover!(ty.is_some() || (!acp && base == 1 && raw_type > 0xff));
            kani::cover!(NIN <= NOUT || (base == 3 && idx >= NOUT) || ty.is_some());
            core::mem::forget(tx);
        }
    };
}
//@ unregistered-harness: segwitv0_message_1in_1out class=B tier=thorough bound="1 input (no issuance, pegin flag symbolic), 1 explicit output with 1-byte script, 1-byte script code, explicit amount; every u32 hash type" props=C03 timeout=1500
//@ unregistered-clause: encode_segwitv0_signing_data_to writes exactly: version | hashPrevouts | hashSequence | hashIssuance | outpoint | scriptCode | amount | nSequence | hashOutputs | nLockTime | hash type, where hashPrevouts/hashIssuance are zero under ANYONECANPAY, hashSequence is zero under ANYONECANPAY/NONE/SINGLE, hashOutputs covers all outputs (ALL), the matching output (SINGLE) or is zero, and each sub-hash is the double hash of exactly the prescribed stream
segwit_harness!(segwitv0_message_1in_1out, 1, 1, None);
//@ unregistered-harness: segwitv0_message_2in_1out class=B tier=thorough bound="2 inputs, 1 output, input index symbolic (index 1 has no output: SINGLE zero hash); otherwise as above" props=C03 timeout=1500
//@ unregistered-clause: same with two inputs: sub-hash streams range over both inputs in order, the per-input fields are those of the signed input, SINGLE at an index without output commits to the zero hash
segwit_harness!(segwitv0_message_2in_1out, 2, 1, None);

//@ unregistered-harness: segwitv0_message_all_1in_1out class=B tier=thorough bound="1 input, 1 output, hash type ALL (0x01) only; otherwise as segwitv0_message_1in_1out" props=C03 timeout=1500
//@ unregistered-clause: the BIP-143/Elements message for SIGHASH_ALL: all three input sub-hashes and hashOutputs are the double hashes of the prescribed streams, direct fields at their positions
segwit_harness!(segwitv0_message_all_1in_1out, 1, 1, Some(0x01));
//@ unregistered-harness: segwitv0_message_single_acp_1in_1out class=B tier=thorough bound="1 input, 1 output, hash type SINGLE|ANYONECANPAY (0x83) only" props=C03 timeout=1500
//@ unregistered-clause: the BIP-143/Elements message for SINGLE|ANYONECANPAY: the three input sub-hashes are zero, hashOutputs is the double hash of the matching output
segwit_harness!(segwitv0_message_single_acp_1in_1out, 1, 1, Some(0x83));

// =====================================================================================================================
// legacy
macro_rules! legacy_harness {
    ($name:ident, $nin:expr, $nout:expr) => {
        #[kani::proof]
        fn $name() {
            const NIN: usize = $nin;
            const NOUT: usize = $nout;
            let ins: [InD; NIN] = core::array::from_fn(|_| any_in());
            let outs: [OutD; NOUT] = core::array::from_fn(|_| any_out());
            let version: u32 = kani::any();
            let mut input = Vec::with_capacity(NIN);
            let mut k = 0;
            while k < NIN { input.push(mk_txin(&ins[k])); k += 1; }
            let mut output = Vec::with_capacity(NOUT);
            let mut k = 0;
            while k < NOUT { output.push(mk_txout(&outs[k])); k += 1; }
            let tx = Transaction { version, lock_time: LockTime::ZERO, input, output };
            let idx: usize = kani::any();
            kani::assume(idx < NIN); // documented panic otherwise
            let raw_type: u32 = kani::any();
            let t = EcdsaSighashType::from_u32(raw_type);
            let spk: u8 = kani::any();
            let script_pubkey = Script::from(vec![spk]);

            let mut sink = ArraySink::<CAP>::new();
            let cache = SighashCache::new(&tx);
            let r = cache.encode_legacy_signing_data_to(&mut sink, idx, &script_pubkey, t);
            core::mem::forget(cache);
            match r { Ok(()) => {}, Err(e) => { core::mem::forget(e); assert!(false); } }

            // ---- oracle ----
            let code = t.as_u32();
            let acp = code & 0x80 != 0;
            let base = code & 0x1f;
            let mut m = Msg::new();
            if base == 3 && idx >= NOUT {
                // the SIGHASH_SINGLE "bug": the value one, as a 256-bit little-endian number, and nothing else
                m.put(&[1u8]);
                m.put(&[0u8; 31]);
            } else {
                m.put(&version.to_le_bytes());
                m.put(&[if acp { 1u8 } else { NIN as u8 }]);
                let mut j = 0;
                while j < NIN {
                    if !acp || j == idx {
                        m.put(&ins[j].txid);
                        let flagged = ins[j].vout | if ins[j].pegin { 1u32 << 30 } else { 0 };
                        m.put(&flagged.to_le_bytes());
                        if j == idx { m.put(&[1u8, spk]); } else { m.put(&[0u8]); }
                        let seq = if j != idx && (base == 2 || base == 3) { 0 } else { ins[j].seq };
                        m.put(&seq.to_le_bytes());
                    }
                    j += 1;
                }
                if base == 1 {
                    m.put(&[NOUT as u8]);
                    let mut k = 0; while k < NOUT { m.put(&txout_ser(&outs[k])); k += 1; }
                } else if base == 2 {
                    m.put(&[0u8]);
                } else {
                    // SINGLE: outputs 0..=idx, all but the last one blanked (null asset, null value, null nonce, empty script)
                    m.put(&[(idx + 1) as u8]);
                    let mut k = 0;
                    while k < NOUT {
                        if k < idx { m.put(&[0u8, 0, 0, 0]); }
                        if k == idx { m.put(&txout_ser(&outs[k])); }
                        k += 1;
                    }
                }
                m.put(&0u32.to_le_bytes());
                m.put(&code.to_le_bytes());
            }
            assert!(sink.len == m.n, "message length");
            assert!(sink.buf == m.b, "legacy signing serialization bytes");
            kani::cover!(base == 3 && idx >= NOUT);
            kani::cover!(base == 3 && idx < NOUT && !acp);
            kani::cover!(acp && base == 1);
            kani::cover!(!acp && base == 2);
            core::mem::forget(tx);
        }
    };
}
//@ unregistered-harness: legacy_message_2in_1out class=B tier=thorough bound="2 inputs (no issuance, pegin flags symbolic), 1 explicit output, symbolic input index, 1-byte script; every u32 hash type" props=C03 timeout=1500
//@ unregistered-clause: encode_legacy_signing_data_to writes the legacy signing serialization: only the signed input under ANYONECANPAY, otherwise all inputs with the other inputs' scripts emptied and (NONE/SINGLE) their sequences zeroed; outputs all / none / up to the matching one with earlier ones blanked; SIGHASH_SINGLE at an index without output writes only the constant 01 00..00
legacy_harness!(legacy_message_2in_1out, 2, 1);
//@ unregistered-harness: legacy_message_1in_2out class=B tier=thorough bound="1 input, 2 explicit outputs; every u32 hash type" props=C03 timeout=1500
//@ unregistered-clause: same, with more outputs than inputs (SINGLE keeps only output 0)
legacy_harness!(legacy_message_1in_2out, 1, 2);

// =====================================================================================================================
// BIP-341 / Elements
fn m_digest1(d: &[u8]) -> [u8; 32] { let mut s = Stream::new(); s.put(d); s.digest() }

macro_rules! taproot_stubbed {
    ($(#[$m:meta])* fn $name:ident() $body:block) => {
        #[kani::proof]
        #[kani::stub(<ShaEngine as HashEngineTrait>::input, hm::input_fold)]
        #[kani::stub(ShaHash::from_engine, hm::from_engine_fold)]
        #[kani::stub(std::io::Write::write_all, hm::WriteAllOnce::write_all_once)]
        fn $name() $body
    };
}

taproot_stubbed! {
//@ unregistered-harness: taproot_message_default_all class=B tier=thorough bound="1 input (no issuance, pegin flag symbolic), 1 explicit output without witness, Prevouts::All with an explicit prevout (1-byte script), hash type 0x00 or 0x01, key path, no annex" props=C03 timeout=1500
//@ unregistered-clause: taproot_encode_signing_data_to for DEFAULT/ALL writes genesis hash twice | hash type | version | locktime | sha_outpoint_flags | sha_prevouts | sha_asset_amounts | sha_scriptpubkeys | sha_sequences | sha_issuances | sha_issuance_rangeproofs | sha_outputs | sha_output_witnesses | spend_type | input index, each sub-hash being the single SHA-256 of exactly the prescribed stream
fn taproot_message_default_all() {
    let i0 = any_in();
    let o0 = any_out();
    let p0 = any_out();
    let version: u32 = kani::any();
    let tx = Transaction { version, lock_time: LockTime::ZERO, input: vec![mk_txin(&i0)], output: vec![mk_txout(&o0)] };
    let prev = [mk_txout(&p0)];
    let prevouts: Prevouts<TxOut> = Prevouts::All(&prev[..]);
    let is_default: bool = kani::any();
    let t = if is_default { SchnorrSighashType::Default } else { SchnorrSighashType::All };
    let mut g = [0u8; 32];
    g[0] = kani::any();
    g[31] = kani::any();
    let mut sink = ArraySink::<CAP>::new();
    let mut cache = SighashCache::new(&tx);
    let r = cache.taproot_encode_signing_data_to(&mut sink, 0, &prevouts, None, None, t, BlockHash::from_byte_array(g));
    core::mem::forget(cache);
    match r { Ok(()) => {}, Err(e) => { core::mem::forget(e); assert!(false); } }

    let mut m = Msg::new();
    m.put(&g); m.put(&g);
    m.put(&[if is_default { 0u8 } else { 1u8 }]);
    m.put(&version.to_le_bytes());
    m.put(&0u32.to_le_bytes());
    m.put(&m_digest1(&[if i0.pegin { 0x40u8 } else { 0 }]));                    // sha_outpoint_flags
    { let mut s = Stream::new(); s_outpoint(&mut s, &i0); m.put(&s.digest()); }   // sha_prevouts
    { let ser = txout_ser(&p0); m.put(&m_digest1(&ser[0..42])); }                 // sha_asset_amounts: asset || value
    m.put(&m_digest1(&[1u8, p0.spk]));                                            // sha_scriptpubkeys
    m.put(&m_digest1(&i0.seq.to_le_bytes()));                                     // sha_sequences
    m.put(&m_digest1(&[0u8]));                                                    // sha_issuances
    m.put(&m_digest1(&[0u8, 0u8]));                                               // sha_issuance_rangeproofs: two empty proofs
    m.put(&m_digest1(&txout_ser(&o0)));                                           // sha_outputs
    m.put(&m_digest1(&[0u8, 0u8]));                                               // sha_output_witnesses: empty surjection + range proof
    m.put(&[0u8]);                                                                // spend_type
    m.put(&0u32.to_le_bytes());                                                   // input index
    assert!(sink.len == m.n && m.n == 366, "message length");
    assert!(sink.buf == m.b, "BIP-341/Elements message bytes");
    kani::cover!(is_default);
    kani::cover!(!is_default && i0.pegin);
    core::mem::forget(tx);
    core::mem::forget(prev);
}
}

taproot_stubbed! {
//@ unregistered-harness: taproot_message_single_acp class=B tier=thorough bound="1 input (no issuance), 1 explicit output, Prevouts::One, hash type 0x83, script path (leaf hash + code separator symbolic), 2-byte annex" props=C03,C13 timeout=1500
//@ unregistered-clause: taproot_encode_signing_data_to for SINGLE|ANYONECANPAY writes genesis hash twice | 0x83 | version | locktime | spend_type 3 | outpoint flag | outpoint | prevout asset | prevout value | prevout scriptPubKey | nSequence | 0x00 (no issuance) | sha_annex | sha_single_output | sha_single_output_witness | leaf hash | 0x00 | code separator position
fn taproot_message_single_acp() {
    let i0 = any_in();
    let o0 = any_out();
    let p0 = any_out();
    let version: u32 = kani::any();
    let tx = Transaction { version, lock_time: LockTime::ZERO, input: vec![mk_txin(&i0)], output: vec![mk_txout(&o0)] };
    let prev = mk_txout(&p0);
    let prevouts: Prevouts<&TxOut> = Prevouts::One(0, &prev);
    let mut g = [0u8; 32];
    g[0] = kani::any();
    let ax: u8 = kani::any();
    let annex_bytes = [0x50u8, ax];
    let annex = match Annex::new(&annex_bytes) { Ok(a) => Some(a), Err(e) => { core::mem::forget(e); None } };
    let mut lh = [0u8; 32];
    lh[0] = kani::any();
    lh[31] = kani::any();
    let cs: u32 = kani::any();
    let mut sink = ArraySink::<CAP>::new();
    let mut cache = SighashCache::new(&tx);
    let r = cache.taproot_encode_signing_data_to(&mut sink, 0, &prevouts, annex, Some((TapLeafHash::from_byte_array(lh), cs)), SchnorrSighashType::SinglePlusAnyoneCanPay, BlockHash::from_byte_array(g));
    core::mem::forget(cache);
    match r { Ok(()) => {}, Err(e) => { core::mem::forget(e); assert!(false); } }

    let mut m = Msg::new();
    m.put(&g); m.put(&g);
    m.put(&[0x83u8]);
    m.put(&version.to_le_bytes());
    m.put(&0u32.to_le_bytes());
    m.put(&[3u8]);                                         // spend_type: script path (2) + annex (1)
    m.put(&[if i0.pegin { 0x40u8 } else { 0 }]);
    put_outpoint(&mut m, &i0);
    { let ser = txout_ser(&p0); m.put(&ser[0..42]); }      // asset || value of the spent output
    m.put(&[1u8, p0.spk]);
    m.put(&i0.seq.to_le_bytes());
    m.put(&[0u8]);                                         // no issuance
    m.put(&m_digest1(&[2u8, 0x50, ax]));                   // sha_annex: compact size || annex
    m.put(&m_digest1(&txout_ser(&o0)));                    // sha_single_output
    m.put(&m_digest1(&[0u8, 0u8]));                        // sha_single_output_witness
    m.put(&lh); m.put(&[0u8]); m.put(&cs.to_le_bytes());
    assert!(sink.len == m.n, "message length");
    assert!(sink.buf == m.b, "BIP-341/Elements message bytes");
    kani::cover!(i0.pegin && cs == 0xffff_ffff);
    core::mem::forget(tx);
    core::mem::forget(prev);
}
}
