//@ property: C12 C01
//@ mount: src/encode.rs
//@ functions: src/encode.rs::VarInt::size (Kani function contract), src/encode.rs::consensus_encode_with_size
//@ contract: file=src/encode.rs impl="impl VarInt" fn=size
//@+ #[cfg_attr(kani, kani::ensures(|r: &usize| *r == if self.0 <= 0xFC { 1 } else if self.0 <= 0xFFFF { 3 } else if self.0 <= 0xFFFF_FFFF { 5 } else { 9 }))]
use super::*;

#[path = "support/sinks.rs"]
mod sinks;

//@ harness: varint_size_contract class=C tier=quick props=C12,C01 kind=contract
//@ clause: VarInt::size satisfies its function contract for every u64: 1/3/5/9 bytes with boundaries at 0xFC|0xFD, 0xFFFF|0x10000, 0xFFFFFFFF|0x100000000
#[kani::proof_for_contract(VarInt::size)]
fn varint_size_contract() {
    let v = VarInt(kani::any());
    let _ = v.size();
}

//@ harness: encode_with_size_len class=F tier=quick props=C12,C01
//@ clause: consensus_encode_with_size on a slice of any length 0..=70000 (symbolic) writes and reports exactly VarInt(len).size() + len bytes; verified modularly against the CONTRACT of VarInt::size (stub_verified), not its body
#[kani::proof]
#[kani::stub_verified(VarInt::size)]
fn encode_with_size_len() {
    static BUF: [u8; 70000] = [0u8; 70000];
    let len: usize = kani::any();
    kani::assume(len <= 70000);
    let mut sink = sinks::CountSink(0);
    match consensus_encode_with_size(&BUF[..len], &mut sink) {
        Ok(n) => {
            assert!(n == sink.0);
            assert!(n == VarInt(len as u64).size() + len);
            let hdr = if len <= 0xFC { 1 } else if len <= 0xFFFF { 3 } else { 5 };
            assert!(n == hdr + len);
        }
        Err(e) => { sinks::forget(e); assert!(false); }
    }
    kani::cover!(len == 0xFD);
    kani::cover!(len == 0x10000);
}
