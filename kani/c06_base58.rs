//@ property: C06 C10
//@ mount: src/address.rs
//@ functions: src/address.rs::Address::from_base58, src/address.rs::match_prefix, src/address.rs::find_prefix, src/address.rs::AddressParams::{LIQUID,ELEMENTS,LIQUID_TESTNET}
use super::*;
use bitcoin::secp256k1::ffi as sffi;

#[path = "support/c06_ffi_models.rs"]
mod ffi_models;

static LIQ: AddressParams = AddressParams::LIQUID;
static ELE: AddressParams = AddressParams::ELEMENTS;
static TLQ: AddressParams = AddressParams::LIQUID_TESTNET;

fn any_net() -> &'static AddressParams {
    let k: u8 = kani::any();
    kani::assume(k < 3);
    match k { 0 => &LIQ, 1 => &ELE, _ => &TLQ }
}

//@ harness: from_base58_layouts class=F tier=quick props=C06,C10
//@ clause: for each built-in network and EVERY byte string of length 0..=60: from_base58 accepts IFF it is <p2pkh|p2sh prefix><hash20> or <blinded prefix><p2pkh|p2sh prefix><33-byte key accepted by the key parser><hash20>; on Ok the payload kind, the 20-byte hash, the blinding key bytes and the network are exactly those of the layout; any other length is Err(InvalidLength); never panics.  [A] libsecp pubkey parse/serialize by model (support/c06_ffi_models.rs)
#[kani::proof]
#[kani::stub(sffi::secp256k1_ec_pubkey_parse, ffi_models::pubkey_parse_model)]
#[kani::stub(sffi::secp256k1_ec_pubkey_serialize, ffi_models::pubkey_serialize_model)]
fn from_base58_layouts() {
    ffi_models::init();
    let buf: [u8; 60] = kani::any();
    let len: usize = kani::any();
    kani::assume(len <= 60);
    let params = any_net();
    let r = Address::from_base58(&buf[..len], params);

    // ---- oracle from the property text ----
    let (pkh, sh, bl) = (params.p2pkh_prefix, params.p2sh_prefix, params.blinded_prefix);
    let mut key = [0u8; 33];
    let mut i = 0;
    while i < 33 { key[i] = buf[2 + i]; i += 1; }
    let unblinded = len == 21 && (buf[0] == pkh || buf[0] == sh);
    let blinded = len == 55 && buf[0] == bl && (buf[1] == pkh || buf[1] == sh) && ffi_models::acc(&key);
    // the three kinds of version byte of one network are distinct, so the two layouts cannot be confused
    assert!(pkh != sh && pkh != bl && sh != bl);

    match r {
        Ok(a) => {
            assert!(unblinded || blinded);
            assert!(core::ptr::eq(a.params, params));
            let (kind, hash_at) = if unblinded { (buf[0], 1) } else { (buf[1], 35) };
            let mut h = [0u8; 20];
            let mut i = 0;
            while i < 20 { h[i] = buf[hash_at + i]; i += 1; }
            match a.payload {
                Payload::PubkeyHash(ref x) => { assert!(kind == pkh); assert!(*x.as_byte_array() == h); }
                Payload::ScriptHash(ref x) => { assert!(kind == sh); assert!(*x.as_byte_array() == h); }
                Payload::WitnessProgram { .. } => assert!(false),
            }
            match a.blinding_pubkey {
                None => assert!(unblinded),
                Some(ref pk) => { assert!(blinded); assert!(pk.serialize() == key); }
            }
            kani::cover!(unblinded && kind == sh);
            kani::cover!(blinded && kind == pkh);
            core::mem::forget(a);
        }
        Err(e) => {
            assert!(!unblinded && !blinded);
            if len != 21 && len != 55 {
                assert!(matches!(e, AddressError::InvalidLength(l) if l == len));
            }
            kani::cover!(len == 55 && matches!(e, AddressError::InvalidBlindingPubKey(_)));
            kani::cover!(len == 21 && matches!(e, AddressError::InvalidAddressVersion(_)));
            kani::cover!(len == 55 && matches!(e, AddressError::InvalidAddressVersion(_)));
            kani::cover!(len == 21 && matches!(e, AddressError::InvalidLength(_))); // blinded prefix on a 21-byte payload
            kani::cover!(len == 0);
            kani::cover!(len == 60);
            core::mem::forget(e);
        }
    }
}

//@ harness: network_constants_distinct class=F tier=quick props=C06
//@ clause: the nine base58 version bytes and the six HRPs of LIQUID / ELEMENTS / LIQUID_TESTNET are pairwise distinct (so prefix dispatch can select at most one network), and they are the documented values
#[kani::proof]
fn network_constants_distinct() {
    let nets = [&LIQ, &ELE, &TLQ];
    let mut bytes = [0u8; 9];
    let mut i = 0;
    while i < 3 {
        bytes[3 * i] = nets[i].p2pkh_prefix;
        bytes[3 * i + 1] = nets[i].p2sh_prefix;
        bytes[3 * i + 2] = nets[i].blinded_prefix;
        i += 1;
    }
    let mut i = 0;
    while i < 9 {
        let mut j = i + 1;
        while j < 9 { assert!(bytes[i] != bytes[j]); j += 1; }
        i += 1;
    }
    let hrps: [&Hrp; 6] = [&LIQ.bech_hrp, &LIQ.blech_hrp, &ELE.bech_hrp, &ELE.blech_hrp, &TLQ.bech_hrp, &TLQ.blech_hrp];
    let mut i = 0;
    while i < 6 {
        let mut j = i + 1;
        while j < 6 {
            let (a, b) = (hrps[i].as_bytes(), hrps[j].as_bytes());
            let mut same = a.len() == b.len();
            if same { let mut k = 0; while k < a.len() { if a[k] != b[k] { same = false; } k += 1; } }
            assert!(!same);
            j += 1;
        }
        // all lower case, no '1' inside (find_prefix splits at the last '1')
        let a = hrps[i].as_bytes();
        let mut k = 0;
        while k < a.len() { assert!(a[k] >= b'a' && a[k] <= b'z'); k += 1; }
        i += 1;
    }
    assert!(bytes == [57, 39, 12, 235, 75, 4, 36, 19, 23]);
    assert!(LIQ.bech_hrp.as_bytes() == b"ex" && LIQ.blech_hrp.as_bytes() == b"lq");
    assert!(ELE.bech_hrp.as_bytes() == b"ert" && ELE.blech_hrp.as_bytes() == b"el");
    assert!(TLQ.bech_hrp.as_bytes() == b"tex" && TLQ.blech_hrp.as_bytes() == b"tlq");
    kani::cover!(true);
}

fn ascii<const N: usize>() -> [u8; N] {
    let a: [u8; N] = kani::any();
    let mut i = 0;
    while i < N { kani::assume(a[i] < 128); i += 1; }
    a
}

macro_rules! match_prefix_h {
    ($name:ident, $n:expr) => {
        #[kani::proof]
        #[kani::unwind(8)] // core::str::from_utf8 advances by a pointer-alignment dependent amount: CBMC needs a bound
        fn $name() {
            const N: usize = $n;
            let a: [u8; N] = ascii::<N>();
            let s: &str = match core::str::from_utf8(&a) { Ok(s) => s, Err(_) => { assert!(false); return; } };
            let hrps: [&Hrp; 6] = [&LIQ.bech_hrp, &LIQ.blech_hrp, &ELE.bech_hrp, &ELE.blech_hrp, &TLQ.bech_hrp, &TLQ.blech_hrp];
            let mut matches = 0;
            let mut i = 0;
            while i < 6 {
                let t = hrps[i].as_bytes();
                let mut want = t.len() == N;
                if want {
                    let mut k = 0;
                    while k < N {
                        let c = if a[k] >= b'A' && a[k] <= b'Z' { a[k] + 32 } else { a[k] };
                        if c != t[k] { want = false; }
                        k += 1;
                    }
                }
                let got = match_prefix(s, *hrps[i]);
                assert!(got == want);
                if got { matches += 1; }
                i += 1;
            }
            assert!(matches <= 1, "a prefix selects at most one (network, blinded?) pair");
            kani::cover!(N < 2 || N > 3 || matches == 1);
            kani::cover!(matches == 0);
        }
    };
}
//@ harness: match_prefix_l0 class=F tier=quick props=C06
//@ clause: match_prefix(p, hrp) IFF p equals the HRP up to ASCII case, for the empty prefix and all six built-in HRPs; at most one HRP matches
match_prefix_h!(match_prefix_l0, 0);
//@ harness: match_prefix_l1 class=F tier=quick props=C06
//@ clause: same, every 1-character ASCII prefix
match_prefix_h!(match_prefix_l1, 1);
//@ harness: match_prefix_l2 class=F tier=quick props=C06
//@ clause: same, every 2-character ASCII prefix (ex, lq, el in any letter case)
match_prefix_h!(match_prefix_l2, 2);
//@ harness: match_prefix_l3 class=F tier=quick props=C06
//@ clause: same, every 3-character ASCII prefix (ert, tex, tlq in any letter case)
match_prefix_h!(match_prefix_l3, 3);
//@ harness: match_prefix_l4 class=F tier=quick props=C06
//@ clause: same, every 4-character ASCII prefix (none matches)
match_prefix_h!(match_prefix_l4, 4);

macro_rules! find_prefix_h {
    ($name:ident, $n:expr, $unw:literal) => {
        #[kani::proof]
        #[kani::unwind($unw)]
        fn $name() {
            const N: usize = $n;
            let a: [u8; N] = ascii::<N>();
            let s: &str = match core::str::from_utf8(&a) { Ok(s) => s, Err(_) => { assert!(false); return; } };
            let p = find_prefix(s);
            let mut last: Option<usize> = None;
            let mut i = 0;
            while i < N { if a[i] == b'1' { last = Some(i); } i += 1; }
            let want_len = match last { Some(k) => k, None => N };
            assert!(p.len() == want_len && p.as_ptr() == s.as_ptr());
            kani::cover!(N == 0 || last.is_none());
            kani::cover!(N < 3 || want_len == 2);
        }
    };
}
//@ harness: find_prefix_l0 class=F tier=quick props=C06
//@ clause: find_prefix returns the part before the LAST '1', or the whole string if there is none (empty string)
find_prefix_h!(find_prefix_l0, 0, 10);
//@ harness: find_prefix_l3 class=F tier=quick props=C06
//@ clause: same, every 3-character ASCII string
find_prefix_h!(find_prefix_l3, 3, 10);
//@ harness: find_prefix_l6 class=F tier=thorough props=C06
//@ clause: same, every 6-character ASCII string
find_prefix_h!(find_prefix_l6, 6, 12);
