//@ property: C06
//@ mount: src/blech32/decode.rs
//@ functions: src/blech32/decode.rs::CheckedHrpstring::validate_witness_program_length, src/blech32/decode.rs::CheckedHrpstring::validate_padding, src/blech32/decode.rs::CheckedHrpstring::validate_segwit
//
// Where the oracle comes from.  `crate::blech32::decode::SegwitHrpstring` has exactly one user in the
// crate: `Address::from_bech32(s, blinded = true, ..)` (src/address.rs).  Unblinded strings go through the
// bech32 crate's own decoder.  For a blinded string `from_bech32` takes the decoded bytes, splits the first
// 33 as the blinding key and keeps THE REST as the witness program, without any further length check.
// The property statement says "every successfully parsed address holds ... a witness program of 2..40
// bytes (exactly 20 or 32 for version 0)".  Hence for the blech32 decoder:
//      Ok  =>  33 + 2 <= decoded bytes <= 33 + 40,  and version 0 => decoded bytes in {33+20, 33+32}
// and (round-trip clause: every standard address parses) the converse for versions 0..=16.
use super::*;
use core::convert::TryFrom;

const CHARSET: [u8; 32] = *b"qpzry9x8gf2tvdw0s3jn54khce6mua7l";
const MAXCH: usize = 328; // 328 chars * 5 / 8 = 205 bytes  (>= 200 bytes)

fn any_chars<const N: usize>() -> [u8; N] {
    let mut a = [b'q'; N];
    let mut i = 0;
    while i < N {
        let k: u8 = kani::any();
        a[i] = CHARSET[(k & 31) as usize];
        i += 1;
    }
    a
}

fn any_hrp() -> Hrp {
    if kani::any() { Hrp::parse_unchecked("el") } else { Hrp::parse_unchecked("lq") }
}

fn any_fe() -> Fe32 {
    let v: u8 = kani::any();
    kani::assume(v < 32);
    match Fe32::try_from(v) {
        Ok(f) => f,
        Err(e) => { core::mem::forget(e); kani::assume(false); Fe32::Q }
    }
}

//@ harness: witlen_upper_v0_and_complete class=F tier=quick props=C06
//@ clause: blinded segwit data (33-byte key + program), every Fe32 version 0..31 and every data length 0..=205 bytes: Ok => bytes <= 73 and (version 0 => bytes in {53,65}); and every standard length (35..=73, v0 only 53/65) is accepted
#[kani::proof]
fn witlen_upper_v0_and_complete() {
    let buf: [u8; MAXCH] = any_chars::<MAXCH>();
    let n: usize = kani::any();
    kani::assume(n <= MAXCH);
    let v = any_fe();
    let c = CheckedHrpstring { hrp: any_hrp(), data: &buf[..n] };
    let bytes = n * 5 / 8; // number of whole bytes in n 5-bit groups (BIP-173)
    let r = c.validate_witness_program_length(v);
    let standard = bytes >= 35 && bytes <= 73 && (v.to_u8() != 0 || bytes == 53 || bytes == 65);
    match r {
        Ok(()) => {
            assert!(bytes <= 33 + 40);
            if v.to_u8() == 0 {
                assert!(bytes == 33 + 20 || bytes == 33 + 32);
            }
            kani::cover!(bytes == 73);
            kani::cover!(v.to_u8() == 0 && bytes == 65);
        }
        Err(e) => {
            assert!(!standard);
            kani::cover!(matches!(e, WitnessLengthError::TooLong));
            kani::cover!(matches!(e, WitnessLengthError::InvalidSegwitV0));
            core::mem::forget(e);
        }
    }
    kani::cover!(bytes == 205);
}

//@ harness: witlen_lower_blinded class=F tier=quick props=C06
//@ clause: (D6, expected to FAIL on the pinned tree) blinded segwit data: Ok => bytes >= 33 + 2, i.e. the witness program left after the 33-byte blinding key has at least 2 bytes
#[kani::proof]
fn witlen_lower_blinded() {
    let buf: [u8; MAXCH] = any_chars::<MAXCH>();
    let n: usize = kani::any();
    kani::assume(n <= MAXCH);
    let v = any_fe();
    let c = CheckedHrpstring { hrp: any_hrp(), data: &buf[..n] };
    let bytes = n * 5 / 8;
    match c.validate_witness_program_length(v) {
        Ok(()) => {
            assert!(bytes >= 33 + 2, "blinded witness program shorter than 2 bytes accepted");
            kani::cover!(bytes == 35);
        }
        Err(e) => {
            kani::cover!(matches!(e, WitnessLengthError::TooShort));
            core::mem::forget(e);
        }
    }
}

//@ harness: padding_rule class=B tier=quick bound="0..=17 data characters after the version (padding pattern has period 8)" props=C06
//@ clause: validate_padding accepts iff the incomplete trailing group has at most 4 bits and all of them are zero (BIP-173), all character contents
#[kani::proof]
fn padding_rule() {
    let mut n = 0usize;
    while n <= 17 {
        let buf: [u8; 17] = any_chars::<17>();
        let c = CheckedHrpstring { hrp: Hrp::parse_unchecked("el"), data: &buf[..n] };
        let r = c.validate_padding();
        // independent oracle on the 5-bit values
        let pad = (n * 5) % 8;
        let mut last5: u8 = 0;
        if n > 0 {
            let mut k = 0;
            while k < 32 { if CHARSET[k] == buf[n - 1] { last5 = k as u8; } k += 1; }
        }
        let padbits = last5 & ((1u8 << pad) - 1); // low `pad` bits of the last group (pad <= 7)
        let ok = pad <= 4 && padbits == 0;
        let isok = r.is_ok();
        match r {
            Ok(()) => assert!(ok),
            Err(e) => {
                assert!(!ok);
                if pad > 4 { assert!(matches!(e, PaddingError::TooMuch)); } else { assert!(matches!(e, PaddingError::NonZero)); }
                core::mem::forget(e);
            }
        }
        if n == 4 { kani::cover!(isok); kani::cover!(!isok); }
        if n == 16 { kani::cover!(isok); }
        n += 1;
    }
}
