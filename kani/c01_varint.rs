//@ property: C01 C12
//@ mount: src/ext.rs
//@ functions: src/ext.rs::WriteExt::emit_varint, src/ext.rs::ReadExt::read_varint, src/encode.rs::VarInt::size, src/ext.rs::WriteExt::emit_u8/u16/u32/u64, src/ext.rs::ReadExt::read_u8/u16/u32/u64, src/encode.rs::deserialize_partial, src/encode.rs::deserialize
use super::*;
use crate::encode::{self, Decodable, Encodable, VarInt};
use std::io::Cursor;

#[path = "support/sinks.rs"]
mod sinks;
use sinks::forget;

//@ harness: varint_enc_dec class=F tier=quick props=C01,C12
//@ clause: for every u64 v: emit_varint writes exactly VarInt(v).size() bytes and reports that length; read_varint on those bytes returns v and consumes exactly them
#[kani::proof]
fn varint_enc_dec() {
    let v: u64 = kani::any();
    let mut buf = [0u8; 9];
    let (n, pos) = {
        let mut c = Cursor::new(&mut buf[..]);
        match c.emit_varint(v) {
            Ok(n) => (n, c.position() as usize),
            Err(e) => {
                forget(e);
                assert!(false);
                return;
            }
        }
    };
    assert!(n == VarInt(v).size());
    assert!(n == pos);
    // wire layout (Elements/Bitcoin CompactSize), stated independently of the code
    if v <= 0xFC {
        assert!(n == 1 && buf[0] == v as u8);
    } else if v <= 0xFFFF {
        assert!(n == 3 && buf[0] == 0xFD && buf[1] == v as u8 && buf[2] == (v >> 8) as u8);
    } else if v <= 0xFFFF_FFFF {
        assert!(n == 5 && buf[0] == 0xFE && u32::from_le_bytes([buf[1], buf[2], buf[3], buf[4]]) as u64 == v);
    } else {
        assert!(n == 9 && buf[0] == 0xFF);
        assert!(u64::from_le_bytes([buf[1], buf[2], buf[3], buf[4], buf[5], buf[6], buf[7], buf[8]]) == v);
    }
    let mut r = Cursor::new(&buf[..]);
    match r.read_varint() {
        Ok(x) => assert!(x == v),
        Err(e) => {
            forget(e);
            assert!(false);
        }
    }
    assert!(r.position() as usize == n);
    kani::cover!(v > 0xFFFF_FFFF);
    kani::cover!(v == 0xFD);
}

//@ harness: varint_dec_enc class=F tier=quick props=C01
//@ clause: for every 9-byte buffer and every truncation of it: if read_varint accepts, re-encoding the value reproduces exactly the consumed prefix (canonical/minimal); non-minimal and short inputs are errors
#[kani::proof]
fn varint_dec_enc() {
    let buf: [u8; 9] = kani::any();
    let len: usize = kani::any();
    kani::assume(len <= 9);
    let (res, pos) = {
        let mut r = Cursor::new(&buf[..len]);
        let res = r.read_varint();
        (res, r.position() as usize)
    };
    // independent statement of the expected width
    let need = match buf[0] { 0xFF => 9, 0xFE => 5, 0xFD => 3, _ => 1 };
    match res {
        Ok(v) => {
            assert!(len >= need && pos == need);
            let mut out = [0u8; 9];
            let n = {
                let mut c = Cursor::new(&mut out[..]);
                match c.emit_varint(v) {
                    Ok(n) => n,
                    Err(e) => {
                        forget(e);
                        assert!(false);
                        return;
                    }
                }
            };
            assert!(n == pos);
            let mut i = 0;
            while i < 9 {
                if i < n {
                    assert!(out[i] == buf[i]);
                }
                i += 1;
            }
            kani::cover!(n == 9);
            kani::cover!(n == 1);
        }
        Err(e) => {
            let nonmin = matches!(e, encode::Error::NonMinimalVarInt);
            forget(e);
            // rejected iff truncated or non-minimal
            let short = len < need;
            let v: u64 = match need {
                9 => u64::from_le_bytes([buf[1], buf[2], buf[3], buf[4], buf[5], buf[6], buf[7], buf[8]]),
                5 => u32::from_le_bytes([buf[1], buf[2], buf[3], buf[4]]) as u64,
                3 => u16::from_le_bytes([buf[1], buf[2]]) as u64,
                _ => 0,
            };
            let minimal = match need { 9 => v > 0xFFFF_FFFF, 5 => v > 0xFFFF, 3 => v >= 0xFD, _ => true };
            assert!(short || !minimal);
            if !short {
                assert!(nonmin);
            }
            kani::cover!(short);
            kani::cover!(!short);
        }
    }
}

//@ harness: ints_roundtrip class=F tier=quick props=C01
//@ clause: u8/u16/u32/u64 consensus encoding is fixed-width little-endian; reported length == bytes written; decode inverts
#[kani::proof]
fn ints_roundtrip() {
    let a: u64 = kani::any();
    let b: u32 = kani::any();
    let c: u16 = kani::any();
    let d: u8 = kani::any();
    let mut buf = [0u8; 15];
    let mut cur = Cursor::new(&mut buf[..]);
    let mut total = 0usize;
    match a.consensus_encode(&mut cur) { Ok(n) => { assert!(n == 8); total += n; } Err(e) => { forget(e); assert!(false); } }
    match b.consensus_encode(&mut cur) { Ok(n) => { assert!(n == 4); total += n; } Err(e) => { forget(e); assert!(false); } }
    match c.consensus_encode(&mut cur) { Ok(n) => { assert!(n == 2); total += n; } Err(e) => { forget(e); assert!(false); } }
    match d.consensus_encode(&mut cur) { Ok(n) => { assert!(n == 1); total += n; } Err(e) => { forget(e); assert!(false); } }
    assert!(cur.position() as usize == total && total == 15);
    assert!(buf[0] == a as u8 && buf[7] == (a >> 56) as u8 && buf[8] == b as u8 && buf[11] == (b >> 24) as u8);
    assert!(buf[12] == c as u8 && buf[13] == (c >> 8) as u8 && buf[14] == d);
    let mut r = Cursor::new(&buf[..]);
    match u64::consensus_decode(&mut r) { Ok(x) => assert!(x == a), Err(e) => { forget(e); assert!(false); } }
    match u32::consensus_decode(&mut r) { Ok(x) => assert!(x == b), Err(e) => { forget(e); assert!(false); } }
    match u16::consensus_decode(&mut r) { Ok(x) => assert!(x == c), Err(e) => { forget(e); assert!(false); } }
    match u8::consensus_decode(&mut r) { Ok(x) => assert!(x == d), Err(e) => { forget(e); assert!(false); } }
    assert!(r.position() == 15);
    kani::cover!(true);
}

//@ harness: deserialize_trailing class=F tier=quick props=C01
//@ clause: deserialize(b) is Ok iff deserialize_partial(b) is Ok and consumed == len(b) (shown at T = VarInt-framed u64 via the generic functions themselves)
#[kani::proof]
fn deserialize_trailing() {
    let buf: [u8; 10] = kani::any();
    let len: usize = kani::any();
    kani::assume(len <= 10);
    let p = encode::deserialize_partial::<VarInt>(&buf[..len]);
    let d = encode::deserialize::<VarInt>(&buf[..len]);
    match (p, d) {
        (Ok((v, k)), Ok(w)) => { assert!(k == len && v.0 == w.0); kani::cover!(k == 9); }
        (Ok((_, k)), Err(e)) => { assert!(k != len); assert!(matches!(e, encode::Error::ParseFailed(_))); forget(e); kani::cover!(true); }
        (Err(e), Err(f)) => { forget(e); forget(f); }
        (Err(e), Ok(_)) => { forget(e); assert!(false); }
    }
}
