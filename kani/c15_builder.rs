//@ property: C15 C10
//@ mount: src/taproot.rs
//@ functions: src/taproot.rs::TaprootBuilder::insert, src/taproot.rs::TaprootBuilder::add_leaf_with_ver, src/taproot.rs::TaprootBuilder::add_hidden, src/taproot.rs::TaprootBuilder::finalize, src/taproot.rs::TaprootBuilder::is_complete, src/taproot.rs::NodeInfo::combine
//
// Error paths of the depth-first taproot builder ("incomplete, over-complete, out-of-order or over-deep trees are
// refused when finalized"; C10: never a panic).  Kani-side counterpart of the Verus unit for `insert` (the merkle-path
// invariant itself is proved there).
// Stubs: SHA-256 engine -> support/c16_hash_models.rs (digests arbitrary: nothing here depends on digest values);
//        TaprootSpendInfo::from_node_info (libsecp key tweak, reached only when finalize succeeds) -> a model that
//        records the root; the `Secp256k1` context handed to finalize is never dereferenced.
// Oracle: (1) semantic - with at most 3 nodes the only depth sequences that describe a complete binary tree in
// depth-first order are [0], [1,1], [1,2,2], [2,2,1]: finalize succeeds exactly for those; (2) DFS discipline as a
// binary counter on the Kraft sum (level j "open" <=> bit 2^-j set): a node at depth d is out of order iff a deeper
// level is open, over-complete iff the carry leaves level 0, too deep iff d > 128.
use super::*;
use crate::hashes::sha256::Hash as ShaHash;
use crate::hashes::sha256::HashEngine as ShaEngine;
use crate::hashes::HashEngine as HashEngineTrait;
use core::mem::ManuallyDrop;

#[path = "support/c16_ffi_models.rs"]
mod fm;
#[path = "support/c16_hash_models.rs"]
mod hm;

fn from_node_info_model<C: secp256k1_zkp::Verification>(
    _secp: &Secp256k1<C>,
    internal_key: UntweakedPublicKey,
    node: NodeInfo,
) -> TaprootSpendInfo {
    let root = node.hash;
    core::mem::forget(node);
    TaprootSpendInfo {
        internal_key,
        merkle_root: Some(root),
        output_key_parity: secp256k1_zkp::Parity::Even,
        output_key: TweakedPublicKey::new(internal_key),
        script_map: BTreeMap::new(),
    }
}

/// a context value that is never dereferenced (every use is behind the from_node_info stub)
fn fake_secp() -> ManuallyDrop<Secp256k1<secp256k1_zkp::VerifyOnly>> {
    let p = core::ptr::NonNull::<u8>::dangling();
    assert!(core::mem::size_of::<Secp256k1<secp256k1_zkp::VerifyOnly>>() == core::mem::size_of::<core::ptr::NonNull<u8>>());
    ManuallyDrop::new(unsafe { core::mem::transmute::<core::ptr::NonNull<u8>, Secp256k1<secp256k1_zkp::VerifyOnly>>(p) })
}

#[derive(Clone, Copy, PartialEq, Eq)]
enum Step { Ok, NotDfs, Over, TooDeep }

/// binary-counter model of the DFS discipline on levels 0..=LV-1 (LV > every depth used)
struct Model<const LV: usize> { open: [bool; LV], any: bool }
impl<const LV: usize> Model<LV> {
    fn new() -> Self { Model { open: [false; LV], any: false } }
    fn deeper_open(&self, d: usize) -> bool {
        let mut i = 0;
        let mut r = false;
        while i < LV { if i > d && self.open[i] { r = true; } i += 1; }
        r
    }
    fn add(&mut self, d: usize) -> Step {
        if d > 128 { return Step::TooDeep; }
        if self.deeper_open(d) { return Step::NotDfs; }
        // ripple carry upwards
        let mut l = d;
        let mut i = 0;
        while i < LV {
            if self.open[l] {
                if l == 0 { return Step::Over; }
                self.open[l] = false;
                l -= 1;
            }
            i += 1;
        }
        self.open[l] = true;
        self.any = true;
        Step::Ok
    }
    fn complete(&self) -> bool {
        let mut i = 1;
        let mut r = self.open[0];
        while i < LV { if self.open[i] { r = false; } i += 1; }
        r
    }
}

fn any_node(b: TaprootBuilder, depth: usize) -> Result<TaprootBuilder, TaprootBuilderError> {
    if kani::any() {
        b.add_hidden(depth, TapNodeHash::from_byte_array(kani::any()))
    } else {
        // a leaf with a one-byte script and an arbitrary valid leaf version
        let v: u8 = kani::any();
        let ver = match LeafVersion::from_u8(v) { Ok(l) => l, Err(_) => { kani::assume(false); LeafVersion::default() } };
        let byte: u8 = kani::any();
        b.add_leaf_with_ver(depth, Script::from(vec![byte]), ver)
    }
}

fn check_finalize<const LV: usize>(b: TaprootBuilder, m: &Model<LV>, semantic_complete: bool) {
    let secp = fake_secp();
    let key = fm::xonly_from(kani::any());
    assert!(b.is_complete() == m.complete());
    assert!(m.complete() == semantic_complete);
    match b.finalize(&secp, key) {
        Ok(info) => {
            assert!(semantic_complete, "finalize accepted a depth sequence that is not a complete DFS tree");
            assert!(info.merkle_root.is_some());
            core::mem::forget(info);
            kani::cover!(true);
        }
        Err(e) => {
            assert!(!semantic_complete, "finalize refused a complete tree");
            if m.any {
                assert!(matches!(e, TaprootBuilderError::IncompleteTree));
            } else {
                assert!(matches!(e, TaprootBuilderError::EmptyTree));
            }
            kani::cover!(true);
        }
    }
}

macro_rules! builder_small {
    ($name:ident, $k:expr, $unw:literal) => {
        #[kani::proof]
        #[kani::unwind($unw)]
        #[kani::stub(<ShaEngine as HashEngineTrait>::input, hm::input_noop)]
        #[kani::stub(ShaHash::from_engine, hm::from_engine_any)]
        #[kani::stub(TaprootSpendInfo::from_node_info, from_node_info_model)]
        fn $name() {
            const K: usize = $k;
            let mut d = [0usize; 3];
            let mut m = Model::<5>::new();
            let mut b = TaprootBuilder::new();
            let mut i = 0;
            while i < K {
                d[i] = kani::any();
                kani::assume(d[i] <= 3);
                let want = m.add(d[i]);
                match any_node(b, d[i]) {
                    Ok(nb) => {
                        assert!(want == Step::Ok);
                        b = nb;
                    }
                    Err(e) => {
                        match e {
                            TaprootBuilderError::NodeNotInDfsOrder => assert!(want == Step::NotDfs),
                            TaprootBuilderError::OverCompleteTree => assert!(want == Step::Over),
                            _ => assert!(false, "unexpected builder error"),
                        }
                        kani::cover!(want == Step::NotDfs);
                        kani::cover!(want == Step::Over);
                        return; // the builder is consumed by a failed insertion
                    }
                }
                i += 1;
            }
            let semantic_complete = match K {
                0 => false,
                1 => d[0] == 0,
                2 => d[0] == 1 && d[1] == 1,
                _ => (d[0] == 1 && d[1] == 2 && d[2] == 2) || (d[0] == 2 && d[1] == 2 && d[2] == 1),
            };
            check_finalize(b, &m, semantic_complete);
        }
    };
}
//@ harness: taproot_builder_k0 class=F tier=quick
//@ clause: finalize on a builder that never received a node is refused with EmptyTree; never panics
builder_small!(taproot_builder_k0, 0, 8);
//@ harness: taproot_builder_k1 class=B tier=quick bound="1 node (leaf or hidden), depth 0..=3"
//@ clause: one node: accepted at every depth; finalize succeeds iff depth == 0, otherwise IncompleteTree; never panics
builder_small!(taproot_builder_k1, 1, 8);
//@ harness: taproot_builder_k2 class=B tier=quick bound="2 nodes (each leaf or hidden), depths 0..=3" timeout=900
//@ clause: two nodes: the second is refused with NodeNotInDfsOrder iff a deeper level is open, with OverCompleteTree iff the root would get a sibling; finalize succeeds exactly for depths [1,1]; never panics
builder_small!(taproot_builder_k2, 2, 8);
//@ harness: taproot_builder_k3 class=B tier=thorough bound="3 nodes (each leaf or hidden), depths 0..=3" timeout=1800
//@ clause: three nodes: same discipline; finalize succeeds exactly for depths [1,2,2] and [2,2,1]; never panics
builder_small!(taproot_builder_k3, 3, 8);

// ---- depths around the 128-level limit: concrete depth sequences (one instance each), hidden nodes ------------
macro_rules! builder_deep {
    ($name:ident, [$($d:expr),+], $last:expr, $unw:literal) => {
        #[kani::proof]
        #[kani::unwind($unw)]
        #[kani::stub(<ShaEngine as HashEngineTrait>::input, hm::input_noop)]
        #[kani::stub(ShaHash::from_engine, hm::from_engine_any)]
        #[kani::stub(TaprootSpendInfo::from_node_info, from_node_info_model)]
        fn $name() {
            let ds = [$($d),+];
            let mut b = TaprootBuilder::new();
            let mut i = 0;
            let n = ds.len();
            while i < n {
                let r = b.add_hidden(ds[i], TapNodeHash::from_byte_array(kani::any()));
                if i + 1 == n {
                    // the last insertion of the sequence has the stated outcome
                    let want: Step = $last;
                    match r {
                        Ok(nb) => {
                            assert!(want == Step::Ok);
                            assert!(!nb.is_complete() || (n == 1 && ds[0] == 0));
                            let secp = fake_secp();
                            match nb.finalize(&secp, fm::xonly_from(kani::any())) {
                                Ok(x) => { core::mem::forget(x); assert!(false); }
                                Err(e) => assert!(matches!(e, TaprootBuilderError::IncompleteTree)),
                            }
                        }
                        Err(e) => match e {
                            TaprootBuilderError::InvalidMerkleTreeDepth(x) => assert!(want == Step::TooDeep && x == ds[i]),
                            TaprootBuilderError::NodeNotInDfsOrder => assert!(want == Step::NotDfs),
                            TaprootBuilderError::OverCompleteTree => assert!(want == Step::Over),
                            _ => assert!(false),
                        },
                    }
                    kani::cover!(true);
                    return;
                }
                match r {
                    Ok(nb) => b = nb,
                    Err(_) => { assert!(false, "prefix of the sequence refused"); return; }
                }
                i += 1;
            }
        }
    };
}
//@ harness: taproot_builder_deep_129 class=F tier=quick
//@ clause: a node at depth 129 is refused with InvalidMerkleTreeDepth(129); never panics
builder_deep!(taproot_builder_deep_129, [129usize], Step::TooDeep, 4);
//@ harness: taproot_builder_deep_130 class=F tier=quick
//@ clause: a node at depth 130 is refused with InvalidMerkleTreeDepth(130)
builder_deep!(taproot_builder_deep_130, [130usize], Step::TooDeep, 4);
//@ harness: taproot_builder_deep_max class=F tier=quick
//@ clause: a node at depth usize::MAX is refused with InvalidMerkleTreeDepth (no overflow in depth + 1)
builder_deep!(taproot_builder_deep_max, [usize::MAX], Step::TooDeep, 4);
//@ harness: taproot_builder_deep_1_129 class=F tier=quick
//@ clause: after a node at depth 1, a node at depth 129 is refused with InvalidMerkleTreeDepth(129)
builder_deep!(taproot_builder_deep_1_129, [1usize, 129], Step::TooDeep, 6);
//@ harness: taproot_builder_deep_128 class=B tier=thorough bound="the single sequence [128]" timeout=1800
//@ clause: a node at depth 128 (the limit) is accepted; the tree is then incomplete and finalize says IncompleteTree; never panics
builder_deep!(taproot_builder_deep_128, [128usize], Step::Ok, 132);
//@ harness: taproot_builder_deep_128_1 class=B tier=thorough bound="the single sequence [128, 1]" timeout=1800
//@ clause: after a node at depth 128, a node at depth 1 is refused with NodeNotInDfsOrder
builder_deep!(taproot_builder_deep_128_1, [128usize, 1], Step::NotDfs, 132);
//@ harness: taproot_builder_deep_128_128 class=B tier=thorough bound="the single sequence [128, 128]" timeout=1800
//@ clause: two nodes at depth 128 combine into one at depth 127 (accepted, still incomplete)
builder_deep!(taproot_builder_deep_128_128, [128usize, 128], Step::Ok, 132);
