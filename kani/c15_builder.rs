//@ property: C15 C10
//@ mount: src/taproot.rs
//@ functions: src/taproot.rs::TaprootBuilder::insert, src/taproot.rs::TaprootBuilder::add_leaf_with_ver, src/taproot.rs::TaprootBuilder::add_hidden, src/taproot.rs::TaprootBuilder::finalize, src/taproot.rs::TaprootBuilder::is_complete, src/taproot.rs::NodeInfo::combine
//
// Error paths of the depth-first taproot builder ("incomplete, over-complete, out-of-order or over-deep trees are
// refused when finalized"; C10: never a panic).  Kani-side counterpart of the Verus unit for `insert` (the merkle-path
// invariant itself is proved there).
// Stubs: SHA-256 engine -> support/c16_hash_models.rs (digests arbitrary: nothing here depends on digest values);
//        NodeInfo::combine -> combine_model (see there; its contract is the Verus unit's);
//        TaprootSpendInfo::from_node_info (libsecp key tweak, reached only when finalize succeeds) -> a model that
//        records the root; the `Secp256k1` context handed to finalize is never dereferenced.
// Measured: symbolic depths make `branch.extend(..)` / realloc sizes symbolic and the SAT encoding explodes (34 GB at
// ONE node with a symbolic depth 0..=2); the harnesses therefore enumerate CONCRETE depth sequences, one instance each
// (class B, the bound is the listed sequence set); node hashes / leaf script bytes / leaf versions stay symbolic.
// Oracle, written by hand per sequence from the DFS discipline (Kraft sum as a binary counter: level j is open iff
// bit 2^-j is set; a node at depth d is out of order iff a deeper level is open, over-complete iff the carry leaves
// level 0, too deep iff d > 128; complete iff the sum is exactly 1): with at most 3 nodes the only complete trees
// are [0], [1,1], [1,2,2], [2,2,1].
// NOT REACHED (measured): every sequence in which two nodes are combined ([1,1], [1,2,2], [2,2,1], [1,1,0], ...).
// After `branch.pop()` the popped `Option<NodeInfo>` is read back from the heap, its discriminant is not a constant
// for CBMC, the `break`/continue paths merge, `depth` and `branch.len()` become symbolic and the following
// `branch.extend(..)` reallocates with a symbolic size: > 11 GB in propositional reduction, with or without a stub
// for NodeInfo::combine.  Those sequences (the OverCompleteTree-after-combine and IncompleteTree/complete outcomes)
// are left to the Verus unit for `insert`.  What is covered here: every outcome that is decided without a combine.
use super::*;
use crate::hashes::sha256::Hash as ShaHash;
use crate::hashes::sha256::HashEngine as ShaEngine;
use crate::hashes::HashEngine as HashEngineTrait;
use crate::hashes::sha256::Midstate as ShaMidstate;
use core::mem::ManuallyDrop;

#[path = "support/c16_ffi_models.rs"]
mod fm;
#[path = "support/c16_hash_models.rs"]
mod hm;

fn from_node_info_model<C: secp256k1_zkp::Verification>(
    _secp: &Secp256k1<C>,
    internal_key: UntweakedPublicKey,
    node: NodeInfo,
) -> TaprootSpendInfo {
    let root = node.hash;
    core::mem::forget(node);
    TaprootSpendInfo {
        internal_key,
        merkle_root: Some(root),
        output_key_parity: secp256k1_zkp::Parity::Even,
        output_key: TweakedPublicKey::new(internal_key),
        script_map: BTreeMap::new(),
    }
}

/// Model of `NodeInfo::combine` for the builder harnesses.  ASSUMED CONTRACT (proved in the Verus track, unit
/// c15_combine): combine(a, b) is Ok whenever no leaf of a or b already has a 128-node path - which holds for every
/// tree of depth <= 2 built here - and the parent is a node with some hash.  The parent's leaf list is dropped by the
/// model (nothing in the builder's control flow reads it; finalize's consumer is stubbed too).  Reason for the stub:
/// the real function starts with `Vec::with_capacity(a.leaves.len() + b.leaves.len())` on lengths read back from the
/// heap, i.e. an allocation of symbolic size for CBMC (> 11 GB for two hidden nodes).
fn combine_model(a: NodeInfo, b: NodeInfo) -> Result<NodeInfo, TaprootBuilderError> {
    core::mem::forget(a);
    core::mem::forget(b);
    Ok(NodeInfo { hash: TapNodeHash::from_byte_array(kani::any()), leaves: Vec::new() })
}

/// a context value that is never dereferenced (every use is behind the from_node_info stub)
fn fake_secp() -> ManuallyDrop<Secp256k1<secp256k1_zkp::VerifyOnly>> {
    let p = core::ptr::NonNull::<u8>::dangling();
    assert!(core::mem::size_of::<Secp256k1<secp256k1_zkp::VerifyOnly>>() == core::mem::size_of::<core::ptr::NonNull<u8>>());
    ManuallyDrop::new(unsafe { core::mem::transmute::<core::ptr::NonNull<u8>, Secp256k1<secp256k1_zkp::VerifyOnly>>(p) })
}

#[derive(Clone, Copy, PartialEq, Eq)]
enum Want {
    /// every insertion accepted, finalize succeeds
    Complete,
    /// every insertion accepted, finalize says IncompleteTree
    Incomplete,
    /// the LAST insertion of the sequence is refused this way (all earlier ones accepted)
    NotDfs,
    Over,
    TooDeep,
}

fn add_node(b: TaprootBuilder, depth: usize, leaf: bool) -> Result<TaprootBuilder, TaprootBuilderError> {
    if !leaf {
        b.add_hidden(depth, TapNodeHash::from_byte_array(kani::any()))
    } else {
        // a leaf with a one-byte script and an arbitrary valid leaf version
        let v: u8 = kani::any();
        let ver = match LeafVersion::from_u8(v) { Ok(l) => l, Err(_) => { kani::assume(false); LeafVersion::default() } };
        let byte: u8 = kani::any();
        b.add_leaf_with_ver(depth, Script::from(vec![byte]), ver)
    }
}

fn run_sequence(ds: &[usize], leaf: bool, want: Want) {
    let mut b = TaprootBuilder::new();
    let n = ds.len();
    let mut i = 0;
    while i < n {
        let last = i + 1 == n;
        match add_node(b, ds[i], leaf) {
            Ok(nb) => {
                assert!(!(last && matches!(want, Want::NotDfs | Want::Over | Want::TooDeep)), "insertion accepted against the DFS discipline");
                b = nb;
            }
            Err(e) => {
                assert!(last, "a prefix of the sequence was refused");
                match e {
                    TaprootBuilderError::InvalidMerkleTreeDepth(x) => assert!(want == Want::TooDeep && x == ds[i]),
                    TaprootBuilderError::NodeNotInDfsOrder => assert!(want == Want::NotDfs),
                    TaprootBuilderError::OverCompleteTree => assert!(want == Want::Over),
                    _ => assert!(false, "unexpected builder error"),
                }
                return; // a failed insertion consumes the builder
            }
        }
        i += 1;
    }
    assert!(b.is_complete() == (want == Want::Complete));
    let secp = fake_secp();
    match b.finalize(&secp, fm::xonly_from(kani::any())) {
        Ok(info) => {
            assert!(want == Want::Complete, "finalize accepted a depth sequence that is not a complete DFS tree");
            assert!(info.merkle_root.is_some());
            core::mem::forget(info);
        }
        Err(e) => {
            assert!(want == Want::Incomplete, "finalize refused a complete tree");
            assert!(matches!(e, TaprootBuilderError::IncompleteTree));
        }
    }
}

macro_rules! seq {
    ($name:ident, [$($d:expr),+], $leaf:expr, $want:expr, $unw:literal) => {
        #[kani::proof]
        #[kani::unwind($unw)]
        #[kani::stub(<ShaEngine as HashEngineTrait>::input, hm::input_noop)]
        #[kani::stub(ShaHash::from_engine, hm::from_engine_any)]
        #[kani::stub(ShaMidstate::to_engine, hm::to_engine_fresh)]
        #[kani::stub(TaprootSpendInfo::from_node_info, from_node_info_model)]
        #[kani::stub(NodeInfo::combine, combine_model)]
        fn $name() {
            run_sequence(&[$($d),+], $leaf, $want);
            kani::cover!(true);
        }
    };
}

//@ harness: taproot_builder_k0 class=F tier=quick
//@ clause: finalize on a builder that never received a node is refused with EmptyTree; is_complete() is false; never panics
#[kani::proof]
#[kani::unwind(3)]
#[kani::stub(TaprootSpendInfo::from_node_info, from_node_info_model)]
fn taproot_builder_k0() {
    let b = TaprootBuilder::new();
    assert!(!b.is_complete());
    let secp = fake_secp();
    match b.finalize(&secp, fm::xonly_from(kani::any())) {
        Ok(x) => { core::mem::forget(x); assert!(false); }
        Err(e) => assert!(matches!(e, TaprootBuilderError::EmptyTree)),
    }
    kani::cover!(true);
}

//@ harness: taproot_builder_seq_0 class=B tier=quick bound="depth sequence [0], hidden node"
//@ clause: a single node at depth 0 is a complete tree: accepted, finalize succeeds
seq!(taproot_builder_seq_0, [0usize], false, Want::Complete, 4);
//@ harness: taproot_builder_seq_0_leaf class=B tier=quick bound="depth sequence [0], a leaf with a 1-byte script and any valid leaf version"
//@ clause: a single script leaf at depth 0 (add_leaf_with_ver) is a complete tree: accepted, finalize succeeds; never panics
seq!(taproot_builder_seq_0_leaf, [0usize], true, Want::Complete, 5);
//@ harness: taproot_builder_seq_0_0 class=B tier=quick bound="depth sequence [0,0], hidden nodes"
//@ clause: a second node at depth 0 is refused with OverCompleteTree
seq!(taproot_builder_seq_0_0, [0usize, 0], false, Want::Over, 4);
//@ harness: taproot_builder_seq_1 class=B tier=quick bound="depth sequence [1], hidden node"
//@ clause: one node at depth 1: accepted, finalize says IncompleteTree
seq!(taproot_builder_seq_1, [1usize], false, Want::Incomplete, 4);
//@ harness: taproot_builder_seq_2_1 class=B tier=quick bound="depth sequence [2,1], hidden nodes"
//@ clause: a node at depth 1 while level 2 is open is refused with NodeNotInDfsOrder
seq!(taproot_builder_seq_2_1, [2usize, 1], false, Want::NotDfs, 5);
//@ harness: taproot_builder_seq_1_0 class=B tier=quick bound="depth sequence [1,0], hidden nodes"
//@ clause: a node at depth 0 while level 1 is open is refused with NodeNotInDfsOrder
seq!(taproot_builder_seq_1_0, [1usize, 0], false, Want::NotDfs, 4);
//@ harness: taproot_builder_seq_1_2 class=B tier=quick bound="depth sequence [1,2], hidden nodes"
//@ clause: going deeper after a left sibling is accepted; the tree is incomplete
seq!(taproot_builder_seq_1_2, [1usize, 2], false, Want::Incomplete, 5);

// ---- the 128-level limit -----------------------------------------------------------------------------------
//@ harness: taproot_builder_deep_129 class=B tier=quick bound="depth sequence [129], hidden node"
//@ clause: a node at depth 129 is refused with InvalidMerkleTreeDepth(129); never panics
seq!(taproot_builder_deep_129, [129usize], false, Want::TooDeep, 4);
//@ harness: taproot_builder_deep_130 class=B tier=quick bound="depth sequence [130], leaf"
//@ clause: a node at depth 130 is refused with InvalidMerkleTreeDepth(130)
seq!(taproot_builder_deep_130, [130usize], true, Want::TooDeep, 4);
//@ harness: taproot_builder_deep_max class=B tier=quick bound="depth sequence [usize::MAX], hidden node"
//@ clause: a node at depth usize::MAX is refused with InvalidMerkleTreeDepth (no overflow in depth + 1)
seq!(taproot_builder_deep_max, [usize::MAX], false, Want::TooDeep, 4);
//@ harness: taproot_builder_deep_1_129 class=B tier=quick bound="depth sequence [1,129], hidden nodes"
//@ clause: after a node at depth 1, a node at depth 129 is refused with InvalidMerkleTreeDepth(129)
seq!(taproot_builder_deep_1_129, [1usize, 129], false, Want::TooDeep, 4);
