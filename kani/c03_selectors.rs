//@ property: C03 C13
//@ mount: src/sighash.rs
//@ functions: src/transaction.rs::EcdsaSighashType::from_u32, src/transaction.rs::EcdsaSighashType::from_standard, src/transaction.rs::EcdsaSighashType::as_u32, src/transaction.rs::EcdsaSighashType::split_anyonecanpay_flag, src/sighash.rs::SchnorrSighashType::from_u8, src/sighash.rs::SchnorrSighashType::split_anyonecanpay_flag, src/transaction.rs::TxIn::outpoint_flag, src/sighash.rs::Annex::new, src/sighash.rs::Prevouts::check_all, src/sighash.rs::Prevouts::get_all, src/sighash.rs::Prevouts::get
//
// Selector / flag logic of the three signature-hash algorithms, full domain.
// Oracles are written from the consensus rules (Elements interpreter.cpp / BIP143 / BIP341):
//   ECDSA:   base = nHashType & 0x1f  (2 = NONE, 3 = SINGLE, everything else behaves as ALL),
//            ANYONECANPAY = nHashType & 0x80
//   Schnorr: valid hash_type bytes are exactly {0x00,0x01,0x02,0x03,0x81,0x82,0x83};
//            output mode = hash_type & 3, ANYONECANPAY = hash_type & 0x80
//   outpoint flag byte: bit 7 = has issuance, bit 6 = pegin, nothing else
//   annex: non-empty, first byte 0x50
//   prevouts: All must have one entry per input; One(i) answers only for index i and can never stand in for "all".
use super::*;
use crate::transaction::{AssetIssuance, OutPoint};

fn ecdsa_code(t: EcdsaSighashType) -> u32 {
    // independent numbering (not `as u32`)
    match t {
        EcdsaSighashType::All => 1,
        EcdsaSighashType::None => 2,
        EcdsaSighashType::Single => 3,
        EcdsaSighashType::AllPlusAnyoneCanPay => 0x81,
        EcdsaSighashType::NonePlusAnyoneCanPay => 0x82,
        EcdsaSighashType::SinglePlusAnyoneCanPay => 0x83,
    }
}

//@ harness: ecdsa_from_u32_all class=F tier=quick props=C03
//@ clause: for every u32 n: from_u32(n) has ANYONECANPAY iff n & 0x80, output mode NONE iff n & 0x1f == 2, SINGLE iff n & 0x1f == 3, ALL otherwise; as_u32 is the canonical byte; from_u32(as_u32(t)) == t
#[kani::proof]
fn ecdsa_from_u32_all() {
    let n: u32 = kani::any();
    let t = EcdsaSighashType::from_u32(n);
    let acp = n & 0x80 != 0;
    let base: u32 = match n & 0x1f { 2 => 2, 3 => 3, _ => 1 };
    let want = base | if acp { 0x80 } else { 0 };
    assert!(ecdsa_code(t) == want);
    assert!(t.as_u32() == want);
    // bits outside 0x9f never matter
    let m: u32 = kani::any();
    kani::assume(m & 0x9f == n & 0x9f);
    assert!(EcdsaSighashType::from_u32(m) == t);
    // idempotence through the canonical code
    assert!(EcdsaSighashType::from_u32(t.as_u32()) == t);
    kani::cover!(n > 0xFFFF && base == 3 && acp);
    kani::cover!(n & 0x1f == 0 && !acp);
    kani::cover!(n & 0x1f == 0x1f && acp);
}

//@ harness: ecdsa_from_standard_all class=F tier=quick props=C03
//@ clause: for every u32 n: from_standard(n) is Ok exactly for the six standard codes {1,2,3,0x81,0x82,0x83}, then as_u32 == n and it agrees with from_u32; otherwise the error carries n
#[kani::proof]
fn ecdsa_from_standard_all() {
    let n: u32 = kani::any();
    let std = n == 1 || n == 2 || n == 3 || n == 0x81 || n == 0x82 || n == 0x83;
    match EcdsaSighashType::from_standard(n) {
        Ok(t) => {
            assert!(std);
            assert!(t.as_u32() == n && ecdsa_code(t) == n);
            assert!(EcdsaSighashType::from_u32(n) == t);
            kani::cover!(n == 0x83);
            kani::cover!(n == 1);
        }
        Err(e) => {
            assert!(!std);
            assert!(e.0 == n);
            kani::cover!(n == 0);
            kani::cover!(n == 0x181);
        }
    }
}

//@ harness: ecdsa_split_all class=F tier=quick props=C03
//@ clause: for all six ECDSA types: split_anyonecanpay_flag returns (type without the 0x80 bit, bit 0x80 set); as_u32 of each variant is its consensus byte
#[kani::proof]
fn ecdsa_split_all() {
    let n: u32 = kani::any();
    let t = EcdsaSighashType::from_u32(n); // surjective onto the six variants (ecdsa_from_u32_all)
    let (b, acp) = t.split_anyonecanpay_flag();
    assert!(acp == (ecdsa_code(t) & 0x80 != 0));
    assert!(ecdsa_code(b) == ecdsa_code(t) & 0x7f);
    assert!(b.as_u32() == t.as_u32() & 0x7f);
    let (b2, acp2) = b.split_anyonecanpay_flag();
    assert!(b2 == b && !acp2);
    kani::cover!(t == EcdsaSighashType::SinglePlusAnyoneCanPay);
    kani::cover!(t == EcdsaSighashType::NonePlusAnyoneCanPay);
    kani::cover!(t == EcdsaSighashType::AllPlusAnyoneCanPay);
    kani::cover!(t == EcdsaSighashType::All);
    kani::cover!(t == EcdsaSighashType::None);
    kani::cover!(t == EcdsaSighashType::Single);
}

//@ harness: schnorr_from_u8_all class=F tier=quick props=C03
//@ clause: for every u8 b: from_u8(b) is Some exactly for the seven BIP341 types {0,1,2,3,0x81,0x82,0x83}, the variant's byte is b; split_anyonecanpay_flag returns (b & 0x7f as a type, b & 0x80 != 0)
#[kani::proof]
fn schnorr_from_u8_all() {
    let b: u8 = kani::any();
    let valid = b == 0 || b == 1 || b == 2 || b == 3 || b == 0x81 || b == 0x82 || b == 0x83;
    match SchnorrSighashType::from_u8(b) {
        Some(t) => {
            assert!(valid);
            assert!(t as u8 == b);
            assert!(t != SchnorrSighashType::Reserved);
            let (base, acp) = t.split_anyonecanpay_flag();
            assert!(acp == (b & 0x80 != 0));
            assert!(base as u8 == b & 0x7f);
            // the output mode used by the algorithm is hash_type & 3
            assert!((base == SchnorrSighashType::None) == (b & 3 == 2));
            assert!((base == SchnorrSighashType::Single) == (b & 3 == 3));
            assert!((base == SchnorrSighashType::All || base == SchnorrSighashType::Default) == (b & 3 < 2));
            let (base2, acp2) = base.split_anyonecanpay_flag();
            assert!(base2 == base && !acp2);
            kani::cover!(b == 0);
            kani::cover!(b == 0x83);
            kani::cover!(b == 0x81);
        }
        None => {
            assert!(!valid);
            kani::cover!(b == 0x80);
            kani::cover!(b == 4);
            kani::cover!(b == 0xff);
        }
    }
}

//@ harness: schnorr_reserved_split class=F tier=quick props=C03
//@ clause: the Reserved placeholder (0xFF) is not a consensus type: from_u8 never yields it and split leaves it unchanged without ANYONECANPAY
#[kani::proof]
fn schnorr_reserved_split() {
    let (b, acp) = SchnorrSighashType::Reserved.split_anyonecanpay_flag();
    assert!(b == SchnorrSighashType::Reserved && !acp);
    assert!(SchnorrSighashType::from_u8(0xff).is_none());
    kani::cover!(true);
}

//@ harness: outpoint_flag_all class=F tier=quick props=C03
//@ clause: for every input: outpoint_flag == (0x80 if the input has an issuance) | (0x40 if pegin); has_issuance iff the issuance amount or the inflation-key amount is non-null
#[kani::proof]
fn outpoint_flag_all() {
    let is_pegin: bool = kani::any();
    let amt_kind: u8 = kani::any();
    let inf_kind: u8 = kani::any();
    let a: u64 = kani::any();
    let b: u64 = kani::any();
    let amount = if amt_kind & 1 == 0 { confidential::Value::Null } else { confidential::Value::Explicit(a) };
    let inflation = if inf_kind & 1 == 0 { confidential::Value::Null } else { confidential::Value::Explicit(b) };
    let txin = TxIn {
        previous_output: OutPoint::default(),
        is_pegin,
        script_sig: Script::new(),
        sequence: Sequence(kani::any()),
        asset_issuance: AssetIssuance {
            asset_blinding_nonce: secp256k1_zkp::ZERO_TWEAK,
            asset_entropy: kani::any(),
            amount,
            inflation_keys: inflation,
        },
        witness: TxInWitness::default(),
    };
    let issuance = (amt_kind & 1 == 1) || (inf_kind & 1 == 1);
    let f = txin.outpoint_flag();
    assert!(txin.has_issuance() == issuance);
    assert!(txin.is_pegin() == is_pegin);
    assert!(f == (if issuance { 0x80 } else { 0 }) | (if is_pegin { 0x40 } else { 0 }));
    assert!(f & 0x3f == 0);
    kani::cover!(f == 0xc0);
    kani::cover!(f == 0x40);
    kani::cover!(f == 0x80 && amt_kind & 1 == 0);
    kani::cover!(f == 0);
    core::mem::forget(txin);
}

//@ harness: annex_new_all class=F tier=quick props=C03,C10
//@ clause: Annex::new accepts a byte string iff it is non-empty and starts with 0x50; as_bytes returns it unchanged; otherwise WrongAnnex (never a panic) -- every slice of length 0..=4 (only the first byte and emptiness are inspected)
#[kani::proof]
fn annex_new_all() {
    let buf: [u8; 4] = kani::any();
    let len: usize = kani::any();
    kani::assume(len <= 4);
    let s = &buf[..len];
    match Annex::new(s) {
        Ok(a) => {
            assert!(len >= 1 && buf[0] == 0x50);
            let back = a.as_bytes();
            assert!(back.len() == len && back.as_ptr() == s.as_ptr());
            kani::cover!(len == 1);
            kani::cover!(len == 4);
        }
        Err(e) => {
            assert!(matches!(e, Error::WrongAnnex));
            assert!(len == 0 || buf[0] != 0x50);
            core::mem::forget(e);
            kani::cover!(len == 0);
            kani::cover!(len == 3 && buf[0] == 0x51);
        }
    }
}

fn tx_with_inputs(n: usize) -> Transaction {
    let mut input = Vec::with_capacity(n);
    let mut i = 0;
    while i < n {
        input.push(TxIn::default());
        i += 1;
    }
    Transaction { version: 2, lock_time: crate::LockTime::ZERO, input, output: Vec::new() }
}

macro_rules! prevouts_all_harness {
    ($name:ident, $nin:expr, $nprev:expr) => {
        #[kani::proof]
        fn $name() {
            const NIN: usize = $nin;
            const NPREV: usize = $nprev;
            let tx = tx_with_inputs(NIN);
            let mut pv: Vec<TxOut> = Vec::with_capacity(NPREV);
            let mut i = 0;
            while i < NPREV {
                let mut o = TxOut::default();
                o.value = confidential::Value::Explicit(i as u64 + 100);
                pv.push(o);
                i += 1;
            }
            let p: Prevouts<TxOut> = Prevouts::All(&pv[..]);
            // check_all: exactly one prevout per input
            match p.check_all(&tx) {
                Ok(()) => assert!(NIN == NPREV),
                Err(e) => { assert!(NIN != NPREV); assert!(matches!(e, Error::PrevoutsSize)); core::mem::forget(e); }
            }
            // get_all: the very slice that was supplied
            match p.get_all() {
                Ok(s) => assert!(s.len() == NPREV && s.as_ptr() == pv.as_ptr()),
                Err(e) => { core::mem::forget(e); assert!(false); }
            }
            // get(j): the j-th supplied prevout, or PrevoutIndex; any usize, never a panic
            let j: usize = kani::any();
            kani::cover!(NPREV == 0 || j.wrapping_add(1) == NPREV);
            match p.get(j) {
                Ok(o) => {
                    assert!(j < NPREV);
                    assert!(core::ptr::eq(o, &pv[j]));
                    assert!(o.value == confidential::Value::Explicit(j as u64 + 100));
                }
                Err(e) => { assert!(j >= NPREV); assert!(matches!(e, Error::PrevoutIndex)); core::mem::forget(e); kani::cover!(j == usize::MAX); }
            }
            core::mem::forget(tx);
            core::mem::forget(pv);
        }
    };
}

//@ harness: prevouts_all_2in_2prev class=B tier=quick bound="2 inputs, 2 prevouts supplied; index any usize" props=C13,C10
//@ clause: Prevouts::All with one prevout per input passes check_all; get_all returns the supplied slice; get(j) returns the j-th prevout for j < len and Err(PrevoutIndex) for every other usize
prevouts_all_harness!(prevouts_all_2in_2prev, 2, 2);
//@ harness: prevouts_all_2in_1prev class=B tier=quick bound="2 inputs, 1 prevout supplied" props=C13,C10
//@ clause: Prevouts::All with fewer prevouts than inputs => check_all is Err(PrevoutsSize)
prevouts_all_harness!(prevouts_all_2in_1prev, 2, 1);
//@ harness: prevouts_all_1in_2prev class=B tier=quick bound="1 input, 2 prevouts supplied" props=C13,C10
//@ clause: Prevouts::All with more prevouts than inputs => check_all is Err(PrevoutsSize)
prevouts_all_harness!(prevouts_all_1in_2prev, 1, 2);
//@ harness: prevouts_all_0in_0prev class=B tier=quick bound="0 inputs, 0 prevouts" props=C13,C10
//@ clause: empty transaction, empty All: check_all Ok, every get is Err(PrevoutIndex)
prevouts_all_harness!(prevouts_all_0in_0prev, 0, 0);

//@ harness: prevouts_one_all_indices class=F tier=quick props=C13,C10
//@ clause: Prevouts::One(i, p) for every usize i: check_all accepts it for any transaction; get(j) returns p iff j == i, otherwise Err(PrevoutIndex); get_all is Err(PrevoutKind) (a single prevout never stands in for all of them)
#[kani::proof]
fn prevouts_one_all_indices() {
    let i: usize = kani::any();
    let j: usize = kani::any();
    let nin: usize = kani::any();
    kani::assume(nin <= 2);
    let tx = if nin == 0 { tx_with_inputs(0) } else if nin == 1 { tx_with_inputs(1) } else { tx_with_inputs(2) };
    let mut o = TxOut::default();
    o.value = confidential::Value::Explicit(kani::any());
    let p: Prevouts<&TxOut> = Prevouts::One(i, &o);
    match p.check_all(&tx) {
        Ok(()) => {}
        Err(e) => { core::mem::forget(e); assert!(false); }
    }
    match p.get_all() {
        Ok(_) => assert!(false),
        Err(e) => { assert!(matches!(e, Error::PrevoutKind)); core::mem::forget(e); }
    }
    match p.get(j) {
        Ok(r) => { assert!(j == i); assert!(core::ptr::eq(r, &o)); kani::cover!(i >= 2); kani::cover!(i == 0); }
        Err(e) => { assert!(j != i); assert!(matches!(e, Error::PrevoutIndex)); core::mem::forget(e); kani::cover!(j == i.wrapping_add(1)); }
    }
    core::mem::forget(tx);
    core::mem::forget(o);
}
