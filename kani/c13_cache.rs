//@ property: C13
//@ mount: src/sighash.rs
//@ functions: src/sighash.rs::SighashCache::witness_mut, src/sighash.rs::SighashCache::encode_segwitv0_signing_data_to, src/sighash.rs::SighashCache::taproot_encode_signing_data_to, src/sighash.rs::SighashCache::common_cache, src/sighash.rs::SighashCache::segwit_cache, src/sighash.rs::SighashCache::taproot_cache
// STATUS: only `witness_mut_frame` is verified and registered. The two history harnesses compile but were not run to
// completion within the budget (each contains three full encoder runs; one encoder run costs 6-7 min, see c13_prevouts_one.rs).
//
// Cache discipline: a query answered by a cache that has already answered other queries (and had witnesses filled in
// through `witness_mut` in between) is byte-identical to the same query on a fresh cache.
// Assumption A-hash (support/c03_hash_models.rs): digests are an uninterpreted-but-deterministic function of the hashed
// stream, so "same message bytes" here means "same direct fields and same hashed streams".
use super::*;
use crate::hashes::sha256::HashEngine as ShaEngine;
use crate::hashes::sha256::Hash as ShaHash;
use crate::hashes::HashEngine as HashEngineTrait;
use crate::transaction::{AssetIssuance, OutPoint, TxOutWitness};
use crate::{AssetId, LockTime, Txid};

#[path = "support/sinks.rs"]
mod sinks;
#[path = "support/c03_hash_models.rs"]
mod hm;
use sinks::ArraySink;

const CAP: usize = 400;

fn sym32() -> [u8; 32] {
    let mut a = [0u8; 32];
    a[0] = kani::any();
    a[31] = kani::any();
    a
}
fn mk_tx() -> Transaction {
    let txin = TxIn {
        previous_output: OutPoint { txid: Txid::from_byte_array(sym32()), vout: kani::any() },
        is_pegin: kani::any(),
        script_sig: Script::new(),
        sequence: Sequence(kani::any()),
        asset_issuance: AssetIssuance::default(),
        witness: TxInWitness::default(),
    };
    let txout = TxOut {
        asset: confidential::Asset::Explicit(AssetId::from_byte_array(sym32())),
        value: confidential::Value::Explicit(kani::any()),
        nonce: confidential::Nonce::Null,
        script_pubkey: Script::from(vec![kani::any::<u8>()]),
        witness: TxOutWitness::default(),
    };
    Transaction { version: kani::any(), lock_time: LockTime::ZERO, input: vec![txin], output: vec![txout] }
}

//@ harness: witness_mut_frame class=F tier=quick props=C13,C10
//@ clause: witness_mut(i) is Some exactly for existing inputs and hands out that input's script_witness and nothing else (so an update through it cannot reach any field a cached stream was computed from); it does not touch the three caches; out-of-range index is None, never a panic
#[kani::proof]
fn witness_mut_frame() {
    let mut tx = mk_tx();
    let expect: *const Vec<Vec<u8>> = &tx.input[0].witness.script_witness;
    let mut cache = SighashCache::new(&mut tx);
    let i: usize = kani::any();
    match cache.witness_mut(i) {
        Some(w) => {
            assert!(i == 0);
            assert!(core::ptr::eq(w as *const Vec<Vec<u8>>, expect));
            w.push(Vec::new());
            kani::cover!(true);
        }
        None => { assert!(i >= 1); kani::cover!(i == usize::MAX); }
    }
    assert!(cache.common_cache.is_none() && cache.segwit_cache.is_none() && cache.taproot_cache.is_none());
    core::mem::forget(cache);
    core::mem::forget(tx);
}

macro_rules! stubbed {
    (fn $name:ident() $body:block) => {
        #[kani::proof]
        #[kani::stub(<ShaEngine as HashEngineTrait>::input, hm::input_fold)]
        #[kani::stub(ShaHash::from_engine, hm::from_engine_fold)]
        #[kani::stub(std::io::Write::write_all, hm::WriteAllOnce::write_all_once)]
        fn $name() $body
    };
}

fn segwit_query(cache: &mut SighashCache<&mut Transaction>, sc: &Script, amount: u64, t: EcdsaSighashType) -> ArraySink<CAP> {
    let mut sink = ArraySink::<CAP>::new();
    match cache.encode_segwitv0_signing_data_to(&mut sink, 0, sc, confidential::Value::Explicit(amount), t) {
        Ok(()) => {}
        Err(e) => { core::mem::forget(e); assert!(false); }
    }
    sink
}
fn taproot_query(cache: &mut SighashCache<&mut Transaction>, prev: &[TxOut], t: SchnorrSighashType, g: [u8; 32]) -> ArraySink<CAP> {
    let mut sink = ArraySink::<CAP>::new();
    let prevouts: Prevouts<TxOut> = Prevouts::All(prev);
    match cache.taproot_encode_signing_data_to(&mut sink, 0, &prevouts, None, None, t, BlockHash::from_byte_array(g)) {
        Ok(()) => {}
        Err(e) => { core::mem::forget(e); assert!(false); }
    }
    sink
}

stubbed! {
//@ unregistered-harness: cache_segwit_then_segwit class=B tier=thorough bound="1 input / 1 output transaction; history = segwit-v0 ALL query, witness_mut push, segwit-v0 query of any of the six types; compared with that query on a fresh cache" props=C13 timeout=1500
//@ unregistered-clause: after a first segwit-v0 query has filled the common and segwit caches and a witness was pushed through the cache, a second segwit-v0 query (any hash type) writes exactly the message a fresh cache writes
fn cache_segwit_then_segwit() {
    let mut tx = mk_tx();
    let sc = Script::from(vec![kani::any::<u8>()]);
    let amount: u64 = kani::any();
    let t2 = EcdsaSighashType::from_u32(kani::any());
    let used = {
        let mut cache = SighashCache::new(&mut tx);
        let first = segwit_query(&mut cache, &sc, amount, EcdsaSighashType::All);
        core::mem::forget(first);
        assert!(cache.common_cache.is_some() && cache.segwit_cache.is_some());
        match cache.witness_mut(0) { Some(w) => w.push(Vec::new()), None => assert!(false) }
        let second = segwit_query(&mut cache, &sc, amount, t2);
        core::mem::forget(cache);
        second
    };
    let fresh = {
        let mut cache = SighashCache::new(&mut tx);
        let s = segwit_query(&mut cache, &sc, amount, t2);
        core::mem::forget(cache);
        s
    };
    assert!(used.len == fresh.len);
    assert!(used.buf == fresh.buf, "second answer differs from a fresh cache's answer");
    kani::cover!(t2 == EcdsaSighashType::SinglePlusAnyoneCanPay);
    kani::cover!(t2 == EcdsaSighashType::None);
    core::mem::forget(tx);
}
}

stubbed! {
//@ unregistered-harness: cache_segwit_then_taproot class=B tier=thorough bound="1 input / 1 output transaction; history = segwit-v0 ALL query, witness_mut push, taproot DEFAULT query with Prevouts::All; compared with a fresh cache" props=C13 timeout=1500
//@ unregistered-clause: a taproot query issued after a segwit-v0 query (which filled the shared common cache) writes exactly the message a fresh cache writes
fn cache_segwit_then_taproot() {
    let mut tx = mk_tx();
    let sc = Script::from(vec![kani::any::<u8>()]);
    let amount: u64 = kani::any();
    let g = sym32();
    let prev = [TxOut {
        asset: confidential::Asset::Explicit(AssetId::from_byte_array(sym32())),
        value: confidential::Value::Explicit(kani::any()),
        nonce: confidential::Nonce::Null,
        script_pubkey: Script::from(vec![kani::any::<u8>()]),
        witness: TxOutWitness::default(),
    }];
    let used = {
        let mut cache = SighashCache::new(&mut tx);
        let first = segwit_query(&mut cache, &sc, amount, EcdsaSighashType::All);
        core::mem::forget(first);
        match cache.witness_mut(0) { Some(w) => w.push(Vec::new()), None => assert!(false) }
        let second = taproot_query(&mut cache, &prev[..], SchnorrSighashType::Default, g);
        assert!(cache.common_cache.is_some() && cache.segwit_cache.is_some() && cache.taproot_cache.is_some());
        core::mem::forget(cache);
        second
    };
    let fresh = {
        let mut cache = SighashCache::new(&mut tx);
        let s = taproot_query(&mut cache, &prev[..], SchnorrSighashType::Default, g);
        core::mem::forget(cache);
        s
    };
    assert!(used.len == fresh.len && used.len == 366);
    assert!(used.buf == fresh.buf, "taproot answer after a segwit query differs from a fresh cache's answer");
    kani::cover!(true);
    core::mem::forget(tx);
    core::mem::forget(prev);
}
}
