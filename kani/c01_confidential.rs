//@ property: C01 C12
//@ mount: src/confidential.rs
//@ functions: src/confidential.rs::Value::consensus_decode, src/confidential.rs::Value::consensus_encode, src/confidential.rs::Value::encoded_length, src/confidential.rs::Asset::consensus_decode, src/confidential.rs::Asset::consensus_encode, src/confidential.rs::Asset::encoded_length, src/confidential.rs::Nonce::consensus_decode, src/confidential.rs::Nonce::consensus_encode, src/confidential.rs::Nonce::encoded_length, src/encode.rs::deserialize_partial
// Assumption (support/c01_ffi_models.rs): libsecp parse/serialize of commitments, generators and public keys are
// mutually inverse partial injections whose accept-set is a function of the 33 bytes.
use super::*;
use crate::encode::{self, Decodable, Encodable};
use secp256k1_zkp::ffi as zffi;
use std::io::Cursor;

#[path = "support/sinks.rs"]
mod sinks;
use sinks::forget;
#[path = "support/c01_ffi_models.rs"]
mod ffi_models;

macro_rules! ffi_proof {
    (fn $name:ident() $body:block) => {
        #[kani::proof]
        #[kani::stub(zffi::secp256k1_pedersen_commitment_parse, ffi_models::pedersen_commitment_parse)]
        #[kani::stub(zffi::secp256k1_pedersen_commitment_serialize, ffi_models::pedersen_commitment_serialize)]
        #[kani::stub(zffi::secp256k1_generator_parse, ffi_models::generator_parse)]
        #[kani::stub(zffi::secp256k1_generator_serialize, ffi_models::generator_serialize)]
        #[kani::stub(zffi::secp256k1_ec_pubkey_parse, ffi_models::ec_pubkey_parse)]
        #[kani::stub(zffi::secp256k1_ec_pubkey_serialize, ffi_models::ec_pubkey_serialize)]
        #[kani::stub(zffi::secp256k1_ec_pubkey_cmp, ffi_models::ec_pubkey_cmp)]
        fn $name() $body
    };
}

fn first33(b: &[u8; 34]) -> [u8; 33] {
    let mut a = [0u8; 33];
    a.copy_from_slice(&b[..33]);
    a
}

/// encode `v` into a 34-byte array; returns (reported length, bytes written, array)
fn enc34<T: Encodable>(v: &T) -> (usize, usize, [u8; 34]) {
    let mut out = [0u8; 34];
    let (n, pos) = {
        let mut c = Cursor::new(&mut out[..]);
        match v.consensus_encode(&mut c) {
            Ok(n) => (n, c.position() as usize),
            Err(e) => {
                forget(e);
                assert!(false);
                (0, 0)
            }
        }
    };
    (n, pos, out)
}

fn same_prefix(a: &[u8; 34], b: &[u8; 34], k: usize) {
    let mut i = 0;
    while i < 34 {
        if i < k {
            assert!(a[i] == b[i]);
        }
        i += 1;
    }
}

// ---------------------------------------------------------------------------------------------------------------
// decode -> encode : every prefix byte x 33-byte payload, every truncation
// ---------------------------------------------------------------------------------------------------------------

//@ harness: value_dec_enc class=F tier=quick props=C01,C12
//@ clause: confidential::Value, every 34-byte buffer and every truncation: accepted iff prefix in {0,1,8,9}, enough bytes and (8/9) the commitment parses; consumed == 1/9/33 == encoded_length(); explicit value is the big-endian u64; re-encoding reproduces exactly the consumed bytes and reports that length; unknown prefix => InvalidConfidentialPrefix(prefix)
ffi_proof! {
fn value_dec_enc() {
    ffi_models::init();
    let buf: [u8; 34] = kani::any();
    let len: usize = kani::any();
    kani::assume(len <= 34);
    let r = encode::deserialize_partial::<Value>(&buf[..len]);
    // wire format, stated independently
    let need: usize = match buf[0] { 0 => 1, 1 => 9, 8 | 9 => 33, _ => 0 };
    match r {
        Ok((v, k)) => {
            assert!(need != 0 && len >= need && k == need);
            assert!(v.encoded_length() == k);
            match v {
                Value::Null => assert!(buf[0] == 0),
                Value::Explicit(n) => {
                    assert!(buf[0] == 1);
                    assert!(n == u64::from_be_bytes([buf[1], buf[2], buf[3], buf[4], buf[5], buf[6], buf[7], buf[8]]));
                }
                Value::Confidential(_) => {
                    assert!(buf[0] == 8 || buf[0] == 9);
                    assert!(ffi_models::pedersen_acc(&first33(&buf)));
                }
            }
            let (n, pos, out) = enc34(&v);
            assert!(n == k && pos == k);
            same_prefix(&out, &buf, k);
            kani::cover!(k == 1);
            kani::cover!(k == 9);
            kani::cover!(k == 33);
        }
        Err(e) => {
            let short = len < need || len == 0;
            let bad_prefix = need == 0;
            let unparsable = need == 33 && !ffi_models::pedersen_acc(&first33(&buf));
            assert!(short || bad_prefix || unparsable);
            if len > 0 && bad_prefix {
                assert!(matches!(e, encode::Error::InvalidConfidentialPrefix(p) if p == buf[0]));
            }
            forget(e);
            kani::cover!(bad_prefix && len > 0);
            kani::cover!(unparsable && !short);
            kani::cover!(short && !bad_prefix);
        }
    }
}
}

//@ harness: asset_dec_enc class=F tier=quick props=C01,C12
//@ clause: confidential::Asset, every 34-byte buffer and every truncation: accepted iff prefix in {0,1,10,11}, enough bytes and (10/11) the generator parses; consumed == 1/33/33 == encoded_length(); explicit asset id is the 32 payload bytes in order; re-encoding reproduces the consumed bytes
ffi_proof! {
fn asset_dec_enc() {
    ffi_models::init();
    let buf: [u8; 34] = kani::any();
    let len: usize = kani::any();
    kani::assume(len <= 34);
    let r = encode::deserialize_partial::<Asset>(&buf[..len]);
    let need: usize = match buf[0] { 0 => 1, 1 | 10 | 11 => 33, _ => 0 };
    match r {
        Ok((v, k)) => {
            assert!(need != 0 && len >= need && k == need);
            assert!(v.encoded_length() == k);
            match v {
                Asset::Null => assert!(buf[0] == 0),
                Asset::Explicit(id) => {
                    assert!(buf[0] == 1);
                    let a = id.to_byte_array();
                    let mut i = 0;
                    while i < 32 { assert!(a[i] == buf[1 + i]); i += 1; }
                }
                Asset::Confidential(_) => {
                    assert!(buf[0] == 10 || buf[0] == 11);
                    assert!(ffi_models::generator_acc(&first33(&buf)));
                }
            }
            let (n, pos, out) = enc34(&v);
            assert!(n == k && pos == k);
            same_prefix(&out, &buf, k);
            kani::cover!(k == 1);
            kani::cover!(k == 33 && buf[0] == 1);
            kani::cover!(k == 33 && buf[0] == 11);
        }
        Err(e) => {
            let short = len < need || len == 0;
            let bad_prefix = need == 0;
            let unparsable = (buf[0] == 10 || buf[0] == 11) && !ffi_models::generator_acc(&first33(&buf));
            assert!(short || bad_prefix || unparsable);
            if len > 0 && bad_prefix {
                assert!(matches!(e, encode::Error::InvalidConfidentialPrefix(p) if p == buf[0]));
            }
            forget(e);
            kani::cover!(bad_prefix && len > 0);
            kani::cover!(unparsable && !short);
            kani::cover!(short && !bad_prefix);
        }
    }
}
}

//@ harness: nonce_dec_enc class=F tier=quick props=C01,C12
//@ clause: confidential::Nonce, every 34-byte buffer and every truncation: accepted iff prefix in {0,1,2,3}, enough bytes and (2/3) the public key parses; consumed == 1/33/33 == encoded_length(); explicit nonce is the 32 payload bytes in order; re-encoding reproduces the consumed bytes
ffi_proof! {
fn nonce_dec_enc() {
    ffi_models::init();
    let buf: [u8; 34] = kani::any();
    let len: usize = kani::any();
    kani::assume(len <= 34);
    let r = encode::deserialize_partial::<Nonce>(&buf[..len]);
    let need: usize = match buf[0] { 0 => 1, 1 | 2 | 3 => 33, _ => 0 };
    match r {
        Ok((v, k)) => {
            assert!(need != 0 && len >= need && k == need);
            assert!(v.encoded_length() == k);
            match v {
                Nonce::Null => assert!(buf[0] == 0),
                Nonce::Explicit(a) => {
                    assert!(buf[0] == 1);
                    let mut i = 0;
                    while i < 32 { assert!(a[i] == buf[1 + i]); i += 1; }
                }
                Nonce::Confidential(_) => {
                    assert!(buf[0] == 2 || buf[0] == 3);
                    assert!(ffi_models::pubkey_acc(&first33(&buf)));
                }
            }
            let (n, pos, out) = enc34(&v);
            assert!(n == k && pos == k);
            same_prefix(&out, &buf, k);
            kani::cover!(k == 1);
            kani::cover!(k == 33 && buf[0] == 1);
            kani::cover!(k == 33 && buf[0] == 3);
        }
        Err(e) => {
            let short = len < need || len == 0;
            let bad_prefix = need == 0;
            let unparsable = (buf[0] == 2 || buf[0] == 3) && !ffi_models::pubkey_acc(&first33(&buf));
            assert!(short || bad_prefix || unparsable);
            if len > 0 && bad_prefix {
                assert!(matches!(e, encode::Error::InvalidConfidentialPrefix(p) if p == buf[0]));
            }
            forget(e);
            kani::cover!(bad_prefix && len > 0);
            kani::cover!(unparsable && !short);
            kani::cover!(short && !bad_prefix);
        }
    }
}
}

// ---------------------------------------------------------------------------------------------------------------
// encode -> decode : every in-memory value (commitments: every value the parser can return, for every accept-set)
// ---------------------------------------------------------------------------------------------------------------

fn any_value() -> Value {
    let sel: u8 = kani::any();
    match sel {
        0 => Value::Null,
        1 => Value::Explicit(kani::any()),
        _ => {
            let b: [u8; 33] = kani::any();
            match PedersenCommitment::from_slice(&b) {
                Ok(c) => Value::Confidential(c),
                Err(e) => { forget(e); kani::assume(false); Value::Null }
            }
        }
    }
}
fn any_asset() -> Asset {
    let sel: u8 = kani::any();
    match sel {
        0 => Asset::Null,
        1 => Asset::Explicit(AssetId::from_byte_array(kani::any())),
        _ => {
            let b: [u8; 33] = kani::any();
            match Generator::from_slice(&b) {
                Ok(c) => Asset::Confidential(c),
                Err(e) => { forget(e); kani::assume(false); Asset::Null }
            }
        }
    }
}
fn any_nonce() -> Nonce {
    let sel: u8 = kani::any();
    match sel {
        0 => Nonce::Null,
        1 => Nonce::Explicit(kani::any()),
        _ => {
            let b: [u8; 33] = kani::any();
            match PublicKey::from_slice(&b) {
                Ok(c) => Nonce::Confidential(c),
                Err(e) => { forget(e); kani::assume(false); Nonce::Null }
            }
        }
    }
}

macro_rules! enc_dec_body {
    ($ty:ident, $v:expr, $p0:expr, $p1:expr) => {{
        ffi_models::init();
        let v: $ty = $v;
        let (n, pos, out) = enc34(&v);
        // reported length == bytes written == encoded_length()
        assert!(n == pos && n == v.encoded_length());
        // layout of the first byte
        match v {
            $ty::Null => assert!(out[0] == 0 && n == 1),
            $ty::Explicit(_) => assert!(out[0] == 1),
            $ty::Confidential(_) => assert!((out[0] == $p0 || out[0] == $p1) && n == 33),
        }
        // decoding exactly those bytes gives an equal value and consumes all of them
        match encode::deserialize_partial::<$ty>(&out[..n]) {
            Ok((w, k)) => {
                assert!(k == n);
                assert!(w == v);
            }
            Err(e) => { forget(e); assert!(false); }
        }
        // the strict decoder agrees (no trailing data)
        match encode::deserialize::<$ty>(&out[..n]) {
            Ok(w) => assert!(w == v),
            Err(e) => { forget(e); assert!(false); }
        }
        kani::cover!(v.is_null());
        kani::cover!(v.is_explicit());
        kani::cover!(v.is_confidential());
    }};
}

//@ harness: value_enc_dec class=F tier=quick props=C01,C12
//@ clause: every confidential::Value (null, every explicit u64, every commitment the parser can return): encode reports encoded_length() == bytes written, explicit is 0x01 + big-endian u64, and deserialize_partial/deserialize of exactly those bytes return an equal value consuming all of them
ffi_proof! {
fn value_enc_dec() {
    enc_dec_body!(Value, any_value(), 8, 9);
}
}

//@ harness: value_explicit_layout class=F tier=quick props=C01
//@ clause: Value::Explicit(n) encodes as 0x01 followed by n big-endian, 9 bytes
#[kani::proof]
fn value_explicit_layout() {
    let n: u64 = kani::any();
    let (r, pos, out) = enc34(&Value::Explicit(n));
    assert!(r == 9 && pos == 9 && out[0] == 1);
    assert!(u64::from_be_bytes([out[1], out[2], out[3], out[4], out[5], out[6], out[7], out[8]]) == n);
    kani::cover!(n == 0x0102030405060708 && out[1] == 1 && out[8] == 8);
}

//@ harness: asset_enc_dec class=F tier=quick props=C01,C12
//@ clause: every confidential::Asset (null, every explicit id, every generator the parser can return): encode reports encoded_length() == bytes written; decode of exactly those bytes returns an equal value consuming all of them
ffi_proof! {
fn asset_enc_dec() {
    enc_dec_body!(Asset, any_asset(), 10, 11);
}
}

//@ harness: nonce_enc_dec class=F tier=quick props=C01,C12
//@ clause: every confidential::Nonce (null, every explicit 32 bytes, every public key the parser can return): encode reports encoded_length() == bytes written; decode of exactly those bytes returns an equal value consuming all of them
ffi_proof! {
fn nonce_enc_dec() {
    enc_dec_body!(Nonce, any_nonce(), 2, 3);
}
}
