//@ property: C13 C10
//@ mount: src/sighash.rs
//@ functions: src/sighash.rs::SighashCache::taproot_encode_signing_data_to, src/sighash.rs::Prevouts::get, src/sighash.rs::Prevouts::get_all, src/sighash.rs::Prevouts::check_all
// NOTE (cost): one instance costs 6-7 min (CBMC does not resolve enum discriminants read back through references, so it
// explores every branch of the encoder and ~1-3 s of symbolic execution is spent per `?`). The 2-input instances
// (`//@ unregistered-harness:`) were not measured with the cache models and are not run by the driver; the registered
// instances are the 1-input ones.
//
// Access discipline of the taproot signing-message encoder with respect to the supplied spent outputs, and its
// totality (C10: every out-of-range index / missing prevout is an `Err`, never a panic).
// Assumption A-hash: the SHA-256 engine is replaced by the recording model of support/c03_hash_models.rs; digests are not
// inspected here (Ok/Err control flow and message length only). Assumption A-cache: see the cache models below.
// Oracle (C13 statement + BIP-341/Elements message layout):
//   * a hash type with ANYONECANPAY needs only the spent output of the input being signed => Prevouts::One(i, p) with
//     i == input_index is sufficient, for ALL|ACP, NONE|ACP and SINGLE|ACP alike;
//   * a hash type without ANYONECANPAY needs all of them => One is Err(PrevoutKind);
//   * message length (bytes written) = 73 + [!acp]*224 + [ALL/DEFAULT]*64 + 1 + ([acp] ? 1+36+|asset|+|value|+|spk|+4+1 : 4)
//                                      + [annex]*32 + [SINGLE]*64 + [script path]*37     (inputs without issuance)
use super::*;
use crate::hashes::sha256::HashEngine as ShaEngine;
use crate::hashes::sha256::Hash as ShaHash;
use crate::hashes::HashEngine as HashEngineTrait;
use crate::transaction::{AssetIssuance, OutPoint, TxOutWitness};
use crate::{AssetId, LockTime, Txid};

#[path = "support/sinks.rs"]
mod sinks;
#[path = "support/c03_hash_models.rs"]
mod hm;
use sinks::CountSink;

fn mk_tx(nin: usize, nout: usize) -> Transaction {
    let mut input = Vec::with_capacity(nin);
    let mut i = 0;
    while i < nin {
        input.push(TxIn {
            previous_output: OutPoint { txid: Txid::from_byte_array(kani::any()), vout: kani::any() },
            is_pegin: kani::any(),
            script_sig: Script::new(),
            sequence: Sequence(kani::any()),
            asset_issuance: AssetIssuance::default(),
            witness: TxInWitness::default(),
        });
        i += 1;
    }
    let mut output = Vec::with_capacity(nout);
    let mut k = 0;
    while k < nout {
        let mut o = TxOut::default();
        o.value = confidential::Value::Explicit(kani::any());
        output.push(o);
        k += 1;
    }
    Transaction { version: kani::any(), lock_time: LockTime::ZERO, input, output }
}

fn mk_prevout() -> TxOut {
    TxOut {
        asset: confidential::Asset::Explicit(AssetId::from_byte_array(kani::any())),
        value: confidential::Value::Explicit(kani::any()),
        nonce: confidential::Nonce::Null,
        script_pubkey: Script::from(vec![0x51u8, kani::any()]),
        witness: TxOutWitness::default(),
    }
}
// |asset| + |value| + |scriptPubKey with length prefix| of mk_prevout()
const PREVOUT_FIELDS_LEN: usize = 33 + 9 + 3;

// ---- cache models (assumption A-cache, used only by the control-flow harnesses of this module) --------------------
// The lazily computed sub-hash caches are total functions of (tx, prevouts) that return some digests; what they hash is
// the subject of c03_message.rs / c13_cache.rs. Replacing them here keeps the Ok/Err obligation affordable (measured: the
// ALL|ANYONECANPAY instance did not finish in 13 min / 7 GB with the real cache code, because CBMC explores the cache
// closures on every path).
// The models do not name the caches' fields (they were re-arranged by the D8 repair): a cache is a plain aggregate of
// 32-byte digests, every bit pattern is a valid value, so "some digests" is an arbitrary byte image of the struct.
fn any_common() -> CommonCache {
    let raw: [u8; core::mem::size_of::<CommonCache>()] = kani::any();
    unsafe { core::mem::transmute(raw) }
}
fn any_taproot() -> TaprootCache {
    let raw: [u8; core::mem::size_of::<TaprootCache>()] = kani::any();
    unsafe { core::mem::transmute(raw) }
}
// (the models are methods of a generic impl so that their generic parameters line up with those of the stubbed methods)
struct CacheModels<R>(core::marker::PhantomData<R>);
impl<R: Deref<Target = Transaction>> CacheModels<R> {
    fn common<'a>(c: &'a mut Option<CommonCache>, _tx: &R) -> &'a CommonCache {
        c.get_or_insert_with(any_common)
    }
    fn taproot<'a, T: Borrow<TxOut>>(c: &'a mut Option<TaprootCache>, _tx: &R, _prevouts: &[T]) -> &'a TaprootCache {
        c.get_or_insert_with(any_taproot)
    }
}

struct Query {
    b: u8,
    idx: usize,
    annex: bool,
    leaf: bool,
}

fn expected_len(q: &Query) -> usize {
    let acp = q.b & 0x80 != 0;
    let mode = q.b & 3;
    let mut n = 32 + 32 + 1 + 4 + 4;
    if !acp { n += 7 * 32; }
    if mode < 2 { n += 64; }
    n += 1;
    if acp { n += 1 + 36 + PREVOUT_FIELDS_LEN + 4 + 1; } else { n += 4; }
    if q.annex { n += 32; }
    if mode == 3 { n += 64; }
    if q.leaf { n += 32 + 1 + 4; }
    n
}

/// Runs one query with `Prevouts::One(i, p)` on a fresh cache; returns the result and the number of bytes written.
fn run_one(tx: &Transaction, p: &TxOut, i: usize, q: &Query, t: SchnorrSighashType) -> (Result<(), Error>, usize) {
    let annex_bytes = [0x50u8, 0x01];
    let annex = if q.annex {
        match Annex::new(&annex_bytes) { Ok(a) => Some(a), Err(e) => { core::mem::forget(e); None } }
    } else { None };
    let leaf = if q.leaf { Some((TapLeafHash::from_byte_array(kani::any()), kani::any::<u32>())) } else { None };
    let prevouts: Prevouts<&TxOut> = Prevouts::One(i, p);
    let mut cache = SighashCache::new(tx);
    let mut sink = CountSink(0);
    let r = cache.taproot_encode_signing_data_to(&mut sink, q.idx, &prevouts, annex, leaf, t, BlockHash::from_byte_array(kani::any()));
    core::mem::forget(cache);
    (r, sink.0)
}

macro_rules! one_harness {
    ($name:ident, $nin:expr, $nout:expr, $b:expr, $annex:expr, $leaf:expr) => {
        #[kani::proof]
        #[kani::stub(<ShaEngine as HashEngineTrait>::input, hm::input_fold)]
        #[kani::stub(ShaHash::from_engine, hm::from_engine_fold)]
        #[kani::stub(std::io::Write::write_all, hm::WriteAllOnce::write_all_once)]
        #[kani::stub(SighashCache::common_cache_minimal_borrow, CacheModels::common)]
        #[kani::stub(SighashCache::taproot_cache_minimal_borrow, CacheModels::taproot)]
        fn $name() {
            const NIN: usize = $nin;
            const NOUT: usize = $nout;
            assert!(hm::layout_ok());
            let tx = mk_tx(NIN, NOUT);
            let p = mk_prevout();
            let q = Query { b: $b, idx: kani::any(), annex: $annex, leaf: $leaf };
            let i: usize = kani::any();
            let t = match SchnorrSighashType::from_u8(q.b) { Some(t) => t, None => { kani::assume(false); return; } };
            let acp = q.b & 0x80 != 0;
            let single = q.b & 3 == 3;
            let (r, n) = run_one(&tx, &p, i, &q, t);
            let want_ok = acp && q.idx < NIN && i == q.idx && (!single || q.idx < NOUT);
            kani::cover!(want_ok || !acp);
            match r {
                Ok(()) => {
                    assert!(want_ok, "One() accepted although the type needs all prevouts / index invalid");
                    assert!(n == expected_len(&q), "signing message length");
                }
                Err(e) => {
                    assert!(!want_ok, "ANYONECANPAY with the signed input's prevout must be sufficient");
                    // the reported reason must be a true one
                    match &e {
                        Error::PrevoutKind => assert!(!acp),
                        Error::IndexOutOfInputsBounds { index, inputs_size } => assert!(acp && q.idx >= NIN && *index == q.idx && *inputs_size == NIN),
                        Error::PrevoutIndex => assert!(acp && i != q.idx),
                        Error::SingleWithoutCorrespondingOutput { index, outputs_size } => assert!(single && q.idx >= NOUT && *index == q.idx && *outputs_size == NOUT),
                        _ => assert!(false, "unexpected error kind"),
                    }
                    core::mem::forget(e);
                }
            }
            core::mem::forget(tx);
            core::mem::forget(p);
        }
    };
}

//@ unregistered-harness: taproot_one_none_acp class=B tier=quick bound="2 inputs, 1 output, no issuance; prevout explicit asset/value, 2-byte script; hash type 0x82; all usize input indices and One-indices; key path without annex" props=C13,C10 timeout=900
//@ unregistered-clause: NONE|ANYONECANPAY with Prevouts::One(i, p) succeeds iff input_index is a real input and i == input_index, writing a message of the BIP-341/Elements length; otherwise Err(IndexOutOfInputsBounds / PrevoutIndex), never a panic; the other input's prevout is never needed
one_harness!(taproot_one_none_acp, 2, 1, 0x82, false, false);
//@ unregistered-harness: taproot_one_single_acp class=B tier=quick bound="as taproot_one_none_acp, hash type 0x83 (index 1 has no output), script path with 2-byte annex" props=C13,C10 timeout=900
//@ unregistered-clause: SINGLE|ANYONECANPAY with Prevouts::One: as above, and an input without a corresponding output is Err(SingleWithoutCorrespondingOutput)
one_harness!(taproot_one_single_acp, 2, 1, 0x83, true, true);
//@ unregistered-harness: taproot_one_all_acp class=B tier=quick bound="as taproot_one_none_acp, hash type 0x81" props=C13 timeout=900
//@ unregistered-clause: ALL|ANYONECANPAY with Prevouts::One for the signed input succeeds (no other spent output is needed). (DESIGN section 6, D8: failed before the repair of taproot_encode_signing_data_to, kept as regression check)
one_harness!(taproot_one_all_acp, 2, 1, 0x81, false, false);
//@ unregistered-harness: taproot_one_default_needs_all class=B tier=quick bound="2 inputs, 1 output, hash type 0x00" props=C13,C10 timeout=900
//@ unregistered-clause: a hash type without ANYONECANPAY needs all spent outputs: Prevouts::One is Err(PrevoutKind) for every index
one_harness!(taproot_one_default_needs_all, 2, 1, 0x00, false, false);
//@ unregistered-harness: taproot_one_all_needs_all class=B tier=thorough bound="2 inputs, 1 output, hash type 0x01" props=C13,C10 timeout=900
//@ unregistered-clause: same for ALL
one_harness!(taproot_one_all_needs_all, 2, 1, 0x01, false, false);
//@ unregistered-harness: taproot_one_none_needs_all class=B tier=thorough bound="2 inputs, 1 output, hash type 0x02" props=C13,C10 timeout=900
//@ unregistered-clause: same for NONE
one_harness!(taproot_one_none_needs_all, 2, 1, 0x02, false, false);
//@ unregistered-harness: taproot_one_single_needs_all class=B tier=thorough bound="2 inputs, 1 output, hash type 0x03" props=C13,C10 timeout=900
//@ unregistered-clause: same for SINGLE
one_harness!(taproot_one_single_needs_all, 2, 1, 0x03, false, false);

//@ harness: taproot_one_none_acp_1in class=B tier=thorough bound="1 input, 1 output, hash type 0x82, key path, no annex; all usize indices" props=C13,C10 timeout=1500
//@ clause: NONE|ANYONECANPAY with Prevouts::One(i, p) succeeds iff input_index is the existing input and i == input_index, writing a message of the BIP-341/Elements length; otherwise Err(IndexOutOfInputsBounds / PrevoutIndex), never a panic
one_harness!(taproot_one_none_acp_1in, 1, 1, 0x82, false, false);
//@ harness: taproot_one_all_acp_1in class=B tier=thorough bound="1 input, 1 output, hash type 0x81, key path, no annex; all usize indices" props=C13 timeout=1500
//@ clause: ALL|ANYONECANPAY with Prevouts::One for the signed input succeeds. (DESIGN section 6, D8: failed before the repair of taproot_encode_signing_data_to, kept as regression check)
one_harness!(taproot_one_all_acp_1in, 1, 1, 0x81, false, false);

//@ harness: taproot_one_default_needs_all_1in class=B tier=thorough bound="1 input, 1 output, hash type 0x00, key path, no annex; all usize indices" props=C13,C10 timeout=1500
//@ clause: a hash type without ANYONECANPAY needs all spent outputs: Prevouts::One is Err(PrevoutKind) for every index, never a panic
one_harness!(taproot_one_default_needs_all_1in, 1, 1, 0x00, false, false);
//@ harness: taproot_one_single_acp_1in class=B tier=thorough bound="1 input, 1 output, hash type 0x83, script path with 2-byte annex; all usize indices" props=C13,C10 timeout=1500
//@ clause: SINGLE|ANYONECANPAY with Prevouts::One succeeds iff the index is the existing input and i == index (message of the BIP-341/Elements length); otherwise an Err that names a true reason, never a panic
one_harness!(taproot_one_single_acp_1in, 1, 1, 0x83, true, true);

//@ harness: hash_model_layout class=F tier=quick props=C13,C03
//@ clause: (checked assumption) the engine mirror used by the hash model has the layout of bitcoin_hashes' sha256::HashEngine
#[kani::proof]
fn hash_model_layout() {
    assert!(hm::layout_ok());
    kani::cover!(true);
}
