//@ property: C10
//@ mount: src/blech32/decode.rs
//@ functions: src/blech32/decode.rs::UncheckedHrpstring::new, src/blech32/decode.rs::CheckedHrpstring::new, src/blech32/decode.rs::SegwitHrpstring::new, src/blech32/decode.rs::SegwitHrpstring::new_bech32, src/blech32/decode.rs::check_characters
//
// Totality of the blech32 string parsers: for EVERY ASCII string of a given concrete length the call returns
// (Ok or Err) and none of Kani's default obligations (panic, unwrap on None/Err, index / slice out of bounds,
// arithmetic overflow, unreachable!()) is violated.  One harness instance per concrete length; the bytes
// are fully symbolic (restricted to ASCII, because the input type is &str and the harness builds it with
// core::str::from_utf8 on a fixed array — non-ASCII UTF-8 is rejected by check_characters/Hrp::parse and is
// covered by the crate's own unit tests, not here).
use super::*;

fn ascii<const N: usize>() -> [u8; N] {
    let a: [u8; N] = kani::any();
    let mut i = 0;
    while i < N {
        kani::assume(a[i] < 128);
        i += 1;
    }
    a
}

macro_rules! total {
    ($name:ident, $n:expr, $unw:literal, |$s:ident| $call:expr, |$r:ident, $a:ident| $covers:block) => {
        #[kani::proof]
        #[kani::unwind($unw)]
        fn $name() {
            const N: usize = $n;
            let $a: [u8; N] = ascii::<N>();
            let $s: &str = match core::str::from_utf8(&$a) {
                Ok(s) => s,
                Err(_) => { assert!(false, "ASCII is valid UTF-8"); return; }
            };
            let $r = $call;
            $covers;
            core::mem::forget($r);
        }
    };
}

// ---- UncheckedHrpstring::new ---------------------------------------------------------------------
macro_rules! unchecked_new {
    ($name:ident, $n:expr, $unw:literal) => {
        total!($name, $n, $unw, |s| UncheckedHrpstring::new(s), |r, a| {
            // independent acceptance oracle from BIP-173: there is a '1'; the part before the LAST '1' is 1..=83
            // printable (33..=126) characters; the part after it is all bech32-alphabet; no mixed case overall.
            let mut sep: Option<usize> = None;
            let mut i = 0;
            while i < N { if a[i] == b'1' { sep = Some(i); } i += 1; }
            let mut up = false; let mut lo = false; let mut hrp_ok = true; let mut data_ok = true;
            let mut i = 0;
            while i < N {
                let c = a[i];
                if c >= b'A' && c <= b'Z' { up = true; }
                if c >= b'a' && c <= b'z' { lo = true; }
                if let Some(p) = sep {
                    if i < p { if c < 33 || c > 126 { hrp_ok = false; } }
                    if i > p {
                        let l = if c >= b'A' && c <= b'Z' { c + 32 } else { c };
                        // BIP-173 alphabet = lower-case alphanumerics except '1', 'b', 'i', 'o'
                        let found = ((l >= b'a' && l <= b'z') || (l >= b'0' && l <= b'9')) && l != b'1' && l != b'b' && l != b'i' && l != b'o';
                        if !found { data_ok = false; }
                    }
                }
                i += 1;
            }
            let want = match sep { None => false, Some(p) => p >= 1 && hrp_ok && data_ok && !(up && lo) };
            assert!(r.is_ok() == want);
            if let (Ok(u), Some(p)) = (&r, sep) {
                // the split is at the LAST '1': hrp = s[..p], data = s[p+1..] (checksum still attached)
                assert!(u.hrp.len() == p);
                assert!(u.data.len() == N - p - 1 && u.data.as_ptr() == a[p + 1..].as_ptr());
            }
            kani::cover!(N < 2 || r.is_ok());
            kani::cover!(r.is_err());
        });
    };
}
//@ harness: unchecked_new_l0 class=F tier=quick props=C10
//@ clause: UncheckedHrpstring::new on the empty string: Err, no panic
unchecked_new!(unchecked_new_l0, 0, 3);
//@ harness: unchecked_new_l1 class=F tier=quick props=C10
//@ clause: UncheckedHrpstring::new on every 1-char ASCII string: no panic; Ok iff BIP-173 shape (hrp 1..83 printable, last '1' separates, data in alphabet, single case)
unchecked_new!(unchecked_new_l1, 1, 4);
//@ harness: unchecked_new_l2 class=F tier=quick props=C10
//@ clause: same, every 2-char ASCII string
unchecked_new!(unchecked_new_l2, 2, 5);
//@ harness: unchecked_new_l3 class=F tier=quick props=C10,C17,C06
//@ clause: same, every 3-char ASCII string
unchecked_new!(unchecked_new_l3, 3, 6);
//@ harness: unchecked_new_l4 class=F tier=quick props=C10,C17,C06
//@ clause: same, every 4-char ASCII string
unchecked_new!(unchecked_new_l4, 4, 7);
//@ harness: unchecked_new_l5 class=F tier=quick props=C10,C17,C06
//@ clause: same, every 5-char ASCII string
unchecked_new!(unchecked_new_l5, 5, 8);
//@ harness: unchecked_new_l6 class=F tier=thorough props=C10,C17,C06
//@ clause: same, every 6-char ASCII string
unchecked_new!(unchecked_new_l6, 6, 9);
//@ harness: unchecked_new_l9 class=F tier=thorough props=C10,C17,C06
//@ clause: same, every 9-char ASCII string
unchecked_new!(unchecked_new_l9, 9, 12);
//@ harness: unchecked_new_l12 class=F tier=thorough props=C10,C17,C06
//@ clause: same, every 12-char ASCII string
unchecked_new!(unchecked_new_l12, 12, 15);

// ---- CheckedHrpstring::new ------------------------------------------------------------------------
macro_rules! checked_new {
    ($name:ident, $ck:ty, $n:expr, $unw:literal) => {
        total!($name, $n, $unw, |s| CheckedHrpstring::new::<$ck>(s), |r, _a| {
            // fewer than 1 + 1 + 12 characters can never carry a 12-character checksum
            if N < 14 { assert!(r.is_err()); }
            kani::cover!(N < 2 || matches!(r, Err(CheckedHrpstringError::Checksum(ChecksumError::InvalidChecksumLength))));
            kani::cover!(matches!(r, Err(CheckedHrpstringError::Parse(_))));
        });
    };
}
//@ harness: checked_new_l0 class=F tier=quick props=C10
//@ clause: CheckedHrpstring::new::<Blech32> on the empty string: Err, no panic
checked_new!(checked_new_l0, Blech32, 0, 3);
//@ harness: checked_new_l1 class=F tier=quick props=C10
//@ clause: CheckedHrpstring::new::<Blech32> on every 1-char ASCII string: Err, no panic
checked_new!(checked_new_l1, Blech32, 1, 4);
//@ harness: checked_new_l2 class=F tier=quick props=C10
//@ clause: same, 2 chars
checked_new!(checked_new_l2, Blech32, 2, 5);
//@ harness: checked_new_l3 class=F tier=quick props=C10
//@ clause: same, 3 chars
checked_new!(checked_new_l3, Blech32, 3, 6);
//@ harness: checked_new_l4 class=F tier=quick props=C10
//@ clause: same, 4 chars
checked_new!(checked_new_l4, Blech32, 4, 7);
//@ harness: checked_new_l5 class=F tier=quick props=C10
//@ clause: same, 5 chars
checked_new!(checked_new_l5, Blech32m, 5, 8);
//@ harness: checked_new_l6 class=F tier=thorough props=C10
//@ clause: same, 6 chars
checked_new!(checked_new_l6, Blech32, 6, 9);

// ---- SegwitHrpstring::new -------------------------------------------------------------------------
macro_rules! segwit_new {
    ($name:ident, $n:expr, $unw:literal) => {
        total!($name, $n, $unw, |s| SegwitHrpstring::new(s), |r, _a| {
            if N < 15 { assert!(r.is_err()); } // hrp + '1' + version + 12 checksum chars at least
            kani::cover!(N < 2 || matches!(r, Err(SegwitHrpstringError::MissingWitnessVersion)));
            kani::cover!(N < 3 || matches!(r, Err(SegwitHrpstringError::InvalidWitnessVersion(_))));
            kani::cover!(N < 3 || matches!(r, Err(SegwitHrpstringError::Checksum(_))));
            kani::cover!(matches!(r, Err(SegwitHrpstringError::Unchecked(_))));
        });
    };
}
//@ harness: segwit_new_l0 class=F tier=quick props=C10
//@ clause: SegwitHrpstring::new on the empty string: Err, no panic
segwit_new!(segwit_new_l0, 0, 3);
//@ harness: segwit_new_l1 class=F tier=quick props=C10
//@ clause: SegwitHrpstring::new on every 1-char ASCII string: Err, no panic
segwit_new!(segwit_new_l1, 1, 4);
//@ harness: segwit_new_l2 class=F tier=quick props=C10
//@ clause: same, 2 chars (reaches the empty-data case "x1")
segwit_new!(segwit_new_l2, 2, 5);
//@ harness: segwit_new_l3 class=F tier=quick props=C10
//@ clause: same, 3 chars
segwit_new!(segwit_new_l3, 3, 6);
//@ harness: segwit_new_l4 class=F tier=quick props=C10
//@ clause: same, 4 chars
segwit_new!(segwit_new_l4, 4, 7);
//@ harness: segwit_new_l5 class=F tier=quick props=C10
//@ clause: same, 5 chars
segwit_new!(segwit_new_l5, 5, 8);
//@ harness: segwit_new_l6 class=F tier=thorough props=C10
//@ clause: same, 6 chars
segwit_new!(segwit_new_l6, 6, 9);

// ---- SegwitHrpstring::new_bech32 ------------------------------------------------------------------
// (a) with the data part non-empty (string does not end in the separator): total.
macro_rules! segwit_new_bech32_nonempty {
    ($name:ident, $n:expr, $unw:literal) => {
        #[kani::proof]
        #[kani::unwind($unw)]
        fn $name() {
            const N: usize = $n;
            let a: [u8; N] = ascii::<N>();
            kani::assume(a[N - 1] != b'1'); // data part (after the last '1') is non-empty
            let s: &str = match core::str::from_utf8(&a) { Ok(s) => s, Err(_) => { assert!(false); return; } };
            let r = SegwitHrpstring::new_bech32(s);
            assert!(r.is_err()); // N < 15
            kani::cover!(N < 3 || matches!(r, Err(SegwitHrpstringError::InvalidWitnessVersion(_))));
            kani::cover!(N < 3 || matches!(r, Err(SegwitHrpstringError::Checksum(_))));
            kani::cover!(matches!(r, Err(SegwitHrpstringError::Unchecked(_))));
            core::mem::forget(r);
        }
    };
}
//@ harness: segwit_new_bech32_nonempty_l1 class=F tier=quick props=C10
//@ clause: SegwitHrpstring::new_bech32 on every 1-char ASCII string not ending in '1': Err, no panic
segwit_new_bech32_nonempty!(segwit_new_bech32_nonempty_l1, 1, 4);
//@ harness: segwit_new_bech32_nonempty_l3 class=F tier=quick props=C10
//@ clause: same, 3 chars
segwit_new_bech32_nonempty!(segwit_new_bech32_nonempty_l3, 3, 6);
//@ harness: segwit_new_bech32_nonempty_l5 class=F tier=quick props=C10
//@ clause: same, 5 chars
segwit_new_bech32_nonempty!(segwit_new_bech32_nonempty_l5, 5, 8);
//@ harness: segwit_new_bech32_nonempty_l6 class=F tier=thorough props=C10
//@ clause: same, 6 chars
segwit_new_bech32_nonempty!(segwit_new_bech32_nonempty_l6, 6, 9);

// (b) all strings, including "<hrp>1" with an empty data part.  D5: EXPECTED TO FAIL on the pinned tree
// (`unchecked.data[0]` without the emptiness check that `new` has).
macro_rules! segwit_new_bech32 {
    ($name:ident, $n:expr, $unw:literal) => {
        total!($name, $n, $unw, |s| SegwitHrpstring::new_bech32(s), |r, _a| {
            assert!(r.is_err());
            kani::cover!(N < 2 || matches!(r, Err(SegwitHrpstringError::MissingWitnessVersion)));
            kani::cover!(matches!(r, Err(SegwitHrpstringError::Unchecked(_))));
        });
    };
}
//@ harness: segwit_new_bech32_l2 class=F tier=quick props=C10
//@ clause: (D5, expected to FAIL on the pinned tree) SegwitHrpstring::new_bech32 on every 2-char ASCII string, "x1" included: Err(MissingWitnessVersion) reachable, no panic
segwit_new_bech32!(segwit_new_bech32_l2, 2, 5);
//@ harness: segwit_new_bech32_l3 class=F tier=quick props=C10
//@ clause: (D5, expected to FAIL on the pinned tree) same, 3 chars ("el1")
segwit_new_bech32!(segwit_new_bech32_l3, 3, 6);
//@ harness: segwit_new_bech32_l6 class=F tier=thorough props=C10
//@ clause: (D5, expected to FAIL on the pinned tree) same, 6 chars
segwit_new_bech32!(segwit_new_bech32_l6, 6, 9);
