//@ property: C02
//@ mount: src/block.rs
//@ functions: src/block.rs::BlockHeader::clear_witness, src/block.rs::BlockHeader::consensus_encode
// No hashing is executed here: these are the frame conditions of clear_witness and the byte-level relation between
// the header serialization and the data clear_witness removes.  (What block_hash feeds to SHA-256 is a separate obligation.)
use super::*;
use crate::dynafed::{ElidedRoot, FullParams, Params};

#[path = "support/sinks.rs"]
mod sinks;
use sinks::{forget, ArraySink};

fn vec_of<const L: usize>() -> Vec<u8> {
    let a: [u8; L] = kani::any();
    a.to_vec()
}

/// dynafed parameters of symbolic kind (null / compact / full) with small concrete lengths and symbolic content
fn any_params() -> Params {
    let k: u8 = kani::any();
    match k {
        0 => Params::Null,
        1 => Params::Compact {
            signblockscript: Script::from(vec_of::<2>()),
            signblock_witness_limit: kani::any(),
            elided_root: ElidedRoot::from_byte_array(kani::any()),
        },
        _ => {
            let mut ext = Vec::with_capacity(1);
            ext.push(vec_of::<2>());
            Params::Full(FullParams::new(
                Script::from(vec_of::<1>()),
                kani::any(),
                bitcoin::ScriptBuf::from_bytes(vec_of::<2>()),
                vec_of::<1>(),
                ext,
            ))
        }
    }
}

fn any_header(dynafed: bool) -> BlockHeader {
    let ext = if dynafed {
        let mut w: Vec<Vec<u8>> = Vec::with_capacity(2);
        if kani::any() { w.push(vec_of::<2>()); }
        if kani::any() { w.push(vec_of::<0>()); }
        ExtData::Dynafed { current: any_params(), proposed: any_params(), signblock_witness: w }
    } else {
        let sol = if kani::any() { Script::from(vec_of::<2>()) } else { Script::new() };
        ExtData::Proof { challenge: Script::from(vec_of::<2>()), solution: sol }
    };
    BlockHeader {
        version: kani::any(),
        prev_blockhash: BlockHash::from_byte_array(kani::any()),
        merkle_root: TxMerkleNode::from_byte_array(kani::any()),
        time: kani::any(),
        height: kani::any(),
        ext,
    }
}

fn enc<const N: usize>(h: &BlockHeader) -> (usize, ArraySink<N>) {
    let mut s = ArraySink::<N>::new();
    match h.consensus_encode(&mut s) {
        Ok(n) => (n, s),
        Err(e) => { forget(e); assert!(false); (0, s) }
    }
}

//@ harness: clear_witness_frame_proof class=B tier=quick bound="legacy-proof header, challenge 2 bytes, solution 0 or 2 bytes"
//@ clause: clear_witness on a legacy header empties the solution and changes nothing else (version, prev hash, merkle root, time, height, challenge); it is idempotent; the serialization afterwards is the serialization before with the solution replaced by the empty script
#[kani::proof]
fn clear_witness_frame_proof() {
    let mut h = any_header(false);
    let before = h.clone();
    h.clear_witness();
    assert!(h.version == before.version && h.prev_blockhash == before.prev_blockhash && h.merkle_root == before.merkle_root);
    assert!(h.time == before.time && h.height == before.height);
    match (&h.ext, &before.ext) {
        (ExtData::Proof { challenge: c1, solution: s1 }, ExtData::Proof { challenge: c0, solution: s0 }) => {
            assert!(c1 == c0);
            assert!(s1.len() == 0);
            kani::cover!(s0.len() == 2);
            kani::cover!(s0.len() == 0);
            // serialization: 76 fixed bytes (version, prev hash, merkle root, time, height) + challenge + one 0 byte; equal to the old one up to the solution
            let (n1, e1) = enc::<90>(&h);
            let (n0, e0) = enc::<90>(&before);
            assert!(n1 == 76 + 3 + 1 && n0 == n1 + s0.len());
            let mut i = 0;
            while i < 79 { assert!(e1.buf[i] == e0.buf[i]); i += 1; }
            assert!(e1.buf[79] == 0 && e0.buf[79] == s0.len() as u8);
        }
        _ => assert!(false),
    }
    let once = h.clone();
    h.clear_witness();
    assert!(h == once);
    forget(h); forget(before); forget(once);
}

//@ harness: clear_witness_frame_dynafed class=B tier=thorough bound="dynafed header; current/proposed each null, compact (2-byte script) or full (scripts 1-2 bytes, one 2-byte extension entry); signblock witness 0..2 items" timeout=900
//@ clause: clear_witness on a dynafed header empties the signblock witness and changes nothing else — in particular current and proposed parameters are untouched (a clear_witness that also wiped `proposed` fails here); idempotent; serialization afterwards == serialization before with the witness vector replaced by the empty vector
#[kani::proof]
fn clear_witness_frame_dynafed() {
    let mut h = any_header(true);
    let before = h.clone();
    h.clear_witness();
    assert!(h.version == before.version && h.prev_blockhash == before.prev_blockhash && h.merkle_root == before.merkle_root);
    assert!(h.time == before.time && h.height == before.height);
    assert!(h.is_dynafed());
    match (&h.ext, &before.ext) {
        (ExtData::Dynafed { current: c1, proposed: p1, signblock_witness: w1 },
         ExtData::Dynafed { current: c0, proposed: p0, signblock_witness: w0 }) => {
            assert!(c1 == c0);
            assert!(p1 == p0);
            assert!(w1.is_empty());
            kani::cover!(w0.len() == 2 && !p0.is_null());
            kani::cover!(w0.is_empty());
            kani::cover!(c0.is_full() && p0.is_compact());
            let (n1, e1) = enc::<200>(&h);
            let (n0, e0) = enc::<200>(&before);
            // witness vector: count byte + per item (len byte + bytes); items here are 2 and 0 bytes long
            let mut wlen = 1;
            let mut j = 0;
            while j < w0.len() { wlen += 1 + w0[j].len(); j += 1; }
            assert!(n0 == n1 - 1 + wlen);
            let mut i = 0;
            while i < 200 { if i + 1 < n1 { assert!(e1.buf[i] == e0.buf[i]); } i += 1; }
            assert!(e1.buf[n1 - 1] == 0 && e0.buf[n1 - 1] == w0.len() as u8);
            // dynafed marker bit is set in the serialized version
            assert!(e1.buf[3] & 0x80 != 0);
        }
        _ => assert!(false),
    }
    let once = h.clone();
    h.clear_witness();
    assert!(h == once);
    forget(h); forget(before); forget(once);
}
