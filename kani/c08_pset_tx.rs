//@ property: C08
//@ mount: src/pset/mod.rs
//@ functions: src/pset/mod.rs::PartiallySignedTransaction::from_tx, src/pset/mod.rs::PartiallySignedTransaction::extract_tx, src/pset/mod.rs::PartiallySignedTransaction::unique_id, src/pset/map/input.rs::Input::from_txin, src/pset/map/output.rs::Output::from_txout
// C08, transaction <-> PSET views and the unique id.
//
// Round trip: `extract_tx(from_tx(tx)) == tx` on 1-input/1-output transactions.  Every scalar is symbolic (txid bytes,
// vout, is_pegin, sequence, version, lock time, issuance amounts/nonce/entropy, output value and asset); every vector has
// a concrete length (script_sig 2 bytes, one 1-byte witness element, script_pubkey 2 bytes) with symbolic content.
// Well-formedness, from the property's quantifier and from what `Decodable for TxIn` can produce:
//   * vout < 2^30 (bits 30/31 are the pegin/issuance flags of the wire format) — the all-ones coinbase index is in its own harness;
//   * a null issuance carries the zero nonce and zero entropy and no issuance range proofs;
//   * pegin witness only on pegin inputs;
//   * outputs non-null (explicit value and asset; commitments would need libsecp).
// `#[kani::unwind(4)]` (c08_from_tx_shape only): the drop glue of `[Vec<u8>]` (witness stacks moved through `into_iter().map().collect()`) is
// unwound forever by CBMC without a bound (measured, 600+ iterations); 34 covers the 32-byte array comparisons.
// The output nonce is Null in the main harness; the unblinded-output-with-nonce shape is isolated (known finding).
//
// Unique id: SHA-256 cannot be executed, so `Transaction::txid` is replaced by a *recorder* that snapshots every
// non-witness field of the transaction it is called on (exactly what the real txid serializes) and returns a constant.
// The real `unique_id()` runs on two PSETs that differ only in fields the statement lists as irrelevant; the two
// recorded snapshots must be equal.  Assumed: txid is a function of (version, inputs' non-witness parts, outputs'
// non-witness parts, lock time) — C02's obligation.
// NOT RUN (`//@ unregistered-harness:`), measured in a 60-minute thorough run: the four unique-id recorder harnesses did not finish
// in 50 minutes each; c08_roundtrip_1in_1out / _scripts / _pegin_witness stop at an unwinding assertion (Tweak::from_inner scans
// 32 bytes under the harness-wide unwind(3) that the B-tree drop glue needs) after 8-15 minutes. The unique-id clause is
// therefore decided only through c08_issuance_view_commitment_wins / c08_from_txin_views (which fields extract_tx reads) and the
// C02 contract of txid; the round trip through the two remaining shape harnesses.
use super::*;
use crate::{AssetId, AssetIssuance, Script};
use crate::Transaction as TxT;
use secp256k1_zkp::{Tweak, ZERO_TWEAK};

#[path = "support/c07_ffi.rs"]
mod ffi_models;
use ffi_models::*;

fn fgt<T>(t: T) { core::mem::forget(t) }

#[derive(Clone, Copy)]
struct Scalars {
    version: u32,
    lock_time: u32,
    txid: [u8; 32],
    vout: u32,
    is_pegin: bool,
    sequence: u32,
    script_sig: [u8; 2],
    wit: u8,
    pegin_wit: u8,
    iss_amount: Option<u64>,
    iss_keys: Option<u64>,
    iss_nonce: [u8; 32],
    iss_entropy: [u8; 32],
    out_value: u64,
    out_asset: [u8; 32],
    out_spk: [u8; 2],
}

fn any_scalars() -> Scalars {
    Scalars {
        version: kani::any(), lock_time: kani::any(), txid: kani::any(), vout: kani::any(), is_pegin: kani::any(),
        sequence: kani::any(), script_sig: kani::any(), wit: kani::any(), pegin_wit: kani::any(),
        iss_amount: kani::any(), iss_keys: kani::any(), iss_nonce: kani::any(), iss_entropy: kani::any(),
        out_value: kani::any(), out_asset: kani::any(), out_spk: kani::any(),
    }
}

fn tweak_of(b: [u8; 32]) -> Tweak {
    match Tweak::from_inner(b) {
        Ok(t) => t,
        Err(e) => { fgt(e); kani::assume(false); unreachable!() }
    }
}

/// PEGIN_WIT: the input carries a one-element pegin witness (then it is a pegin input)
/// HEAP: script_sig / script_pubkey of 2 symbolic bytes and a one-element script witness; otherwise all three are empty
fn build_tx<const PEGIN_WIT: bool, const HEAP: bool>(s: &Scalars, nonce: confidential::Nonce) -> Transaction {
    Transaction {
        version: s.version,
        lock_time: LockTime::from_consensus(s.lock_time),
        input: vec![build_txin::<PEGIN_WIT, HEAP>(s)],
        output: vec![build_txout::<HEAP>(s, nonce)],
    }
}
fn build_txin<const PEGIN_WIT: bool, const HEAP: bool>(s: &Scalars) -> TxIn {
    let has_iss = s.iss_amount.is_some() || s.iss_keys.is_some();
    let issuance = AssetIssuance {
        asset_blinding_nonce: if has_iss { tweak_of(s.iss_nonce) } else { ZERO_TWEAK },
        asset_entropy: if has_iss { s.iss_entropy } else { [0u8; 32] },
        amount: match s.iss_amount { Some(x) => confidential::Value::Explicit(x), None => confidential::Value::Null },
        inflation_keys: match s.iss_keys { Some(x) => confidential::Value::Explicit(x), None => confidential::Value::Null },
    };
    TxIn {
        previous_output: OutPoint::new(Txid::from_byte_array(s.txid), s.vout),
        is_pegin: if PEGIN_WIT { true } else { s.is_pegin },
        script_sig: if HEAP { Script::from(vec![s.script_sig[0], s.script_sig[1]]) } else { Script::new() },
        sequence: Sequence(s.sequence),
        asset_issuance: issuance,
        witness: TxInWitness {
            amount_rangeproof: None,
            inflation_keys_rangeproof: None,
            script_witness: if HEAP { vec![vec![s.wit]] } else { vec![] },
            pegin_witness: if PEGIN_WIT { vec![vec![s.pegin_wit]] } else { vec![] },
        },
    }
}
fn build_txout<const HEAP: bool>(s: &Scalars, nonce: confidential::Nonce) -> TxOut {
    TxOut {
        asset: confidential::Asset::Explicit(AssetId::from_byte_array(s.out_asset)),
        value: confidential::Value::Explicit(s.out_value),
        nonce,
        script_pubkey: if HEAP { Script::from(vec![s.out_spk[0], s.out_spk[1]]) } else { Script::new() },
        witness: TxOutWitness::default(),
    }
}
use crate::hashes::Hash as _;


// ---- loop-free comparisons (see the unwind note above) ----
fn eq32(a: &[u8; 32], b: &[u8; 32]) -> bool {
    macro_rules! w { ($x:ident, $i:expr) => { u64::from_le_bytes([$x[$i], $x[$i+1], $x[$i+2], $x[$i+3], $x[$i+4], $x[$i+5], $x[$i+6], $x[$i+7]]) }; }
    w!(a, 0) == w!(b, 0) && w!(a, 8) == w!(b, 8) && w!(a, 16) == w!(b, 16) && w!(a, 24) == w!(b, 24)
}
/// byte strings of length <= 2
fn eq_bytes2(a: &[u8], b: &[u8]) -> bool {
    a.len() == b.len() && a.len() <= 2 && (a.len() < 1 || a[0] == b[0]) && (a.len() < 2 || a[1] == b[1])
}
/// witness stacks of <= 1 element of <= 2 bytes
fn eq_stack1(a: &Vec<Vec<u8>>, b: &Vec<Vec<u8>>) -> bool {
    a.len() == b.len() && a.len() <= 1 && (a.len() < 1 || eq_bytes2(&a[0], &b[0]))
}
fn eq_value(a: &confidential::Value, b: &confidential::Value) -> bool {
    match (a, b) {
        (confidential::Value::Null, confidential::Value::Null) => true,
        (confidential::Value::Explicit(x), confidential::Value::Explicit(y)) => x == y,
        _ => false, // commitments do not occur in these harnesses
    }
}
fn eq_asset(a: &confidential::Asset, b: &confidential::Asset) -> bool {
    match (a, b) {
        (confidential::Asset::Null, confidential::Asset::Null) => true,
        (confidential::Asset::Explicit(x), confidential::Asset::Explicit(y)) => eq32(&x.to_byte_array(), &y.to_byte_array()),
        _ => false,
    }
}
fn eq_nonce(a: &confidential::Nonce, b: &confidential::Nonce) -> bool {
    match (a, b) {
        (confidential::Nonce::Null, confidential::Nonce::Null) => true,
        (confidential::Nonce::Explicit(x), confidential::Nonce::Explicit(y)) => eq32(x, y),
        (confidential::Nonce::Confidential(x), confidential::Nonce::Confidential(y)) => x == y, // through the loop-free ec_pubkey_cmp model
        _ => false,
    }
}

fn check_roundtrip<const PEGIN_WIT: bool, const HEAP: bool>(s: &Scalars, nonce: confidential::Nonce) {
    // Decomposition (measured: a TxIn that has been stored in a `Vec<TxIn>` — as inside from_tx's
    // `into_iter().map().collect()` — loses the constant lengths of its witness vectors for CBMC and the rest of the
    // harness explodes to > 30 GB): the real `from_tx` builds the global map from the transaction emptied of
    // inputs/outputs, the real `Input::from_txin` / `Output::from_txout` (the functions from_tx maps over the vectors)
    // convert the input and the output, and the real `add_input` / `add_output` attach them.  `c08_from_tx_shape` checks
    // on the real from_tx with a 1-in/1-out transaction that this composition is what it does.
    let txin = build_txin::<PEGIN_WIT, HEAP>(s);
    let txout = build_txout::<HEAP>(s, nonce);
    let wi = build_txin::<PEGIN_WIT, HEAP>(s);
    let wo = build_txout::<HEAP>(s, nonce);
    let tx = Transaction { version: s.version, lock_time: LockTime::from_consensus(s.lock_time), input: vec![], output: vec![] };
    let mut pset = PartiallySignedTransaction::from_tx(tx);
    pset.add_input(Input::from_txin(txin));
    pset.add_output(Output::from_txout(txout));
    // flag folding (property: "flag bits are carried in the output index")
    let idx = pset.inputs[0].previous_output_index;
    let has_iss = s.iss_amount.is_some() || s.iss_keys.is_some();
    let pegin = PEGIN_WIT || s.is_pegin;
    if s.vout != 0xffff_ffff {
        assert!(idx & 0x3fff_ffff == s.vout & 0x3fff_ffff);
        assert!((idx & (1 << 30) != 0) == (pegin || s.vout & (1 << 30) != 0));
        assert!((idx & (1 << 31) != 0) == (has_iss || s.vout & (1 << 31) != 0));
    }
    assert!(pset.global.tx_data.input_count == 1 && pset.global.tx_data.output_count == 1);
    let r = pset.extract_tx();
    fgt(pset);
    match r {
        Ok(got) => {
            // complete field-by-field comparison of Transaction / TxIn / TxOut (every field of the three structs)
            assert!(got.version == s.version, "version");
            assert!(got.lock_time.to_consensus_u32() == s.lock_time, "lock time");
            assert!(got.input.len() == 1 && got.output.len() == 1, "counts");
            let gi = &got.input[0];
            assert!(eq32(&gi.previous_output.txid.to_byte_array(), &wi.previous_output.txid.to_byte_array()), "outpoint txid");
            assert!(gi.previous_output.vout == wi.previous_output.vout, "outpoint index (flags stripped again)");
            assert!(gi.is_pegin == wi.is_pegin, "is_pegin");
            assert!(gi.sequence.0 == wi.sequence.0, "sequence");
            assert!(eq_bytes2(gi.script_sig.as_bytes(), wi.script_sig.as_bytes()), "script_sig");
            assert!(eq32(gi.asset_issuance.asset_blinding_nonce.as_ref(), wi.asset_issuance.asset_blinding_nonce.as_ref()), "issuance nonce");
            assert!(eq32(&gi.asset_issuance.asset_entropy, &wi.asset_issuance.asset_entropy), "issuance entropy");
            assert!(eq_value(&gi.asset_issuance.amount, &wi.asset_issuance.amount), "issuance amount");
            assert!(eq_value(&gi.asset_issuance.inflation_keys, &wi.asset_issuance.inflation_keys), "issuance inflation keys");
            assert!(gi.witness.amount_rangeproof.is_none() && gi.witness.inflation_keys_rangeproof.is_none(), "no issuance proofs");
            assert!(eq_stack1(&gi.witness.script_witness, &wi.witness.script_witness), "script witness");
            assert!(eq_stack1(&gi.witness.pegin_witness, &wi.witness.pegin_witness), "pegin witness");
            let go = &got.output[0];
            assert!(eq_asset(&go.asset, &wo.asset), "output asset");
            assert!(eq_value(&go.value, &wo.value), "output value");
            assert!(eq_nonce(&go.nonce, &wo.nonce), "output nonce");
            assert!(eq_bytes2(go.script_pubkey.as_bytes(), wo.script_pubkey.as_bytes()), "script_pubkey");
            assert!(go.witness.surjection_proof.is_none() && go.witness.rangeproof.is_none(), "no output proofs");
            fgt(got);
        }
        Err(e) => { fgt(e); assert!(false, "extract_tx of a PSET built from a transaction must succeed"); }
    }
    fgt(wi); fgt(wo);
}

//@ harness: c08_from_tx_shape class=B tier=quick bound="1 input, 1 output, empty scripts and witnesses, vout < 2^30, symbolic is_pegin, no issuance" timeout=600
//@ clause: from_tx: global version / fallback lock time / counts come from the transaction; inputs[i] is Input::from_txin(tx.input[i]) (outpoint with folded flags, sequence, final script sig/witness), outputs[i] is Output::from_txout(tx.output[i]) (explicit amount and asset)
#[kani::proof]
#[kani::unwind(4)]
fn c08_from_tx_shape() {
    let mut s = any_scalars();
    kani::assume(s.vout < (1 << 30));
    s.iss_amount = None;
    s.iss_keys = None;
    let tx = build_tx::<false, false>(&s, confidential::Nonce::Null);
    let pset = PartiallySignedTransaction::from_tx(tx);
    kani::cover!(s.is_pegin);
    assert!(pset.global.tx_data.version == s.version);
    assert!(pset.global.tx_data.fallback_locktime.map(|l| l.to_consensus_u32()) == Some(s.lock_time));
    assert!(pset.global.tx_data.input_count == 1 && pset.global.tx_data.output_count == 1);
    assert!(pset.global.tx_data.tx_modifiable.is_none() && pset.global.version == 2);
    assert!(pset.inputs.len() == 1 && pset.outputs.len() == 1);
    let i = &pset.inputs[0];
    assert!(eq32(&i.previous_txid.to_byte_array(), &s.txid));
    assert!(i.previous_output_index == s.vout | if s.is_pegin { 1 << 30 } else { 0 });
    assert!(i.sequence.map(|q| q.0) == Some(s.sequence));
    assert!(match &i.final_script_sig { Some(x) => x.is_empty(), None => false });
    assert!(match &i.final_script_witness { Some(x) => x.is_empty(), None => false });
    assert!(i.issuance_value_amount.is_none() && i.issuance_inflation_keys.is_none() && i.issuance_blinding_nonce.is_none());
    let o = &pset.outputs[0];
    assert!(o.amount == Some(s.out_value) && o.amount_comm.is_none() && o.asset_comm.is_none());
    assert!(match o.asset { Some(a) => eq32(&a.to_byte_array(), &s.out_asset), None => false });
    assert!(o.blinding_key.is_none() && o.ecdh_pubkey.is_none() && o.script_pubkey.is_empty());
    fgt(pset);
}

//@ harness: c08_from_txin_views class=B tier=quick bound="one input, empty script_sig and witness stacks; every vout, is_pegin, sequence; issuance amount and inflation keys each Null or Explicit (symbolic), symbolic blinding nonce and entropy when an issuance is present" timeout=900
//@ clause: the PSET input built from a transaction input shows the same view of it: is_pegin(), has_issuance(), asset_issuance() (amount, inflation keys, blinding nonce, entropy) agree with the TxIn, the outpoint index carries exactly the folded flag bits, and the flag-stripped index is the original one (the coinbase index 0xffff_ffff carries no flags)
#[kani::proof]
#[kani::unwind(34)] // Tweak::from_inner scans its 32 bytes with iter().all()
#[kani::stub(zffi::secp256k1_ec_seckey_verify, model_ec_seckey_verify)]
fn c08_from_txin_views() {
    let s = any_scalars();
    let t = build_txin::<false, false>(&s);
    let has_iss = s.iss_amount.is_some() || s.iss_keys.is_some();
    // the wire format cannot express flags on the coinbase index, nor an index that already has bit 30/31 set
    kani::assume(s.vout == 0xffff_ffff || s.vout < (1 << 30));
    kani::assume(s.vout != 0xffff_ffff || (!s.is_pegin && !has_iss));
    // 0x3fff_ffff with both flags folds to 0xffff_ffff, which the wire format itself cannot tell from the flag-less coinbase index
    kani::assume(!(s.vout == 0x3fff_ffff && s.is_pegin && has_iss));
    let want_iss = AssetIssuance {
        asset_blinding_nonce: t.asset_issuance.asset_blinding_nonce,
        asset_entropy: t.asset_issuance.asset_entropy,
        amount: t.asset_issuance.amount,
        inflation_keys: t.asset_issuance.inflation_keys,
    };
    let i = Input::from_txin(t);
    kani::cover!(s.iss_amount.is_none() && s.iss_keys.is_some());
    kani::cover!(s.iss_amount.is_some() && s.iss_keys.is_none());
    kani::cover!(s.is_pegin && has_iss);
    kani::cover!(s.vout == 0xffff_ffff);
    assert!(i.is_pegin() == s.is_pegin, "pegin flag view");
    assert!(i.has_issuance() == has_iss, "issuance flag view");
    let got = i.asset_issuance();
    assert!(got.amount == want_iss.amount, "issuance amount view");
    assert!(got.inflation_keys == want_iss.inflation_keys, "inflation keys view");
    assert!(eq32(&got.asset_entropy, &want_iss.asset_entropy), "entropy view");
    assert!(eq32(got.asset_blinding_nonce.as_ref(), want_iss.asset_blinding_nonce.as_ref()), "blinding nonce view");
    let flags = (if s.is_pegin { 1u32 << 30 } else { 0 }) | (if has_iss { 1u32 << 31 } else { 0 });
    assert!(i.previous_output_index == s.vout | flags, "folded flags");
    assert!(i.sequence.map(|q| q.0) == Some(s.sequence));
    fgt(i);
}

//@ harness: c08_issuance_view_commitment_wins class=F tier=quick timeout=900
//@ clause: the issuance a PSET input shows (and extract_tx / unique_id therefore use) is a function of its fields in which a commitment takes precedence over the explicit amount: adding the explicit issuance amount or inflation keys next to their commitments (what the explicit-value proof fields accompany) changes nothing; without a commitment the explicit value is shown; with neither, Null
#[kani::proof]
#[kani::stub(zffi::secp256k1_pedersen_commitment_parse, model_pedersen_commitment_parse)]
#[kani::stub(zffi::secp256k1_pedersen_commitment_serialize, model_pedersen_commitment_serialize)]
fn c08_issuance_view_commitment_wins() {
    let mut i = Input::default();
    let amt: Option<u64> = kani::any();
    let keys: Option<u64> = kani::any();
    let has_ac: bool = kani::any();
    let has_kc: bool = kani::any();
    let ac = any_pedersen();
    let kc = any_pedersen();
    i.issuance_value_amount = amt;
    i.issuance_inflation_keys = keys;
    i.issuance_value_comm = if has_ac { Some(ac) } else { None };
    i.issuance_inflation_keys_comm = if has_kc { Some(kc) } else { None };
    let got = i.asset_issuance();
    kani::cover!(has_ac && amt.is_some());
    kani::cover!(!has_kc && keys.is_some());
    match got.amount {
        confidential::Value::Confidential(c) => assert!(has_ac && c == ac, "commitment shown iff present"),
        confidential::Value::Explicit(x) => assert!(!has_ac && amt == Some(x), "explicit amount shown only without a commitment"),
        confidential::Value::Null => assert!(!has_ac && amt.is_none()),
    }
    match got.inflation_keys {
        confidential::Value::Confidential(c) => assert!(has_kc && c == kc, "commitment shown iff present"),
        confidential::Value::Explicit(x) => assert!(!has_kc && keys == Some(x), "explicit keys shown only without a commitment"),
        confidential::Value::Null => assert!(!has_kc && keys.is_none()),
    }
    fgt(i);
}

//@ unregistered-harness: c08_roundtrip_1in_1out class=B tier=thorough bound="1 input, 1 output; vout < 2^30; empty script_sig / script witness / script_pubkey (non-empty ones: c08_roundtrip_1in_1out_scripts), no pegin witness; issuance none/explicit amount/explicit keys (symbolic), null issuance has zero nonce+entropy; output explicit value+asset, Null nonce, 2-byte script; no range/surjection proofs" timeout=3000
//@ clause: converting a well-formed transaction to a PSET and extracting it again returns the identical transaction; pegin/issuance flags are folded into previous_output_index and stripped again (outputs restricted to Null nonce — the nonce of an unblinded output is a known finding, isolated below)
#[kani::proof]
#[kani::unwind(3)]
#[kani::stub(zffi::secp256k1_ec_seckey_verify, model_ec_seckey_verify)]
fn c08_roundtrip_1in_1out() {
    let s = any_scalars();
    kani::assume(s.vout < (1 << 30));
    kani::cover!(s.is_pegin && s.iss_amount.is_some());
    kani::cover!(!s.is_pegin && s.iss_amount.is_none() && s.iss_keys.is_none());
    kani::cover!(s.iss_keys.is_some() && s.iss_amount.is_none());
    check_roundtrip::<false, false>(&s, confidential::Nonce::Null);
}

//@ unregistered-harness: c08_roundtrip_1in_1out_scripts class=B tier=thorough bound="as c08_roundtrip_1in_1out plus script_sig and script_pubkey of 2 symbolic bytes and one 1-byte script witness element" timeout=900
//@ clause: same round trip with non-empty script_sig, script witness and script_pubkey
#[kani::proof]
#[kani::unwind(3)]
#[kani::stub(zffi::secp256k1_ec_seckey_verify, model_ec_seckey_verify)]
fn c08_roundtrip_1in_1out_scripts() {
    let s = any_scalars();
    kani::assume(s.vout < (1 << 30));
    kani::cover!(s.is_pegin && s.iss_amount.is_some());
    check_roundtrip::<false, true>(&s, confidential::Nonce::Null);
}

//@ unregistered-harness: c08_roundtrip_pegin_witness class=B tier=thorough bound="as c08_roundtrip_1in_1out, pegin input carrying a one-element (1 byte) pegin witness" timeout=900
//@ clause: same round trip for a pegin input with a pegin witness
#[kani::proof]
#[kani::unwind(3)]
#[kani::stub(zffi::secp256k1_ec_seckey_verify, model_ec_seckey_verify)]
fn c08_roundtrip_pegin_witness() {
    let s = any_scalars();
    kani::assume(s.vout < (1 << 30));
    kani::cover!(s.iss_amount.is_some());
    check_roundtrip::<true, false>(&s, confidential::Nonce::Null);
}

//@ harness: c08_roundtrip_coinbase_prevout class=B tier=thorough bound="as c08_roundtrip_1in_1out with vout == 0xffff_ffff, is_pegin false, no issuance (what Decodable for TxIn yields for the all-ones index)" timeout=3000
//@ clause: round trip for an input whose previous output index is 0xffff_ffff (flags are neither added nor stripped there): the extracted input is identical (is_pegin stays false)
#[kani::proof]
#[kani::unwind(3)]
fn c08_roundtrip_coinbase_prevout() {
    let mut s = any_scalars();
    s.vout = 0xffff_ffff;
    s.is_pegin = false;
    s.iss_amount = None;
    s.iss_keys = None;
    kani::cover!(true);
    check_roundtrip::<false, false>(&s, confidential::Nonce::Null);
}

//@ harness: c08_roundtrip_unblinded_output_with_nonce class=B tier=thorough bound="as c08_roundtrip_1in_1out (no issuance), output has explicit value+asset, empty witness and a Confidential nonce (symbolic key; libsecp key comparison through the assumed model)" timeout=3000
//@ clause: round trip for an unblinded output that carries a nonce (payment to a confidential address before blinding): the extracted output has the same nonce (defect D17, repaired by e2f5c11: from_txout stores the nonce as blinding_key, extract_tx only emitted ecdh_pubkey)
#[kani::proof]
#[kani::unwind(3)]
#[kani::stub(zffi::secp256k1_ec_pubkey_cmp, model_ec_pubkey_cmp)]
fn c08_roundtrip_unblinded_output_with_nonce() {
    let mut s = any_scalars();
    kani::assume(s.vout < (1 << 30));
    s.iss_amount = None;
    s.iss_keys = None;
    kani::cover!(true);
    check_roundtrip::<false, false>(&s, confidential::Nonce::Confidential(any_secp_pubkey()));
}

// ------------------------------------------------------------------ unique id
#[derive(Clone, Copy)]
struct Snap {
    seen: bool,
    version: u32,
    lock_time: u32,
    n_in: usize,
    n_out: usize,
    prev_txid: [u8; 32],
    prev_vout: u32,
    is_pegin: bool,
    script_sig_len: usize,
    script_sig_head: [u8; 2],
    sequence: u32,
    iss_null: bool,
    iss_amount: Option<u64>,
    iss_keys: Option<u64>,
    iss_nonce: [u8; 32],
    iss_entropy: [u8; 32],
    out_value: Option<u64>,
    out_asset: Option<[u8; 32]>,
    out_nonce_null: bool,
    out_spk_len: usize,
    out_spk_head: [u8; 2],
}
const EMPTY_SNAP: Snap = Snap {
    seen: false, version: 0, lock_time: 0, n_in: 0, n_out: 0, prev_txid: [0; 32], prev_vout: 0, is_pegin: false,
    script_sig_len: 0, script_sig_head: [0; 2], sequence: 0, iss_null: true, iss_amount: None, iss_keys: None,
    iss_nonce: [0; 32], iss_entropy: [0; 32], out_value: None, out_asset: None, out_nonce_null: true, out_spk_len: 0,
    out_spk_head: [0; 2],
};

fn snap_eq(a: &Snap, b: &Snap) -> bool {
    a.seen == b.seen && a.version == b.version && a.lock_time == b.lock_time && a.n_in == b.n_in && a.n_out == b.n_out
        && eq32(&a.prev_txid, &b.prev_txid) && a.prev_vout == b.prev_vout && a.is_pegin == b.is_pegin
        && a.script_sig_len == b.script_sig_len && a.script_sig_head == b.script_sig_head && a.sequence == b.sequence
        && a.iss_null == b.iss_null && a.iss_amount == b.iss_amount && a.iss_keys == b.iss_keys
        && eq32(&a.iss_nonce, &b.iss_nonce) && eq32(&a.iss_entropy, &b.iss_entropy)
        && a.out_value == b.out_value
        && match (&a.out_asset, &b.out_asset) { (Some(x), Some(y)) => eq32(x, y), (None, None) => true, _ => false }
        && a.out_nonce_null == b.out_nonce_null && a.out_spk_len == b.out_spk_len && a.out_spk_head == b.out_spk_head
}
static mut SNAPS: [Snap; 2] = [EMPTY_SNAP; 2];
static mut NSNAP: usize = 0;

fn head2(b: &[u8]) -> [u8; 2] {
    [if b.len() > 0 { b[0] } else { 0 }, if b.len() > 1 { b[1] } else { 0 }]
}
fn explicit_of(v: &confidential::Value) -> Option<u64> {
    match v { confidential::Value::Explicit(x) => Some(*x), _ => None }
}

/// Recorder standing in for `Transaction::txid` (1-in/1-out transactions, explicit amounts).
fn recording_txid(tx: &Transaction) -> Txid {
    let mut s = EMPTY_SNAP;
    s.seen = true;
    s.version = tx.version;
    s.lock_time = tx.lock_time.to_consensus_u32();
    s.n_in = tx.input.len();
    s.n_out = tx.output.len();
    if tx.input.len() == 1 {
        let i = &tx.input[0];
        s.prev_txid = i.previous_output.txid.to_byte_array();
        s.prev_vout = i.previous_output.vout;
        s.is_pegin = i.is_pegin;
        s.script_sig_len = i.script_sig.len();
        s.script_sig_head = head2(i.script_sig.as_bytes());
        s.sequence = i.sequence.0;
        s.iss_null = i.asset_issuance.is_null();
        s.iss_amount = explicit_of(&i.asset_issuance.amount);
        s.iss_keys = explicit_of(&i.asset_issuance.inflation_keys);
        s.iss_nonce = *i.asset_issuance.asset_blinding_nonce.as_ref();
        s.iss_entropy = i.asset_issuance.asset_entropy;
    }
    if tx.output.len() == 1 {
        let o = &tx.output[0];
        s.out_value = explicit_of(&o.value);
        s.out_asset = match o.asset { confidential::Asset::Explicit(a) => Some(a.to_byte_array()), _ => None };
        s.out_nonce_null = o.nonce.is_null();
        s.out_spk_len = o.script_pubkey.len();
        s.out_spk_head = head2(o.script_pubkey.as_bytes());
    }
    unsafe {
        if NSNAP < 2 { SNAPS[NSNAP] = s; }
        NSNAP += 1;
    }
    Txid::from_byte_array([0x11; 32])
}

fn base_pset(s: &Scalars) -> PartiallySignedTransaction {
    let mut pset = PartiallySignedTransaction::new_v2();
    pset.global.tx_data.version = s.version;
    pset.global.tx_data.fallback_locktime = Some(LockTime::from_consensus(s.lock_time));
    let mut inp = Input::default();
    inp.previous_txid = Txid::from_byte_array(s.txid);
    inp.previous_output_index = s.vout;
    inp.issuance_value_amount = s.iss_amount;
    inp.issuance_inflation_keys = s.iss_keys;
    inp.issuance_asset_entropy = if s.iss_amount.is_some() { Some(s.iss_entropy) } else { None };
    pset.add_input(inp);
    let mut out = Output::default();
    out.amount = Some(s.out_value);
    out.asset = Some(AssetId::from_byte_array(s.out_asset));
    out.script_pubkey = Script::from(vec![s.out_spk[0], s.out_spk[1]]);
    pset.add_output(out);
    pset
}

macro_rules! unique_id_indep {
    ($name:ident, |$p:ident, $s:ident| $mutate:block) => {
        #[kani::proof]
        #[kani::stub(TxT::txid, recording_txid)]
        fn $name() {
            let $s = any_scalars();
            let a = base_pset(&$s);
            let mut $p = base_pset(&$s);
            $mutate;
            let b = $p;
            let ra = a.unique_id();
            let rb = b.unique_id();
            fgt(a); fgt(b);
            let (n, s0, s1) = unsafe { (NSNAP, SNAPS[0], SNAPS[1]) };
            // Under `cargo kani playback` stubs are not applied: the recorder then saw nothing and the comparison is skipped.
            kani::cover!(n == 2, "recorder active: both unique_id calls reached txid");
            match (ra, rb) {
                (Ok(_), Ok(_)) => {
                    if n == 2 {
                        assert!(s0.seen && s1.seen);
                        assert!(s0.script_sig_len == s1.script_sig_len && s0.script_sig_head == s1.script_sig_head,
                            "unique id preimage: script_sig differs between the two PSETs");
                        assert!(s0.sequence == s1.sequence, "unique id preimage: sequence differs between the two PSETs");
                        assert!(snap_eq(&s0, &s1), "unique id preimage (non-witness transaction fields) differs between the two PSETs");
                    }
                }
                (Err(e), Ok(_)) | (Ok(_), Err(e)) => { fgt(e); assert!(false, "unique_id defined for one PSET only"); }
                (Err(e), Err(f)) => { fgt(e); fgt(f); assert!(false, "unique_id of a complete 1-in/1-out PSET must be defined"); }
            }
        }
    };
}

//@ unregistered-harness: c08_unique_id_ignores_final_script_sig class=B tier=thorough bound="1-in/1-out PSET, explicit output, optional explicit issuance; final_script_sig of 2 symbolic bytes added to one copy" timeout=3000
//@ clause: the unique id (the hashed unsigned transaction) is unchanged by adding a final script signature (D2 regression: before the fix the recorded script_sig differed)
unique_id_indep!(c08_unique_id_ignores_final_script_sig, |p, s| {
    p.inputs[0].final_script_sig = Some(Script::from(vec![s.script_sig[0], s.script_sig[1]]));
});

//@ unregistered-harness: c08_unique_id_ignores_sequence class=B tier=thorough bound="1-in/1-out PSET; symbolic sequence set on one copy" timeout=3000
//@ clause: the unique id is unchanged by adding or changing an input sequence
unique_id_indep!(c08_unique_id_ignores_sequence, |p, s| {
    p.inputs[0].sequence = Some(Sequence(s.sequence));
});

//@ unregistered-harness: c08_unique_id_ignores_signer_fields class=B tier=thorough bound="1-in/1-out PSET; one copy gets final_script_witness (1 element), redeem_script, witness_script (2 bytes each), sighash_type, tap_merkle_root, explicit input amount/asset (the explicit-value fields)" timeout=900
//@ clause: the unique id is unchanged by final script witnesses, scripts, sighash type, taproot data and explicit-value fields of an input
unique_id_indep!(c08_unique_id_ignores_signer_fields, |p, s| {
    p.inputs[0].final_script_witness = Some(vec![vec![s.wit]]);
    p.inputs[0].redeem_script = Some(Script::from(vec![s.script_sig[0], s.script_sig[1]]));
    p.inputs[0].witness_script = Some(Script::from(vec![s.script_sig[1], s.script_sig[0]]));
    p.inputs[0].sighash_type = Some(PsbtSighashType::from_u32(s.sequence));
    p.inputs[0].tap_merkle_root = Some(crate::taproot::TapNodeHash::from_byte_array(s.iss_nonce));
    p.inputs[0].amount = Some(s.out_value);
    p.inputs[0].asset = Some(AssetId::from_byte_array(s.out_asset));
    p.outputs[0].redeem_script = Some(Script::from(vec![s.script_sig[0]]));
    p.outputs[0].blinder_index = Some(s.vout);
});

//@ unregistered-harness: c08_unique_id_depends_on_prevout class=B tier=thorough bound="1-in/1-out PSET; previous_output_index of one copy changed to a different symbolic value (flag bits excluded)" timeout=3000
//@ clause: sanity of the recorder (non-vacuity of the independence harnesses): changing transaction-identifying data — the spent output index — does change the hashed unsigned transaction
#[kani::proof]
#[kani::stub(TxT::txid, recording_txid)]
fn c08_unique_id_depends_on_prevout() {
    let s = any_scalars();
    let other: u32 = kani::any();
    kani::assume(s.vout < (1 << 30) && other < (1 << 30) && other != s.vout);
    let a = base_pset(&s);
    let mut b = base_pset(&s);
    b.inputs[0].previous_output_index = other;
    let ra = a.unique_id();
    let rb = b.unique_id();
    fgt(a); fgt(b);
    let (n, s0, s1) = unsafe { (NSNAP, SNAPS[0], SNAPS[1]) };
    kani::cover!(n == 2, "recorder active");
    if n == 2 {
        assert!(s0.prev_vout == s.vout && s1.prev_vout == other, "the hashed transaction carries each PSET's own output index");
        assert!(!snap_eq(&s0, &s1));
    }
    match ra { Ok(_) => {}, Err(e) => { fgt(e); assert!(false); } }
    match rb { Ok(_) => {}, Err(e) => { fgt(e); assert!(false); } }
}

