//@ property: C14
//@ mount: src/pset/map/output.rs
//@ functions: src/pset/map/output.rs::Output::merge, src/pset/macros.rs::merge!
// Per-field contract of `Output::merge`; same shape and oracle as c14_merge_input.rs:
// (a.f, b.f) in {(None,None),(Some v,None),(None,Some v),(Some v,Some v)}; merge(a,b).f == a.f.or(b.f) == merge(b,a).f,
// merge is Ok, and the whole result equals the default output with f := a.f.or(b.f).
use super::*;

#[path = "support/c07_ffi.rs"]
mod ffi_models;
use ffi_models::*;

fn fgt<T>(t: T) { core::mem::forget(t) }
fn script2() -> Script {
    let b: [u8; 2] = kani::any();
    Script::from(b.to_vec())
}
fn val1() -> Vec<u8> {
    let b: [u8; 1] = kani::any();
    b.to_vec()
}
fn raw_key1() -> raw::Key {
    let b: [u8; 1] = kani::any();
    raw::Key { type_value: kani::any(), key: b.to_vec() }
}
fn prop_key1() -> raw::ProprietaryKey {
    let p: [u8; 1] = kani::any();
    let k: [u8; 1] = kani::any();
    raw::ProprietaryKey { prefix: p.to_vec(), subtype: kani::any(), key: k.to_vec() }
}
fn any_btc_pubkey() -> PublicKey {
    PublicKey { inner: any_secp_pubkey(), compressed: true }
}

macro_rules! output_merge_opt {
    ($name:ident, $field:ident, $mk:expr $(, $stub:meta)*) => {
        #[kani::proof]
        $(#[$stub])*
        fn $name() {
            let v = $mk;
            let in_a: bool = kani::any();
            let in_b: bool = kani::any();
            let mut a1 = Output::default();
            let mut b1 = Output::default();
            let mut a2 = Output::default();
            let mut b2 = Output::default();
            let mut want = Output::default();
            if in_a { a1.$field = Some(v.clone()); a2.$field = Some(v.clone()); }
            if in_b { b1.$field = Some(v.clone()); b2.$field = Some(v.clone()); }
            if in_a || in_b { want.$field = Some(v.clone()); }
            kani::cover!(in_a && !in_b);
            kani::cover!(!in_a && in_b);
            kani::cover!(in_a && in_b);
            match a1.merge(b1) { Ok(()) => {}, Err(e) => { fgt(e); assert!(false, "merge of conflict-free operands failed"); } }
            match b2.merge(a2) { Ok(()) => {}, Err(e) => { fgt(e); assert!(false, "merge of conflict-free operands failed"); } }
            assert!(a1.$field == want.$field, "field present in either operand is present in merge(a,b)");
            assert!(b2.$field == want.$field, "merge(b,a) agrees with merge(a,b)");
            assert!(a1 == want, "no other field disturbed");
            assert!(b2 == want, "no other field disturbed (other order)");
            fgt(a1); fgt(b2); fgt(want); fgt(v);
        }
    };
}

// heap-owning values: concrete presence patterns (see c14_merge_input.rs for the measurement): only one operand has
// the field, merged in both directions; then both operands hold the identical value.
macro_rules! output_merge_heap {
    ($name:ident, $field:ident, $mk:expr $(, $stub:meta)*) => {
        #[kani::proof]
        $(#[$stub])*
        fn $name() {
            let v = $mk;
            {
                let mut a1 = Output::default(); let mut b1 = Output::default();
                let a2 = Output::default(); let mut b2 = Output::default();
                let mut want = Output::default();
                b1.$field = Some(v.clone()); b2.$field = Some(v.clone()); want.$field = Some(v.clone());
                match a1.merge(b1) { Ok(()) => {}, Err(e) => { fgt(e); assert!(false, "merge of conflict-free operands failed"); } }
                match b2.merge(a2) { Ok(()) => {}, Err(e) => { fgt(e); assert!(false, "merge of conflict-free operands failed"); } }
                kani::cover!(true);
                assert!(a1.$field == want.$field, "field present only in the second operand is present in the result");
                assert!(b2.$field == want.$field, "field present only in the first operand is kept");
                assert!(a1 == want, "no other field disturbed");
                assert!(b2 == want, "no other field disturbed (other order)");
                fgt(a1); fgt(b2); fgt(want);
            }
            fgt(v);
        }
    };
}

//@ harness: c14_out_merge_redeem_script class=B tier=quick bound="script of exactly 2 symbolic bytes"
//@ clause: Output::merge: redeem_script present in exactly one operand is present in the result whichever operand is merged into which; nothing else disturbed
output_merge_heap!(c14_out_merge_redeem_script, redeem_script, script2());
//@ harness: c14_out_merge_witness_script class=B tier=quick bound="script of exactly 2 symbolic bytes"
//@ clause: Output::merge: witness_script present in exactly one operand is present in the result whichever operand is merged into which
output_merge_heap!(c14_out_merge_witness_script, witness_script, script2());
//@ harness: c14_out_merge_blinder_index class=F tier=quick
//@ clause: Output::merge keeps blinder_index present in either operand, order-insensitive
output_merge_opt!(c14_out_merge_blinder_index, blinder_index, kani::any::<u32>());
//@ harness: c14_out_merge_tap_internal_key class=F tier=quick
//@ clause: Output::merge keeps tap_internal_key present in either operand, order-insensitive (x-only key comparison through the assumed libsecp model)
output_merge_opt!(c14_out_merge_tap_internal_key, tap_internal_key, any_xonly(),
    kani::stub(zffi::secp256k1_xonly_pubkey_cmp, model_xonly_pubkey_cmp));
//@ harness: c14_out_merge_blinding_key class=F tier=quick
//@ clause: Output::merge keeps the blinding public key present in either operand, order-insensitive (key comparison through the assumed libsecp model)
output_merge_opt!(c14_out_merge_blinding_key, blinding_key, any_btc_pubkey(),
    kani::stub(zffi::secp256k1_ec_pubkey_cmp, model_ec_pubkey_cmp));
//@ harness: c14_out_merge_ecdh_pubkey class=F tier=quick
//@ clause: Output::merge keeps the ECDH public key present in either operand, order-insensitive
output_merge_opt!(c14_out_merge_ecdh_pubkey, ecdh_pubkey, any_btc_pubkey(),
    kani::stub(zffi::secp256k1_ec_pubkey_cmp, model_ec_pubkey_cmp));
//@ harness: c14_out_merge_value_rangeproof class=B tier=quick bound="3-byte range proof (structural validity assumed through the rangeproof_info model)"
//@ clause: Output::merge: value_rangeproof present in exactly one operand is present in the result whichever operand is merged into which
output_merge_heap!(c14_out_merge_value_rangeproof, value_rangeproof, any_rangeproof3(),
    kani::stub(zffi::secp256k1_rangeproof_info, model_rangeproof_info));
//@ harness: c14_out_merge_blind_value_proof class=B tier=quick bound="3-byte range proof"
//@ clause: Output::merge: blind_value_proof present in exactly one operand is present in the result whichever operand is merged into which
output_merge_heap!(c14_out_merge_blind_value_proof, blind_value_proof, any_rangeproof3(),
    kani::stub(zffi::secp256k1_rangeproof_info, model_rangeproof_info));

// ---- explicit amount / asset next to a commitment: NOT merged by Output::merge (candidate disagreement) ----
// Two descendants of one PSET whose output already carries the value commitment: one of them additionally reveals the
// explicit amount (ELIP "explicit value + blind_value_proof").  Both extract the same transaction (the commitment
// wins in extract_tx), so they have the same unique id and are mergeable; the property demands that the explicit
// amount survives the merge.
//@ harness: c14_out_merge_amount_with_commitment class=F tier=quick
//@ clause: Output::merge: explicit `amount` present only in the second operand (both operands carry the same amount commitment, hence the same unique id) is present in the result (EXPECTED to fail: Output::merge never merges amount)
#[kani::proof]
#[kani::stub(zffi::secp256k1_pedersen_commitment_parse, model_pedersen_commitment_parse)]
fn c14_out_merge_amount_with_commitment() {
    let comm = any_pedersen();
    let v: u64 = kani::any();
    let mut a = Output::default(); a.amount_comm = Some(comm);
    let mut b = Output::default(); b.amount_comm = Some(comm); b.amount = Some(v);
    kani::cover!(true);
    match a.merge(b) { Ok(()) => {}, Err(e) => { fgt(e); assert!(false); } }
    assert!(a.amount_comm == Some(comm));
    assert!(a.amount == Some(v), "optional field present in either operand is present in the result");
    fgt(a);
}
//@ harness: c14_out_merge_asset_with_commitment class=F tier=quick
//@ clause: Output::merge: explicit `asset` present only in the second operand (both carry the same asset commitment) is present in the result (EXPECTED to fail: Output::merge never merges asset)
#[kani::proof]
#[kani::stub(zffi::secp256k1_generator_parse, model_generator_parse)]
#[kani::stub(zffi::secp256k1_ec_pubkey_cmp, model_ec_pubkey_cmp)]
fn c14_out_merge_asset_with_commitment() {
    let gen = any_generator();
    let id = AssetId::from_byte_array(kani::any());
    let mut a = Output::default(); a.asset_comm = Some(gen);
    let mut b = Output::default(); b.asset_comm = Some(gen); b.asset = Some(id);
    kani::cover!(true);
    match a.merge(b) { Ok(()) => {}, Err(e) => { fgt(e); assert!(false); } }
    assert!(a.asset == Some(id), "optional field present in either operand is present in the result");
    fgt(a);
}

// ---- BTreeMap fields ---- (shape and unwind bound: see c14_merge_input.rs; unions of two non-empty maps not affordable)
macro_rules! output_merge_map1 {
    ($name:ident, $field:ident, $mkk:expr, $mkv:expr $(, $stub:meta)*) => {
        #[kani::proof]
        #[kani::unwind(3)]
        $(#[$stub])*
        fn $name() {
            let k = $mkk; let v = $mkv;
            let mut a1 = Output::default(); let mut b1 = Output::default();
            let a2 = Output::default(); let mut b2 = Output::default();
            b1.$field.insert(k.clone(), v.clone());
            b2.$field.insert(k.clone(), v.clone());
            match a1.merge(b1) { Ok(()) => {}, Err(e) => { fgt(e); assert!(false, "merge of conflict-free operands failed"); } }
            match b2.merge(a2) { Ok(()) => {}, Err(e) => { fgt(e); assert!(false, "merge of conflict-free operands failed"); } }
            kani::cover!(true);
            assert!(a1.$field.len() == 1 && b2.$field.len() == 1, "exactly the entry of the operand that had one");
            assert!(a1.$field.iter().next() == Some((&k, &v)), "entry present only in the second operand is in the result");
            assert!(b2.$field.iter().next() == Some((&k, &v)), "entry present only in the first operand is kept");
            fgt(a1); fgt(b2); fgt(k); fgt(v);
        }
    };
}
fn key_source1() -> KeySource {
    let f: [u8; 4] = kani::any();
    let c: u32 = kani::any();
    (bitcoin::bip32::Fingerprint::from(f), bitcoin::bip32::DerivationPath::from(vec![bitcoin::bip32::ChildNumber::from(c)]))
}
//@ harness: c14_out_merge_unknown_onesided class=B tier=quick bound="one entry in one operand, other map empty; symbolic type byte + 1 key byte; 1-byte value"
//@ clause: Output::merge: an unknown pair present in exactly one operand is present in the result whichever operand is merged into which
output_merge_map1!(c14_out_merge_unknown_onesided, unknown, raw_key1(), val1());
//@ harness: c14_out_merge_proprietary_onesided class=B tier=thorough bound="one entry in one operand, other map empty; 1-byte prefix, symbolic subtype, 1-byte key; 1-byte value"
//@ clause: Output::merge: a proprietary pair present in exactly one operand is present in the result whichever operand is merged into which
output_merge_map1!(c14_out_merge_proprietary_onesided, proprietary, prop_key1(), val1());
//@ harness: c14_out_merge_bip32_derivation_onesided class=B tier=thorough bound="one entry in one operand, other map empty; symbolic public key; 1-element path"
//@ clause: Output::merge: a BIP-32 key derivation present in exactly one operand is present in the result whichever operand is merged into which
output_merge_map1!(c14_out_merge_bip32_derivation_onesided, bip32_derivation, any_btc_pubkey(), key_source1(), kani::stub(zffi::secp256k1_ec_pubkey_cmp, model_ec_pubkey_cmp));
//@ harness: c14_out_merge_tap_key_origins_onesided class=B tier=thorough bound="one entry in one operand, other map empty; symbolic x-only key; one leaf hash, 1-element path"
//@ clause: Output::merge: a taproot key origin present in exactly one operand is present in the result whichever operand is merged into which
output_merge_map1!(c14_out_merge_tap_key_origins_onesided, tap_key_origins, any_xonly(), (vec![TapLeafHash::from_byte_array(kani::any())], key_source1()), kani::stub(zffi::secp256k1_xonly_pubkey_cmp, model_xonly_pubkey_cmp));
// not covered: tap_tree (building a TapTree hashes its leaves: SHA-256 is not executable under CBMC)
