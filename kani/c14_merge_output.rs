//@ property: C14
//@ mount: src/pset/map/output.rs
//@ functions: src/pset/map/output.rs::Output::merge, src/pset/macros.rs::merge!
// Per-field contract of `Output::merge`; same shape and oracle as c14_merge_input.rs:
// (a.f, b.f) in {(None,None),(Some v,None),(None,Some v),(Some v,Some v)}; merge(a,b).f == a.f.or(b.f) == merge(b,a).f,
// merge is Ok, and the whole result equals the default output with f := a.f.or(b.f).
use super::*;

#[path = "support/c07_ffi.rs"]
mod ffi_models;
use ffi_models::*;

fn fgt<T>(t: T) { core::mem::forget(t) }
fn script2() -> Script {
    let b: [u8; 2] = kani::any();
    Script::from(b.to_vec())
}
fn val1() -> Vec<u8> {
    let b: [u8; 1] = kani::any();
    b.to_vec()
}
fn raw_key1() -> raw::Key {
    let b: [u8; 1] = kani::any();
    raw::Key { type_value: kani::any(), key: b.to_vec() }
}
fn prop_key1() -> raw::ProprietaryKey {
    let p: [u8; 1] = kani::any();
    let k: [u8; 1] = kani::any();
    raw::ProprietaryKey { prefix: p.to_vec(), subtype: kani::any(), key: k.to_vec() }
}
fn any_btc_pubkey() -> PublicKey {
    PublicKey { inner: any_secp_pubkey(), compressed: true }
}

macro_rules! output_merge_opt {
    ($name:ident, $field:ident, $mk:expr $(, $stub:meta)*) => {
        #[kani::proof]
        $(#[$stub])*
        fn $name() {
            let v = $mk;
            let in_a: bool = kani::any();
            let in_b: bool = kani::any();
            let mut a1 = Output::default();
            let mut b1 = Output::default();
            let mut a2 = Output::default();
            let mut b2 = Output::default();
            let mut want = Output::default();
            if in_a { a1.$field = Some(v.clone()); a2.$field = Some(v.clone()); }
            if in_b { b1.$field = Some(v.clone()); b2.$field = Some(v.clone()); }
            if in_a || in_b { want.$field = Some(v.clone()); }
            kani::cover!(in_a && !in_b);
            kani::cover!(!in_a && in_b);
            kani::cover!(in_a && in_b);
            match a1.merge(b1) { Ok(()) => {}, Err(e) => { fgt(e); assert!(false, "merge of conflict-free operands failed"); } }
            match b2.merge(a2) { Ok(()) => {}, Err(e) => { fgt(e); assert!(false, "merge of conflict-free operands failed"); } }
            assert!(a1.$field == want.$field, "field present in either operand is present in merge(a,b)");
            assert!(b2.$field == want.$field, "merge(b,a) agrees with merge(a,b)");
            assert!(a1 == want, "no other field disturbed");
            assert!(b2 == want, "no other field disturbed (other order)");
            fgt(a1); fgt(b2); fgt(want); fgt(v);
        }
    };
}

//@ harness: c14_out_merge_redeem_script class=B tier=quick bound="script of exactly 2 symbolic bytes"
//@ clause: Output::merge keeps redeem_script present in either operand, order-insensitive
output_merge_opt!(c14_out_merge_redeem_script, redeem_script, script2());
//@ harness: c14_out_merge_witness_script class=B tier=thorough bound="script of exactly 2 symbolic bytes"
//@ clause: Output::merge keeps witness_script present in either operand, order-insensitive
output_merge_opt!(c14_out_merge_witness_script, witness_script, script2());
//@ harness: c14_out_merge_blinder_index class=F tier=quick
//@ clause: Output::merge keeps blinder_index present in either operand, order-insensitive
output_merge_opt!(c14_out_merge_blinder_index, blinder_index, kani::any::<u32>());
//@ harness: c14_out_merge_tap_internal_key class=F tier=thorough
//@ clause: Output::merge keeps tap_internal_key present in either operand, order-insensitive (x-only key comparison through the assumed libsecp model)
output_merge_opt!(c14_out_merge_tap_internal_key, tap_internal_key, any_xonly(),
    kani::stub(zffi::secp256k1_xonly_pubkey_cmp, model_xonly_pubkey_cmp));
//@ harness: c14_out_merge_blinding_key class=F tier=quick
//@ clause: Output::merge keeps the blinding public key present in either operand, order-insensitive (key comparison through the assumed libsecp model)
output_merge_opt!(c14_out_merge_blinding_key, blinding_key, any_btc_pubkey(),
    kani::stub(zffi::secp256k1_ec_pubkey_cmp, model_ec_pubkey_cmp));
//@ harness: c14_out_merge_ecdh_pubkey class=F tier=thorough
//@ clause: Output::merge keeps the ECDH public key present in either operand, order-insensitive
output_merge_opt!(c14_out_merge_ecdh_pubkey, ecdh_pubkey, any_btc_pubkey(),
    kani::stub(zffi::secp256k1_ec_pubkey_cmp, model_ec_pubkey_cmp));
//@ harness: c14_out_merge_value_rangeproof class=B tier=quick bound="3-byte range proof (structural validity assumed through the rangeproof_info model)"
//@ clause: Output::merge keeps value_rangeproof present in either operand, order-insensitive
output_merge_opt!(c14_out_merge_value_rangeproof, value_rangeproof, any_rangeproof3(),
    kani::stub(zffi::secp256k1_rangeproof_info, model_rangeproof_info));
//@ harness: c14_out_merge_blind_value_proof class=B tier=thorough bound="3-byte range proof"
//@ clause: Output::merge keeps blind_value_proof present in either operand, order-insensitive
output_merge_opt!(c14_out_merge_blind_value_proof, blind_value_proof, any_rangeproof3(),
    kani::stub(zffi::secp256k1_rangeproof_info, model_rangeproof_info));

// ---- explicit amount / asset next to a commitment: NOT merged by Output::merge (candidate disagreement) ----
// Two descendants of one PSET whose output already carries the value commitment: one of them additionally reveals the
// explicit amount (ELIP "explicit value + blind_value_proof").  Both extract the same transaction (the commitment
// wins in extract_tx), so they have the same unique id and are mergeable; the property demands that the explicit
// amount survives the merge.
//@ harness: c14_out_merge_amount_with_commitment class=F tier=quick
//@ clause: Output::merge: explicit `amount` present only in the second operand (both operands carry the same amount commitment, hence the same unique id) is present in the result (EXPECTED to fail: Output::merge never merges amount)
#[kani::proof]
#[kani::stub(zffi::secp256k1_pedersen_commitment_parse, model_pedersen_commitment_parse)]
fn c14_out_merge_amount_with_commitment() {
    let comm = any_pedersen();
    let v: u64 = kani::any();
    let mut a = Output::default(); a.amount_comm = Some(comm);
    let mut b = Output::default(); b.amount_comm = Some(comm); b.amount = Some(v);
    kani::cover!(true);
    match a.merge(b) { Ok(()) => {}, Err(e) => { fgt(e); assert!(false); } }
    assert!(a.amount_comm == Some(comm));
    assert!(a.amount == Some(v), "optional field present in either operand is present in the result");
    fgt(a);
}
//@ harness: c14_out_merge_asset_with_commitment class=F tier=thorough
//@ clause: Output::merge: explicit `asset` present only in the second operand (both carry the same asset commitment) is present in the result (EXPECTED to fail: Output::merge never merges asset)
#[kani::proof]
#[kani::stub(zffi::secp256k1_generator_parse, model_generator_parse)]
#[kani::stub(zffi::secp256k1_ec_pubkey_cmp, model_ec_pubkey_cmp)]
fn c14_out_merge_asset_with_commitment() {
    let gen = any_generator();
    let id = AssetId::from_byte_array(kani::any());
    let mut a = Output::default(); a.asset_comm = Some(gen);
    let mut b = Output::default(); b.asset_comm = Some(gen); b.asset = Some(id);
    kani::cover!(true);
    match a.merge(b) { Ok(()) => {}, Err(e) => { fgt(e); assert!(false); } }
    assert!(a.asset == Some(id), "optional field present in either operand is present in the result");
    fgt(a);
}

// ---- BTreeMap fields ----
macro_rules! output_merge_map {
    ($name:ident, $field:ident, $mkk:expr, $mkv:expr) => {
        #[kani::proof]
        fn $name() {
            let k1 = $mkk; let v1: Vec<u8> = $mkv;
            let k2 = $mkk; let v2: Vec<u8> = $mkv;
            let same = k1 == k2;
            kani::assume(!same || v1 == v2);
            let mut a1 = Output::default(); let mut b1 = Output::default();
            let mut a2 = Output::default(); let mut b2 = Output::default();
            a1.$field.insert(k1.clone(), v1.clone()); a2.$field.insert(k1.clone(), v1.clone());
            b1.$field.insert(k2.clone(), v2.clone()); b2.$field.insert(k2.clone(), v2.clone());
            kani::cover!(same);
            kani::cover!(!same);
            match a1.merge(b1) { Ok(()) => {}, Err(e) => { fgt(e); assert!(false, "merge of conflict-free operands failed"); } }
            match b2.merge(a2) { Ok(()) => {}, Err(e) => { fgt(e); assert!(false, "merge of conflict-free operands failed"); } }
            let want_len = if same { 1 } else { 2 };
            assert!(a1.$field.len() == want_len && b2.$field.len() == want_len, "union has exactly the entries of both operands");
            assert!(a1.$field.get(&k1) == Some(&v1) && a1.$field.get(&k2) == Some(&v2), "merge(a,b) holds both entries");
            assert!(b2.$field.get(&k1) == Some(&v1) && b2.$field.get(&k2) == Some(&v2), "merge(b,a) holds both entries");
            fgt(a1); fgt(b2);
        }
    };
}
//@ harness: c14_out_merge_unknown class=B tier=quick bound="one entry per operand; key = symbolic type byte + 1 symbolic key byte; 1-byte values"
//@ clause: Output::merge: the `unknown` pairs of the result are the union of the operands' pairs, in both merge orders
output_merge_map!(c14_out_merge_unknown, unknown, raw_key1(), val1());
//@ harness: c14_out_merge_proprietary class=B tier=thorough bound="one entry per operand; 1-byte prefix, symbolic subtype, 1-byte key; 1-byte values"
//@ clause: Output::merge: the proprietary pairs of the result are the union of the operands' pairs, in both merge orders
output_merge_map!(c14_out_merge_proprietary, proprietary, prop_key1(), val1());
