//@ property: C16
//@ mount: src/script.rs
//@ functions: src/script.rs::build_scriptint, src/script.rs::read_scriptint, src/script.rs::read_scriptbool, src/script.rs::read_uint, src/script.rs::Builder::push_int, src/script.rs::Builder::push_scriptint, src/script.rs::Builder::push_slice, src/script.rs::Builder::push_opcode, src/script.rs::Builder::push_verify
//
// Script numbers and the builder's push encodings.  Oracles are written from the Bitcoin script-number definition
// (little-endian sign-magnitude, minimal) and the BIP-62 push rules, not from the code.
use super::*;
use core::mem::ManuallyDrop;

/// independent script-number encoder for |n| < 2^31: returns (bytes, len)
fn spec_scriptint(n: i64) -> ([u8; 4], usize) {
    let neg = n < 0;
    let m: u64 = if neg { (-n) as u64 } else { n as u64 };
    let le = (m as u32).to_le_bytes();
    // number of magnitude bits decides the width: one extra bit is needed for the sign
    let len = if m == 0 { 0 } else if m < 0x80 { 1 } else if m < 0x8000 { 2 } else if m < 0x80_0000 { 3 } else { 4 };
    let mut out = [0u8; 4];
    let mut i = 0;
    while i < 4 {
        if i < len { out[i] = le[i]; }
        i += 1;
    }
    if neg && len > 0 { out[len - 1] |= 0x80; }
    (out, len)
}

/// independent decoder of a <= 4-byte script number
fn spec_read(b: &[u8], len: usize) -> i64 {
    let mut m: i64 = 0;
    let mut i = 0;
    while i < 4 {
        if i < len {
            let byte = if i == len - 1 { b[i] & 0x7f } else { b[i] };
            m |= (byte as i64) << (8 * i);
        }
        i += 1;
    }
    if len > 0 && b[len - 1] & 0x80 != 0 { -m } else { m }
}

//@ harness: scriptint_build_read class=F tier=quick
//@ clause: for every n with |n| < 2^31: build_scriptint(n) is the minimal little-endian sign-magnitude encoding (0 -> empty; no redundant trailing 0x00/0x80 byte; at most 4 bytes) and read_scriptint(build_scriptint(n)) == Ok(n)
#[kani::proof]
#[kani::unwind(6)]
fn scriptint_build_read() {
    let n: i64 = kani::any();
    kani::assume(n > -(1i64 << 31) && n < (1i64 << 31));
    let v = ManuallyDrop::new(build_scriptint(n));
    let (want, wl) = spec_scriptint(n);
    assert!(v.len() == wl);
    let mut i = 0;
    while i < 4 {
        if i < wl { assert!(v[i] == want[i]); }
        i += 1;
    }
    // minimality stated directly
    if wl > 0 {
        let last = v[wl - 1];
        assert!(last & 0x7f != 0 || (wl > 1 && v[wl - 2] & 0x80 != 0));
    }
    assert!((wl == 0) == (n == 0));
    match read_scriptint(&v) {
        Ok(x) => assert!(x == n),
        Err(_) => assert!(false),
    }
    kani::cover!(wl == 4 && n < 0);
    kani::cover!(wl == 2 && v[1] == 0x80);
    kani::cover!(wl == 1);
    kani::cover!(n == 0);
}

//@ harness: scriptint_build_wide class=F tier=quick
//@ clause: for every i64 n with 2^31 <= |n| (n != i64::MIN, whose negation is not representable): build_scriptint does not panic and produces 5..=8 bytes, which read_scriptint refuses with NumericOverflow (numbers outside the 4-byte range cannot be read back)
#[kani::proof]
#[kani::unwind(10)]
fn scriptint_build_wide() {
    let n: i64 = kani::any();
    kani::assume(n != i64::MIN);
    kani::assume(n <= -(1i64 << 31) || n >= (1i64 << 31));
    let v = ManuallyDrop::new(build_scriptint(n));
    assert!(v.len() >= 5 && v.len() <= 8);
    assert!((v[v.len() - 1] & 0x80 != 0) == (n < 0));
    assert!(matches!(read_scriptint(&v), Err(Error::NumericOverflow)));
    kani::cover!(v.len() == 8);
    kani::cover!(v.len() == 5);
}

//@ harness: scriptint_read_all class=F tier=quick
//@ clause: for every byte string of length 0..=8: read_scriptint is Err(NumericOverflow) iff length > 4, otherwise Ok(sign-magnitude little-endian value); when the string is the minimal encoding, build_scriptint(value) reproduces it; never panics
#[kani::proof]
#[kani::unwind(10)]
fn scriptint_read_all() {
    let b: [u8; 8] = kani::any();
    let len: usize = kani::any();
    kani::assume(len <= 8);
    match read_scriptint(&b[..len]) {
        Ok(x) => {
            assert!(len <= 4);
            assert!(x == spec_read(&b, len));
            assert!(x > -(1i64 << 31) && x < (1i64 << 31));
            let minimal = len == 0 || b[len - 1] & 0x7f != 0 || (len > 1 && b[len - 2] & 0x80 != 0);
            if minimal {
                let v = ManuallyDrop::new(build_scriptint(x));
                assert!(v.len() == len);
                let mut i = 0;
                while i < 4 {
                    if i < len { assert!(v[i] == b[i]); }
                    i += 1;
                }
                kani::cover!(len == 4);
            }
            kani::cover!(!minimal && x == 0 && len == 1); // negative zero
        }
        Err(e) => {
            assert!(len > 4);
            assert!(matches!(e, Error::NumericOverflow));
            kani::cover!(len == 5);
        }
    }
}

//@ harness: scriptbool_read_all class=F tier=quick
//@ clause: for every byte string of length 0..=8: read_scriptbool is false exactly for the encodings of zero (all bytes 0x00, the last one possibly 0x80 - negative zero), true otherwise; never panics
#[kani::proof]
#[kani::unwind(10)]
fn scriptbool_read_all() {
    let b: [u8; 8] = kani::any();
    let len: usize = kani::any();
    kani::assume(len <= 8);
    let mut zero = true;
    let mut i = 0;
    while i < 8 {
        if i < len {
            if i == len - 1 { if b[i] != 0 && b[i] != 0x80 { zero = false; } } else if b[i] != 0 { zero = false; }
        }
        i += 1;
    }
    assert!(read_scriptbool(&b[..len]) == !zero);
    kani::cover!(len == 8 && zero);
    kani::cover!(len == 0);
    kani::cover!(len == 3 && !zero);
}

//@ harness: read_uint_le class=F tier=quick
//@ clause: read_uint(data, size) for size <= 8 (the widths a push header can have are 1, 2, 4) and every data of length 0..=9: Err(EarlyEndOfScript) iff data is shorter than size, else the little-endian value of the first size bytes; never panics
#[kani::proof]
#[kani::unwind(11)]
fn read_uint_le() {
    let b: [u8; 9] = kani::any();
    let len: usize = kani::any();
    kani::assume(len <= 9);
    let size: usize = kani::any();
    kani::assume(size <= 8);
    match read_uint(&b[..len], size) {
        Ok(x) => {
            assert!(len >= size);
            let mut want: u64 = 0;
            let mut i = 0;
            while i < 8 {
                if i < size { want |= (b[i] as u64) << (8 * i); }
                i += 1;
            }
            assert!(x as u64 == want);
            kani::cover!(size == 8);
            kani::cover!(size == 0);
        }
        Err(e) => {
            assert!(len < size);
            assert!(matches!(e, Error::EarlyEndOfScript));
            kani::cover!(true);
        }
    }
}

//@ harness: read_uint_total class=F tier=quick props=C10
//@ clause: read_uint is a public fallible function (returns Result): no (data, size) may make it panic or overflow - every data of length 0..=12, every size 0..=12
#[kani::proof]
#[kani::unwind(14)]
fn read_uint_total() {
    let b: [u8; 12] = kani::any();
    let len: usize = kani::any();
    kani::assume(len <= 12);
    let size: usize = kani::any();
    kani::assume(size <= 12);
    let r = read_uint(&b[..len], size);
    // short data is an error; a size wider than usize cannot be represented (an error, not a shift overflow: defect D13)
    assert!(r.is_err() == (len < size || size > core::mem::size_of::<usize>()));
    kani::cover!(r.is_ok() && size == 8);
    kani::cover!(r.is_err());
}

/// collect a builder's bytes without going through Script
fn bytes(b: &Builder) -> &[u8] { &b.0 }

//@ harness: builder_push_int class=F tier=quick
//@ clause: Builder::push_int(n) for every n in the script-number range |n| < 2^31: -1 -> OP_1NEGATE, 0 -> OP_0, 1..=16 -> OP_1..OP_16 (one byte, remembered as the last opcode); every other n -> a direct push of the minimal script number; reading the pushed bytes back gives n
#[kani::proof]
#[kani::unwind(7)]
fn builder_push_int() {
    let n: i64 = kani::any();
    kani::assume(n > -(1i64 << 31) && n < (1i64 << 31));
    let b = ManuallyDrop::new(Builder::new().push_int(n));
    let out = bytes(&b);
    if n == -1 {
        assert!(out.len() == 1 && out[0] == 0x4f);
        assert!(b.1 == Some(opcodes::All::from(0x4f)));
    } else if n == 0 {
        assert!(out.len() == 1 && out[0] == 0x00);
        assert!(b.1 == Some(opcodes::All::from(0x00)));
    } else if n >= 1 && n <= 16 {
        assert!(out.len() == 1 && out[0] == 0x50 + n as u8);
        assert!(b.1 == Some(opcodes::All::from(0x50 + n as u8)));
        kani::cover!(n == 16);
    } else {
        let (want, wl) = spec_scriptint(n);
        assert!(wl >= 1 && out.len() == 1 + wl);
        assert!(out[0] as usize == wl); // direct push opcode == length
        let mut i = 0;
        while i < 4 {
            if i < wl { assert!(out[1 + i] == want[i]); }
            i += 1;
        }
        assert!(b.1.is_none());
        match read_scriptint(&out[1..]) { Ok(x) => assert!(x == n), Err(_) => assert!(false) }
        kani::cover!(n == 17);
        kani::cover!(n == -2);
        kani::cover!(wl == 4);
    }
}

fn spec_verify_fold(op: u8) -> Option<u8> {
    match op {
        0x87 => Some(0x88), // EQUAL -> EQUALVERIFY
        0x9c => Some(0x9d), // NUMEQUAL -> NUMEQUALVERIFY
        0xac => Some(0xad), // CHECKSIG -> CHECKSIGVERIFY
        0xae => Some(0xaf), // CHECKMULTISIG -> CHECKMULTISIGVERIFY
        0xc1 => Some(0xc2), // CHECKSIGFROMSTACK -> CHECKSIGFROMSTACKVERIFY (Elements)
        _ => None,
    }
}

//@ harness: builder_push_verify_fold class=F tier=quick
//@ clause: push_opcode(op) appends exactly the byte op, for all 256 opcodes; a following push_verify replaces op by its VERIFY form exactly for EQUAL, NUMEQUAL, CHECKSIG, CHECKMULTISIG, CHECKSIGFROMSTACK and appends OP_VERIFY otherwise; a second push_verify always appends OP_VERIFY; earlier bytes are untouched
#[kani::proof]
fn builder_push_verify_fold() {
    let first: u8 = kani::any();
    let op: u8 = kani::any();
    let b0 = Builder::new().push_opcode(opcodes::All::from(first)).push_opcode(opcodes::All::from(op));
    assert!(b0.0.len() == 2 && b0.0[0] == first && b0.0[1] == op);
    assert!(b0.1 == Some(opcodes::All::from(op)));
    let b1 = b0.push_verify();
    match spec_verify_fold(op) {
        Some(f) => {
            assert!(b1.0.len() == 2 && b1.0[0] == first && b1.0[1] == f);
            assert!(b1.1 == Some(opcodes::All::from(f)));
            kani::cover!(op == 0xc1);
        }
        None => {
            assert!(b1.0.len() == 3 && b1.0[0] == first && b1.0[1] == op && b1.0[2] == 0x69);
            assert!(b1.1 == Some(opcodes::All::from(0x69)));
            kani::cover!(op == 0x88);
        }
    }
    let l1 = b1.0.len();
    let b2 = ManuallyDrop::new(b1.push_verify());
    assert!(b2.0.len() == l1 + 1 && b2.0[l1] == 0x69 && b2.0[0] == first);
}

//@ harness: builder_push_verify_after_data class=F tier=quick
//@ clause: data is never folded: after push_slice of a byte that equals a foldable opcode, or after push_int, push_verify appends OP_VERIFY and leaves the data intact
#[kani::proof]
#[kani::unwind(7)]
fn builder_push_verify_after_data() {
    let x: u8 = kani::any();
    let op: u8 = kani::any();
    let b = ManuallyDrop::new(Builder::new().push_opcode(opcodes::All::from(op)).push_slice(&[x]).push_verify());
    assert!(b.0.len() == 4 && b.0[0] == op && b.0[1] == 1 && b.0[2] == x && b.0[3] == 0x69);
    kani::cover!(x == 0xac && op == 0xac);
    let n: i64 = kani::any();
    kani::assume(n >= -1 && n <= 17);
    let c = ManuallyDrop::new(Builder::new().push_int(n).push_verify());
    let k = c.0.len();
    assert!(k >= 2 && c.0[k - 1] == 0x69);
    assert!(if n == 17 { k == 3 && c.0[0] == 1 && c.0[1] == 17 } else { k == 2 });
    kani::cover!(n == 17);
    kani::cover!(n == -1);
}

// push_slice: minimal header for the data length, content copied verbatim, previous bytes untouched.
// One instance per concrete length (README: no symbolic allocation lengths); content symbolic and every content
// position checked (symbolic index) where SYM; zero content and first/last position checked for the long ones.
macro_rules! push_slice_len {
    ($name:ident, $len:expr, $sym:expr) => {
        #[kani::proof]
        fn $name() {
            const L: usize = $len;
            let data: [u8; L] = if $sym { kani::any() } else { [0u8; L] };
            let probe: usize = if $sym { kani::any() } else { L - 1 };
            kani::assume(probe < L);
            let pre: u8 = kani::any();
            let b = ManuallyDrop::new(Builder::new().push_opcode(opcodes::All::from(pre)).push_slice(&data));
            let out = bytes(&b);
            assert!(out[0] == pre);
            let h = if L < 76 {
                assert!(out[1] as usize == L);
                1
            } else if L < 0x100 {
                assert!(out[1] == 0x4c && out[2] as usize == L);
                2
            } else if L < 0x10000 {
                assert!(out[1] == 0x4d && u16::from_le_bytes([out[2], out[3]]) as usize == L);
                3
            } else {
                assert!(out[1] == 0x4e && u32::from_le_bytes([out[2], out[3], out[4], out[5]]) as usize == L);
                5
            };
            assert!(out.len() == 1 + h + L);
            assert!(out[1 + h + probe] == data[probe]);
            assert!(out[1 + h] == data[0]);
            assert!(b.1.is_none());
            kani::cover!(true);
        }
    };
}
//@ harness: builder_push_slice_l0 class=F tier=quick
//@ clause: push_slice of 0 bytes -> header 0x00 (OP_0), nothing else; previous byte untouched; no last-opcode remembered
#[kani::proof]
#[kani::unwind(2)] // iterating an empty slice: `ptr == end` on a zero-sized object is not constant-folded by CBMC
fn builder_push_slice_l0() {
    let pre: u8 = kani::any();
    let b = ManuallyDrop::new(Builder::new().push_opcode(opcodes::All::from(pre)).push_slice(&[]));
    assert!(b.0.len() == 2 && b.0[0] == pre && b.0[1] == 0x00);
    assert!(b.1.is_none());
    kani::cover!(true);
}
//@ harness: builder_push_slice_l1 class=F tier=quick
//@ clause: push_slice of 1 byte (any content) -> 0x01 <byte>
push_slice_len!(builder_push_slice_l1, 1, true);
//@ harness: builder_push_slice_l75 class=F tier=quick
//@ clause: push_slice of 75 bytes (any content) -> direct push 0x4b, content verbatim
push_slice_len!(builder_push_slice_l75, 75, true);
//@ harness: builder_push_slice_l76 class=F tier=quick
//@ clause: push_slice of 76 bytes (any content) -> PUSHDATA1 0x4c 0x4c, content verbatim
push_slice_len!(builder_push_slice_l76, 76, true);
//@ harness: builder_push_slice_l255 class=F tier=quick
//@ clause: push_slice of 255 bytes -> PUSHDATA1 0xff (zero content)
push_slice_len!(builder_push_slice_l255, 255, false);
//@ harness: builder_push_slice_l256 class=F tier=quick
//@ clause: push_slice of 256 bytes -> PUSHDATA2 00 01 (zero content)
push_slice_len!(builder_push_slice_l256, 256, false);
//@ harness: builder_push_slice_l65535 class=F tier=thorough timeout=1800
//@ clause: push_slice of 65535 bytes -> PUSHDATA2 ff ff (zero content)
push_slice_len!(builder_push_slice_l65535, 65535, false);
//@ harness: builder_push_slice_l65536 class=F tier=thorough timeout=1800
//@ clause: push_slice of 65536 bytes -> PUSHDATA4 00 00 01 00 (zero content)
push_slice_len!(builder_push_slice_l65536, 65536, false);
