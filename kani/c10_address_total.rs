//@ property: C10 C06
//@ mount: src/address.rs
//@ functions: src/address.rs::Address::from_str, src/address.rs::Address::parse_with_params, src/address.rs::Address::from_bech32, src/address.rs::Address::from_base58
//
// Totality of the textual address parsers on every ASCII string of a concrete length: Ok or Err, no panic /
// overflow / out-of-bounds.  Everything on the segwit side is REAL (prefix dispatch, the crate's blech32 decoder,
// the bech32 crate's decoder, byte collection).  On the base58 side:
//   [A] `bitcoin::base58::decode_check` (base58 arithmetic + double SHA-256, not executable under CBMC) is
//       replaced by a model returning EITHER an error OR an arbitrary byte vector of a length drawn from
//       {0, 1, 20, 21, 22, 54, 55, 56, 60} (all boundary lengths of the two layouts) with arbitrary contents;
//   [A] libsecp pubkey parsing by the model of support/c06_ffi_models.rs.
use super::*;
use bitcoin::base58 as b58;
use bitcoin::secp256k1::ffi as sffi;

#[path = "support/c06_ffi_models.rs"]
mod ffi_models;

static LIQ: AddressParams = AddressParams::LIQUID;
static ELE: AddressParams = AddressParams::ELEMENTS;
static TLQ: AddressParams = AddressParams::LIQUID_TESTNET;

static mut DECODE_CALLS: usize = 0;

fn decode_check_model(_s: &str) -> Result<Vec<u8>, b58::Error> {
    unsafe { DECODE_CALLS += 1; }
    let sel: u8 = kani::any();
    kani::assume(sel < 10);
    if sel == 9 {
        // some error value of the real type: '0' is not a base58 digit
        return match b58::decode("0") {
            Err(e) => Err(b58::Error::Decode(e)),
            Ok(v) => { core::mem::forget(v); kani::assume(false); Ok(Vec::new()) }
        };
    }
    let buf: [u8; 60] = kani::any();
    Ok(match sel {
        0 => Vec::new(),
        1 => buf[..1].to_vec(),
        2 => buf[..20].to_vec(),
        3 => buf[..21].to_vec(),
        4 => buf[..22].to_vec(),
        5 => buf[..54].to_vec(),
        6 => buf[..55].to_vec(),
        7 => buf[..56].to_vec(),
        _ => buf[..60].to_vec(),
    })
}

fn ascii<const N: usize>() -> [u8; N] {
    let a: [u8; N] = kani::any();
    let mut i = 0;
    while i < N { kani::assume(a[i] < 128); i += 1; }
    a
}

macro_rules! from_str_total {
    ($name:ident, $n:expr, $unw:literal) => {
        #[kani::proof]
        #[kani::unwind($unw)]
        #[kani::stub(b58::decode_check, decode_check_model)]
        #[kani::stub(sffi::secp256k1_ec_pubkey_parse, ffi_models::pubkey_parse_model)]
        #[kani::stub(sffi::secp256k1_ec_pubkey_serialize, ffi_models::pubkey_serialize_model)]
        fn $name() {
            const N: usize = $n;
            ffi_models::init();
            let a: [u8; N] = ascii::<N>();
            let s: &str = match core::str::from_utf8(&a) { Ok(s) => s, Err(_) => { assert!(false); return; } };
            let r = Address::from_str(s);
            let stub_active = unsafe { DECODE_CALLS } > 0;
            kani::cover!(stub_active);
            kani::cover!(N < 3 || matches!(r, Err(AddressError::Blech32(_))));
            kani::cover!(N < 3 || matches!(r, Err(AddressError::Bech32(_))));
            kani::cover!(matches!(r, Err(AddressError::Base58(_))));
            kani::cover!(matches!(r, Err(AddressError::InvalidLength(_))));
            kani::cover!(matches!(r, Err(AddressError::InvalidAddress(_))));
            kani::cover!(matches!(r, Ok(Address { blinding_pubkey: None, .. })));
            kani::cover!(matches!(r, Ok(Address { blinding_pubkey: Some(_), .. })));
            if N < 3 {
                // too short to carry an HRP and a separator: can only be a base58 outcome
                assert!(!matches!(r, Err(AddressError::Blech32(_)) | Err(AddressError::Bech32(_))));
            }
            if let Ok(ref adr) = r {
                // a string of fewer than 15 characters is never a segwit address
                assert!(!matches!(adr.payload, Payload::WitnessProgram { .. }));
            }
            core::mem::forget(r);
        }
    };
}
//@ harness: from_str_l0 class=F tier=quick props=C10 timeout=600
//@ clause: Address::from_str on the empty string returns (Ok/Err) without panic; [A] base58 decode_check and pubkey parse by model
from_str_total!(from_str_l0, 0, 6);
//@ harness: from_str_l2 class=F tier=quick props=C10 timeout=600
//@ clause: same, every 2-character ASCII string
from_str_total!(from_str_l2, 2, 6);
//@ harness: from_str_l3 class=F tier=quick props=C10 timeout=900
//@ clause: same, every 3-character ASCII string (reaches both segwit decoders with an empty data part: "ex1", "EL1", ...)
from_str_total!(from_str_l3, 3, 7);
//@ harness: from_str_l4 class=F tier=thorough props=C10 timeout=1800
//@ clause: same, every 4-character ASCII string
from_str_total!(from_str_l4, 4, 8);
//@ harness: from_str_l5 class=F tier=thorough props=C10 timeout=1800
//@ clause: same, every 5-character ASCII string
from_str_total!(from_str_l5, 5, 9);

macro_rules! parse_with_params_total {
    ($name:ident, $n:expr, $unw:literal) => {
        #[kani::proof]
        #[kani::unwind($unw)]
        #[kani::stub(b58::decode_check, decode_check_model)]
        #[kani::stub(sffi::secp256k1_ec_pubkey_parse, ffi_models::pubkey_parse_model)]
        #[kani::stub(sffi::secp256k1_ec_pubkey_serialize, ffi_models::pubkey_serialize_model)]
        fn $name() {
            const N: usize = $n;
            ffi_models::init();
            let a: [u8; N] = ascii::<N>();
            let s: &str = match core::str::from_utf8(&a) { Ok(s) => s, Err(_) => { assert!(false); return; } };
            let k: u8 = kani::any();
            kani::assume(k < 3);
            let params: &'static AddressParams = match k { 0 => &LIQ, 1 => &ELE, _ => &TLQ };
            let r = Address::parse_with_params(s, params);
            let stub_active = unsafe { DECODE_CALLS } > 0;
            kani::cover!(stub_active);
            kani::cover!(N < 3 || matches!(r, Err(AddressError::Blech32(_))));
            kani::cover!(N < 3 || matches!(r, Err(AddressError::Bech32(_))));
            kani::cover!(matches!(r, Err(AddressError::Base58(_))));
            kani::cover!(matches!(r, Err(AddressError::InvalidLength(_))));
            kani::cover!(matches!(r, Err(AddressError::InvalidAddressVersion(_))));
            kani::cover!(matches!(r, Ok(_)));
            if let Ok(ref adr) = r {
                assert!(core::ptr::eq(adr.params, params));
                assert!(!matches!(adr.payload, Payload::WitnessProgram { .. }));
            }
            core::mem::forget(r);
        }
    };
}
//@ harness: parse_with_params_l0 class=F tier=quick props=C10 timeout=600
//@ clause: Address::parse_with_params(s, LIQUID|ELEMENTS|LIQUID_TESTNET) on the empty string: no panic; Ok only with the given network; [A] base58 decode_check and pubkey parse by model
parse_with_params_total!(parse_with_params_l0, 0, 6);
//@ harness: parse_with_params_l3 class=F tier=quick props=C10 timeout=900
//@ clause: same, every 3-character ASCII string
parse_with_params_total!(parse_with_params_l3, 3, 7);
//@ harness: parse_with_params_l5 class=F tier=thorough props=C10 timeout=1800
//@ clause: same, every 5-character ASCII string
parse_with_params_total!(parse_with_params_l5, 5, 9);
