//@ property: C10 C06
//@ mount: src/address.rs
//@ functions: src/address.rs::Address::from_str, src/address.rs::Address::parse_with_params, src/address.rs::Address::from_bech32, src/address.rs::Address::from_base58
//
// Totality of the textual address parsers on every ASCII string of a concrete length: Ok or Err, no panic /
// overflow / out-of-bounds.  `Address::from_str` has SIX call sites of the private `Address::from_bech32`
// (3 networks x blinded/unblinded) and CBMC unrolls both segwit decoders at each of them (no answer in 15 min
// even for 2-character strings), so the statement is split the contract way:
//   * from_bech32_lN: the REAL `Address::from_bech32(s, blinded, params)` — the crate's blech32 decoder, the
//     bech32 crate's decoder, byte collection, key split — is total for every ASCII string, both `blinded`
//     values and all three networks;
//   * from_str_lN / parse_with_params_lN: the REAL dispatchers with `from_bech32` replaced by a model that
//     returns an arbitrary outcome and records its arguments: no panic, and `from_bech32` is entered exactly
//     when the prefix before the last '1' equals, up to ASCII case, the HRP of the (network, blinded?) pair
//     that is passed on (C06: a string is dispatched to at most one network).
// On the base58 side:
//   [A] `bitcoin::base58::decode_check` (base58 arithmetic + double SHA-256, not executable under CBMC) is
//       replaced by a model returning EITHER an error OR an arbitrary byte vector of a length drawn from
//       {0, 1, 20, 21, 22, 54, 55, 56, 60} (all boundary lengths of the two layouts) with arbitrary contents;
//   [A] libsecp pubkey parsing by the model of support/c06_ffi_models.rs.
use super::*;
use bitcoin::base58 as b58;
use bitcoin::secp256k1::ffi as sffi;

#[path = "support/c06_ffi_models.rs"]
mod ffi_models;

static LIQ: AddressParams = AddressParams::LIQUID;
static ELE: AddressParams = AddressParams::ELEMENTS;
static TLQ: AddressParams = AddressParams::LIQUID_TESTNET;

static mut DECODE_CALLS: usize = 0;

fn decode_check_model(_s: &str) -> Result<Vec<u8>, b58::Error> {
    unsafe { DECODE_CALLS += 1; }
    let sel: u8 = kani::any();
    kani::assume(sel < 10);
    if sel == 9 {
        // some error value of the real type: '0' is not a base58 digit
        return match b58::decode("0") {
            Err(e) => Err(b58::Error::Decode(e)),
            Ok(v) => { core::mem::forget(v); kani::assume(false); Ok(Vec::new()) }
        };
    }
    let buf: [u8; 60] = kani::any();
    Ok(match sel {
        0 => Vec::new(),
        1 => buf[..1].to_vec(),
        2 => buf[..20].to_vec(),
        3 => buf[..21].to_vec(),
        4 => buf[..22].to_vec(),
        5 => buf[..54].to_vec(),
        6 => buf[..55].to_vec(),
        7 => buf[..56].to_vec(),
        _ => buf[..60].to_vec(),
    })
}

fn ascii<const N: usize>() -> [u8; N] {
    let a: [u8; N] = kani::any();
    let mut i = 0;
    while i < N { kani::assume(a[i] < 128); i += 1; }
    a
}

// ---- model of Address::from_bech32 for the dispatcher harnesses (its totality is from_bech32_l*) --------
static mut FB_CALLS: usize = 0;
static mut FB_BLINDED: bool = false;
static mut FB_PARAMS: usize = 0;
fn from_bech32_model(_s: &str, blinded: bool, params: &'static AddressParams) -> Result<Address, AddressError> {
    unsafe { FB_CALLS += 1; FB_BLINDED = blinded; FB_PARAMS = params as *const AddressParams as usize; }
    if kani::any() {
        Err(AddressError::InvalidSegwitV0Encoding)
    } else {
        Ok(Address { params, payload: Payload::WitnessProgram { version: Fe32::P, program: Vec::new() }, blinding_pubkey: None })
    }
}

/// independent oracle: does `a[..p]` equal `hrp` up to ASCII case?
fn eq_nocase(a: &[u8], p: usize, hrp: &[u8]) -> bool {
    if p != hrp.len() { return false; }
    let mut ok = true;
    let mut k = 0;
    while k < 3 {
        if k < p {
            let c = if a[k] >= b'A' && a[k] <= b'Z' { a[k] + 32 } else { a[k] };
            if c != hrp[k] { ok = false; }
        }
        k += 1;
    }
    ok
}

macro_rules! dispatch_total {
    ($name:ident, $n:expr, $unw:literal, $with_params:expr) => {
        #[kani::proof]
        #[kani::unwind($unw)]
        #[kani::stub(super::Address::from_bech32, from_bech32_model)]
        #[kani::stub(b58::decode_check, decode_check_model)]
        #[kani::stub(sffi::secp256k1_ec_pubkey_parse, ffi_models::pubkey_parse_model)]
        #[kani::stub(sffi::secp256k1_ec_pubkey_serialize, ffi_models::pubkey_serialize_model)]
        fn $name() {
            const N: usize = $n;
            ffi_models::init();
            let a: [u8; N] = ascii::<N>();
            let s: &str = match core::str::from_utf8(&a) { Ok(s) => s, Err(_) => { assert!(false); return; } };
            let k: u8 = kani::any();
            kani::assume(k < 3);
            let params: &'static AddressParams = match k { 0 => &LIQ, 1 => &ELE, _ => &TLQ };
            let r = if $with_params { Address::parse_with_params(s, params) } else { Address::from_str(s) };
            let (fb, fb_bl, fb_par, dec) = unsafe { (FB_CALLS, FB_BLINDED, FB_PARAMS, DECODE_CALLS) };
            // ---- dispatch oracle (property text: prefix = part before the last '1', compared case-insensitively)
            let mut last: Option<usize> = None;
            let mut i = 0;
            while i < N { if a[i] == b'1' { last = Some(i); } i += 1; }
            let p = match last { Some(x) => x, None => N };
            let nets: [(&'static AddressParams, &[u8], &[u8]); 3] = [(&LIQ, b"ex", b"lq"), (&ELE, b"ert", b"el"), (&TLQ, b"tex", b"tlq")];
            let mut want: Option<(usize, bool)> = None;
            let mut j = 0;
            while j < 3 {
                let considered = !$with_params || core::ptr::eq(nets[j].0, params);
                if considered && p <= 3 {
                    if eq_nocase(&a, p, nets[j].1) { want = Some((nets[j].0 as *const AddressParams as usize, false)); }
                    if eq_nocase(&a, p, nets[j].2) { want = Some((nets[j].0 as *const AddressParams as usize, true)); }
                }
                j += 1;
            }
            if fb + dec > 0 { // recorder active (under `cargo kani playback` stubs are not applied: skip)
                match want {
                    Some((wp, wb)) => { assert!(fb == 1 && dec == 0); assert!(fb_par == wp && fb_bl == wb); }
                    None => { assert!(fb == 0 && dec == 1); }
                }
            }
            if let Ok(ref adr) = r {
                if $with_params { assert!(core::ptr::eq(adr.params, params)); }
            }
            kani::cover!(N < 3 || fb == 1);
            kani::cover!(dec == 1);
            kani::cover!(N < 3 || (fb == 1 && fb_bl));
            kani::cover!(N < 3 || (fb == 1 && !fb_bl));
            kani::cover!(matches!(r, Err(AddressError::Base58(_))));
            kani::cover!(matches!(r, Err(AddressError::InvalidLength(_))));
            kani::cover!($with_params || matches!(r, Err(AddressError::InvalidAddress(_))));
            kani::cover!(matches!(r, Ok(Address { blinding_pubkey: None, payload: Payload::PubkeyHash(_), .. })));
            kani::cover!(matches!(r, Ok(Address { blinding_pubkey: Some(_), .. })));
            core::mem::forget(r);
        }
    };
}
//@ harness: from_str_l0 class=F tier=quick props=C10,C06 timeout=900
//@ clause: Address::from_str on the empty string: no panic; goes to base58; [A] from_bech32 by recording model (totality: from_bech32_l*), base58 decode_check and pubkey parse by model
dispatch_total!(from_str_l0, 0, 6, false);
//@ harness: from_str_l3 class=F tier=thorough props=C10,C06 timeout=1800
//@ clause: Address::from_str on every 3-character ASCII string: no panic; from_bech32 is entered IFF the prefix before the last '1' equals one of the six HRPs up to case, with exactly that network and blinded flag; otherwise base58
dispatch_total!(from_str_l3, 3, 7, false);
//@ harness: from_str_l4 class=F tier=thorough props=C10,C06 timeout=2400
//@ clause: same, every 4-character ASCII string (reaches ert1 / tex1 / tlq1 and ex1x / lq1x / el1x)
dispatch_total!(from_str_l4, 4, 8, false);
//@ harness: parse_with_params_l0 class=F tier=quick props=C10,C06 timeout=900
//@ clause: Address::parse_with_params(s, LIQUID|ELEMENTS|LIQUID_TESTNET) on the empty string: no panic; Ok only with the given network
dispatch_total!(parse_with_params_l0, 0, 6, true);
//@ harness: parse_with_params_l3 class=F tier=thorough props=C10,C06 timeout=1800
//@ clause: same on every 3-character ASCII string; from_bech32 entered IFF the prefix equals one of the two HRPs of the given network
dispatch_total!(parse_with_params_l3, 3, 7, true);
//@ harness: parse_with_params_l4 class=F tier=thorough props=C10,C06 timeout=2400
//@ clause: same, every 4-character ASCII string
dispatch_total!(parse_with_params_l4, 4, 8, true);

macro_rules! from_bech32_total {
    ($name:ident, $n:expr, $unw:literal) => {
        #[kani::proof]
        #[kani::unwind($unw)]
        #[kani::stub(sffi::secp256k1_ec_pubkey_parse, ffi_models::pubkey_parse_model)]
        #[kani::stub(sffi::secp256k1_ec_pubkey_serialize, ffi_models::pubkey_serialize_model)]
        fn $name() {
            const N: usize = $n;
            ffi_models::init();
            let a: [u8; N] = ascii::<N>();
            let s: &str = match core::str::from_utf8(&a) { Ok(s) => s, Err(_) => { assert!(false); return; } };
            let k: u8 = kani::any();
            kani::assume(k < 3);
            let params: &'static AddressParams = match k { 0 => &LIQ, 1 => &ELE, _ => &TLQ };
            let blinded: bool = kani::any();
            let r = Address::from_bech32(s, blinded, params);
            // fewer than hrp + '1' + version + checksum characters: never an address
            assert!(r.is_err());
            kani::cover!(blinded && matches!(r, Err(AddressError::Blech32(_))));
            kani::cover!(!blinded && matches!(r, Err(AddressError::Bech32(_))));
            core::mem::forget(r);
        }
    };
}
//@ harness: from_bech32_l0 class=F tier=quick props=C10 timeout=900
//@ clause: the real Address::from_bech32 (blech32 decoder for blinded, bech32-crate decoder for unblinded) on the empty string, all networks: Err, no panic
from_bech32_total!(from_bech32_l0, 0, 4);
//@ harness: from_bech32_l3 class=F tier=thorough props=C10 timeout=900
//@ clause: same, every 3-character ASCII string (incl. "el1", "ex1": empty data part)
from_bech32_total!(from_bech32_l3, 3, 7);
//@ harness: from_bech32_l4 class=F tier=thorough props=C10 timeout=1800
//@ clause: same, every 4-character ASCII string
from_bech32_total!(from_bech32_l4, 4, 8);
//@ harness: from_bech32_l6 class=F tier=thorough props=C10 timeout=1800
//@ clause: same, every 6-character ASCII string
from_bech32_total!(from_bech32_l6, 6, 10);
