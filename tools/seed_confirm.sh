#!/bin/bash
# usage: seed_confirm.sh <dir with patch.diff demo.rs meta.json> <id>   -> confirms in a scratch worktree, copies to /verif/seeded/<id>/
# confirms: patch applies to /repo HEAD; existing lib tests pass with it; demo fails with it and passes without it.
set -u
SRC=$1; ID=$2
WT=/tmp/seedconf
if [ ! -d $WT ]; then git -C /repo worktree add -q --detach $WT HEAD; fi
cd $WT && git checkout -q --detach $(git -C /repo rev-parse HEAD) && git checkout -q -- . && git clean -fdq tests/ src/
cp $SRC/demo.rs tests/seed_demo.rs
base=$(cargo test --offline --test seed_demo 2>&1 | grep -E "^test result" | tail -1)
if ! git apply --check $SRC/patch.diff 2>/dev/null; then echo "$ID: PATCH DOES NOT APPLY to HEAD"; git checkout -q -- .; git clean -fdq tests/; exit 3; fi
git apply $SRC/patch.diff
lib=$(cargo test --offline --lib 2>&1 | grep -E "^test result" | tail -1)
libs=$(cargo test --offline --features serde --lib 2>&1 | grep -E "^test result" | tail -1)
demo=$(cargo test --offline --test seed_demo 2>&1 | grep -E "^test result" | tail -1)
git checkout -q -- . ; git clean -fdq tests/
echo "$ID: base-demo=[$base] patched-lib=[$lib] patched-lib-serde=[$libs] patched-demo=[$demo]"
ok=1
echo "$base" | grep -q "ok\." || ok=0
echo "$lib" | grep -q "ok\." || ok=0
echo "$libs" | grep -q "ok\." || ok=0
echo "$demo" | grep -q "FAILED" || ok=0
if [ $ok = 1 ]; then
  mkdir -p /verif/seeded/$ID && cp $SRC/patch.diff $SRC/demo.rs /verif/seeded/$ID/
  python3 - "$SRC/meta.json" "/verif/seeded/$ID/meta.json" "$ID" "$base" "$lib" "$libs" "$demo" <<'PY'
import json,sys
m=json.load(open(sys.argv[1]))
m['id']=sys.argv[3]
m['confirmed_by_lead']={'repo_head':__import__('subprocess').check_output(['git','-C','/repo','rev-parse','--short','HEAD'],text=True).strip(),
  'demo_on_unchanged_tree':sys.argv[4],'existing_lib_tests_with_patch':sys.argv[5],'existing_lib_tests_serde_with_patch':sys.argv[6],'demo_with_patch':sys.argv[7],
  'ran':'tools/seed_confirm.sh: git apply patch.diff in a scratch worktree of /repo HEAD; cargo test --offline --lib; cargo test --offline --features serde --lib; cargo test --offline --test seed_demo (with and without the patch)'}
json.dump(m,open(sys.argv[2],'w'),indent=1)
PY
  echo "$ID: CONFIRMED -> /verif/seeded/$ID"
else
  echo "$ID: NOT CONFIRMED"
fi
