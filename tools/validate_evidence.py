#!/usr/bin/env python3
import json, sys, glob, os
import jsonschema
root=os.path.dirname(os.path.dirname(os.path.abspath(__file__)))
sch=json.load(open('/root/.vp/EVIDENCE.schema.json'))
ok=True
for f in sorted(glob.glob(os.path.join(root,'evidence','*.json'))):
    try:
        d=json.load(open(f)); jsonschema.validate(d,sch)
        c=d['coverage']
        print(os.path.basename(f),'valid','obl=%d disch=%d bounded=%d wall=%.0fs'%(c.get('obligations',0),c.get('discharged',0),len(c.get('bounded_checks',[])),d['wall_s']))
    except Exception as e:
        ok=False; print(os.path.basename(f),'INVALID',str(e)[:300])
sys.exit(0 if ok else 1)
