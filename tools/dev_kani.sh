#!/bin/bash
# dev loop: persistent scratch ($DEV_DIR, default /var/tmp/verif-dev) with harness modules mounted (DEV_MODS=substr,substr limits which);
# DEV_PATCH=<unified diff against /repo> is applied to the scratch copy (for mutation tests); usage: dev_kani.sh <harness-substr> [extra cargo-kani args]
set -e
D=${DEV_DIR:-/var/tmp/verif-dev}
python3 - "$D" <<'PY'
import sys, os, shutil, subprocess
sys.path.insert(0, '/verif/lib')
import kani_run, common
D = sys.argv[1]
repo = os.path.join(D, 'repo')
os.makedirs(repo, exist_ok=True)
subprocess.check_call(['rsync','-a','--delete','--exclude','/target','--exclude','/.git','--exclude','/verif_kani','--exclude','/.cargo', common.REPO+'/', repo+'/'])
os.makedirs(os.path.join(repo,'.cargo'), exist_ok=True)
open(os.path.join(repo,'.cargo','config.toml'),'w').write('[net]\noffline = true\n')
if not os.path.isdir(os.path.join(repo,'target')):
    subprocess.call(['cp','-a',os.path.join(common.CACHE_ROOT,'kani-target'), os.path.join(repo,'target')])
if os.environ.get('DEV_PATCH'):
    subprocess.check_call(['patch','-p1','-s','-i',os.environ['DEV_PATCH']], cwd=repo)
kd = os.path.join(repo,'verif_kani')
shutil.rmtree(kd, ignore_errors=True)
shutil.copytree(kani_run.KANI_DIR, kd)
mods = [kani_run.Module(os.path.join(kani_run.KANI_DIR,f)) for f in sorted(os.listdir(kani_run.KANI_DIR)) if f.endswith('.rs')]
only = os.environ.get('DEV_MODS')
for m in mods:
    if not m.mount: continue
    if only and not any(o in m.file for o in only.split(',')): continue
    for c in m.contracts:
        p = os.path.join(repo, c['file']); lines = open(p).read().split('\n')
        idx = kani_run._find_fn_line(lines, c.get('impl',''), c['fn'])
        ind = lines[idx][:len(lines[idx])-len(lines[idx].lstrip())]
        lines[idx:idx] = [ind+a for a in c['attrs']]
        open(p,'w').write('\n'.join(lines))
    with open(os.path.join(repo, m.mount),'a') as f:
        f.write('\n#[cfg(kani)] #[path = "%s"] mod %s;\n' % (os.path.join(kd,m.file), m.modname))
PY
cd $D/repo
H=$1; shift
CARGO_NET_OFFLINE=true cargo kani -Z function-contracts -Z stubbing -Z unstable-options --no-assertion-reach-checks --output-format terse --harness "$H" "$@" 2>&1 | grep -v "^warning\|^ *|\|^ *= note\|^ *-->\|^$\|register_tool\|^[0-9 ]*|" 
