#!/bin/bash
# usage: run_seeded.sh <seed-id> <prop> [tier]   -> applies /verif/seeded/<id>/patch.diff to /repo, runs the check, reverts.
ID=$1; PROP=$2; TIER=${3:-quick}
cd /repo || exit 9
if ! git diff --quiet; then echo "repo dirty, abort"; exit 9; fi
if ! git apply --3way /verif/seeded/$ID/patch.diff 2>/tmp/apply_err.txt; then
  if ! patch -p1 -s --fuzz=3 < /verif/seeded/$ID/patch.diff; then echo "$ID: patch does not apply to current HEAD"; git checkout -q -- .; git reset -q; exit 8; fi
fi
git reset -q   # 3way stages; keep as working-tree change only
cd /verif && ./check $PROP --tier $TIER --no-evidence > /var/tmp/vs/seedrun_${ID}_${PROP}.log 2>&1; rc=$?
git -C /repo checkout -q -- .
printf "%s\t%s\t%s\t%s\t%s\t%s\n" "$ID" "$PROP" "$TIER" "$rc" "$(git -C /verif rev-parse --short HEAD)" "$(grep -E '^(VIOLATION|UNDECIDED|KNOWN)' /var/tmp/vs/seedrun_${ID}_${PROP}.log | sed -e 's/replay=\/verif\/replay\///' | cut -c1-150 | tr '\n' '|')" >> /verif/seeded/results.tsv
echo "$ID $PROP tier=$TIER rc=$rc :: $(grep -E '^(VIOLATION|UNDECIDED|KNOWN)' /var/tmp/vs/seedrun_${ID}_${PROP}.log | cut -c1-160 | tr '\n' '|')"
