#!/usr/bin/env python3
"""Regenerates /verif/MANIFEST.json from tools/manifest_table.json (kept in one place so it stays schema-valid)."""
import json, os, sys
here = os.path.dirname(os.path.abspath(__file__))
root = os.path.dirname(here)
tab = json.load(open(os.path.join(here, "manifest_table.json")))
checks = []
for pid, e in sorted(tab["claimed"].items()):
    checks.append({
        "property_id": pid,
        "quick_cmd": "./check %s --tier quick" % pid,
        "thorough_cmd": "./check %s --tier thorough" % pid,
        "evidence_file": "evidence/%s.json" % pid,
        "replay_cmd_template": "./check %s --replay {path}" % pid,
        "engine": e["engine"],
        "level_claimed": {"category": "proof", "text": e["level_text"], "design_ref": e["design_ref"]},
        "level_note": e["level_note"],
        "technique": e["technique"],
    })
props = [json.loads(l)["id"] for l in open(os.path.join(root, "properties.jsonl")) if l.strip()]
for pid in props:
    if pid not in tab["claimed"] and pid not in tab["not_applicable"]:
        tab["not_applicable"][pid] = "check not built yet in this round (planned: DESIGN.md section 4/8); not claimed until its obligations are discharged on the unchanged tree"
m = {
    "version": 1,
    "setup_cmd": "./check --setup",
    "hooks": {
        "guard": "cfg(kani)",
        "enable": "no hook commits in /repo: each check rsyncs /repo's working tree to a scratch directory and appends `#[cfg(kani)] #[path=...] mod verif_*;` lines (add-only, verified by a line-subsequence check) before running `cargo kani`; Verus units re-extract function text from /repo on every run",
        "baseline_off_cmd": "cd /repo && cargo test --workspace --no-fail-fast --offline",
        "source_commits": [],
        "add_only": True,
    },
    "engines": tab["engines"],
    "checks": checks,
    "notes": tab["notes"],
    "not_applicable": [{"property_id": k, "reason": v} for k, v in sorted(tab["not_applicable"].items())],
}
json.dump(m, open(os.path.join(root, "MANIFEST.json"), "w"), indent=1)
try:
    import jsonschema
    jsonschema.validate(m, json.load(open("/root/.vp/MANIFEST.schema.json")))
    print("MANIFEST.json valid;", len(checks), "checks;", len(m["not_applicable"]), "not applicable")
except ImportError:
    print("jsonschema not available; written without validation")
