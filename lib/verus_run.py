"""V-track: Verus on function bodies extracted verbatim from /repo's working tree on every run.

A unit is a template file /verif/verus/<unit>.rs. Everything outside `//@extract ... //@end` regions is
hand-written (environment prelude = assumed contracts, spec functions, lemmas). Each region is replaced by the
*current* text of the named function in /repo, into which only the listed clauses are inserted:

  //@extract file=<path> fn=<name> [in="<impl/mod header>"] [nth=<k>]
  //@ret <ident>                 name the return value:  -> T   becomes   -> (<ident>: T)
  //@spec                        payload inserted between signature and body `{`
  //@loop <k>                    payload inserted between the k-th loop header and its `{`
  //@at "<token anchor>" before|after [nth=<k>]     payload inserted before/after the anchored tokens
  //@rewrite "<tokens>" => "<tokens>" [nth=<k>|all]  declared rewrite (reported in evidence)
  //@| <payload line>
  //@end
"""
import json
import os
import re
import subprocess
import time

import rustlex
from common import REPO, VERIF, log, new_scratch, rm_scratch, sha_text

VERUS_DIR = os.path.join(VERIF, "verus")

VERIF_ERRORS = (
    "postcondition not satisfied", "precondition not satisfied", "assertion failed",
    "invariant not satisfied", "possible arithmetic underflow/overflow", "decreases not satisfied",
    "possible division by zero", "possible bit shift underflow/overflow", "loop invariant",
    "could not prove termination", "unreachable", "recommendation not met", "cannot show invariant",
    "failed this", "possible overflow", "possible underflow", "may not terminate", "index out of bounds",
    "assertion not satisfied",
)
LIMIT_ERRORS = ("Resource limit (rlimit) exceeded", "rlimit", "timed out", "solver returned unknown")


class Unit:
    def __init__(self, path):
        self.path = path
        self.name = os.path.splitext(os.path.basename(path))[0]
        self.props = []
        self.tier = "quick"
        self.clause = ""
        self.rlimit = None
        self.paired = None
        self.text = _expand_includes(open(path).read(), os.path.dirname(path))
        for line in self.text.split("\n"):
            s = line.strip()
            if s.startswith("//@ property:"):
                self.props = s.split(":", 1)[1].split()
            elif s.startswith("//@ unit:"):
                kv = dict(re.findall(r"(\w+)=(\S+)", s))
                self.tier = kv.get("tier", "quick")
                if "rlimit" in kv:
                    self.rlimit = kv["rlimit"]
            elif s.startswith("//@ paired:"):
                self.paired = s.split(":", 1)[1].strip()
            elif s.startswith("//@ clause:"):
                self.clause = (self.clause + " " + s.split(":", 1)[1].strip()).strip()


def _expand_includes(text, base, depth=0):
    out = []
    for line in text.split("\n"):
        m = re.match(r"\s*//@include\s+(\S+)", line)
        if m and depth < 4:
            inc = open(os.path.join(base, m.group(1))).read()
            out.append("// ---- begin include %s" % m.group(1))
            out.append(_expand_includes(inc, base, depth + 1))
            out.append("// ---- end include %s" % m.group(1))
        else:
            out.append(line)
    return "\n".join(out)


def load_units(prop):
    out = []
    if not os.path.isdir(VERUS_DIR):
        return out
    en = None
    if os.path.exists(os.path.join(VERUS_DIR, "ENABLED")):
        en = set(l.strip() for l in open(os.path.join(VERUS_DIR, "ENABLED")) if l.strip() and not l.startswith("#"))
    for f in sorted(os.listdir(VERUS_DIR)):
        if f.endswith(".rs"):
            if en is not None and f not in en and not os.environ.get("VERIF_ALL_MODULES"):
                continue
            u = Unit(os.path.join(VERUS_DIR, f))
            if prop in u.props:
                out.append(u)
    return out


class LostAnchor(Exception):
    pass


def _kv(s):
    d = dict(re.findall(r'(\w+)=("[^"]*"|\S+)', s))
    return {k: v.strip('"') for k, v in d.items()}


def _parse_region(lines):
    """lines: directive lines of one region (without the //@extract line). Returns list of directives."""
    dirs = []
    cur = None
    for l in lines:
        s = l.strip()
        if s.startswith("//@|"):
            if cur is None:
                raise ValueError("payload without directive: " + s)
            cur["payload"].append(l.split("//@|", 1)[1][1:] if l.split("//@|", 1)[1].startswith(" ") else l.split("//@|", 1)[1])
            continue
        if not s.startswith("//@"):
            if s:
                raise ValueError("unexpected line inside extract region: " + s)
            continue
        body = s[3:].strip()
        word = body.split()[0] if body.split() else ""
        cur = dict(kind=word, arg=body[len(word):].strip(), payload=[])
        dirs.append(cur)
    return dirs


def extract_function(file_rel, fn_name, in_hdr=None, nth=1):
    path = os.path.join(REPO, file_rel)
    if not os.path.exists(path):
        raise LostAnchor("file missing: " + file_rel)
    src = open(path).read()
    ct = rustlex.code_tokens(rustlex.lex(src))
    lo, hi = 0, len(ct)
    if in_hdr:
        blk = rustlex.find_item_block(ct, rustlex.norm(in_hdr))
        if not blk:
            raise LostAnchor("item header not found in %s: %s" % (file_rel, in_hdr))
        lo, hi = blk
    f = None
    pos = lo
    for _ in range(nth):
        f = rustlex.find_fn(ct, fn_name, pos, hi)
        if not f:
            raise LostAnchor("fn %s not found in %s %s" % (fn_name, file_rel, in_hdr or ""))
        pos = f[2]
    return src, ct, f


def render_region(hdr, dirs):
    """Returns (text, segments, info). segments: list of (generated_text, src_line or None)."""
    kv = _kv(hdr)
    if "item" in kv:
        return render_item(kv, dirs)
    src, ct, (kw, bopen, bclose) = extract_function(kv["file"], kv["fn"], kv.get("in"), int(kv.get("nth", "1")))
    start = ct[kw][2]
    if kv.get("vis") == "keep":
        # keep the source's visibility qualifier (default: dropped, see DESIGN 3.2)
        j = kw - 1
        if j >= 0 and ct[j][1] == ")":
            k2 = j
            while k2 > 0 and ct[k2][1] != "(":
                k2 -= 1
            if k2 > 0 and ct[k2 - 1][1] == "pub":
                start = ct[k2 - 1][2]
        elif j >= 0 and ct[j][1] == "pub":
            start = ct[j][2]
    end = ct[bclose][3]
    inserts = []  # (offset, text, order)
    hoisted = []
    replaces = []  # (start, end, text)
    rewrites = []
    loops = rustlex.loop_headers(ct, bopen, bclose)
    for d in dirs:
        payload = "\n".join(d["payload"])
        k = d["kind"]
        if k == "spec":
            inserts.append((ct[bopen][2], "\n" + payload + "\n"))
        elif k == "body-start":
            # structural anchor: first thing inside the function body (robust against edits of statements)
            inserts.append((ct[bopen][3], "\n" + payload + "\n"))
        elif k == "body-end":
            # structural anchor: before the tail expression of the body, i.e. after the last `;` (or block-statement `}`)
            # at nesting depth 1 of the function body
            j = bopen + 1
            last = None
            while j < bclose:
                if ct[j][0] == "punct" and ct[j][1] in "([{":
                    j = rustlex.match_close(ct, j)
                    if ct[j][1] == "}" and j + 1 < bclose:
                        last = j
                elif ct[j][0] == "punct" and ct[j][1] == ";":
                    last = j
                j += 1
            off = ct[last][3] if last is not None else ct[bopen][3]
            inserts.append((off, "\n" + payload + "\n"))
        elif k == "ret":
            name = d["arg"].strip()
            # find `->` at depth 0 between kw and bopen
            j = kw
            arrow = None
            while j < bopen:
                if ct[j][0] == "punct" and ct[j][1] in "([":
                    j = rustlex.match_close(ct, j)
                elif ct[j][1] == "-" and ct[j + 1][1] == ">" and ct[j][3] == ct[j + 1][2]:
                    arrow = j
                    break
                j += 1
            if arrow is None:
                raise LostAnchor("no return type on fn %s" % kv["fn"])
            tstart = ct[arrow + 2][2]
            # return type ends before `where` or body
            e = arrow + 2
            while e < bopen and not (ct[e][0] == "ident" and ct[e][1] == "where"):
                e += 1
            tend = ct[e - 1][3]
            replaces.append((tstart, tend, "(%s: %s)" % (name, src[tstart:tend])))
        elif k == "loop":
            idx = int(d["arg"].split()[0])
            if idx < 1 or idx > len(loops):
                raise LostAnchor("fn %s has %d loops, directive wants loop %d" % (kv["fn"], len(loops), idx))
            inserts.append((ct[loops[idx - 1][1]][2], "\n" + payload + "\n"))
        elif k == "loop-pos":
            # structural anchor: //@loop-pos <k> before|after|body-start|body-end  (robust against edits of statements)
            parts = d["arg"].split()
            idx, where = int(parts[0]), parts[1]
            if idx < 1 or idx > len(loops):
                raise LostAnchor("fn %s has %d loops, directive wants loop %d" % (kv["fn"], len(loops), idx))
            kwi, boi = loops[idx - 1]
            bci = rustlex.match_close(ct, boi)
            off = {"before": ct[kwi][2], "after": ct[bci][3], "body-start": ct[boi][3], "body-end": ct[bci][2]}[where]
            inserts.append((off, "\n" + payload + "\n"))
        elif k == "at":
            m = re.match(r'"([^"]*)"\s+(before|after)(?:\s+nth=(\d+))?', d["arg"])
            if not m:
                raise ValueError("bad //@at: " + d["arg"])
            r = rustlex.find_seq(ct, rustlex.norm(m.group(1)), bopen, bclose + 1, int(m.group(3) or 1))
            if not r:
                raise LostAnchor("anchor not found in fn %s: %s" % (kv["fn"], m.group(1)))
            off = ct[r[0]][2] if m.group(2) == "before" else ct[r[1]][3]
            inserts.append((off, "\n" + payload + "\n"))
        elif k == "require":
            # the proof depends on this exact token sequence being present (e.g. a declaration order that a
            # declared rewrite has spelled out); if it is gone the unit is undecided, never "verified"
            m = re.match(r'"([^"]*)"', d["arg"])
            if not rustlex.find_seq(ct, rustlex.norm(m.group(1)), kw, bclose + 1, 1):
                raise LostAnchor("required token sequence not found in fn %s: %s" % (kv["fn"], m.group(1)))
        elif k in ("hoist", "drop"):
            # local item (enum/struct/fn) moved to module level: Verus has no "internal item statements".
            m = re.match(r'"([^"]*)"', d["arg"])
            r = rustlex.find_seq(ct, rustlex.norm(m.group(1)), bopen, bclose + 1, 1)
            if not r:
                raise LostAnchor("hoist anchor not found in fn %s: %s" % (kv["fn"], m.group(1)))
            j = r[0]
            while j <= bclose and not (ct[j][0] == "punct" and ct[j][1] in "{;"):
                if ct[j][0] == "punct" and ct[j][1] in "([":
                    j = rustlex.match_close(ct, j)
                j += 1
            endi = rustlex.match_close(ct, j) if ct[j][1] == "{" else j
            # swallow attributes directly preceding the item:  # [ ... ]
            a = r[0]
            while a - 1 > bopen and ct[a - 1][1] == "]":
                k2 = a - 1
                depth = 0
                while k2 > bopen:
                    if ct[k2][1] == "]":
                        depth += 1
                    elif ct[k2][1] == "[":
                        depth -= 1
                        if depth == 0:
                            break
                    k2 -= 1
                if ct[k2 - 1][1] == "#":
                    a = k2 - 1
                else:
                    break
            replaces.append((ct[a][2], ct[endi][3], ""))
            if k == "hoist":
                hoisted.append(src[ct[r[0]][2]:ct[endi][3]])
                rewrites.append("%s::%s: local item `%s` hoisted to module level, its attributes dropped" % (kv["file"], kv["fn"], m.group(1)))
            else:
                rewrites.append("%s::%s: local item `%s` DROPPED and replaced by the assumed contract of the same name in the environment prelude" % (kv["file"], kv["fn"], m.group(1)))
        elif k == "rewrite":
            m = re.match(r'"([^"]*)"\s*=>\s*"([^"]*)"(?:\s+nth=(\d+|all))?', d["arg"])
            if not m:
                raise ValueError("bad //@rewrite: " + d["arg"])
            which = m.group(3) or "1"
            n = 1
            cnt = 0
            while True:
                r = rustlex.find_seq(ct, rustlex.norm(m.group(1)), kw, bclose + 1, n)
                if not r:
                    break
                if which == "all" or int(which) == n:
                    replaces.append((ct[r[0]][2], ct[r[1]][3], m.group(2)))
                    cnt += 1
                n += 1
            if cnt == 0:
                raise LostAnchor("rewrite source not found in fn %s: %s" % (kv["fn"], m.group(1)))
            rewrites.append("%s::%s: `%s` => `%s` (x%d)" % (kv["file"], kv["fn"], m.group(1), m.group(2), cnt))
        else:
            raise ValueError("unknown directive //@%s" % k)
    # build segments
    events = [(o, o, t) for (o, t) in inserts] + list(replaces)
    events.sort(key=lambda e: (e[0], e[1]))
    segs = []
    pos = start
    for (a, b, t) in events:
        if a < pos:
            raise ValueError("overlapping edits in fn %s" % kv["fn"])
        if a > pos:
            segs.append((src[pos:a], src.count("\n", 0, pos) + 1))
        segs.append((t, None))
        pos = b
    segs.append((src[pos:end], src.count("\n", 0, pos) + 1))
    info = dict(file=kv["file"], fn=kv["fn"], src_hash=sha_text(src[start:end]),
                src_line=src.count("\n", 0, start) + 1, rewrites=rewrites, hoisted=hoisted)
    return segs, info


def render_item(kv, dirs):
    """Verbatim extraction of a struct/enum/const/type item (attributes above it are dropped)."""
    path = os.path.join(REPO, kv["file"])
    if not os.path.exists(path):
        raise LostAnchor("file missing: " + kv["file"])
    src = open(path).read()
    ct = rustlex.code_tokens(rustlex.lex(src))
    lo, hi = 0, len(ct)
    if kv.get("in"):
        blk = rustlex.find_item_block(ct, rustlex.norm(kv["in"]))
        if not blk:
            raise LostAnchor("item header not found: " + kv["in"])
        lo, hi = blk
    r = rustlex.find_seq(ct, rustlex.norm(kv["item"]), lo, hi, int(kv.get("nth", "1")))
    if not r:
        raise LostAnchor("item not found in %s: %s" % (kv["file"], kv["item"]))
    j = r[0]
    while j < hi and not (ct[j][0] == "punct" and ct[j][1] in "{;"):
        if ct[j][0] == "punct" and ct[j][1] in "([":
            j = rustlex.match_close(ct, j)
        j += 1
    endi = rustlex.match_close(ct, j) if ct[j][1] == "{" else j
    # tuple structs: `struct X(..);`
    start, end = ct[r[0]][2], ct[endi][3]
    replaces, rewrites = [], []
    for d in dirs:
        if d["kind"] == "rewrite":
            m = re.match(r'"([^"]*)"\s*=>\s*"([^"]*)"(?:\s+nth=(\d+|all))?', d["arg"])
            which = m.group(3) or "1"
            n, cnt = 1, 0
            while True:
                q = rustlex.find_seq(ct, rustlex.norm(m.group(1)), r[0], endi + 1, n)
                if not q:
                    break
                if which == "all" or int(which) == n:
                    replaces.append((ct[q[0]][2], ct[q[1]][3], m.group(2)))
                    cnt += 1
                n += 1
            if cnt == 0:
                raise LostAnchor("rewrite source not found in item %s: %s" % (kv["item"], m.group(1)))
            rewrites.append("%s::%s: `%s` => `%s` (x%d)" % (kv["file"], kv["item"], m.group(1), m.group(2), cnt))
        else:
            raise ValueError("directive //@%s not allowed on item extraction" % d["kind"])
    replaces.sort()
    segs, pos = [], start
    for (a, b, t) in replaces:
        segs.append((src[pos:a], src.count("\n", 0, pos) + 1))
        segs.append((t, None))
        pos = b
    segs.append((src[pos:end], src.count("\n", 0, pos) + 1))
    info = dict(file=kv["file"], fn=kv["item"], src_hash=sha_text(src[start:end]),
                src_line=src.count("\n", 0, start) + 1, rewrites=rewrites, hoisted=[])
    return segs, info


def generate(unit):
    """Returns (generated text, line map {gen_line: (file, src_line)}, infos)."""
    out_segs = []  # (text, (file, line) or None)
    infos = []
    lines = unit.text.split("\n")
    i = 0
    while i < len(lines):
        s = lines[i].strip()
        if s.startswith("//@extract"):
            hdr = s[len("//@extract"):]
            j = i + 1
            region = []
            while j < len(lines) and not lines[j].strip().startswith("//@end"):
                region.append(lines[j])
                j += 1
            if j >= len(lines):
                raise ValueError("unterminated //@extract in " + unit.path)
            segs, info = render_region(hdr, _parse_region(region))
            infos.append(info)
            for t, sl in segs:
                out_segs.append((t, (info["file"], sl) if sl else None))
            out_segs.append(("\n", None))
            i = j + 1
        else:
            out_segs.append((lines[i] + "\n", None))
            i += 1
    # hoisted local items are emitted where the template says  //@hoisted-here fn=<name>
    final = []
    for t, origin in out_segs:
        m = re.match(r"\s*//@hoisted-here\s+fn=(\w+)", t)
        if m and origin is None:
            for info in infos:
                if info["fn"] == m.group(1):
                    for h in info["hoisted"]:
                        final.append((h + "\n", None))
        else:
            final.append((t, origin))
    out_segs = final
    text = ""
    linemap = {}
    gl = 1
    for t, origin in out_segs:
        if origin:
            f, sl = origin
            for k in range(t.count("\n") + 1):
                linemap[gl + k] = (f, sl + k)
        gl += t.count("\n")
        text += t
    return text, linemap, infos


def scan_trusted(text):
    found = []
    ct = rustlex.code_tokens(rustlex.lex(text))
    words = [t[1] for t in ct]
    for i, w in enumerate(words):
        if w in ("external_body", "external_type_specification", "assume_specification", "external",
                 "exec_allows_no_decreases_clause", "external_fn_specification"):
            # name of the next fn/struct
            name = "?"
            for j in range(i, min(i + 60, len(words))):
                if words[j] in ("fn", "struct", "enum", "type") and j + 1 < len(words):
                    name = words[j + 1]
                    break
            found.append("verus %s: %s" % (w, name))
        elif w in ("assume", "admit") and i + 1 < len(words) and words[i + 1] == "(":
            found.append("verus %s(...) statement" % w)
        elif w == "uninterp" and i + 3 < len(words):
            for j in range(i, min(i + 6, len(words))):
                if words[j] == "fn":
                    found.append("verus uninterpreted spec fn: %s" % words[j + 1])
                    break
    return sorted(set(found))


def parse_errors(stderr):
    """Returns list of dict(msg, line, col, detail)."""
    errs = []
    blocks = re.split(r"\n(?=error)", "\n" + stderr)
    for b in blocks:
        b = b.strip("\n")
        m = re.match(r"error(\[E\d+\])?: (.*)", b)
        if not m:
            continue
        msg = m.group(2).strip()
        if msg.startswith("aborting due to"):
            continue
        loc = re.search(r"--> ([^:\n]+):(\d+):(\d+)", b)
        flagged = ""
        fm = re.search(r"\n\s*\d+\s*\|\s(.*)\n\s*\|\s*\^", b)
        if fm:
            flagged = fm.group(1).strip()
        errs.append(dict(msg=msg, code=m.group(1) or "", line=int(loc.group(2)) if loc else 0,
                         flagged=flagged, block=b[:1500]))
    return errs


def enclosing_fn(gen_lines, line):
    for k in range(min(line, len(gen_lines)) - 1, -1, -1):
        m = re.search(r"\bfn\s+([A-Za-z_][A-Za-z0-9_]*)", gen_lines[k])
        if m and not gen_lines[k].strip().startswith("//"):
            return m.group(1)
    return "?"


def warmup():
    d = new_scratch("verus-warm")
    try:
        p = os.path.join(d, "w.rs")
        open(p, "w").write("use vstd::prelude::*;\nverus!{ proof fn t() ensures 1 + 1 == 2int {} }\nfn main(){}\n")
        subprocess.run(["verus", p], cwd=d, stdout=subprocess.PIPE, stderr=subprocess.PIPE)
    finally:
        rm_scratch(d)


def run_unit(unit, keep=False):
    rep = dict(unit=unit.name, engine="verus", status="undecided", checks=0, time_s=0.0, clause=unit.clause,
               bound="", note="", failed=[], trusted=[], functions=[])
    try:
        text, linemap, infos = generate(unit)
    except LostAnchor as e:
        rep["note"] = "lost anchor: %s" % e
        return rep
    rep["functions"] = ["%s::%s@%s" % (i["file"], i["fn"], i["src_hash"]) for i in infos]
    rep["trusted"] = scan_trusted(text) + ["verus extraction rewrite: " + r for i in infos for r in i["rewrites"]]
    d = new_scratch("verus-" + unit.name)
    try:
        p = os.path.join(d, unit.name + ".rs")
        open(p, "w").write(text)
        if os.environ.get("VERIF_KEEP_GEN"):
            open(os.path.join(os.environ["VERIF_KEEP_GEN"], unit.name + ".gen.rs"), "w").write(text)
        cmd = ["verus", p, "--output-json", "--time", "--multiple-errors", "20", "--num-threads", "8"]
        if unit.rlimit:
            cmd += ["--rlimit", unit.rlimit]
        rep["cmd"] = " ".join(cmd).replace(d + "/", "<generated>/")
        t0 = time.time()
        try:
            r = subprocess.run(cmd, cwd=d, stdout=subprocess.PIPE, stderr=subprocess.PIPE, text=True, timeout=1500)
        except subprocess.TimeoutExpired:
            rep["note"] = "verus timed out"
            return rep
        rep["time_s"] = time.time() - t0
        rep["raw"] = r.stderr
        try:
            js = json.loads(r.stdout)
        except Exception:
            js = {}
        vr = js.get("verification-results", {})
        errs = parse_errors(r.stderr)
        gen_lines = text.split("\n")
        funcs = []
        try:
            for mt in js["times-ms"]["smt"]["smt-run-module-times"]:
                funcs += mt.get("function-breakdown", [])
        except Exception:
            pass
        canaries_declared = set(re.findall(r"\bfn\s+(canary_\w+)", text))
        canaries_failed = set()
        failed = []
        hard = []
        for e in errs:
            fn = enclosing_fn(gen_lines, e["line"])
            is_verif = any(k in e["msg"] for k in VERIF_ERRORS) and not e["code"]
            is_limit = any(k in e["msg"] for k in LIMIT_ERRORS)
            if fn.startswith("canary_") and is_verif:
                canaries_failed.add(fn)
                continue
            if is_limit:
                hard.append("resource limit in %s: %s" % (fn, e["msg"]))
            elif is_verif:
                origin = linemap.get(e["line"])
                failed.append(dict(function=fn, description="%s in %s: %s" % (e["msg"], fn, e["flagged"][:100]),
                                   file=origin[0] if origin else unit.path, line=origin[1] if origin else e["line"],
                                   detail=e["block"]))
            else:
                hard.append("verus error (not a verification failure) in %s: %s" % (fn, e["msg"][:200]))
        nver = int(vr.get("verified", 0) or 0)
        nfuncs = len([f for f in funcs if not f.get("function", "").split("::")[-1].startswith("canary_")])
        rep["checks"] = max(nver, 0)
        rep["smt_functions"] = nfuncs
        rep["failed"] = failed
        if hard or vr.get("encountered-vir-error"):
            rep["status"] = "undecided"
            rep["note"] = "; ".join(hard)[:600] or "vir error"
        elif not vr:
            rep["status"] = "undecided"
            rep["note"] = "no verus result: " + r.stderr[-400:]
        elif failed:
            rep["status"] = "failed"
            rep["checks"] = nver + len(failed)
        elif canaries_declared - canaries_failed:
            rep["status"] = "undecided"
            rep["note"] = "vacuity canary verified (contradictory precondition?): %s" % sorted(
                canaries_declared - canaries_failed)
        elif nver == 0:
            rep["status"] = "undecided"
            rep["note"] = "zero obligations"
        else:
            rep["status"] = "success"
        return rep
    finally:
        if not keep:
            rm_scratch(d)
