"""A small Rust lexer sufficient to locate items, signatures, loop headers and token anchors.
Tokens are (kind, text, start, end) with kind in: ws, comment, str, char, lifetime, ident, num, punct."""
import re

_ident = re.compile(r"[A-Za-z_][A-Za-z0-9_]*")
_num = re.compile(r"[0-9][0-9A-Za-z_]*(\.[0-9][0-9A-Za-z_]*)?")


def lex(src):
    toks = []
    i, n = 0, len(src)
    while i < n:
        c = src[i]
        if c.isspace():
            j = i
            while j < n and src[j].isspace():
                j += 1
            toks.append(("ws", src[i:j], i, j))
            i = j
        elif src.startswith("//", i):
            j = src.find("\n", i)
            j = n if j < 0 else j
            toks.append(("comment", src[i:j], i, j))
            i = j
        elif src.startswith("/*", i):
            depth, j = 1, i + 2
            while j < n and depth:
                if src.startswith("/*", j):
                    depth += 1
                    j += 2
                elif src.startswith("*/", j):
                    depth -= 1
                    j += 2
                else:
                    j += 1
            toks.append(("comment", src[i:j], i, j))
            i = j
        elif c == '"' or (c in "br" and _is_str_start(src, i)):
            j = _str_end(src, i)
            toks.append(("str", src[i:j], i, j))
            i = j
        elif c == "'":
            # char literal or lifetime
            m = re.match(r"'(\\.[^']*|[^'\\])'", src[i:])
            if m:
                toks.append(("char", m.group(0), i, i + m.end()))
                i += m.end()
            else:
                m = _ident.match(src, i + 1)
                j = m.end() if m else i + 1
                toks.append(("lifetime", src[i:j], i, j))
                i = j
        elif c.isalpha() or c == "_":
            m = _ident.match(src, i)
            toks.append(("ident", m.group(0), i, m.end()))
            i = m.end()
        elif c.isdigit():
            m = _num.match(src, i)
            # do not swallow range operators: "0..5"
            t = m.group(0)
            if ".." in src[i:i + len(t) + 1] and "." in t:
                t = t.split(".")[0]
            toks.append(("num", t, i, i + len(t)))
            i += len(t)
        else:
            toks.append(("punct", c, i, i + 1))
            i += 1
    return toks


def _is_str_start(src, i):
    return re.match(r'(b?r#*"|b")', src[i:i + 8]) is not None


def _str_end(src, i):
    m = re.match(r'b?r(#*)"', src[i:])
    if m:
        close = '"' + m.group(1)
        j = src.find(close, i + m.end())
        return len(src) if j < 0 else j + len(close)
    j = i + (2 if src[i] == "b" else 1)
    while j < len(src):
        if src[j] == "\\":
            j += 2
        elif src[j] == '"':
            return j + 1
        else:
            j += 1
    return len(src)


def code_tokens(toks):
    return [t for t in toks if t[0] not in ("ws", "comment")]


def norm(text):
    """Whitespace/comment-insensitive token string."""
    return " ".join(t[1] for t in code_tokens(lex(text)))


OPEN = {"(": ")", "[": "]", "{": "}"}
CLOSE = {")": "(", "]": "[", "}": "{"}


def match_close(ct, k):
    """ct: code tokens; k index of an opening bracket; returns index of its matching close."""
    depth = 0
    for j in range(k, len(ct)):
        t = ct[j][1]
        if ct[j][0] == "punct":
            if t in OPEN:
                depth += 1
            elif t in CLOSE:
                depth -= 1
                if depth == 0:
                    return j
    raise ValueError("unbalanced brackets")


def find_item_block(ct, header_norm, start=0):
    """Find an item (impl/mod/trait) whose header token text starts with header_norm; returns (open_idx, close_idx)."""
    hn = header_norm.split(" ")
    for i in range(start, len(ct)):
        if [t[1] for t in ct[i:i + len(hn)]] == hn:
            # must be at item start: previous token is not an ident-ish that would change meaning; accept
            j = i
            while j < len(ct) and not (ct[j][0] == "punct" and ct[j][1] in "{;"):
                if ct[j][0] == "punct" and ct[j][1] in "([":
                    j = match_close(ct, j)
                j += 1
            if j < len(ct) and ct[j][1] == "{":
                return j, match_close(ct, j)
    return None


def find_fn(ct, name, lo=0, hi=None):
    """Find `fn name` between code-token indices; returns (fn_kw_idx, body_open_idx, body_close_idx)."""
    hi = len(ct) if hi is None else hi
    i = lo
    depth = 0
    while i < hi:
        t = ct[i]
        if t[0] == "ident" and t[1] == "fn" and i + 1 < hi and ct[i + 1][1] == name:
            j = i + 2
            while j < hi and not (ct[j][0] == "punct" and ct[j][1] in "{;"):
                if ct[j][0] == "punct" and ct[j][1] in "([":
                    j = match_close(ct, j)
                j += 1
            if j < hi and ct[j][1] == "{":
                return i, j, match_close(ct, j)
            return None
        i += 1
    return None


def loop_headers(ct, lo, hi):
    """Indices (kw_idx, body_open_idx) of while/for/loop headers within (lo, hi), in source order."""
    out = []
    i = lo
    while i < hi:
        t = ct[i]
        if t[0] == "ident" and t[1] in ("while", "for", "loop"):
            if t[1] == "for" and i + 1 < hi and ct[i + 1][1] == "<":
                i += 1
                continue
            j = i + 1
            while j < hi and not (ct[j][0] == "punct" and ct[j][1] == "{"):
                if ct[j][0] == "punct" and ct[j][1] in "([":
                    j = match_close(ct, j)
                j += 1
            if j < hi:
                out.append((i, j))
        i += 1
    return out


def find_seq(ct, anchor_norm, lo, hi, nth=1):
    an = anchor_norm.split(" ")
    cnt = 0
    for i in range(lo, hi - len(an) + 1):
        if [t[1] for t in ct[i:i + len(an)]] == an:
            cnt += 1
            if cnt == nth:
                return i, i + len(an) - 1
    return None
