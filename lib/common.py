"""Shared helpers: paths, scratch directories, evidence, known findings."""
import hashlib
import json
import os
import re
import shutil
import subprocess
import sys
import time

VERIF = os.path.dirname(os.path.dirname(os.path.abspath(__file__)))
REPO = os.environ.get("VERIF_REPO", "/repo")
SCRATCH_ROOT = os.environ.get("VERIF_SCRATCH", "/var/tmp/verif-scratch")
CACHE_ROOT = os.environ.get("VERIF_CACHE", "/var/tmp/verif-cache")
EVIDENCE_DIR = os.path.join(VERIF, "evidence")
REPLAY_DIR = os.path.join(VERIF, "replay")
KNOWN_FINDINGS = os.path.join(VERIF, "known_findings.txt")

EXIT_OK, EXIT_VIOLATION, EXIT_UNDECIDED = 0, 1, 2


def log(*a):
    print(*a, file=sys.stderr, flush=True)


def sha(path):
    h = hashlib.sha256()
    with open(path, "rb") as f:
        h.update(f.read())
    return h.hexdigest()[:16]


def sha_text(t):
    return hashlib.sha256(t.encode()).hexdigest()[:16]


def offline_env():
    env = dict(os.environ)
    env["CARGO_NET_OFFLINE"] = "true"
    env.pop("RUSTFLAGS", None)
    return env


def new_scratch(tag):
    d = os.path.join(SCRATCH_ROOT, "%s-%d-%d" % (tag, os.getpid(), int(time.time())))
    if os.path.exists(d):
        shutil.rmtree(d)
    os.makedirs(d)
    return d


def rm_scratch(d):
    shutil.rmtree(d, ignore_errors=True)
    try:
        os.rmdir(SCRATCH_ROOT)
    except OSError:
        pass


def copy_repo(dst):
    """Copy /repo's *working tree* (not HEAD) without build output or git metadata."""
    os.makedirs(dst, exist_ok=True)
    subprocess.check_call(
        ["rsync", "-a", "--delete", "--exclude", "/target", "--exclude", "/.git",
         "--exclude", "/fuzz/target", "--exclude", "/elementsd-tests/target",
         REPO + "/", dst + "/"])


class KnownFindings:
    """known_findings.txt lines:
         finding: property=<id> key=<obligation-key> :: <what fails>
         fixed: property=<id> <commit> <what failed>
       `fixed:` lines suppress nothing."""

    def __init__(self, path=KNOWN_FINDINGS):
        self.findings = []  # (property, key, text)
        if os.path.exists(path):
            for line in open(path):
                line = line.strip()
                m = re.match(r"finding:\s+property=(\S+)\s+key=(\S+)\s+::\s+(.*)$", line)
                if m:
                    self.findings.append((m.group(1), m.group(2), m.group(3)))

    def lookup(self, prop, key):
        for p, k, t in self.findings:
            if p == prop and k == key:
                return t
        return None


def write_json(path, obj):
    os.makedirs(os.path.dirname(path), exist_ok=True)
    tmp = path + ".tmp"
    with open(tmp, "w") as f:
        json.dump(obj, f, indent=1, sort_keys=False)
        f.write("\n")
    os.replace(tmp, path)
