"""K-track: Kani on the real crate, harness modules mounted add-only on a scratch copy of /repo."""
import json
import os
import re
import shutil
import subprocess
import threading
import time

from common import (CACHE_ROOT, REPO, VERIF, copy_repo, log, new_scratch, offline_env, rm_scratch,
                    sha)

KANI_DIR = os.path.join(VERIF, "kani")
# --no-assertion-reach-checks: the per-assertion reachability pass dominated run time (measured 670 s -> 116 s on a
# C12 harness, same checks); vacuity is guarded by the kani::cover! statements every harness carries instead.
KANI_FLAGS = ["-Z", "function-contracts", "-Z", "stubbing", "-Z", "unstable-options", "--no-assertion-reach-checks"]
RSS_LIMIT_KB = int(os.environ.get("VERIF_RSS_LIMIT_GB", "24")) * 1024 * 1024


class Harness:
    def __init__(self, module, name):
        self.module = module
        self.name = name
        self.cls = "B"
        self.tier = "quick"
        self.bound = ""
        self.clause = ""
        self.props = []
        self.timeout = 900
        self.kind = "proof"  # proof | contract
        self.expect_stubs = 0

    @property
    def full(self):
        return "%s::%s" % (self.module.modname, self.name)


class Module:
    def __init__(self, path):
        self.path = path
        self.file = os.path.basename(path)
        self.modname = "verif_" + os.path.splitext(self.file)[0]
        self.property = None
        self.mount = None
        self.harnesses = []
        self.contracts = []  # dicts: file, impl, fn, attrs[list of str]
        self.functions = []  # (file, fn) under contract, informational
        self._parse()

    def _parse(self):
        cur = None
        curc = None
        for line in open(self.path):
            s = line.strip()
            if not s.startswith("//@"):
                curc = None if not s.startswith("//") else curc
                continue
            body = s[3:].strip()
            if s.startswith("//@+"):
                if curc is not None:
                    curc["attrs"].append(s[4:].strip())
                continue
            key, _, val = body.partition(":")
            key, val = key.strip(), val.strip()
            if key == "property":
                self.property = val.split()
            elif key == "mount":
                self.mount = val
            elif key == "functions":
                self.functions += [v.strip() for v in val.split(",") if v.strip()]
            elif key == "contract":
                kv = dict(re.findall(r'(\w+)=("[^"]*"|\S+)', val))
                curc = {k: v.strip('"') for k, v in kv.items()}
                curc["attrs"] = []
                self.contracts.append(curc)
            elif key == "harness":
                parts = val.split()
                cur = Harness(self, parts[0])
                kv = dict(re.findall(r'(\w+)=("[^"]*"|\S+)', val))
                kv = {k: v.strip('"') for k, v in kv.items()}
                cur.cls = kv.get("class", "B")
                cur.tier = kv.get("tier", "quick")
                cur.bound = kv.get("bound", "")
                cur.timeout = int(kv.get("timeout", "900"))
                cur.kind = kv.get("kind", "proof")
                cur.props = kv.get("props", "").split(",") if kv.get("props") else list(self.property or [])
                self.harnesses.append(cur)
            elif key == "clause" and cur is not None:
                cur.clause = (cur.clause + " " + val).strip()


def enabled(dirpath):
    """Only files listed in <dir>/ENABLED are part of the registered checks (work in progress stays out)."""
    p = os.path.join(dirpath, "ENABLED")
    if not os.path.exists(p):
        return None
    return set(l.strip() for l in open(p) if l.strip() and not l.startswith("#"))


def load_modules(prop):
    mods = []
    en = enabled(KANI_DIR)
    for f in sorted(os.listdir(KANI_DIR)):
        if not f.endswith(".rs"):
            continue
        if en is not None and f not in en and not os.environ.get("VERIF_ALL_MODULES"):
            continue
        m = Module(os.path.join(KANI_DIR, f))
        if m.property and any(prop in h.props for h in m.harnesses):
            mods.append(m)
    return mods


# ------------------------------------------------------------------ overlay

def _find_fn_line(lines, impl_hdr, fn_name):
    """Locate the line index of `fn <name>` inside the item whose header starts with impl_hdr
    (or anywhere at top level if impl_hdr is empty). Returns index of first line of the fn item
    (i.e. the line where attributes should be inserted *above*: the `fn`/`pub fn` line)."""
    start = 0
    end = len(lines)
    if impl_hdr:
        norm = lambda s: re.sub(r"\s+", " ", s.strip())
        found = None
        for i, l in enumerate(lines):
            if norm(l).startswith(norm(impl_hdr)):
                found = i
                break
        if found is None:
            return None
        # find the end of the impl block by brace matching (naive but adequate: skip strings/comments roughly)
        depth = 0
        seen = False
        for j in range(found, len(lines)):
            code = re.sub(r"//.*", "", lines[j])
            code = re.sub(r'"(\\.|[^"\\])*"', '""', code)
            code = re.sub(r"'(\\.|[^'\\])'", "' '", code)
            depth += code.count("{") - code.count("}")
            if "{" in code:
                seen = True
            if seen and depth == 0:
                end = j + 1
                break
        start = found
    pat = re.compile(r"^\s*(pub(\([a-z]+\))?\s+)?(const\s+)?(unsafe\s+)?fn\s+%s\b" % re.escape(fn_name))
    for i in range(start, end):
        if pat.match(lines[i]):
            return i
    return None


class LostAnchor(Exception):
    pass


def prepare_scratch(tag, modules):
    """rsync the working tree, seed the build cache, mount harness modules, insert contracts."""
    root = new_scratch(tag)
    repo = os.path.join(root, "repo")
    copy_repo(repo)
    os.makedirs(os.path.join(repo, ".cargo"), exist_ok=True)
    with open(os.path.join(repo, ".cargo", "config.toml"), "w") as f:
        f.write("[net]\noffline = true\n")
    cache = os.path.join(CACHE_ROOT, "kani-target")
    if os.path.isdir(cache):
        subprocess.call(["cp", "-a", cache, os.path.join(repo, "target")])
    kdst = os.path.join(repo, "verif_kani")
    shutil.copytree(KANI_DIR, kdst)
    inserted = []
    by_file = {}
    for m in modules:
        if not m.mount:
            raise LostAnchor("module %s has no mount" % m.file)
        by_file.setdefault(m.mount, []).append(m)
    # contracts first (line-insertions), then mounts (appends)
    for m in modules:
        for c in m.contracts:
            p = os.path.join(repo, c["file"])
            if not os.path.exists(p):
                raise LostAnchor("contract anchor file missing: %s" % c["file"])
            lines = open(p).read().split("\n")
            idx = _find_fn_line(lines, c.get("impl", ""), c["fn"])
            if idx is None:
                raise LostAnchor("contract anchor lost: %s %s fn %s" % (c["file"], c.get("impl", ""), c["fn"]))
            # attributes go above any existing attributes/doc comments directly attached? Put just above fn line.
            indent = re.match(r"\s*", lines[idx]).group(0)
            new = [indent + a for a in c["attrs"]]
            lines[idx:idx] = new
            open(p, "w").write("\n".join(lines))
            inserted.append((c["file"], c["fn"], len(new)))
    for mount, ms in by_file.items():
        p = os.path.join(repo, mount)
        if not os.path.exists(p):
            raise LostAnchor("mount file missing: %s" % mount)
        with open(p, "a") as f:
            f.write("\n")
            for m in ms:
                f.write('#[cfg(kani)] #[path = "%s"] mod %s;\n' % (os.path.join(kdst, m.file), m.modname))
    # add-only guarantee: every pre-existing line of every tracked source file is still present, in order
    _check_add_only(repo)
    return root, repo, inserted


def _check_add_only(repo):
    for dirpath, _, files in os.walk(os.path.join(REPO, "src")):
        for fn in files:
            if not fn.endswith(".rs"):
                continue
            a = os.path.join(dirpath, fn)
            b = os.path.join(repo, os.path.relpath(a, REPO))
            la = open(a).read().split("\n")
            lb = open(b).read().split("\n")
            if la == lb:
                continue
            # la must be a subsequence of lb and every extra line must be cfg(kani)-guarded or blank
            i = 0
            for l in lb:
                if i < len(la) and l == la[i]:
                    i += 1
                else:
                    t = l.strip()
                    if t and "kani" not in t:
                        raise RuntimeError("overlay is not add-only/guarded in %s: %r" % (b, l))
            # trailing "" from split may remain
            if i < len(la) and any(x.strip() for x in la[i:]):
                raise RuntimeError("overlay changed existing lines in %s" % b)


def build_cache():
    """Build dependency artifacts once (setup_cmd); later runs seed their target dir from this."""
    cache = os.path.join(CACHE_ROOT, "kani-target")
    if os.path.isdir(cache):
        return cache
    root = new_scratch("cache")
    try:
        repo = os.path.join(root, "repo")
        copy_repo(repo)
        os.makedirs(os.path.join(repo, ".cargo"), exist_ok=True)
        with open(os.path.join(repo, ".cargo", "config.toml"), "w") as f:
            f.write("[net]\noffline = true\n")
        r = subprocess.run(["cargo", "kani", "--only-codegen"] + KANI_FLAGS, cwd=repo, env=offline_env(),
                           stdout=subprocess.PIPE, stderr=subprocess.STDOUT, text=True)
        if r.returncode != 0:
            log(r.stdout[-3000:])
            raise RuntimeError("kani cache build failed")
        os.makedirs(CACHE_ROOT, exist_ok=True)
        tmp = cache + ".tmp%d" % os.getpid()
        shutil.rmtree(tmp, ignore_errors=True)
        shutil.move(os.path.join(repo, "target"), tmp)
        try:
            os.rename(tmp, cache)
        except OSError:
            shutil.rmtree(tmp, ignore_errors=True)
    finally:
        rm_scratch(root)
    return cache


# ------------------------------------------------------------------ running

class Watchdog(threading.Thread):
    """Kills cbmc processes of this run that exceed the RSS limit (reported as undecided, never as violation)."""

    def __init__(self, needle):
        super().__init__(daemon=True)
        self.needle = needle
        self.stop = False
        self.killed = []

    def run(self):
        while not self.stop:
            try:
                out = subprocess.run(["ps", "-eo", "pid,rss,args"], stdout=subprocess.PIPE, text=True).stdout
                for line in out.split("\n")[1:]:
                    parts = line.split(None, 2)
                    if len(parts) < 3:
                        continue
                    pid, rss, args = parts
                    if args.startswith("cbmc ") and self.needle in args and int(rss) > RSS_LIMIT_KB:
                        m = re.search(r"(verif_\w+?)\d*(\w+)\.out", args)
                        self.killed.append(args[-120:])
                        subprocess.call(["kill", "-9", pid])
            except Exception:
                pass
            time.sleep(3)


def run_kani(repo, harnesses, jobs=16, extra=None):
    """Run the given harnesses in one cargo-kani invocation. Returns (results by full name, raw stdout, cmd)."""
    out_json = os.path.join(os.path.dirname(repo), "kani_out.json")
    if os.path.exists(out_json):
        os.remove(out_json)
    tmo = max(h.timeout for h in harnesses)
    cmd = ["cargo", "kani"] + KANI_FLAGS + ["--export-json", out_json, "--harness-timeout", "%ds" % tmo,
                                             "-j", str(jobs), "--output-format", "terse", "--exact"]
    for h in harnesses:
        cmd += ["--harness", h.mangled_path]
    if extra:
        cmd += extra
    wd = Watchdog(os.path.dirname(repo))
    wd.start()
    t0 = time.time()
    r = subprocess.run(cmd, cwd=repo, env=offline_env(), stdout=subprocess.PIPE, stderr=subprocess.STDOUT, text=True)
    wd.stop = True
    wall = time.time() - t0
    data = None
    if os.path.exists(out_json):
        try:
            data = json.load(open(out_json))
        except Exception:
            data = None
    return r.returncode, r.stdout, data, wall, wd.killed, " ".join(cmd)


def mount_path_of(module):
    """Rust module path of a mount file: src/pset/map/input.rs -> pset::map::input ; src/lib.rs -> '' """
    p = module.mount
    assert p.startswith("src/")
    p = p[4:-3]
    parts = p.split("/")
    if parts[-1] in ("mod", "lib"):
        parts = parts[:-1]
    return "::".join(parts)


def assign_paths(modules):
    for m in modules:
        mp = mount_path_of(m)
        for h in m.harnesses:
            h.mangled_path = "::".join([x for x in [mp, m.modname, h.name] if x])


def classify(data, stdout, harnesses, killed):
    """Per harness: dict(status, checks, failed[], unsat_covers[], time_s, note)."""
    res = {}
    by_id = {}
    if data:
        for r in data.get("verification_results", {}).get("results", []):
            by_id[r["harness_id"]] = r
    pd = {}
    if data:
        for p in data.get("property_details", []):
            pd[p["harness_id"]] = p["property_details"]
    for h in harnesses:
        r = by_id.get(h.mangled_path)
        if r is None:
            res[h.full] = dict(status="missing", checks=0, failed=[], unsat_covers=[], time_s=0.0,
                               note="no result (build error, timeout or crash)")
            continue
        checks = r.get("checks", [])
        failed, unsat, unsupported, unwind = [], [], [], []
        for c in checks:
            st = c.get("status", "")
            desc = c.get("description", "")
            loc = c.get("location", {}) or {}
            item = dict(function=c.get("function", ""), description=desc,
                        file=loc.get("file", ""), line=loc.get("line", ""), category=c.get("category", ""))
            if c.get("category") == "cover":
                if st != "Satisfied":
                    unsat.append(item)
                continue
            if st == "Failure":
                if c.get("category") == "unwind" or "unwinding assertion" in desc:
                    unwind.append(item)
                elif c.get("category") == "unsupported_construct" or "is not currently supported by Kani" in desc \
                        or "unsupported" in c.get("category", ""):
                    unsupported.append(item)
                else:
                    failed.append(item)
        n = len([c for c in checks if c.get("category") != "cover"])
        status = r.get("status", "")
        note = ""
        if unwind:
            st2 = "undecided"
            note = "unwinding assertion failed (bound too small for this tree)"
        elif unsupported and not failed:
            st2 = "undecided"
            note = "unsupported construct reachable: " + unsupported[0]["description"][:120]
        elif failed:
            st2 = "failed"
        elif status == "Success":
            st2 = "success"
        else:
            st2 = "undecided"
            note = "kani status %s" % status
        if st2 == "success" and unsat:
            st2 = "vacuous"
            note = "unsatisfiable cover: " + unsat[0]["description"]
        res[h.full] = dict(status=st2, checks=n, failed=failed, unsat_covers=unsat,
                           time_s=r.get("duration_ms", 0) / 1000.0, note=note,
                           covers=len([c for c in checks if c.get("category") == "cover"]))
    return res


def stubs_applied(stdout):
    return sorted(set(re.findall(r"- Stub: (.*)", stdout)))


def verified_stubs(stdout):
    return sorted(set(re.findall(r"- Verified stub: (.*)", stdout)))
