"""Property-level orchestration: run K-track and V-track units, decide, write evidence."""
import json
import os
import re
import subprocess
import time

import common
import kani_run
import verus_run
from common import EXIT_OK, EXIT_UNDECIDED, EXIT_VIOLATION, log

NOT_COVERED_FILE = os.path.join(common.VERIF, "coverage_notes.json")


def setup():
    kani_run.build_cache()
    verus_run.warmup()
    print("setup ok")
    return 0


def slug(s):
    return re.sub(r"[^a-z0-9]+", "_", s.lower()).strip("_")[:80]


def finding_key(unit, item):
    return "%s#%s" % (unit, slug(item.get("description", "")))


# ---------------------------------------------------------------- kani playback

def kani_playback(repo, module, harness, timeout=900):
    """Ask Kani for the concrete counterexample and execute it against the real code (no stubs, native build)."""
    cmd = ["cargo", "kani"] + ["-Z", "function-contracts", "-Z", "stubbing", "-Z", "concrete-playback",
                                "--concrete-playback=print", "--exact", "--harness", harness.mangled_path,
                                "--output-format", "terse"]
    try:
        r = subprocess.run(cmd, cwd=repo, env=common.offline_env(), stdout=subprocess.PIPE,
                           stderr=subprocess.STDOUT, text=True, timeout=timeout + 300)
    except subprocess.TimeoutExpired:
        return dict(tests=[], ran=False, confirmed=False, output="playback generation timed out")
    tests = re.findall(r"```\n(.*?)```", r.stdout, re.S)
    tests = [t for t in tests if "Check for `cover`" not in t] or tests
    if not tests:
        return dict(tests=[], ran=False, confirmed=False, output=r.stdout[-4000:])
    names = []
    path = os.path.join(repo, "verif_kani", module.file)
    with open(path, "a") as f:
        for t in tests:
            f.write("\n" + t + "\n")
            m = re.search(r"fn (kani_concrete_playback_\w+)", t)
            if m:
                names.append(m.group(1))
    try:
        p = subprocess.run(["cargo", "kani", "playback", "-Z", "concrete-playback", "--", "kani_concrete_playback"],
                           cwd=repo, env=common.offline_env(), stdout=subprocess.PIPE, stderr=subprocess.STDOUT,
                           text=True, timeout=1200)
        out = p.stdout
    except subprocess.TimeoutExpired:
        return dict(tests=tests, ran=False, confirmed=False, output="playback run timed out")
    failed = re.findall(r"^\s+(\S*kani_concrete_playback_\w+)\s*$", out.split("failures:")[-1], re.M) \
        if "failures:" in out else []
    ran = "test result:" in out
    return dict(tests=tests, ran=ran, confirmed=bool(failed), failed_tests=failed, output=out[-6000:])


# ---------------------------------------------------------------- main

def run_property(prop, tier, keep=False, only=None, jobs=16, write_evidence=True):
    t0 = time.time()
    kf = common.KnownFindings()
    modules = kani_run.load_modules(prop)
    kani_run.assign_paths(modules)
    vunits = verus_run.load_units(prop)

    def want(h_tier, name):
        if only and only not in name:
            return False
        return h_tier == "quick" or tier == "thorough"

    harnesses = [h for m in modules for h in m.harnesses if prop in h.props and want(h.tier, h.full)]
    vunits = [u for u in vunits if want(u.tier, u.name)]
    if not harnesses and not vunits:
        log("no units for %s" % prop)
        return EXIT_UNDECIDED

    violations, known, undecided = [], [], []
    units_report = []
    trusted = set()
    functions = set()
    cmds = []
    solver_time = 0.0

    # ---------------- V-track
    for u in vunits:
        res = verus_run.run_unit(u)
        units_report.append(res)
        cmds.append(res.get("cmd", ""))
        solver_time += res.get("time_s", 0.0)
        trusted.update(res.get("trusted", []))
        functions.update(res.get("functions", []))
        if res["status"] == "undecided":
            undecided.append("%s: %s" % (u.name, res.get("note", "")))
        elif res["status"] == "failed":
            for item in res["failed"]:
                key = finding_key(u.name, item)
                text = kf.lookup(prop, key)
                if text:
                    known.append((key, text))
                else:
                    violations.append(dict(unit=u.name, engine="verus", key=key, item=item, playback=None,
                                           output=res.get("raw", "")[-6000:], paired=u.paired))

    # ---------------- K-track
    if harnesses:
        used_mods = [m for m in modules if any(h in harnesses for h in m.harnesses)]
        root = None
        try:
            try:
                root, repo, inserted = kani_run.prepare_scratch(prop, used_mods)
            except kani_run.LostAnchor as e:
                undecided.append("lost anchor: %s" % e)
                repo = None
            if repo:
                rc, out, data, wall, killed, cmd = kani_run.run_kani(repo, harnesses, jobs=jobs)
                cmds.append(cmd)
                res = kani_run.classify(data, out, harnesses, killed)
                stubs = kani_run.stubs_applied(out)
                trusted.update("kani stub (assumed contract): " + s for s in stubs)
                functions.update("contract reused via stub_verified: " + s for s in kani_run.verified_stubs(out))
                if data is None:
                    # build failure: on a changed tree this is a lost anchor / type error, never a violation
                    tail = "\n".join(l for l in out.split("\n") if l.startswith("error") or "-->" in l)[:3000]
                    undecided.append("kani build/run failed (rc=%d): %s" % (rc, tail or out[-2000:]))
                for m in used_mods:
                    functions.update(m.functions)
                for h in harnesses:
                    r = res.get(h.full, dict(status="missing", checks=0, failed=[], time_s=0, note="no result"))
                    solver_time += r.get("time_s", 0.0)
                    rep = dict(unit=h.full, engine="kani-" + h.cls, status=r["status"], checks=r["checks"],
                               time_s=r.get("time_s", 0.0), bound=h.bound, clause=h.clause, note=r.get("note", ""))
                    units_report.append(rep)
                    if r["status"] in ("missing", "undecided", "vacuous"):
                        if data is not None:
                            undecided.append("%s: %s %s" % (h.full, r["status"], r.get("note", "")))
                    elif r["status"] == "failed":
                        fresh = []
                        for item in r["failed"]:
                            key = finding_key(h.full, item)
                            text = kf.lookup(prop, key)
                            if text:
                                known.append((key, text))
                            else:
                                fresh.append((key, item))
                        if fresh:
                            pb = kani_playback(repo, h.module, h, timeout=h.timeout)
                            for key, item in fresh:
                                violations.append(dict(unit=h.full, engine="kani-" + h.cls, key=key, item=item,
                                                       playback=pb, output=""))
        finally:
            if root and not keep:
                common.rm_scratch(root)
            elif root:
                log("scratch kept at", root)

    # ---------------- verdict
    wall = time.time() - t0
    for key, text in sorted(set(known)):
        print("KNOWN-FINDING: property=%s %s [%s]" % (prop, text, key))
    vlines = []
    # a Verus failure has no counterexample of its own: borrow the replay of its paired Kani harness when that one
    # failed too and its counterexample was confirmed on the real code
    for v in violations:
        if v["engine"] == "verus" and v.get("paired"):
            for w in violations:
                if w["engine"] != "verus" and v["paired"] in w["unit"] and (w.get("playback") or {}).get("confirmed"):
                    v["playback"] = dict(w["playback"], borrowed_from=w["unit"])
                    break
    for i, v in enumerate(violations):
        path = os.path.join(common.REPLAY_DIR, "%s-%s.json" % (prop, slug(v["key"])))
        pb = v.get("playback")
        confirmed = bool(pb and pb.get("confirmed"))
        common.write_json(path, dict(
            property=prop, obligation=v["unit"], key=v["key"], engine=v["engine"],
            failed_check={k: (re.sub(r"^/var/tmp/verif-scratch/[^/]+/repo/", "", x) if isinstance(x, str) else x)
                          for k, x in v["item"].items()},
            replayed_on_real_code=confirmed,
            counterexample_from=(pb or {}).get("borrowed_from", v["unit"] if pb else None),
            concrete_playback_tests=(pb or {}).get("tests", []),
            playback_output=(pb or {}).get("output", ""),
            verifier_output=v.get("output", ""),
            how_to_replay="./check %s --replay %s" % (prop, path)))
        line = "VIOLATION property=%s replay=%s" % (prop, path)
        if not confirmed:
            line += " no-failing-input-found"
        vlines.append(line)
    for l in sorted(set(vlines)):
        print(l)
    for u in undecided:
        print("UNDECIDED property=%s %s" % (prop, u))

    if write_evidence:
        write_evidence_file(prop, tier, units_report, trusted, functions, cmds, solver_time, wall,
                            len(violations), known, undecided)
    if violations:
        code = EXIT_VIOLATION
    elif undecided:
        code = EXIT_UNDECIDED
    else:
        code = EXIT_OK
    nproof = sum(1 for u in units_report if u["status"] == "success")
    if os.environ.get("VERIF_VERBOSE", "1") != "0":
        for u in units_report:
            print("UNIT %-60s %-9s %-9s checks=%-6s t=%6.1fs %s" % (u["unit"], u["engine"], u["status"], u.get("checks", 0),
                                                                  u.get("time_s", 0.0), (u.get("note") or "")[:100]))
    print("RESULT property=%s tier=%s units=%d ok=%d violations=%d known=%d undecided=%d wall=%.0fs exit=%d"
          % (prop, tier, len(units_report), nproof, len(violations), len(set(known)), len(undecided), wall, code))
    return code


def write_evidence_file(prop, tier, units, trusted, functions, cmds, solver_time, wall, nviol, known, undecided):
    proved = [u for u in units if u["engine"] in ("verus", "kani-F", "kani-C")]
    bounded = [u for u in units if u["engine"] == "kani-B"]
    obligations = sum(u.get("checks", 0) for u in proved)
    discharged = sum(u.get("checks", 0) for u in proved if u["status"] == "success")
    notes = {}
    if os.path.exists(NOT_COVERED_FILE):
        notes = json.load(open(NOT_COVERED_FILE)).get(prop, {})
    samples = []
    for u in units:
        samples.append(dict(obligation=u["unit"], engine=u["engine"], status=u["status"],
                            checks=u.get("checks", 0), solver_time_s=round(u.get("time_s", 0.0), 2),
                            clause=u.get("clause", ""), bound=u.get("bound", "")))
    ev = dict(
        property_id=prop, tier=tier, seed=int(os.environ.get("VERIF_SEED", "0") or 0), level="proof",
        coverage=dict(
            obligations=obligations, discharged=discharged,
            checker_cmd=" ;; ".join(c for c in cmds if c),
            trusted_base=sorted(trusted) + notes.get("trusted_base", []),
            functions_under_contract=sorted(functions),
            samples=samples,
            bounded_checks=[dict(name=u["unit"], bound=u.get("bound", ""), cbmc_checks=u.get("checks", 0),
                                 time_s=round(u.get("time_s", 0.0), 2), status=u["status"]) for u in bounded],
            solver_time_s=round(solver_time, 2),
            not_covered=notes.get("not_covered", []),
            known_findings=[k for k, _ in sorted(set(known))],
            undecided=undecided,
            explanation=notes.get("explanation", ""),
        ),
        assumptions=notes.get("assumptions", []) + sorted(trusted),
        wall_s=round(wall, 1), violations=nviol)
    common.write_json(os.path.join(common.EVIDENCE_DIR, "%s.json" % prop), ev)


def replay(prop, path):
    d = json.load(open(path))
    print(json.dumps({k: d[k] for k in ("property", "obligation", "key", "failed_check", "replayed_on_real_code")},
                     indent=1))
    for t in d.get("concrete_playback_tests", []):
        print(t)
    unit = d["obligation"].split("::")[-1]
    return run_property(prop, "thorough", only=unit, write_evidence=False)
