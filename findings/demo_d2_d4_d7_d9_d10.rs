use elements::{confidential, Address, AddressParams, AssetId, OutPoint, Script, Sequence, Transaction, TxIn, TxOut, TxOutWitness, Txid, LockTime};
use elements::hashes::Hash;
use elements::pset::{PartiallySignedTransaction as Pset, Input, Output};
use elements::opcodes;
use elements::script::Builder;
use std::str::FromStr;

fn asset() -> AssetId { AssetId::from_byte_array([5u8; 32]) }
fn explicit_out(v: u64, spk: Script) -> TxOut {
    TxOut { asset: confidential::Asset::Explicit(asset()), value: confidential::Value::Explicit(v), nonce: confidential::Nonce::Null, script_pubkey: spk, witness: TxOutWitness::default() }
}
fn p2wpkh() -> Script { Builder::new().push_int(0).push_slice(&[9u8; 20]).into_script() }

#[test]
fn d7_from_script_rejects_short_v1_programs() {
    let s = Script::from(vec![0x51, 0x01, 0xab]);
    assert!(Address::from_script(&s, None, &AddressParams::ELEMENTS).is_none(), "OP_1 <1 byte> is not a witness program template");
    let s = Script::from(vec![0x51, 0x00]);
    assert!(Address::from_script(&s, None, &AddressParams::ELEMENTS).is_none(), "OP_1 OP_0 is not a witness program template");
}

fn base_pset() -> Pset {
    let mut p = Pset::new_v2();
    p.add_input(Input::from_prevout(OutPoint::new(Txid::from_byte_array([1u8; 32]), 0)));
    p.add_output(Output::from_txout(explicit_out(5, p2wpkh())));
    p
}

#[test]
fn d2_unique_id_ignores_final_script_sig() {
    let a = base_pset();
    let mut b = base_pset();
    b.inputs_mut()[0].final_script_sig = Some(Script::from(vec![0x51]));
    assert_eq!(a.unique_id().unwrap(), b.unique_id().unwrap());
}

#[test]
fn d10_merge_keeps_sequence_and_sighash_type() {
    let mut a = base_pset();
    let mut b = base_pset();
    b.inputs_mut()[0].sequence = Some(Sequence::from_consensus(7));
    b.inputs_mut()[0].sighash_type = Some(elements::EcdsaSighashType::All.into());
    a.merge(b).unwrap();
    assert_eq!(a.inputs()[0].sequence, Some(Sequence::from_consensus(7)));
    assert!(a.inputs()[0].sighash_type.is_some());
}

#[test]
fn d4_global_xpub_merge_conflicts_are_errors_not_panics() {
    use elements::bitcoin::bip32::{Xpub, Fingerprint, DerivationPath};
    let xpub = Xpub::from_str("xpub661MyMwAqRbcFtXgS5sYJABqqG9YLmC4Q1Rdap9gSE8NqtwybGhePY2gZ29ESFjqJoCu1Rupje8YtGqsefD265TMg7usUDFdp6W1EGMcet8").unwrap();
    // incoming path shorter and NOT a suffix of the existing one
    let mut a = base_pset();
    a.global.xpub.insert(xpub, (Fingerprint::from([1, 2, 3, 4]), DerivationPath::from_str("m/1/2/3").unwrap()));
    let mut b = base_pset();
    b.global.xpub.insert(xpub, (Fingerprint::from([1, 2, 3, 4]), DerivationPath::from_str("m/9").unwrap()));
    let r = std::panic::catch_unwind(move || a.merge(b).is_err());
    assert!(matches!(r, Ok(true)), "unrelated shorter path must be a MergeConflict, not a panic: {:?}", r);
    // equal path, different fingerprint
    let mut a = base_pset();
    a.global.xpub.insert(xpub, (Fingerprint::from([1, 2, 3, 4]), DerivationPath::from_str("m/1/2").unwrap()));
    let mut b = base_pset();
    b.global.xpub.insert(xpub, (Fingerprint::from([9, 9, 9, 9]), DerivationPath::from_str("m/1/2").unwrap()));
    assert!(a.merge(b).is_err(), "equal paths with different fingerprints must be a MergeConflict");
}

#[test]
fn d9_zero_value_output_on_unspendable_script_is_admissible() {
    let secp = elements::secp256k1_zkp::Secp256k1::new();
    let spent = explicit_out(1000, p2wpkh());
    let op_return = Builder::new().push_opcode(opcodes::all::OP_RETURN).into_script();
    let mk = |outs: Vec<TxOut>| Transaction { version: 2, lock_time: LockTime::ZERO,
        input: vec![TxIn { previous_output: OutPoint::new(Txid::from_byte_array([1u8; 32]), 0), ..Default::default() }], output: outs };
    let balanced = mk(vec![explicit_out(900, p2wpkh()), explicit_out(100, Script::new())]);
    balanced.verify_tx_amt_proofs(&secp, &[spent.clone()]).expect("balanced explicit tx verifies");
    let with_burn = mk(vec![explicit_out(900, p2wpkh()), explicit_out(0, op_return), explicit_out(100, Script::new())]);
    with_burn.verify_tx_amt_proofs(&secp, &[spent.clone()]).expect("zero-value output on a provably unspendable script is admissible");
    let with_spendable_zero = mk(vec![explicit_out(900, p2wpkh()), explicit_out(0, p2wpkh()), explicit_out(100, Script::new())]);
    assert!(with_spendable_zero.verify_tx_amt_proofs(&secp, &[spent]).is_err());
}
