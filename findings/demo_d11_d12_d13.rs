use elements::{confidential, AssetId, OutPoint, Script, Transaction, TxOut, TxOutWitness, Txid, LockTime};
use elements::hashes::Hash;
use elements::pset::{PartiallySignedTransaction as Pset, Input, Output};
use elements::script::Builder;

fn asset() -> AssetId { AssetId::from_byte_array([5u8; 32]) }
fn p2wpkh() -> Script { Builder::new().push_int(0).push_slice(&[9u8; 20]).into_script() }
fn explicit_out(v: u64) -> TxOut {
    TxOut { asset: confidential::Asset::Explicit(asset()), value: confidential::Value::Explicit(v), nonce: confidential::Nonce::Null, script_pubkey: p2wpkh(), witness: TxOutWitness::default() }
}
fn base_pset() -> Pset {
    let mut p = Pset::new_v2();
    p.add_input(Input::from_prevout(OutPoint::new(Txid::from_byte_array([1u8; 32]), 0)));
    p.add_output(Output::from_txout(explicit_out(5)));
    p
}

#[test]
fn d11_merge_utxo_fields_is_order_insensitive_and_lossless() {
    let prev = Transaction { version: 2, lock_time: LockTime::ZERO, input: vec![], output: vec![explicit_out(7)] };
    let mut a = base_pset(); a.inputs_mut()[0].non_witness_utxo = Some(prev.clone());
    let mut b = base_pset(); b.inputs_mut()[0].witness_utxo = Some(explicit_out(7));
    let mut ab = a.clone(); ab.merge(b.clone()).unwrap();
    let mut ba = b.clone(); ba.merge(a.clone()).unwrap();
    assert_eq!(ab, ba, "merge result depends on which operand is merged into which");
    assert!(ab.inputs()[0].non_witness_utxo.is_some() && ab.inputs()[0].witness_utxo.is_some(), "a field present in an operand was lost");
}

#[test]
fn d12_output_merge_keeps_explicit_amount_and_asset() {
    let secp = elements::secp256k1_zkp::Secp256k1::new();
    let gen = elements::secp256k1_zkp::Generator::new_unblinded(&secp, asset().into_tag());
    let comm = elements::secp256k1_zkp::PedersenCommitment::new_unblinded(&secp, 5, gen);
    let mut a = base_pset();
    { let o = &mut a.outputs_mut()[0]; o.amount = None; o.amount_comm = Some(comm); o.asset = None; o.asset_comm = Some(gen); }
    let mut b = a.clone();
    { let o = &mut b.outputs_mut()[0]; o.amount = Some(5); o.asset = Some(asset()); }
    assert_eq!(a.unique_id().unwrap(), b.unique_id().unwrap());
    a.merge(b).unwrap();
    assert_eq!(a.outputs()[0].amount, Some(5), "explicit amount present only in the second operand was dropped");
    assert_eq!(a.outputs()[0].asset, Some(asset()), "explicit asset present only in the second operand was dropped");
}

#[test]
fn d13_read_uint_is_total() {
    let data = [0xffu8; 16];
    for size in 0..=16usize {
        let r = std::panic::catch_unwind(|| elements::script::read_uint(&data, size).is_ok());
        assert!(r.is_ok(), "read_uint(.., {}) panicked", size);
    }
}
