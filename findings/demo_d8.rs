use elements::{confidential, AssetId, OutPoint, Script, Transaction, TxIn, TxOut, TxOutWitness, Txid, LockTime, BlockHash};
use elements::hashes::Hash;
use elements::script::Builder;
use elements::sighash::{Prevouts, SighashCache};
use elements::SchnorrSighashType;

fn spk() -> Script { Builder::new().push_int(1).push_slice(&[9u8; 32]).into_script() }
fn out(v: u64) -> TxOut {
    TxOut { asset: confidential::Asset::Explicit(AssetId::from_byte_array([5u8; 32])), value: confidential::Value::Explicit(v), nonce: confidential::Nonce::Null, script_pubkey: spk(), witness: TxOutWitness::default() }
}

#[test]
fn d8_anyonecanpay_types_need_only_the_spent_output_of_the_signed_input() {
    let tx = Transaction { version: 2, lock_time: LockTime::ZERO,
        input: vec![TxIn { previous_output: OutPoint::new(Txid::from_byte_array([1u8; 32]), 0), ..Default::default() },
                    TxIn { previous_output: OutPoint::new(Txid::from_byte_array([2u8; 32]), 1), ..Default::default() }],
        output: vec![out(10), out(20)] };
    let prevs = [out(100), out(200)];
    let genesis = BlockHash::from_byte_array([7u8; 32]);
    for ty in [SchnorrSighashType::AllPlusAnyoneCanPay, SchnorrSighashType::NonePlusAnyoneCanPay, SchnorrSighashType::SinglePlusAnyoneCanPay] {
        for idx in 0..2usize {
            let all = SighashCache::new(&tx).taproot_key_spend_signature_hash(idx, &Prevouts::All(&prevs), ty, genesis).unwrap();
            let one = SighashCache::new(&tx).taproot_key_spend_signature_hash(idx, &Prevouts::One(idx, &prevs[idx]), ty, genesis);
            assert_eq!(one.as_ref().ok(), Some(&all), "hash type {:?}, input {} err {:?}", ty, idx, one.as_ref().err());
        }
    }
    // a type that needs all prevouts is refused with One
    assert!(SighashCache::new(&tx).taproot_key_spend_signature_hash(0, &Prevouts::One(0, &prevs[0]), SchnorrSighashType::All, genesis).is_err());
}
