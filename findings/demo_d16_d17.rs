use elements::{confidential, AssetId, OutPoint, Script, Transaction, TxIn, TxOut, TxOutWitness, Txid, LockTime};
use elements::hashes::Hash;
use elements::script::Builder;
use elements::pset::PartiallySignedTransaction as Pset;
use elements::secp256k1_zkp::{PublicKey, Secp256k1, SecretKey};

fn out(nonce: confidential::Nonce) -> TxOut {
    let spk = Builder::new().push_int(1).push_slice(&[9u8; 32]).into_script();
    TxOut { asset: confidential::Asset::Explicit(AssetId::from_byte_array([5u8; 32])), value: confidential::Value::Explicit(10),
        nonce, script_pubkey: spk, witness: TxOutWitness::default() }
}

#[test]
fn d16_coinbase_input_roundtrips_through_pset() {
    // previous output index 0xffff_ffff carries no flags (Decodable for TxIn leaves is_pegin = false there)
    let tx = Transaction { version: 2, lock_time: LockTime::ZERO,
        input: vec![TxIn { previous_output: OutPoint::new(Txid::from_byte_array([0u8; 32]), 0xffff_ffff), ..Default::default() }],
        output: vec![out(confidential::Nonce::Null)] };
    assert!(!tx.input[0].is_pegin);
    let back = Pset::from_tx(tx.clone()).extract_tx().unwrap();
    assert_eq!(back.input[0].is_pegin, tx.input[0].is_pegin, "is_pegin changed by the PSET round trip");
    assert_eq!(back, tx);
}

#[test]
fn finding_unblinded_output_with_nonce_roundtrip() {
    let secp = Secp256k1::new();
    let pk = PublicKey::from_secret_key(&secp, &SecretKey::from_slice(&[7u8; 32]).unwrap());
    let tx = Transaction { version: 2, lock_time: LockTime::ZERO,
        input: vec![TxIn { previous_output: OutPoint::new(Txid::from_byte_array([1u8; 32]), 0), ..Default::default() }],
        output: vec![out(confidential::Nonce::Confidential(pk))] };
    let back = Pset::from_tx(tx.clone()).extract_tx().unwrap();
    assert_eq!(back.output[0].nonce, tx.output[0].nonce, "nonce of an unblinded output lost by the PSET round trip");
}
