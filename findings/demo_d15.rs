// D15 (C05): a zero-value explicit output on a provably unspendable script whose ASSET is blinded must still carry a
// valid surjection proof (Elements' VerifyAmounts skips such outputs only in the balance, not in the surjection pass).
// Fails on the tree with fix cd710f3 alone (the `continue` skipped the surjection check), passes after the follow-up fix.
use elements::{confidential, AssetId, OutPoint, Script, Transaction, TxIn, TxOut, TxOutWitness, Txid, LockTime};
use elements::hashes::Hash;
use elements::script::Builder;
use elements::opcodes;
use elements::secp256k1_zkp::{Generator, Secp256k1, Tag, Tweak};
use elements::VerificationError;

#[test]
fn d15_zero_value_output_with_blinded_asset_needs_its_surjection_proof() {
    let secp = Secp256k1::new();
    let asset = AssetId::from_byte_array([5u8; 32]);
    let spk = Builder::new().push_int(1).push_slice(&[9u8; 32]).into_script();
    let op_return = Builder::new().push_opcode(opcodes::all::OP_RETURN).into_script();
    let ex = |v: u64, s: &Script| TxOut { asset: confidential::Asset::Explicit(asset), value: confidential::Value::Explicit(v),
        nonce: confidential::Nonce::Null, script_pubkey: s.clone(), witness: TxOutWitness::default() };
    // some blinded generator (of an asset that is NOT among the inputs), no surjection proof attached
    let other = Generator::new_blinded(&secp, Tag::from([0x77u8; 32]), Tweak::from_slice(&[3u8; 32]).unwrap());
    let burn = TxOut { asset: confidential::Asset::Confidential(other), value: confidential::Value::Explicit(0),
        nonce: confidential::Nonce::Null, script_pubkey: op_return.clone(), witness: TxOutWitness::default() };
    let tx = Transaction { version: 2, lock_time: LockTime::ZERO,
        input: vec![TxIn { previous_output: OutPoint::new(Txid::from_byte_array([1u8; 32]), 0), ..Default::default() }],
        output: vec![ex(100, &spk), burn] };
    let spent = [ex(100, &spk)];
    // control: the same transaction with an explicit-asset burn output verifies
    let mut ok_tx = tx.clone();
    ok_tx.output[1] = ex(0, &op_return);
    assert!(ok_tx.verify_tx_amt_proofs(&secp, &spent).is_ok());
    match tx.verify_tx_amt_proofs(&secp, &spent) {
        Err(VerificationError::SurjectionProofMissing(1)) => {}
        other => panic!("expected SurjectionProofMissing(1), got {:?}", other),
    }
}
