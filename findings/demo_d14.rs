use elements::{confidential, AssetId, OutPoint, Script, TxOut, TxOutWitness, Txid};
use elements::hashes::Hash;
use elements::encode::{serialize, deserialize};
use elements::pset::{PartiallySignedTransaction as Pset, Input, Output};
use elements::script::Builder;

fn p2wpkh() -> Script { Builder::new().push_int(0).push_slice(&[9u8; 20]).into_script() }
fn base_pset() -> Pset {
    let mut p = Pset::new_v2();
    p.add_input(Input::from_prevout(OutPoint::new(Txid::from_byte_array([1u8; 32]), 0)));
    p.add_output(Output::from_txout(TxOut { asset: confidential::Asset::Explicit(AssetId::from_byte_array([5u8; 32])), value: confidential::Value::Explicit(5),
        nonce: confidential::Nonce::Null, script_pubkey: p2wpkh(), witness: TxOutWitness::default() }));
    p
}

#[test]
fn d14_duplicate_elements_tx_modifiable_key_is_rejected() {
    let mut p = base_pset();
    p.global.elements_tx_modifiable_flag = Some(1);
    let bytes = serialize(&p);
    assert!(deserialize::<Pset>(&bytes).is_ok());
    let pair: [u8; 10] = [0x07, 0xfc, 0x04, b'p', b's', b'e', b't', 0x01, 0x01, 0x01];
    let pos = bytes.windows(10).position(|w| w == pair).expect("pair present");
    let mut dup = bytes[..pos + 10].to_vec();
    dup.extend_from_slice(&pair);
    dup.extend_from_slice(&bytes[pos + 10..]);
    assert!(deserialize::<Pset>(&dup).is_err(), "a PSET with a duplicated global key was accepted");
}
